module verifharness

go 1.21.1

require (
	github.com/anishathalye/porcupine v1.3.0
	github.com/safing/portbase v0.0.0
)

replace github.com/safing/portbase => /repo
