package vlib

import (
	"crypto/sha1"
	"encoding/hex"
	"encoding/json"
	"fmt"
	"os"
	"path/filepath"
	"regexp"
	"sort"
	"sync"
)

// Violation is one observed contradiction of the property.
type Violation struct {
	Sig    string `json:"sig"`    // stable signature (what kind of failure, where) matched by known_findings.json
	What   string `json:"what"`   // human explanation
	Replay string `json:"replay"` // file holding the witness
	Count  int    `json:"count"`  // how many cases produced this signature
}

// Report accumulates what a run observed and is written as result.json for the driver.
// All methods are safe for concurrent use.
type Report struct {
	cfg Cfg
	mu  sync.Mutex

	evaluations int
	distinct    map[string]struct{}
	rule        string
	samples     []any
	maxSamples  int
	coverage    map[string]any
	counters    map[string]int64
	sets        map[string]map[string]struct{}
	violations  map[string]*Violation
	vorder      []string
	inconcl     []string
	floors      []string
	notes       []string
	assumptions []string
}

// NewReport starts a report.
func NewReport(cfg Cfg) *Report {
	return &Report{
		cfg:        cfg,
		distinct:   map[string]struct{}{},
		coverage:   map[string]any{},
		counters:   map[string]int64{},
		sets:       map[string]map[string]struct{}{},
		violations: map[string]*Violation{},
		maxSamples: 6,
	}
}

// Rule states how cases are generated and what makes one non-trivial / distinct.
func (r *Report) Rule(s string) { r.mu.Lock(); r.rule = s; r.mu.Unlock() }

// Eval counts n executed cases.
func (r *Report) Eval(n int) { r.mu.Lock(); r.evaluations += n; r.mu.Unlock() }

// Distinct records the signature of a non-trivial case.
func (r *Report) Distinct(sig string) {
	r.mu.Lock()
	if len(sig) > 40 {
		h := sha1.Sum([]byte(sig))
		sig = hex.EncodeToString(h[:12])
	}
	r.distinct[sig] = struct{}{}
	r.mu.Unlock()
}

// Sample keeps one of the explored cases (only the first few are kept).
func (r *Report) Sample(x any) {
	r.mu.Lock()
	if len(r.samples) < r.maxSamples {
		r.samples = append(r.samples, x)
	}
	r.mu.Unlock()
}

// Count adds to a named coverage counter.
func (r *Report) Count(key string, n int64) { r.mu.Lock(); r.counters[key] += n; r.mu.Unlock() }

// Max raises a named coverage counter to at least n.
func (r *Report) Max(key string, n int64) {
	r.mu.Lock()
	if r.counters[key] < n {
		r.counters[key] = n
	}
	r.mu.Unlock()
}

// Seen adds a member to a named coverage set (reported as its size and, if small, its members).
func (r *Report) Seen(set, member string) {
	r.mu.Lock()
	m := r.sets[set]
	if m == nil {
		m = map[string]struct{}{}
		r.sets[set] = m
	}
	m[member] = struct{}{}
	r.mu.Unlock()
}

// SeenCount returns the size of a coverage set.
func (r *Report) SeenCount(set string) int { r.mu.Lock(); defer r.mu.Unlock(); return len(r.sets[set]) }

// Counter returns a coverage counter.
func (r *Report) Counter(key string) int64 { r.mu.Lock(); defer r.mu.Unlock(); return r.counters[key] }

// Set stores an arbitrary coverage key.
func (r *Report) Set(key string, v any) { r.mu.Lock(); r.coverage[key] = v; r.mu.Unlock() }

// Note records a diagnostic that is not an alarm.
func (r *Report) Note(format string, a ...any) {
	r.mu.Lock()
	if len(r.notes) < 50 {
		r.notes = append(r.notes, fmt.Sprintf(format, a...))
	}
	r.mu.Unlock()
}

// Assume records an assumption of the check.
func (r *Report) Assume(s string) { r.mu.Lock(); r.assumptions = append(r.assumptions, s); r.mu.Unlock() }

// Inconclusive records a case whose verdict is neither held nor violated.
func (r *Report) Inconclusive(format string, a ...any) {
	r.mu.Lock()
	r.inconcl = append(r.inconcl, fmt.Sprintf(format, a...))
	r.mu.Unlock()
}

// FloorMissed records that the run did not observe enough to say "held".
func (r *Report) FloorMissed(format string, a ...any) {
	r.mu.Lock()
	r.floors = append(r.floors, fmt.Sprintf(format, a...))
	r.mu.Unlock()
}

// Floor checks a minimum-observation condition.
func (r *Report) Floor(ok bool, format string, a ...any) {
	if !ok {
		r.FloorMissed(format, a...)
	}
}

var unsafeName = regexp.MustCompile(`[^A-Za-z0-9._-]+`)

// Violation records a witness. sig must be stable across runs for the same defect
// (operation + failure kind + precondition class), because known_findings.json
// matches on it. detail is stored in the replay file.
func (r *Report) Violation(sig, what string, detail any) {
	r.mu.Lock()
	defer r.mu.Unlock()
	if v, ok := r.violations[sig]; ok {
		v.Count++
		return
	}
	name := unsafeName.ReplaceAllString(sig, "_")
	if len(name) > 100 {
		h := sha1.Sum([]byte(sig))
		name = name[:80] + "-" + hex.EncodeToString(h[:6])
	}
	_ = os.MkdirAll(r.cfg.ReplayDir, 0o755)
	path := filepath.Join(r.cfg.ReplayDir, name+".json")
	doc := map[string]any{
		"property": r.cfg.Prop, "sig": sig, "what": what, "tier": r.cfg.Tier,
		"seed": r.cfg.Seed, "detail": detail,
	}
	b, err := json.MarshalIndent(doc, "", " ")
	if err != nil {
		b, _ = json.MarshalIndent(map[string]any{"property": r.cfg.Prop, "sig": sig, "what": what,
			"detail": fmt.Sprintf("%+v", detail)}, "", " ")
	}
	_ = os.WriteFile(path, b, 0o644)
	r.violations[sig] = &Violation{Sig: sig, What: what, Replay: path, Count: 1}
	r.vorder = append(r.vorder, sig)
}

// NViolations returns the number of distinct violation signatures so far.
func (r *Report) NViolations() int { r.mu.Lock(); defer r.mu.Unlock(); return len(r.violations) }

// Finish writes result.json into the run's scratch directory.
func (r *Report) Finish() error {
	r.mu.Lock()
	defer r.mu.Unlock()
	cov := map[string]any{}
	for k, v := range r.coverage {
		cov[k] = v
	}
	for k, v := range r.counters {
		cov[k] = v
	}
	for k, m := range r.sets {
		cov[k+"_count"] = len(m)
		if len(m) <= 64 {
			var ms []string
			for s := range m {
				ms = append(ms, s)
			}
			sort.Strings(ms)
			cov[k] = ms
		}
	}
	var vs []*Violation
	for _, s := range r.vorder {
		vs = append(vs, r.violations[s])
	}
	out := map[string]any{
		"property":            r.cfg.Prop,
		"evaluations":         r.evaluations,
		"distinct_nontrivial": len(r.distinct),
		"rule":                r.rule,
		"samples":             r.samples,
		"coverage":            cov,
		"violations":          vs,
		"inconclusive":        r.inconcl,
		"floors_missed":       r.floors,
		"notes":               r.notes,
		"assumptions":         r.assumptions,
	}
	b, err := json.MarshalIndent(out, "", " ")
	if err != nil {
		return err
	}
	return os.WriteFile(filepath.Join(r.cfg.OutDir, "result.json"), b, 0o644)
}
