// Package vlib is the shared runtime of the verification engines: configuration
// from the environment, deterministic PRNG streams, the event log / sequence clock,
// the result file the driver reads, and the child-process pool.
package vlib

import (
	"os"
	"runtime"
	"strconv"
)

// Cfg is what the driver (/verif/vcheck) hands to an engine through the environment.
type Cfg struct {
	Prop     string // property id, e.g. C10
	Tier     string // quick | thorough
	Seed     uint64 // VERIF_SEED
	OutDir   string // scratch dir of this run (removed by the driver afterwards)
	BinPlain string // path of this engine's plain build
	BinRace  string // path of this engine's -race build ("" if none)
	BinCptr  string // path of the -d=checkptr build ("" if none)
	BinAsan  string // path of the -asan build ("" if none)
	Replay   string // path of a replay file ("" = normal run)
	ReplayDir string // where witnesses are stored (/verif/replays/<prop>)
	Par      int    // parallel children
	Verif    string // /verif
	Repo     string // repo root the engine was built against
}

// Load reads the configuration.
func Load() Cfg {
	c := Cfg{
		Prop:      os.Getenv("VERIF_PROP"),
		Tier:      os.Getenv("VERIF_TIER"),
		OutDir:    os.Getenv("VERIF_OUT"),
		BinPlain:  os.Getenv("VERIF_BIN_PLAIN"),
		BinRace:   os.Getenv("VERIF_BIN_RACE"),
		BinCptr:   os.Getenv("VERIF_BIN_CHECKPTR"),
		BinAsan:   os.Getenv("VERIF_BIN_ASAN"),
		Replay:    os.Getenv("VERIF_REPLAY"),
		ReplayDir: os.Getenv("VERIF_REPLAY_DIR"),
		Verif:     os.Getenv("VERIF_ROOT"),
		Repo:      os.Getenv("VERIF_REPO"),
	}
	if c.Tier == "" {
		c.Tier = "quick"
	}
	c.Seed = 1
	if s := os.Getenv("VERIF_SEED"); s != "" {
		if v, err := strconv.ParseUint(s, 10, 64); err == nil {
			c.Seed = v
		} else if v, err := strconv.ParseInt(s, 10, 64); err == nil {
			c.Seed = uint64(v)
		}
	}
	c.Par = runtime.NumCPU()
	if s := os.Getenv("VERIF_PAR"); s != "" {
		if v, err := strconv.Atoi(s); err == nil && v > 0 {
			c.Par = v
		}
	}
	if c.OutDir == "" {
		c.OutDir, _ = os.MkdirTemp("", "verif-out-")
	}
	if c.ReplayDir == "" {
		c.ReplayDir = c.OutDir
	}
	return c
}

// Thorough reports whether the thorough tier was requested.
func (c Cfg) Thorough() bool { return c.Tier == "thorough" }

// N picks the quick or thorough bound.
func (c Cfg) N(quick, thorough int) int {
	if c.Thorough() {
		return thorough
	}
	return quick
}
