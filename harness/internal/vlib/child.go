package vlib

import (
	"bufio"
	"encoding/json"
	"fmt"
	"os"
	"os/exec"
	"path/filepath"
	"regexp"
	"sort"
	"strings"
	"sync"
	"syscall"
	"time"
)

// ChildSpec describes one child process (one fresh portbase world).
type ChildSpec struct {
	Name    string        // unique within the run (directory name)
	Bin     string        // binary to run (plain, race, ... build of the engine)
	Spec    any           // JSON-serialisable scenario, written to <dir>/spec.json
	Timeout time.Duration // wall-clock watchdog; firing = inconclusive (goroutine dump is kept)
	Env     []string      // extra environment
	Wrap    []string      // optional wrapper command prefix (e.g. strace ...); the binary is appended
	Race    bool          // set GORACE to log into <dir>/race.*
	Keep    bool          // keep dir after the run (default: kept only until Cleanup)
}

// ChildResult is what the parent observed of a child.
type ChildResult struct {
	Name     string
	Dir      string
	Exit     int    // exit code (-1 if signalled)
	Signal   string // signal name if the child was killed by a signal
	TimedOut bool
	Done     bool // child printed its completion marker
	Out      json.RawMessage
	Races    []RaceReport
	Wall     time.Duration
}

// StderrTail returns the last n bytes of the child's stderr.
func (c *ChildResult) StderrTail(n int) string { return tailFile(filepath.Join(c.Dir, "stderr"), n) }

// StdoutTail returns the last n bytes of the child's stdout.
func (c *ChildResult) StdoutTail(n int) string { return tailFile(filepath.Join(c.Dir, "stdout"), n) }

func tailFile(p string, n int) string {
	b, err := os.ReadFile(p)
	if err != nil {
		return ""
	}
	if len(b) > n {
		b = b[len(b)-n:]
	}
	return string(b)
}

// DoneMarker is printed by a child that ran to completion.
const DoneMarker = "VERIF-CHILD-DONE"

// RunChild runs one child synchronously.
func RunChild(cfg Cfg, cs ChildSpec) *ChildResult {
	dir := filepath.Join(cfg.OutDir, "child", cs.Name)
	_ = os.MkdirAll(dir, 0o755)
	res := &ChildResult{Name: cs.Name, Dir: dir, Exit: -1}
	if cs.Spec != nil {
		b, _ := json.Marshal(cs.Spec)
		_ = os.WriteFile(filepath.Join(dir, "spec.json"), b, 0o644)
	}
	argv := append([]string{}, cs.Wrap...)
	argv = append(argv, cs.Bin)
	cmd := exec.Command(argv[0], argv[1:]...)
	so, _ := os.Create(filepath.Join(dir, "stdout"))
	se, _ := os.Create(filepath.Join(dir, "stderr"))
	defer so.Close()
	defer se.Close()
	cmd.Stdout, cmd.Stderr = so, se
	cmd.Dir = dir
	tmp := filepath.Join(dir, "tmp")
	_ = os.MkdirAll(tmp, 0o755)
	env := os.Environ()
	env = append(env, "VERIF_CHILD="+dir, "TMPDIR="+tmp, "GOTRACEBACK=all")
	if cs.Race {
		env = append(env, "GORACE=halt_on_error=0 log_path="+filepath.Join(dir, "race"))
	}
	env = append(env, cs.Env...)
	cmd.Env = env
	cmd.SysProcAttr = &syscall.SysProcAttr{Setpgid: true}
	to := cs.Timeout
	if to == 0 {
		to = 2 * time.Minute
	}
	t0 := time.Now()
	if err := cmd.Start(); err != nil {
		res.Signal = "start-failed: " + err.Error()
		return res
	}
	done := make(chan error, 1)
	go func() { done <- cmd.Wait() }()
	var err error
	select {
	case err = <-done:
	case <-time.After(to):
		res.TimedOut = true
		_ = syscall.Kill(-cmd.Process.Pid, syscall.SIGQUIT)
		select {
		case err = <-done:
		case <-time.After(5 * time.Second):
			_ = syscall.Kill(-cmd.Process.Pid, syscall.SIGKILL)
			err = <-done
		}
	}
	// make sure nothing of the process group survives
	_ = syscall.Kill(-cmd.Process.Pid, syscall.SIGKILL)
	res.Wall = time.Since(t0)
	if err == nil {
		res.Exit = 0
	} else if ee, ok := err.(*exec.ExitError); ok {
		if ws, ok := ee.Sys().(syscall.WaitStatus); ok {
			if ws.Signaled() {
				res.Signal = ws.Signal().String()
			} else {
				res.Exit = ws.ExitStatus()
			}
		}
	}
	if b, e := os.ReadFile(filepath.Join(dir, "out.json")); e == nil {
		res.Out = b
	}
	if b, e := os.ReadFile(filepath.Join(dir, "stdout")); e == nil && strings.Contains(string(b), DoneMarker) {
		res.Done = true
	}
	if cs.Race {
		res.Races = ParseRaceLogs(dir)
	}
	return res
}

// RunChildren runs the specs with at most cfg.Par in parallel and calls handle for
// each result (serialised). Child directories are removed after handle returns unless
// Keep is set.
func RunChildren(cfg Cfg, specs []ChildSpec, handle func(i int, r *ChildResult)) {
	par := cfg.Par
	if par < 1 {
		par = 1
	}
	sem := make(chan struct{}, par)
	var wg sync.WaitGroup
	var hmu sync.Mutex
	for i := range specs {
		wg.Add(1)
		sem <- struct{}{}
		go func(i int) {
			defer wg.Done()
			defer func() { <-sem }()
			r := RunChild(cfg, specs[i])
			hmu.Lock()
			handle(i, r)
			hmu.Unlock()
			if !specs[i].Keep {
				_ = os.RemoveAll(r.Dir)
			}
		}(i)
	}
	wg.Wait()
}

// IsChild reports whether this process was started as a child and returns its directory.
func IsChild() (string, bool) {
	d := os.Getenv("VERIF_CHILD")
	return d, d != ""
}

// ChildSpecInto loads the child's scenario.
func ChildSpecInto(dir string, v any) error {
	b, err := os.ReadFile(filepath.Join(dir, "spec.json"))
	if err != nil {
		return err
	}
	return json.Unmarshal(b, v)
}

// ChildFinish writes the child's output and prints the completion marker.
func ChildFinish(dir string, out any) {
	b, err := json.Marshal(out)
	if err != nil {
		b, _ = json.Marshal(map[string]any{"marshal_error": err.Error()})
	}
	_ = os.WriteFile(filepath.Join(dir, "out.json"), b, 0o644)
	fmt.Println(DoneMarker)
}

// ---------------------------------------------------------------------------------
// race-detector reports

// RaceReport is one "WARNING: DATA RACE" block.
type RaceReport struct {
	Text   string     // the full block
	Stacks [][]string // function names per stack section, in report order (access 1, access 2, goroutine creations)
	Kinds  []string   // heading of each section ("Write at ...", "Previous read at ...", "Goroutine N ...")
}

var frameRe = regexp.MustCompile(`^  ([^\s].*)\(\)?$`)

// ParseRaceLogs reads every race.* file under dir.
func ParseRaceLogs(dir string) []RaceReport {
	files, _ := filepath.Glob(filepath.Join(dir, "race.*"))
	sort.Strings(files)
	var out []RaceReport
	for _, f := range files {
		fh, err := os.Open(f)
		if err != nil {
			continue
		}
		sc := bufio.NewScanner(fh)
		sc.Buffer(make([]byte, 1<<20), 1<<24)
		var cur *RaceReport
		var lines []string
		for sc.Scan() {
			ln := sc.Text()
			if strings.HasPrefix(ln, "WARNING: DATA RACE") {
				cur = &RaceReport{}
				lines = nil
			}
			if cur == nil {
				continue
			}
			lines = append(lines, ln)
			switch {
			case strings.HasPrefix(ln, "=================="):
				if len(lines) > 1 {
					cur.Text = strings.Join(lines, "\n")
					out = append(out, *cur)
				}
				cur = nil
			case strings.HasPrefix(ln, "  ") && !strings.HasPrefix(ln, "   "):
				// function line: "  pkg.Func()"
				fn := strings.TrimSpace(ln)
				if i := strings.LastIndex(fn, "("); i > 0 {
					fn = fn[:i]
				}
				if n := len(cur.Stacks); n > 0 {
					cur.Stacks[n-1] = append(cur.Stacks[n-1], fn)
				}
			case ln != "" && !strings.HasPrefix(ln, " ") && !strings.HasPrefix(ln, "WARNING"):
				cur.Kinds = append(cur.Kinds, ln)
				cur.Stacks = append(cur.Stacks, nil)
			}
		}
		fh.Close()
	}
	return out
}

// TopFrame returns the first frame of stack i whose function name contains substr
// ("" if none).
func (r *RaceReport) TopFrame(i int, substr string) string {
	if i >= len(r.Stacks) {
		return ""
	}
	for _, f := range r.Stacks[i] {
		if strings.Contains(f, substr) {
			return f
		}
	}
	return ""
}

// Signature is the de-duplication key: the top portbase frame of each of the two
// accesses (line numbers are not part of function names, so they are already stripped).
func (r *RaceReport) Signature() string {
	a := r.TopFrame(0, "safing/portbase")
	b := r.TopFrame(1, "safing/portbase")
	if a > b {
		a, b = b, a
	}
	return a + " <-> " + b
}

// InScope reports whether the top portbase frame of either access contains one of
// the given substrings (the property's protected-state functions).
func (r *RaceReport) InScope(fns ...string) bool {
	for i := 0; i < 2; i++ {
		top := r.TopFrame(i, "safing/portbase")
		for _, f := range fns {
			if top != "" && strings.Contains(top, f) {
				return true
			}
		}
	}
	return false
}

// HarnessOnly reports whether neither access stack touches portbase code at all
// (then the monitor itself is racy: a broken check, not a finding).
func (r *RaceReport) HarnessOnly() bool {
	return r.TopFrame(0, "safing/portbase") == "" && r.TopFrame(1, "safing/portbase") == ""
}
