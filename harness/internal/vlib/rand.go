package vlib

import (
	"hash/fnv"
	"math"
)

// Rand is a small deterministic PRNG (splitmix64-seeded xoshiro256**). Every case of
// every property gets its own stream derived from (VERIF_SEED, property, case number),
// so a case is regenerated from three integers.
type Rand struct{ s [4]uint64 }

func splitmix(x *uint64) uint64 {
	*x += 0x9e3779b97f4a7c15
	z := *x
	z = (z ^ (z >> 30)) * 0xbf58476d1ce4e5b9
	z = (z ^ (z >> 27)) * 0x94d049bb133111eb
	return z ^ (z >> 31)
}

// NewRand derives a stream from the seed, a label and a case number.
func NewRand(seed uint64, label string, n uint64) *Rand {
	h := fnv.New64a()
	h.Write([]byte(label))
	x := seed ^ (h.Sum64() * 0x9e3779b97f4a7c15) ^ (n * 0xd1342543de82ef95)
	r := &Rand{}
	for i := range r.s {
		r.s[i] = splitmix(&x)
	}
	return r
}

func rotl(x uint64, k uint) uint64 { return (x << k) | (x >> (64 - k)) }

// Uint64 returns the next 64 random bits.
func (r *Rand) Uint64() uint64 {
	res := rotl(r.s[1]*5, 7) * 9
	t := r.s[1] << 17
	r.s[2] ^= r.s[0]
	r.s[3] ^= r.s[1]
	r.s[1] ^= r.s[2]
	r.s[0] ^= r.s[3]
	r.s[2] ^= t
	r.s[3] = rotl(r.s[3], 45)
	return res
}

// Intn returns a value in [0,n). n<=0 returns 0.
func (r *Rand) Intn(n int) int {
	if n <= 0 {
		return 0
	}
	return int(r.Uint64() % uint64(n))
}

// Range returns a value in [lo,hi].
func (r *Rand) Range(lo, hi int) int {
	if hi <= lo {
		return lo
	}
	return lo + r.Intn(hi-lo+1)
}

// Bool returns a fair coin.
func (r *Rand) Bool() bool { return r.Uint64()&1 == 1 }

// Chance returns true with probability num/den.
func (r *Rand) Chance(num, den int) bool { return r.Intn(den) < num }

// Float returns a value in [0,1).
func (r *Rand) Float() float64 { return float64(r.Uint64()>>11) / float64(1<<53) }

// Bytes returns n random bytes.
func (r *Rand) Bytes(n int) []byte {
	b := make([]byte, n)
	for i := 0; i < n; i += 8 {
		v := r.Uint64()
		for j := 0; j < 8 && i+j < n; j++ {
			b[i+j] = byte(v >> (8 * uint(j)))
		}
	}
	return b
}

// Pick returns one of the arguments.
func Pick[T any](r *Rand, xs ...T) T { return xs[r.Intn(len(xs))] }

// Shuffle permutes xs in place.
func Shuffle[T any](r *Rand, xs []T) {
	for i := len(xs) - 1; i > 0; i-- {
		j := r.Intn(i + 1)
		xs[i], xs[j] = xs[j], xs[i]
	}
}

// Int64Boundary returns an int64 biased towards boundary values.
func (r *Rand) Int64Boundary() int64 {
	switch r.Intn(6) {
	case 0:
		return Pick(r, int64(0), 1, -1, math.MaxInt64, math.MinInt64, 1<<31, -(1 << 31), 1<<53, -(1 << 53), 1<<32, 127, 128, 255, 256)
	case 1:
		return int64(r.Intn(1000)) - 500
	case 2:
		sh := uint(r.Intn(63))
		v := int64(1) << sh
		return v + int64(r.Intn(3)) - 1
	default:
		return int64(r.Uint64())
	}
}

// Uint64Boundary returns a uint64 biased towards 7-bit group boundaries.
func (r *Rand) Uint64Boundary() uint64 {
	switch r.Intn(4) {
	case 0:
		sh := uint(r.Intn(10)) * 7
		if sh >= 64 {
			return math.MaxUint64 - uint64(r.Intn(3))
		}
		return (uint64(1) << sh) + uint64(r.Intn(5)) - 2
	case 1:
		sh := uint(r.Intn(64))
		return (uint64(1) << sh) + uint64(r.Intn(3)) - 1
	case 2:
		return uint64(r.Intn(70000))
	default:
		return r.Uint64() >> uint(r.Intn(64))
	}
}
