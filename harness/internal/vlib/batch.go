package vlib

import (
	"encoding/binary"
	"encoding/json"
	"fmt"
	"hash/fnv"
	"os"
	"path/filepath"
	"sync"
)

// Batch is the child-side collector: what one child process observed. It is written
// as the child's out.json (+ distinct.bin) and merged into the parent's Report.
type Batch struct {
	mu         sync.Mutex
	Evals      int                 `json:"evals"`
	Counters   map[string]int64    `json:"counters,omitempty"`
	Maxes      map[string]int64    `json:"maxes,omitempty"`
	SeenSets   map[string][]string `json:"seen,omitempty"`
	Violations []BatchViolation    `json:"violations,omitempty"`
	Samples    []any               `json:"samples,omitempty"`
	Inconcl    []string            `json:"inconclusive,omitempty"`
	Notes      []string            `json:"notes,omitempty"`
	Extra      map[string]any      `json:"extra,omitempty"`

	seen     map[string]map[string]struct{}
	distinct map[uint64]struct{}
	vsigs    map[string]int
}

// BatchViolation is a violation observed inside a child.
type BatchViolation struct {
	Sig    string `json:"sig"`
	What   string `json:"what"`
	Detail any    `json:"detail,omitempty"`
	Count  int    `json:"count"`
}

// NewBatch creates an empty collector.
func NewBatch() *Batch {
	return &Batch{Counters: map[string]int64{}, Maxes: map[string]int64{}, seen: map[string]map[string]struct{}{},
		distinct: map[uint64]struct{}{}, vsigs: map[string]int{}, Extra: map[string]any{}}
}

// Eval counts executed cases.
func (b *Batch) Eval(n int) { b.mu.Lock(); b.Evals += n; b.mu.Unlock() }

// Count adds to a counter.
func (b *Batch) Count(k string, n int64) { b.mu.Lock(); b.Counters[k] += n; b.mu.Unlock() }

// Max raises a maximum.
func (b *Batch) Max(k string, n int64) {
	b.mu.Lock()
	if b.Maxes[k] < n {
		b.Maxes[k] = n
	}
	b.mu.Unlock()
}

// Seen adds a member to a coverage set.
func (b *Batch) Seen(set, member string) {
	b.mu.Lock()
	m := b.seen[set]
	if m == nil {
		m = map[string]struct{}{}
		b.seen[set] = m
	}
	m[member] = struct{}{}
	b.mu.Unlock()
}

// Distinct records the identity of a non-trivial case (hashed).
func (b *Batch) Distinct(parts ...[]byte) {
	h := fnv.New64a()
	for _, p := range parts {
		var l [4]byte
		binary.LittleEndian.PutUint32(l[:], uint32(len(p)))
		h.Write(l[:])
		h.Write(p)
	}
	v := h.Sum64()
	b.mu.Lock()
	b.distinct[v] = struct{}{}
	b.mu.Unlock()
}

// DistinctS is Distinct for strings.
func (b *Batch) DistinctS(s string) { b.Distinct([]byte(s)) }

// Sample keeps one explored case (first few only).
func (b *Batch) Sample(x any) {
	b.mu.Lock()
	if len(b.Samples) < 6 {
		b.Samples = append(b.Samples, x)
	}
	b.mu.Unlock()
}

// Note records a diagnostic.
func (b *Batch) Note(format string, a ...any) {
	b.mu.Lock()
	if len(b.Notes) < 20 {
		b.Notes = append(b.Notes, fmt.Sprintf(format, a...))
	}
	b.mu.Unlock()
}

// Inconclusive records an undecided case.
func (b *Batch) Inconclusive(format string, a ...any) {
	b.mu.Lock()
	b.Inconcl = append(b.Inconcl, fmt.Sprintf(format, a...))
	b.mu.Unlock()
}

// Violation records a witness (first witness per signature is kept).
func (b *Batch) Violation(sig, what string, detail any) {
	b.mu.Lock()
	defer b.mu.Unlock()
	if i, ok := b.vsigs[sig]; ok {
		b.Violations[i].Count++
		return
	}
	b.vsigs[sig] = len(b.Violations)
	b.Violations = append(b.Violations, BatchViolation{Sig: sig, What: what, Detail: detail, Count: 1})
}

// NViolations returns the number of distinct signatures.
func (b *Batch) NViolations() int { b.mu.Lock(); defer b.mu.Unlock(); return len(b.Violations) }

// Finish writes out.json / distinct.bin into the child directory and prints the marker.
func (b *Batch) Finish(dir string) {
	b.mu.Lock()
	b.SeenSets = map[string][]string{}
	for k, m := range b.seen {
		for s := range m {
			b.SeenSets[k] = append(b.SeenSets[k], s)
		}
	}
	buf := make([]byte, 0, 8*len(b.distinct))
	for h := range b.distinct {
		buf = binary.LittleEndian.AppendUint64(buf, h)
	}
	b.mu.Unlock()
	_ = os.WriteFile(filepath.Join(dir, "distinct.bin"), buf, 0o644)
	ChildFinish(dir, b)
}

// MergeChild merges a child's batch into the report. It returns the decoded batch
// (nil if the child left no output).
func (r *Report) MergeChild(c *ChildResult) *Batch {
	if len(c.Out) == 0 {
		return nil
	}
	var b Batch
	if err := json.Unmarshal(c.Out, &b); err != nil {
		return nil
	}
	r.MergeBatch(&b)
	if raw, err := os.ReadFile(filepath.Join(c.Dir, "distinct.bin")); err == nil {
		r.mu.Lock()
		for i := 0; i+8 <= len(raw); i += 8 {
			r.distinct[string(raw[i:i+8])] = struct{}{}
		}
		r.mu.Unlock()
	}
	return &b
}

// MergeBatch merges counters, sets, samples, notes and violations.
func (r *Report) MergeBatch(b *Batch) {
	r.Eval(b.Evals)
	for k, v := range b.Counters {
		r.Count(k, v)
	}
	for k, v := range b.Maxes {
		r.Max(k, v)
	}
	for k, ms := range b.SeenSets {
		for _, m := range ms {
			r.Seen(k, m)
		}
	}
	for _, s := range b.Samples {
		r.Sample(s)
	}
	for _, n := range b.Notes {
		r.Note("%s", n)
	}
	for _, n := range b.Inconcl {
		r.Inconclusive("%s", n)
	}
	for _, v := range b.Violations {
		r.Violation(v.Sig, v.What, v.Detail)
		if v.Count > 1 {
			r.mu.Lock()
			r.violations[v.Sig].Count += v.Count - 1
			r.mu.Unlock()
		}
	}
	// in-process use: take over distinct hashes directly
	b.mu.Lock()
	for h := range b.distinct {
		var k [8]byte
		binary.LittleEndian.PutUint64(k[:], h)
		r.mu.Lock()
		r.distinct[string(k[:])] = struct{}{}
		r.mu.Unlock()
	}
	b.mu.Unlock()
}

// MergeChildNoDistinct merges a child's batch but not its distinct-case hashes and
// samples (used when a sanitizer build repeats the case list of the plain build).
func (r *Report) MergeChildNoDistinct(c *ChildResult) *Batch {
	if len(c.Out) == 0 {
		return nil
	}
	var b Batch
	if err := json.Unmarshal(c.Out, &b); err != nil {
		return nil
	}
	b.Samples = nil
	r.MergeBatch(&b)
	return &b
}
