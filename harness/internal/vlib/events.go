package vlib

import (
	"encoding/json"
	"os"
	"sync"
	"sync/atomic"
	"time"
)

// Event is one entry of the log recorded at the harness/portbase boundary.
type Event struct {
	Seq  uint64         `json:"seq"`            // logical clock (one process-wide atomic counter)
	T    int64          `json:"t"`              // monotonic ns since log creation (only for properties that speak about time)
	Kind string         `json:"k"`              // e.g. "call", "ret", "begin", "end", "hook"
	Who  string         `json:"who,omitempty"`  // actor (goroutine/client/module/task id)
	Op   string         `json:"op,omitempty"`   // operation or phase
	F    map[string]any `json:"f,omitempty"`    // further fields
}

// Log is a thread-safe, append-only event log with a sequence clock. The sequence
// number is taken with an atomic add *inside* the recording call; because Rec is
// called by the harness before invoking / after returning from portbase (client
// side) or inside the callback it handed to portbase (callee side), the order of
// sequence numbers is consistent with happens-before.
type Log struct {
	seq   atomic.Uint64
	start time.Time
	mu    sync.Mutex
	evs   []Event
}

// NewLog creates an empty log.
func NewLog() *Log { return &Log{start: time.Now()} }

// Rec appends an event and returns its sequence number.
func (l *Log) Rec(kind, who, op string, f map[string]any) uint64 {
	t := int64(time.Since(l.start))
	l.mu.Lock()
	s := l.seq.Add(1)
	l.evs = append(l.evs, Event{Seq: s, T: t, Kind: kind, Who: who, Op: op, F: f})
	l.mu.Unlock()
	return s
}

// Now returns the current sequence number without recording.
func (l *Log) Now() uint64 { return l.seq.Load() }

// Since returns monotonic ns since the log was created.
func (l *Log) Since() int64 { return int64(time.Since(l.start)) }

// Events returns a copy of the log.
func (l *Log) Events() []Event {
	l.mu.Lock()
	defer l.mu.Unlock()
	out := make([]Event, len(l.evs))
	copy(out, l.evs)
	return out
}

// Len returns the number of events.
func (l *Log) Len() int { l.mu.Lock(); defer l.mu.Unlock(); return len(l.evs) }

// WriteJSONL flushes the log as JSON lines.
func (l *Log) WriteJSONL(path string) error {
	evs := l.Events()
	f, err := os.Create(path)
	if err != nil {
		return err
	}
	defer f.Close()
	enc := json.NewEncoder(f)
	for i := range evs {
		if err := enc.Encode(&evs[i]); err != nil {
			return err
		}
	}
	return nil
}

// Tail returns the last n events (for witnesses).
func Tail(evs []Event, n int) []Event {
	if len(evs) <= n {
		return evs
	}
	return evs[len(evs)-n:]
}
