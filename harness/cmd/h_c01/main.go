// h_c01 — engine for property C01 (module start/stop order, wanted set, everything
// stopped).
//
// Orchestrator: derives a fixed list of scenarios from VERIF_SEED (dependency graph ×
// callback behaviours × management script), runs every scenario in its own child
// process (the module registry of portbase is global and can be started once), one
// third of them in the -race build, and decides each recorded life with the offline
// oracles in oracle.go.
// Child: registers harness callbacks that record begin/end events with a global
// sequence number, drives Start / Enable / Disable / ManageModules / Shutdown from one
// goroutine, snapshots every module's status after each call and at quiescence.
package main

import (
	"encoding/json"
	"fmt"
	"os"
	"sort"
	"strings"
	"time"

	"verifharness/internal/vlib"
)

const prop = "C01"

// race scope: the functions that read or write the state C01's mechanism is made of
// (Module.status, the enabled marks, the dependency links). A report is in scope only
// if BOTH accesses are in these functions: e.g. Module.start also resets m.Ctx, and a
// race of that write with a worker reading m.Ctx says nothing about start/stop order.
var raceScope = []string{
	"modules.(*Module).prep", "modules.(*Module).start", "modules.(*Module).stop", "modules.(*Module).stopAllTasks",
	"modules.(*Module).Status", "modules.(*Module).Online", "modules.(*Module).readyTo",
	"modules.buildEnabledTree", "modules.(*Module).markDependencies", "modules.initDependencies",
	"modules.prepareModules", "modules.startModules", "modules.stopModules",
	"modules.(*Module).Enable", "modules.(*Module).Disable", "modules.(*Module).SetEnabled",
	"modules.Start", "modules.Shutdown", "modules.ManageModules",
}

func inScopeBoth(rr *vlib.RaceReport) bool {
	for i := 0; i < 2; i++ {
		top := rr.TopFrame(i, "safing/portbase")
		hit := false
		for _, f := range raceScope {
			if top != "" && strings.Contains(top, f) {
				hit = true
			}
		}
		if !hit {
			return false
		}
	}
	return true
}

type caseResult struct {
	sc   Scenario
	out  *ChildOut
	v    *Verdict
	why  string // non-empty: inconclusive
	race []vlib.RaceReport
}

func main() {
	if dir, ok := vlib.IsChild(); ok {
		childMain(dir)
		return
	}
	cfg := vlib.Load()
	if cfg.Prop != "" && cfg.Prop != prop {
		fmt.Println("h_c01: unknown property", cfg.Prop)
		os.Exit(2)
	}
	rep := vlib.NewReport(cfg)
	rep.Rule("case = one module-system life in a fresh process: random acyclic dependency graph (8 families, 1..8 modules quick / 1..14 thorough) x per-callback behaviour (run time 0-30 ms, nil function, error, panic; 0-2 failing callbacks placed in prep/start/stop) x management off/on with 0-6 rounds of Enable/Disable + ManageModules, then Shutdown (also after a failed Start). Two of every ten cases beyond the first 80 have 2-3 concurrent clients: overlapping Enable/Disable+ManageModules calls, or overlapping Shutdown calls, with a barrier inside a start/stop callback that keeps the first client's pass in progress while the others call. Distinct = graph x behaviours x script; counted as non-trivial only if >= 2 lifecycle callbacks were observed running concurrently.")
	rep.Assume("callback begin/end events and API call/return events are numbered by one atomic counter inside the harness; the order of the numbers is consistent with happens-before")
	rep.Assume("'completely stopped' is observed as the end of the harness stop callback (the scenarios run no workers or tasks; C05 covers those)")
	rep.Assume("with concurrent clients only the determined part of the wanted set is demanded: modules enabled by calls that returned before the pass was called and not touched by any Enable/Disable in progress or issued until the caller's status snapshot; modules touched in that window may or may not be online")
	rep.Assume("Enable/Disable calls made from the global prep function or a prep routine (returned before the first start routine began) count for the wanted set of that Start")
	rep.Assume("wanted set = all registered modules, or with management the modules whose Enable() returned last before the pass was called plus their transitive dependencies; Enable/Disable/ManageModules are called from one goroutine")

	var scs []Scenario
	if cfg.Replay != "" {
		scs = replayScenarios(cfg)
	} else {
		n := cfg.N(300, 6000)
		for i := 0; i < n; i++ {
			sc := genScenario(cfg.Seed, cfg.Tier, i)
			sc.Build = "plain"
			if cfg.BinRace != "" && i%3 == 2 {
				sc.Build = "race"
			}
			scs = append(scs, sc)
		}
	}

	results := make([]*caseResult, len(scs))
	runBatch := func(idx []int, attempt int) {
		var specs []vlib.ChildSpec
		for _, i := range idx {
			bin := cfg.BinPlain
			if scs[i].Build == "race" {
				bin = cfg.BinRace
			}
			specs = append(specs, vlib.ChildSpec{Name: fmt.Sprintf("s%05d-a%d", scs[i].ID, attempt), Bin: bin, Spec: scs[i],
				Timeout: 90 * time.Second, Race: scs[i].Build == "race"})
		}
		vlib.RunChildren(cfg, specs, func(k int, c *vlib.ChildResult) {
			i := idx[k]
			cr := &caseResult{sc: scs[i], race: c.Races}
			results[i] = cr
			switch {
			case c.TimedOut:
				cr.why = fmt.Sprintf("scenario %d (%s): watchdog fired after %s; stderr tail: %s", scs[i].ID, scs[i].Build, specs[k].Timeout, c.StderrTail(1200))
				return
			case !c.Done || len(c.Out) == 0:
				cr.why = fmt.Sprintf("scenario %d (%s): child died (exit=%d signal=%q) before finishing; stderr tail: %s", scs[i].ID, scs[i].Build, c.Exit, c.Signal, c.StderrTail(1500))
				return
			}
			var out ChildOut
			if err := json.Unmarshal(c.Out, &out); err != nil {
				cr.why = fmt.Sprintf("scenario %d: unreadable child output: %v", scs[i].ID, err)
				return
			}
			if out.Problem != "" {
				cr.why = fmt.Sprintf("scenario %d: harness problem: %s", scs[i].ID, out.Problem)
				return
			}
			cr.out = &out
			cr.v = judge(&scs[i], &out)
		})
	}
	all := make([]int, len(scs))
	for i := range all {
		all[i] = i
	}
	runBatch(all, 0)
	// cases without a verdict are re-run (same spec) before they count as inconclusive
	for attempt := 1; attempt <= 2; attempt++ {
		var again []int
		for i, r := range results {
			if r == nil || r.why != "" {
				again = append(again, i)
			}
		}
		if len(again) == 0 {
			break
		}
		runBatch(again, attempt)
	}

	// ---- merge -----------------------------------------------------------------------
	conclusive, overlapCases, multi, nSamples := 0, 0, 0, 0
	combos := map[string]bool{}
	for i, r := range results {
		sc := &scs[i]
		if r == nil {
			rep.Inconclusive("scenario %d: not run", sc.ID)
			continue
		}
		rep.Eval(1)
		rep.Seen("builds_run", sc.Build)
		for ri := range r.race {
			rr := &r.race[ri]
			switch {
			case rr.HarnessOnly():
				rep.FloorMissed("race report with harness-only frames (the monitor itself is racy): %s", rr.Text)
			case inScopeBoth(rr):
				rep.Count("race_reports_in_scope", 1)
				rep.Violation(prop+":race:"+rr.Signature(), "data race on the lifecycle state (module status / enabled marks / dependency links)",
					map[string]any{"scenario": sc, "report": rr.Text})
			default:
				rep.Seen("race_diagnostics", rr.Signature())
			}
		}
		if r.why != "" {
			rep.Inconclusive("%s", r.why)
			continue
		}
		v := r.v
		conclusive++
		if len(v.Incon) > 0 {
			rep.Count("partially_undecided_cases", 1)
			for _, s := range v.Incon {
				rep.Seen("undecided_reasons", s)
			}
		}
		for _, f := range v.Findings {
			rep.Seen("violations_by_build", f.Sig+" @"+sc.Build)
			rep.Violation(f.Sig, f.What, map[string]any{"scenario": sc, "findings": v.Findings, "events": r.out.Events, "build": sc.Build})
		}
		// coverage
		rep.Count("events", int64(v.Events))
		rep.Count("prep_callbacks", int64(v.Preps))
		rep.Count("start_ok", int64(v.StartOK))
		rep.Count("start_failed", int64(v.StartFail))
		rep.Count("prep_failed", int64(v.PrepFail))
		rep.Count("stop_failed", int64(v.StopFail))
		rep.Count("stop_callbacks", int64(v.Stops))
		rep.Count("manage_passes_nil", int64(v.PassNil))
		rep.Count("manage_passes_err", int64(v.PassErr))
		rep.Count("wanted_set_checks", int64(v.WantedChecks))
		rep.Count("order_checks", int64(v.OrderChecks))
		rep.Count("starts_in_flight_at_return", int64(v.LateStarts))
		rep.Count("modules_restarted", int64(v.Restarts))
		rep.Count("start_retried_within_one_pass", int64(v.RetriedInPass))
		if v.RetriedInPass > 0 {
			rep.Seen("start_retried_within_one_pass_cases", fmt.Sprintf("scenario %d (%s): %s", sc.ID, sc.Build, v.RetriedDetail))
		}
		rep.Count("change_notifications", r.out.Notifies)
		rep.Count("ctrlfn_done_hook_delays", r.out.HookDelays)
		if len(sc.PrepOps) > 0 {
			rep.Count("scenarios_switching_modules_during_prep", 1)
			rep.Count("wanted_set_checks_after_prep_switch", int64(v.PrepSwitchedChecks))
		}
		if sc.Wide != nil {
			rep.Count("scenarios_wide_level_"+sc.Wide.Mode, 1)
			if r.out.ParkMissed {
				rep.Count("wide_barrier_missed", 1)
			}
		}
		if sc.Conc != nil {
			rep.Count("scenarios_concurrent_"+sc.Conc.Kind, 1)
			rep.Count("concurrent_calls_overlapping", int64(v.OverlapCalls))
			if r.out.ParkMissed {
				rep.Count("concurrent_barrier_missed", 1)
			}
		}
		if sc.NilMid != "" {
			rep.Count("scenarios_with_nil_stop_inside_path", 1)
		}
		if v.StartNil {
			rep.Count("start_returned_nil", 1)
		} else {
			rep.Count("start_returned_error", 1)
		}
		rep.Seen("shutdown_result", v.ShutdownErr)
		mc := 0
		for ph, n := range v.MaxConc {
			rep.Max("max_concurrent_"+ph, int64(n))
			if n > mc {
				mc = n
			}
		}
		if len(sc.Mods) >= 2 {
			multi++
		}
		combos[sc.Family+"/"+sc.FailPhase] = true
		rep.Seen("family_x_failphase", sc.Family+"/"+sc.FailPhase)
		rep.Seen("graph_sizes", fmt.Sprintf("%02d", len(sc.Mods)))
		if sc.Mgmt {
			rep.Count("scenarios_with_management", 1)
		}
		if mc >= 2 {
			overlapCases++
			rep.Distinct(sc.signature())
			if len(v.Findings) == 0 {
				rep.Sample(sampleOf(sc, r.out, v))
				nSamples++
			}
		}
	}
	if nSamples == 0 {
		// every overlapping case had a finding (e.g. a replay): still show what was run
		for i, r := range results {
			if r != nil && r.v != nil {
				rep.Sample(sampleOf(&scs[i], r.out, r.v))
				break
			}
		}
	}
	rep.Set("scenarios_conclusive", conclusive)
	rep.Set("scenarios_with_overlapping_callbacks", overlapCases)
	rep.Set("scenarios_multi_module", multi)

	if cfg.Replay == "" {
		n := len(scs)
		rep.Floor(conclusive*10 >= n*9, "only %d of %d scenarios were conclusive", conclusive, n)
		rep.Floor(overlapCases*100 >= n*15, "only %d of %d scenarios showed >= 2 concurrently running lifecycle callbacks (floor 15%%)", overlapCases, n)
		for _, f := range families {
			for _, p := range failPhases {
				rep.Floor(combos[f+"/"+p], "no conclusive scenario for graph family %s x failure phase %s", f, p)
			}
		}
	}
	if err := rep.Finish(); err != nil {
		fmt.Println("h_c01: cannot write result:", err)
		os.Exit(2)
	}
}

// sampleOf condenses one explored life for the evidence file.
func sampleOf(sc *Scenario, out *ChildOut, v *Verdict) any {
	var lines []string
	for _, e := range out.Events {
		switch e.Kind {
		case "begin", "end":
			s := fmt.Sprintf("%d %s %s.%s", e.Seq, e.Kind, e.Who, e.Op)
			if e.Kind == "end" {
				s += " " + fStr(e.F, "res")
			}
			lines = append(lines, s)
		case "call":
			lines = append(lines, fmt.Sprintf("%d %s call %s %s", e.Seq, e.Who, e.Op, fStr(e.F, "m")))
		case "ret":
			lines = append(lines, fmt.Sprintf("%d %s ret %s err=%v", e.Seq, e.Who, e.Op, e.F["err"]))
		}
		if len(lines) >= 80 {
			lines = append(lines, "…")
			break
		}
	}
	var g []string
	for _, m := range sc.Mods {
		g = append(g, m.Name+"<-"+strings.Join(m.Deps, ","))
	}
	sort.Strings(g)
	return map[string]any{"id": sc.ID, "family": sc.Family, "fail_phase": sc.FailPhase, "mgmt": sc.Mgmt, "build": sc.Build,
		"graph": g, "steps": len(sc.Steps), "max_concurrency": v.MaxConc, "log": lines}
}

// replayScenarios re-executes the scenario stored in a witness file: 20 plain runs and
// 10 race runs of the same spec (the schedule is not part of the spec).
func replayScenarios(cfg vlib.Cfg) []Scenario {
	var doc struct {
		Detail struct {
			Scenario *Scenario `json:"scenario"`
		} `json:"detail"`
	}
	b, err := os.ReadFile(cfg.Replay)
	if err == nil {
		err = json.Unmarshal(b, &doc)
	}
	if err != nil || doc.Detail.Scenario == nil {
		fmt.Println("h_c01: replay file holds no scenario:", err)
		os.Exit(2)
	}
	var scs []Scenario
	for i := 0; i < 30; i++ {
		sc := *doc.Detail.Scenario
		sc.ID = i
		sc.Build = "plain"
		if i >= 20 && cfg.BinRace != "" {
			sc.Build = "race"
		}
		scs = append(scs, sc)
	}
	return scs
}
