package main

import (
	"context"
	"errors"
	"fmt"
	"os"
	"sync"
	"sync/atomic"
	"time"

	"github.com/safing/portbase/modules"
	"github.com/safing/portbase/utils/vhook"

	"verifharness/internal/vlib"
)

// ChildOut is what one module-system life looked like from the outside.
type ChildOut struct {
	Events     []vlib.Event `json:"events"`
	Quiesced   bool         `json:"quiesced"` // every callback that began has ended when the last snapshot was taken
	Settled    bool         `json:"settled"`  // no module was left in a transient status the harness expected to end
	Notifies   int64        `json:"notifies"`
	ParkMissed bool         `json:"park_missed,omitempty"` // the barrier of a concurrent scenario was not reached / released by its watchdog
	HookDelays int64        `json:"hook_delays"`
	Problem    string       `json:"problem,omitempty"` // harness-side trouble (never a verdict)
}

// typedErr is an error type whose nil pointer is still a non-nil error value.
type typedErr struct{ msg string }

func (e *typedErr) Error() string {
	if e == nil {
		return "typed nil error"
	}
	return e.msg
}

func errStr(err error) any {
	if err == nil {
		return nil
	}
	return err.Error()
}

func childMain(dir string) {
	var sc Scenario
	if err := vlib.ChildSpecInto(dir, &sc); err != nil {
		fmt.Println("bad spec:", err)
		os.Exit(3)
	}
	lg := vlib.NewLog()
	out := &ChildOut{}
	var open atomic.Int64                    // callbacks that began and have not ended
	lastStartOK := map[string]*atomic.Bool{} // did the module's latest start callback end successfully
	lastPrepOK := map[string]*atomic.Bool{}
	var notifies atomic.Int64 // change notifications received

	modules.SetStdErrReporting(false)

	// Modules whose state the event log cannot show because they were registered with
	// a nil function: their status is read when a callback that has to wait for them
	// begins (stop: dependents without stop/start function; start: dependencies without
	// start function; prep: dependencies without prep function).
	specOf := map[string]*ModSpec{}
	for i := range sc.Mods {
		specOf[sc.Mods[i].Name] = &sc.Mods[i]
	}
	watch := map[string][]string{} // "<module>/<phase>" -> modules to look at
	for _, m := range sc.Mods {
		for _, d := range m.Deps {
			if m.Stop.Nil || m.Start.Nil {
				watch[d+"/stop"] = append(watch[d+"/stop"], m.Name)
			}
			if specOf[d].Start.Nil {
				watch[m.Name+"/start"] = append(watch[m.Name+"/start"], d)
			}
			if specOf[d].Prep.Nil {
				watch[m.Name+"/prep"] = append(watch[m.Name+"/prep"], d)
			}
		}
	}
	var wideArrived atomic.Int64
	wideAll := make(chan struct{})
	wideRel, wideEnded := map[string]chan struct{}{}, map[string]chan struct{}{}
	for _, m := range sc.Mods {
		wideRel[m.Name], wideEnded[m.Name] = make(chan struct{}), make(chan struct{})
	}
	parked, release := make(chan struct{}), make(chan struct{})
	var releaseOnce sync.Once
	var parkMissed atomic.Bool
	mods := map[string]*modules.Module{}
	lastPhase := map[string]*atomic.Value{} // phase of the callback that returned last, per module
	var hookDelays atomic.Int64

	var runSteps func(who string, steps []Step, issuing func())
	mk := func(name, phase string, b Behav) func() error {
		if b.Nil {
			return nil
		}
		var cnt atomic.Int64
		look := watch[name+"/"+phase]
		return func() error {
			k := int(cnt.Add(1))
			open.Add(1)
			f := map[string]any{"n": k}
			if len(look) > 0 {
				seen := map[string]any{}
				for _, o := range look {
					seen[o] = int(mods[o].Status())
				}
				f["seen"] = seen
			}
			lg.Rec("begin", name, phase, f)
			if phase == "prep" && k == 1 && len(sc.PrepOps[name]) > 0 {
				// the program switches modules from inside a prep routine
				runSteps("prep:"+name, sc.PrepOps[name], nil)
			}
			if sc.Conc != nil && k == 1 && name == sc.Conc.Park && phase == sc.Conc.ParkPhase {
				// barrier: tell the other clients that the pass/shutdown of client 0 is
				// in progress and stay inside this routine until they have issued their calls
				close(parked)
				select {
				case <-release:
				case <-time.After(10 * time.Second):
					parkMissed.Store(true)
				}
			}
			if sc.Wide != nil && phase == "start" && k == 1 {
				// wide level: the start routines of all modules are held until every one
				// of them has begun, then released together ("burst") or in an order
				// chosen by the controller below ("held")
				if wideArrived.Add(1) == int64(len(sc.Mods)) {
					close(wideAll)
				}
				gate := wideAll
				if sc.Wide.Mode == "held" {
					gate = wideRel[name]
				}
				select {
				case <-gate:
				case <-time.After(10 * time.Second):
					parkMissed.Store(true)
				}
			}
			if b.DelayUs > 0 {
				time.Sleep(time.Duration(b.DelayUs) * time.Microsecond)
			}
			res := "ok"
			if b.failsAt(k) {
				res = b.Fail
			}
			switch phase {
			case "start":
				lastStartOK[name].Store(res == "ok")
			case "prep":
				lastPrepOK[name].Store(res == "ok")
			}
			lg.Rec("end", name, phase, map[string]any{"n": k, "res": res})
			lastPhase[name].Store(phase)
			open.Add(-1)
			if sc.Wide != nil && phase == "start" && k == 1 {
				close(wideEnded[name])
			}
			what := fmt.Sprintf("injected %s failure of %s (#%d)", phase, name, k)
			switch res {
			case "err":
				return errors.New(what)
			case "err-wrapped":
				return fmt.Errorf("%s: %w", what, errors.New("cause"))
			case "err-canceled":
				return context.Canceled
			case "err-wrapped-canceled":
				return fmt.Errorf("%s: %w", what, context.Canceled)
			case "err-deadline":
				return fmt.Errorf("%s: %w", what, context.DeadlineExceeded)
			case "err-cleanexit":
				// the one sentinel Start treats specially (prep: returned unwrapped, not
				// reported); still an error: the module is not prepared / started
				return modules.ErrCleanExit
			case "err-restart":
				return fmt.Errorf("%s: %w", what, modules.ErrRestartNow)
			case "err-typed-nil":
				var e *typedErr
				return e // non-nil error interface holding a nil pointer
			case "panic":
				panic(fmt.Sprintf("injected %s panic of %s (#%d)", phase, name, k))
			case "panic-err":
				panic(fmt.Errorf("injected %s panic(error) of %s (#%d)", phase, name, k))
			}
			return nil
		}
	}

	if sc.Mgmt {
		var fn func(*modules.Module)
		if sc.Notify {
			fn = func(m *modules.Module) { notifies.Add(1) }
		}
		modules.EnableModuleManagement(fn)
	}
	if sc.HookDelayUs > 0 {
		// Amplifier for the window "start result handed out, control goroutine not
		// finished yet": hold the goroutine of a finished start routine at the
		// beginning of its deferred function. An ordinary preemption point; with the
		// correct order (flag reset, then result) it merely delays the result.
		vhook.Set("modules.ctrlfn.done", func(_, subject string) {
			if lp := lastPhase[subject]; lp != nil && lp.Load() == "start" {
				hookDelays.Add(1)
				time.Sleep(time.Duration(sc.HookDelayUs) * time.Microsecond)
			}
		})
	}
	var order []string
	for _, ms := range sc.Mods {
		lastPhase[ms.Name] = &atomic.Value{}
		lastStartOK[ms.Name] = &atomic.Bool{}
		lastPrepOK[ms.Name] = &atomic.Bool{}
		m := modules.Register(ms.Name, mk(ms.Name, "prep", ms.Prep), mk(ms.Name, "start", ms.Start), mk(ms.Name, "stop", ms.Stop), ms.Deps...)
		if m == nil {
			out.Problem = "Register returned nil for " + ms.Name
			vlib.ChildFinish(dir, out)
			return
		}
		mods[ms.Name] = m
		order = append(order, ms.Name)
	}
	snapAs := func(who, label string) {
		st := map[string]any{}
		en := map[string]any{}
		for _, n := range order {
			st[n] = int(mods[n].Status())
			if sc.Mgmt {
				en[n] = mods[n].Enabled()
			}
		}
		f := map[string]any{"status": st}
		if sc.Mgmt {
			f["enabled"] = en
		}
		lg.Rec("snap", who, label, f)
	}
	snap := func(label string) { snapAs("driver", label) }
	// runSteps executes a script of Enable/Disable/ManageModules/Shutdown calls as one
	// client; before every ManageModules/Shutdown call `issuing` is invoked (after the
	// call event has been recorded).
	runSteps = func(who string, steps []Step, issuing func()) {
		for _, s := range steps {
			switch s.Op {
			case "enable":
				lg.Rec("call", who, "enable", map[string]any{"m": s.Mod})
				ch := mods[s.Mod].Enable()
				lg.Rec("ret", who, "enable", map[string]any{"m": s.Mod, "changed": ch})
			case "disable":
				lg.Rec("call", who, "disable", map[string]any{"m": s.Mod})
				ch := mods[s.Mod].Disable()
				lg.Rec("ret", who, "disable", map[string]any{"m": s.Mod, "changed": ch})
			case "set-on", "set-off":
				lg.Rec("call", who, s.Op, map[string]any{"m": s.Mod})
				ch := mods[s.Mod].SetEnabled(s.Op == "set-on")
				lg.Rec("ret", who, s.Op, map[string]any{"m": s.Mod, "changed": ch})
			case "manage":
				lg.Rec("call", who, "ManageModules", nil)
				if issuing != nil {
					issuing()
				}
				e := modules.ManageModules()
				lg.Rec("ret", who, "ManageModules", map[string]any{"err": errStr(e)})
				snapAs(who, "after-ManageModules")
			case "shutdown":
				lg.Rec("call", who, "Shutdown", nil)
				if issuing != nil {
					issuing()
				}
				e := modules.Shutdown()
				lg.Rec("ret", who, "Shutdown", map[string]any{"err": errStr(e)})
				snapAs(who, "after-Shutdown")
			}
		}
	}
	for _, n := range sc.InitEnable {
		lg.Rec("call", "driver", "enable", map[string]any{"m": n})
		ch := mods[n].Enable()
		lg.Rec("ret", "driver", "enable", map[string]any{"m": n, "changed": ch})
	}

	if sc.Wide != nil && sc.Wide.Mode == "held" {
		// Amplifier "manager held while reports pile up": when all start routines are
		// parked, the write lock of one module (sync.RWMutex is an exported part of
		// modules.Module) is taken; the first successful report makes the manager
		// re-evaluate all modules and wait in that module's Status(). The routines named
		// in Order then finish one after the other, their reports queue up, and the
		// manager is let go. This only delays the manager at a point where it can be
		// preempted anyway; all waits are bounded and none is part of a verdict.
		go func() {
			wait := func(ch chan struct{}, d time.Duration) {
				select {
				case <-ch:
				case <-time.After(d):
					parkMissed.Store(true)
				}
			}
			wait(wideAll, 10*time.Second)
			held := mods[sc.Wide.Hold]
			held.Lock()
			for i, n := range sc.Wide.Order {
				close(wideRel[n])
				wait(wideEnded[n], 5*time.Second)
				if i == 0 {
					time.Sleep(2 * time.Millisecond) // manager takes the report and starts re-evaluating
				} else {
					time.Sleep(700 * time.Microsecond) // the report is queued on the channel
				}
			}
			held.Unlock()
			inOrder := map[string]bool{}
			for _, n := range sc.Wide.Order {
				inOrder[n] = true
			}
			for _, m := range sc.Mods {
				if !inOrder[m.Name] {
					close(wideRel[m.Name])
				}
			}
		}()
	}
	if ops := sc.PrepOps["globalprep"]; len(ops) > 0 {
		modules.SetGlobalPrepFn(func() error {
			runSteps("globalprep", ops, nil)
			return nil
		})
	}
	lg.Rec("call", "driver", "Start", nil)
	err := modules.Start()
	lg.Rec("ret", "driver", "Start", map[string]any{"err": errStr(err), "clean_exit": errors.Is(err, modules.ErrCleanExit)})
	snap("after-Start")

	if err == nil {
		runSteps("driver", sc.Steps, nil)
	}

	// concurrent clients: client 0 starts at once and runs into the parked callback; the
	// others start when that callback is parked, i.e. while client 0's pass / shutdown
	// is provably in progress. The parked callback is released a few milliseconds after
	// every other client has issued its first ManageModules/Shutdown call (on the
	// unchanged code those calls block on the management lock until client 0 is done),
	// or after 10 s at the latest. None of these times is part of a verdict.
	shutdownDone := false
	if err == nil && sc.Conc != nil && len(sc.Conc.Clients) > 0 {
		var wg, issued sync.WaitGroup
		issued.Add(len(sc.Conc.Clients) - 1)
		for ci, steps := range sc.Conc.Clients {
			wg.Add(1)
			go func(ci int, steps []Step) {
				defer wg.Done()
				who := fmt.Sprintf("c%d", ci)
				if ci == 0 {
					runSteps(who, steps, nil)
					return
				}
				select {
				case <-parked:
				case <-time.After(10 * time.Second):
					parkMissed.Store(true)
				}
				var once sync.Once
				runSteps(who, steps, func() { once.Do(issued.Done) })
				once.Do(issued.Done)
			}(ci, steps)
		}
		go func() {
			select {
			case <-parked:
			case <-time.After(10 * time.Second):
			}
			issued.Wait()
			time.Sleep(3 * time.Millisecond)
			releaseOnce.Do(func() { close(release) })
		}()
		wg.Wait()
		releaseOnce.Do(func() { close(release) })
		shutdownDone = sc.Conc.Kind == "shutdown"
	}

	// the production path (run/main.go) calls Shutdown after a successful life and also
	// after a failed Start
	if !shutdownDone {
		runSteps("driver", []Step{{Op: "shutdown"}}, nil)
	}

	// quiescence: every callback that began has ended and no status change the harness
	// can expect is pending (generous watchdog; not a verdict). A start routine launched
	// by a pass that has already returned may not even have begun yet, so the state has
	// to be stable over several scheduler rounds. Waiting too short can only hide a late
	// change (and leaves the stop-count oracle undecided), never invent one.
	settled := func() bool {
		for _, n := range order {
			switch mods[n].Status() {
			case modules.StatusStopping:
				return false
			case modules.StatusPreparing:
				if lastPrepOK[n].Load() {
					return false
				}
			case modules.StatusStarting:
				if lastStartOK[n].Load() {
					return false
				}
			}
		}
		return true
	}
	deadline := time.Now().Add(20 * time.Second)
	stable := 0
	for stable < 8 && time.Now().Before(deadline) {
		if open.Load() == 0 && settled() {
			stable++
		} else {
			stable = 0
		}
		time.Sleep(400 * time.Microsecond)
	}
	out.Settled = settled()
	out.Quiesced = stable >= 8 && open.Load() == 0
	snap("quiescent")
	out.Notifies = notifies.Load()
	out.HookDelays = hookDelays.Load()
	out.ParkMissed = parkMissed.Load()
	out.Events = lg.Events()
	vlib.ChildFinish(dir, out)
}
