package main

import (
	"fmt"
	"sort"
	"strings"

	"verifharness/internal/vlib"
)

// Behav describes what one lifecycle callback of one module does.
type Behav struct {
	Nil       bool   `json:"nil,omitempty"`        // register a nil function (nothing observable for this phase)
	DelayUs   int    `json:"delay_us,omitempty"`   // run time of the callback
	Fail      string `json:"fail,omitempty"`       // "", "err", "panic", "panic-err"
	FailFirst int    `json:"fail_first,omitempty"` // number of initial invocations that fail; <0: every invocation
}

func (b Behav) failsAt(k int) bool {
	return b.Fail != "" && (b.FailFirst < 0 || k <= b.FailFirst)
}

// ModSpec is one registered module.
type ModSpec struct {
	Name  string   `json:"name"`
	Deps  []string `json:"deps,omitempty"`
	Prep  Behav    `json:"prep"`
	Start Behav    `json:"start"`
	Stop  Behav    `json:"stop"`
}

// Step is one operation of the management script executed between Start and Shutdown.
type Step struct {
	Op  string `json:"op"` // enable | disable | manage
	Mod string `json:"mod,omitempty"`
}

// ConcSpec describes the concurrent part of a scenario: several clients issue
// management calls (kind "manage") or Shutdown (kind "shutdown") at the same time. The
// first invocation of Park's start (manage) or stop (shutdown) routine is a barrier.
type ConcSpec struct {
	Kind      string   `json:"kind"`
	Park      string   `json:"park"`
	ParkPhase string   `json:"park_phase"`
	Clients   [][]Step `json:"clients"`
}

// WideSpec marks a scenario that consists of one wide level of independent modules
// whose start routines are held by a barrier. Mode "burst": all are released together.
// Mode "held": the manager goroutine is held (write lock of module Hold) while the
// routines in Order finish one after the other; the rest is released afterwards.
type WideSpec struct {
	Mode  string   `json:"mode"`
	Hold  string   `json:"hold,omitempty"`
	Order []string `json:"order,omitempty"`
}

// Scenario is one complete module-system life: Register…, Start, script, Shutdown.
type Scenario struct {
	ID        int       `json:"id"`
	Family    string    `json:"family"`
	FailPhase string    `json:"fail_phase"` // none | prep | start | stop | mixed
	Delays    string    `json:"delays"`
	Mods      []ModSpec `json:"mods"` // in registration order
	Mgmt      bool      `json:"mgmt"`
	Notify    bool      `json:"notify,omitempty"`  // register a change-notify function
	NilMid    string    `json:"nil_mid,omitempty"` // module without stop function placed inside a dependency path
	Conc      *ConcSpec `json:"conc,omitempty"`
	Wide      *WideSpec `json:"wide,omitempty"`
	// Enable/Disable calls made during Start: from the global prep function
	// (key "globalprep") or from the prep routine of a module (key = module name)
	PrepOps     map[string][]Step `json:"prep_ops,omitempty"`
	HookDelayUs int               `json:"hook_delay_us,omitempty"` // delay at modules.ctrlfn.done after a start routine returned
	InitEnable  []string          `json:"init_enable,omitempty"`
	Steps       []Step            `json:"steps,omitempty"`
	Build       string            `json:"build"` // plain | race
}

var families = []string{"single", "chain", "fanin", "fanout", "diamond", "layered", "forest", "random"}
var failPhases = []string{"none", "prep", "start", "stop", "mixed"}

func modName(i int) string { return fmt.Sprintf("m%02d", i) }

// genGraph returns deps[i] = indices (< i) module i depends on: acyclic by construction.
func genGraph(r *vlib.Rand, family string, maxN int) [][]int {
	n := 1
	if maxN < 2 {
		maxN = 2
	}
	pickN := func(lo int) int {
		if lo > maxN {
			lo = maxN
		}
		return r.Range(lo, maxN)
	}
	var deps [][]int
	add := func(i, j int) {
		for _, x := range deps[i] {
			if x == j {
				return
			}
		}
		deps[i] = append(deps[i], j)
	}
	switch family {
	case "single":
		deps = make([][]int, 1)
	case "chain":
		n = pickN(2)
		deps = make([][]int, n)
		for i := 1; i < n; i++ {
			add(i, i-1)
		}
	case "fanin": // many modules depend on one base
		n = pickN(3)
		deps = make([][]int, n)
		for i := 1; i < n; i++ {
			add(i, 0)
		}
	case "fanout": // one module depends on many independent ones
		n = pickN(3)
		deps = make([][]int, n)
		for j := 0; j < n-1; j++ {
			add(n-1, j)
		}
	case "diamond":
		n = pickN(4)
		deps = make([][]int, n)
		for i := 1; i < n-1; i++ {
			add(i, 0)
		}
		for i := 1; i < n-1; i++ {
			add(n-1, i)
		}
		if r.Chance(1, 3) {
			add(n-1, 0)
		}
	case "layered":
		n = pickN(4)
		deps = make([][]int, n)
		layers := r.Range(2, 4)
		layerOf := make([]int, n)
		for i := range layerOf {
			layerOf[i] = i * layers / n
		}
		for i := 0; i < n; i++ {
			if layerOf[i] == 0 {
				continue
			}
			var cand []int
			for j := 0; j < i; j++ {
				if layerOf[j] < layerOf[i] {
					cand = append(cand, j)
				}
			}
			k := r.Range(1, 3)
			for ; k > 0 && len(cand) > 0; k-- {
				add(i, cand[r.Intn(len(cand))])
			}
		}
	case "forest": // disconnected components
		n = pickN(4)
		deps = make([][]int, n)
		comps := r.Range(2, 3)
		for i := comps; i < n; i++ {
			// depend on an earlier node of the same component (i mod comps)
			var cand []int
			for j := 0; j < i; j++ {
				if j%comps == i%comps {
					cand = append(cand, j)
				}
			}
			add(i, cand[r.Intn(len(cand))])
			if len(cand) > 1 && r.Chance(1, 3) {
				add(i, cand[r.Intn(len(cand))])
			}
		}
	default: // random
		n = pickN(3)
		deps = make([][]int, n)
		p := r.Range(15, 55)
		for i := 1; i < n; i++ {
			for j := 0; j < i; j++ {
				if r.Chance(p, 100) {
					add(i, j)
				}
			}
		}
	}
	for i := range deps {
		sort.Ints(deps[i])
	}
	return deps
}

func delay(r *vlib.Rand, profile, phase string, failing bool) int {
	switch profile {
	case "instant":
		return 0
	case "small":
		return r.Range(0, 5000)
	case "slow-sibling":
		if failing {
			return r.Range(0, 300)
		}
		return r.Range(8000, 30000)
	case "slow-stop": // modules are stopped right after they started; stop routines take a while
		if phase == "stop" {
			return r.Range(2000, 12000)
		}
		return r.Range(0, 200)
	default: // mixed
		switch r.Intn(4) {
		case 0:
			return 0
		case 1:
			return r.Range(100, 3000)
		default:
			return r.Range(3000, 30000)
		}
	}
}

// genScenario derives scenario number id of the run's fixed case list.
func genScenario(seed uint64, tier string, id int) Scenario {
	r := vlib.NewRand(seed, "C01/scenario/"+tier, uint64(id))
	maxN := 8
	if tier == "thorough" {
		maxN = 14
	}
	sc := Scenario{ID: id}
	// the first len(families)*len(failPhases) cases enumerate family × failure phase, the
	// rest draw both at random: every combination is reached by construction.
	grid := len(families) * len(failPhases)
	if id >= 2*grid {
		// two of every ten further cases have several clients calling concurrently, one
		// switches modules during the preparation stage of Start
		switch id % 10 {
		case 3:
			return genConcScenario(r, maxN, id, "shutdown")
		case 7:
			return genConcScenario(r, maxN, id, "manage")
		case 5:
			return genPrepSwitchScenario(r, maxN, id)
		case 1:
			return genWideScenario(r, tier, id)
		case 9:
			return genSetEnabledScenario(r, maxN, id)
		}
	}
	if id < 2*grid {
		sc.Family = families[id%len(families)]
		sc.FailPhase = failPhases[(id/len(families))%len(failPhases)]
	} else {
		sc.Family = families[r.Intn(len(families))]
		sc.FailPhase = failPhases[r.Intn(len(failPhases))]
	}
	deps := genGraph(r, sc.Family, maxN)
	n := len(deps)
	sc.Delays = vlib.Pick(r, "instant", "small", "mixed", "mixed", "slow-sibling", "slow-sibling", "slow-stop", "slow-stop")
	if sc.FailPhase == "none" && sc.Delays == "slow-sibling" {
		sc.Delays = "mixed"
	}

	// failure placement: 1–2 failing callbacks (0 for "none")
	type fp struct {
		mod   int
		phase string
	}
	var fails []fp
	if sc.FailPhase != "none" {
		k := r.Range(1, 2)
		for ; k > 0; k-- {
			ph := sc.FailPhase
			if ph == "mixed" {
				ph = vlib.Pick(r, "prep", "start", "start", "stop")
			}
			m := r.Intn(n)
			if ph == "start" && n > 1 && r.Chance(1, 2) {
				// prefer a module that has dependencies (they are what must still be stopped)
				for try := 0; try < 8 && len(deps[m]) == 0; try++ {
					m = r.Intn(n)
				}
			}
			fails = append(fails, fp{m, ph})
		}
	}
	isFail := func(m int, ph string) bool {
		for _, f := range fails {
			if f.mod == m && f.phase == ph {
				return true
			}
		}
		return false
	}
	mkBehav := func(m int, ph string) Behav {
		b := Behav{}
		f := isFail(m, ph)
		b.DelayUs = delay(r, sc.Delays, ph, f)
		if f {
			b.Fail = vlib.Pick(r, "err", "err", "panic", "panic-err", "err-wrapped", "err-canceled", "err-wrapped-canceled", "err-canceled", "err-deadline", "err-cleanexit", "err-restart", "err-typed-nil")
			b.FailFirst = vlib.Pick(r, -1, -1, 1)
		} else if r.Chance(1, 14) && ph != "start" {
			// production modules often have no prep or no stop function
			b = Behav{Nil: true}
		} else if r.Chance(1, 40) {
			b = Behav{Nil: true}
		}
		return b
	}
	mods := make([]ModSpec, n)
	for i := 0; i < n; i++ {
		ms := ModSpec{Name: modName(i)}
		for _, d := range deps[i] {
			ms.Deps = append(ms.Deps, modName(d))
		}
		vlib.Shuffle(r, ms.Deps)
		ms.Prep = mkBehav(i, "prep")
		ms.Start = mkBehav(i, "start")
		ms.Stop = mkBehav(i, "stop")
		mods[i] = ms
	}
	// a module without a stop (and sometimes start/prep) function in the middle of a
	// dependency path, with slow-stopping dependents above it: whether such a module has
	// "completely stopped" is decided through its status and through the modules above it
	if n >= 3 && r.Chance(2, 5) {
		var cand []int
		hasRev := make([]bool, n)
		for i := range deps {
			for _, d := range deps[i] {
				hasRev[d] = true
			}
		}
		for i := 0; i < n; i++ {
			if len(deps[i]) > 0 && hasRev[i] && !isFail(i, "stop") {
				cand = append(cand, i)
			}
		}
		if len(cand) > 0 {
			mid := cand[r.Intn(len(cand))]
			sc.NilMid = modName(mid)
			mods[mid].Stop = Behav{Nil: true}
			if r.Chance(1, 3) && !isFail(mid, "start") {
				mods[mid].Start = Behav{Nil: true}
			}
			if r.Chance(1, 3) && !isFail(mid, "prep") {
				mods[mid].Prep = Behav{Nil: true}
			}
			above := map[int]bool{mid: true}
			for i := mid + 1; i < n; i++ { // dependencies always have smaller indices
				for _, d := range deps[i] {
					if above[d] {
						above[i] = true
					}
				}
				if above[i] && !mods[i].Stop.Nil {
					mods[i].Stop.DelayUs = r.Range(3000, 15000)
				}
			}
		}
	}
	// amplifier: hold the goroutine of a finished start routine at the
	// modules.ctrlfn.done point for a while (see child.go)
	if r.Chance(1, 4) {
		sc.HookDelayUs = r.Range(1500, 4000)
	}
	vlib.Shuffle(r, mods) // registration order is arbitrary
	sc.Mods = mods

	sc.Mgmt = r.Chance(45, 100)
	if sc.Mgmt {
		sc.Notify = r.Bool()
		for i := 0; i < n; i++ {
			if r.Chance(1, 2) {
				sc.InitEnable = append(sc.InitEnable, modName(i))
			}
		}
		// a program can switch modules from the global prep function or from a prep
		// routine (the first code that runs after flag parsing); every module is switched
		// by at most one of them, so the calls on one module are ordered
		if r.Chance(2, 5) {
			var sources []string
			sources = append(sources, "globalprep", "globalprep")
			for _, m := range sc.Mods {
				if !m.Prep.Nil {
					sources = append(sources, m.Name)
				}
			}
			isInit := map[string]bool{}
			for _, m := range sc.InitEnable {
				isInit[m] = true
			}
			perm := make([]int, n)
			for i := range perm {
				perm[i] = i
			}
			vlib.Shuffle(r, perm)
			k := r.Range(1, 3)
			sc.PrepOps = map[string][]Step{}
			for _, t := range perm {
				if k == 0 {
					break
				}
				target := modName(t)
				op := "enable"
				if isInit[target] && r.Chance(3, 4) {
					op = "disable"
				}
				src := sources[r.Intn(len(sources))]
				if src == target {
					src = "globalprep"
				}
				sc.PrepOps[src] = append(sc.PrepOps[src], Step{Op: op, Mod: target})
				k--
			}
		}
		rounds := r.Range(0, 6)
		for ; rounds > 0; rounds-- {
			t := r.Range(1, 3)
			for ; t > 0; t-- {
				op := "enable"
				if r.Chance(2, 5) {
					op = "disable"
				}
				if r.Chance(1, 3) { // the same request through SetEnabled(bool)
					op = map[string]string{"enable": "set-on", "disable": "set-off"}[op]
				}
				sc.Steps = append(sc.Steps, Step{Op: op, Mod: modName(r.Intn(n))})
			}
			sc.Steps = append(sc.Steps, Step{Op: "manage"})
		}
	} else if r.Chance(1, 6) {
		// without management a pass is a no-op that returns nil
		sc.Steps = append(sc.Steps, Step{Op: "manage"})
	}
	return sc
}

// genConcScenario builds a life in which 2-3 clients call ManageModules (each after
// Enable/Disable of modules only it touches) or Shutdown at the same time. Nothing
// fails and every module has all three callbacks; one callback is the barrier that
// keeps client 0's pass / shutdown in progress while the others issue their calls.
func genConcScenario(r *vlib.Rand, maxN, id int, kind string) Scenario {
	sc := Scenario{ID: id, FailPhase: "none", Delays: "conc"}
	var deps [][]int
	for {
		sc.Family = vlib.Pick(r, "chain", "fanin", "fanout", "diamond", "layered", "forest", "random")
		deps = genGraph(r, sc.Family, maxN)
		if len(deps) >= 3 {
			break
		}
	}
	n := len(deps)
	above := func(root int) map[int]bool { // root and everything that depends on it
		up := map[int]bool{root: true}
		for i := root + 1; i < n; i++ {
			for _, d := range deps[i] {
				if up[d] {
					up[i] = true
				}
			}
		}
		return up
	}
	closure := func(set map[int]bool) map[int]bool { // set plus transitive dependencies
		w := map[int]bool{}
		for i := n - 1; i >= 0; i-- {
			if set[i] || w[i] {
				w[i] = true
				for _, d := range deps[i] {
					w[d] = true
				}
			}
		}
		return w
	}
	mods := make([]ModSpec, n)
	for i := 0; i < n; i++ {
		ms := ModSpec{Name: modName(i)}
		for _, d := range deps[i] {
			ms.Deps = append(ms.Deps, modName(d))
		}
		ms.Prep = Behav{DelayUs: r.Range(0, 300)}
		ms.Start = Behav{DelayUs: r.Range(0, 2500)}
		ms.Stop = Behav{DelayUs: r.Range(0, 3000)}
		mods[i] = ms
	}
	nClients := r.Range(2, 3)
	conc := &ConcSpec{Kind: kind, Clients: make([][]Step, nClients)}
	if kind == "shutdown" {
		hasRev := make([]bool, n)
		for i := range deps {
			for _, d := range deps[i] {
				hasRev[d] = true
			}
		}
		var tops []int
		for i := 0; i < n; i++ {
			if !hasRev[i] {
				tops = append(tops, i)
			}
		}
		conc.Park, conc.ParkPhase = modName(tops[r.Intn(len(tops))]), "stop"
		for c := range conc.Clients {
			conc.Clients[c] = []Step{{Op: "shutdown"}}
		}
	} else {
		sc.Mgmt = true
		sc.Notify = r.Bool()
		park := r.Intn(n)
		conc.Park, conc.ParkPhase = modName(park), "start"
		excl := above(park)
		init := map[int]bool{}
		for i := 0; i < n; i++ {
			if !excl[i] && r.Chance(1, 2) {
				init[i] = true
				sc.InitEnable = append(sc.InitEnable, modName(i))
			}
		}
		initWanted := closure(init)
		parkWanted := closure(map[int]bool{park: true})
		owner := make([]int, n) // every module is enabled/disabled by one client only
		for i := range owner {
			owner[i] = r.Intn(nClients)
		}
		owner[park] = 0
		conc.Clients[0] = []Step{{Op: "enable", Mod: modName(park)}, {Op: "manage"}}
		for c := 1; c < nClients; c++ {
			var fresh, on, own []int
			for i := 0; i < n; i++ {
				if owner[i] != c {
					continue
				}
				own = append(own, i)
				switch {
				case init[i]:
					on = append(on, i)
				case !initWanted[i] && !parkWanted[i]:
					fresh = append(fresh, i)
				}
			}
			var steps []Step
			switch {
			case len(fresh) > 0 && (len(on) == 0 || r.Chance(2, 3)):
				steps = append(steps, Step{Op: "enable", Mod: modName(fresh[r.Intn(len(fresh))])})
			case len(on) > 0:
				steps = append(steps, Step{Op: "disable", Mod: modName(on[r.Intn(len(on))])})
			}
			steps = append(steps, Step{Op: "manage"})
			if len(own) > 0 && r.Chance(1, 2) {
				op := vlib.Pick(r, "enable", "disable")
				steps = append(steps, Step{Op: op, Mod: modName(own[r.Intn(len(own))])}, Step{Op: "manage"})
			}
			conc.Clients[c] = steps
		}
	}
	sc.Conc = conc
	vlib.Shuffle(r, mods)
	sc.Mods = mods
	return sc
}

// genWideScenario builds one wide level: 10-24 (thorough: 10-40) independent modules,
// 1-3 of which fail to start (error or panic), all finishing their start routines at
// about the same time, so that many start reports wait for the manager at once.
func genWideScenario(r *vlib.Rand, tier string, id int) Scenario {
	sc := Scenario{ID: id, Family: "wide", FailPhase: "start", Delays: "wide"}
	w := r.Range(10, 24)
	if tier == "thorough" {
		w = r.Range(10, 40)
	}
	mods := make([]ModSpec, w)
	for i := range mods {
		mods[i] = ModSpec{Name: modName(i), Prep: Behav{Nil: r.Chance(1, 2)}, Start: Behav{DelayUs: r.Range(0, 250)}, Stop: Behav{DelayUs: r.Range(0, 500)}}
	}
	perm := make([]int, w)
	for i := range perm {
		perm[i] = i
	}
	vlib.Shuffle(r, perm)
	nFail := r.Range(1, 3)
	for _, i := range perm[:nFail] {
		mods[i].Start.Fail = vlib.Pick(r, "err", "err", "panic", "panic-err", "err-wrapped", "err-canceled", "err-wrapped-canceled", "err-canceled", "err-deadline", "err-cleanexit", "err-restart", "err-typed-nil")
		mods[i].Start.FailFirst = -1
		mods[i].Start.DelayUs = r.Range(0, 60) // a failing report takes longer to produce
	}
	sc.Wide = &WideSpec{Mode: "burst"}
	if r.Bool() {
		// held: a succeeding routine, then a failing one, then 1-2 succeeding ones
		sc.Wide.Mode = "held"
		sc.Wide.Hold = modName(perm[w-1])
		order := []int{perm[nFail], perm[0], perm[nFail+1]}
		if r.Bool() {
			order = append(order, perm[nFail+2])
		}
		for _, i := range order {
			sc.Wide.Order = append(sc.Wide.Order, modName(i))
		}
	}
	vlib.Shuffle(r, mods)
	sc.Mods = mods
	return sc
}

// genSetEnabledScenario builds a fault-free life with management on in which a module
// D that is online as a dependency of an enabled module X is switched with
// SetEnabled(bool); then X is disabled and a pass decides whether D stays.
func genSetEnabledScenario(r *vlib.Rand, maxN, id int) Scenario {
	sc := Scenario{ID: id, FailPhase: "none", Delays: "small", Mgmt: true, Notify: r.Bool()}
	var deps [][]int
	for {
		sc.Family = vlib.Pick(r, "chain", "fanin", "fanout", "diamond", "layered", "forest", "random")
		deps = genGraph(r, sc.Family, maxN)
		edges := 0
		for _, d := range deps {
			edges += len(d)
		}
		if len(deps) >= 2 && edges > 0 {
			break
		}
	}
	n := len(deps)
	mods := make([]ModSpec, n)
	var withDeps []int
	for i := 0; i < n; i++ {
		ms := ModSpec{Name: modName(i)}
		for _, d := range deps[i] {
			ms.Deps = append(ms.Deps, modName(d))
		}
		ms.Prep = Behav{DelayUs: r.Range(0, 500)}
		ms.Start = Behav{DelayUs: r.Range(0, 2000)}
		ms.Stop = Behav{DelayUs: r.Range(0, 2000)}
		mods[i] = ms
		if len(deps[i]) > 0 {
			withDeps = append(withDeps, i)
		}
	}
	x := withDeps[r.Intn(len(withDeps))]
	d := deps[x][r.Intn(len(deps[x]))]
	sc.InitEnable = []string{modName(x)}
	dOn := r.Bool()
	if dOn {
		sc.InitEnable = append(sc.InitEnable, modName(d))
	}
	for i := 0; i < n; i++ {
		if i != x && i != d && r.Chance(1, 5) {
			sc.InitEnable = append(sc.InitEnable, modName(i))
		}
	}
	set := "set-on"
	if dOn {
		set = "set-off"
	}
	sc.Steps = append(sc.Steps, Step{Op: set, Mod: modName(d)})
	if r.Bool() {
		sc.Steps = append(sc.Steps, Step{Op: "manage"})
	}
	sc.Steps = append(sc.Steps, Step{Op: vlib.Pick(r, "disable", "set-off"), Mod: modName(x)}, Step{Op: "manage"})
	for rounds := r.Range(0, 2); rounds > 0; rounds-- {
		op := vlib.Pick(r, "enable", "set-on", "disable", "set-off")
		sc.Steps = append(sc.Steps, Step{Op: op, Mod: modName(r.Intn(n))}, Step{Op: "manage"})
	}
	vlib.Shuffle(r, mods)
	sc.Mods = mods
	return sc
}

// genPrepSwitchScenario builds a life with management on in which nothing fails and
// the program changes its mind during Start: a module X that was enabled before Start
// and has dependencies is disabled from the global prep function or from the prep
// routine of another module (sometimes another module is enabled there as well).
func genPrepSwitchScenario(r *vlib.Rand, maxN, id int) Scenario {
	sc := Scenario{ID: id, FailPhase: "none", Delays: "small", Mgmt: true, Notify: r.Bool()}
	var deps [][]int
	for {
		sc.Family = vlib.Pick(r, "chain", "fanin", "fanout", "diamond", "layered", "forest", "random")
		deps = genGraph(r, sc.Family, maxN)
		edges := 0
		for _, d := range deps {
			edges += len(d)
		}
		if len(deps) >= 3 && edges > 0 {
			break
		}
	}
	n := len(deps)
	mods := make([]ModSpec, n)
	var withDeps []int
	for i := 0; i < n; i++ {
		ms := ModSpec{Name: modName(i)}
		for _, d := range deps[i] {
			ms.Deps = append(ms.Deps, modName(d))
		}
		ms.Prep = Behav{DelayUs: r.Range(0, 2000)}
		ms.Start = Behav{DelayUs: r.Range(0, 3000)}
		ms.Stop = Behav{DelayUs: r.Range(0, 3000)}
		mods[i] = ms
		if len(deps[i]) > 0 {
			withDeps = append(withDeps, i)
		}
	}
	x := withDeps[r.Intn(len(withDeps))]
	sc.InitEnable = []string{modName(x)}
	var others []int
	for i := 0; i < n; i++ {
		if i != x {
			others = append(others, i)
			if r.Chance(1, 4) {
				sc.InitEnable = append(sc.InitEnable, modName(i))
			}
		}
	}
	vlib.Shuffle(r, sc.InitEnable)
	src := "globalprep"
	if r.Bool() {
		src = modName(others[r.Intn(len(others))])
	}
	sc.PrepOps = map[string][]Step{src: {{Op: "disable", Mod: modName(x)}}}
	if r.Chance(1, 3) {
		y := others[r.Intn(len(others))]
		src2 := vlib.Pick(r, "globalprep", modName(x))
		sc.PrepOps[src2] = append(sc.PrepOps[src2], Step{Op: "enable", Mod: modName(y)})
	}
	for rounds := r.Range(0, 2); rounds > 0; rounds-- {
		op := vlib.Pick(r, "enable", "enable", "disable")
		sc.Steps = append(sc.Steps, Step{Op: op, Mod: modName(r.Intn(n))}, Step{Op: "manage"})
	}
	vlib.Shuffle(r, mods)
	sc.Mods = mods
	return sc
}

// signature identifies graph × behaviours × management script (module names are
// positional, so equal shapes generated the same way get equal names).
func (sc *Scenario) signature() string {
	ms := append([]ModSpec{}, sc.Mods...)
	sort.Slice(ms, func(i, j int) bool { return ms[i].Name < ms[j].Name })
	var sb strings.Builder
	bh := func(b Behav) string {
		if b.Nil {
			return "-"
		}
		d := "0"
		switch {
		case b.DelayUs > 8000:
			d = "L"
		case b.DelayUs > 500:
			d = "S"
		}
		return fmt.Sprintf("%s%s%d", d, b.Fail, b.FailFirst)
	}
	for _, m := range ms {
		ds := append([]string{}, m.Deps...)
		sort.Strings(ds)
		fmt.Fprintf(&sb, "%s<%s|%s,%s,%s;", m.Name, strings.Join(ds, ","), bh(m.Prep), bh(m.Start), bh(m.Stop))
	}
	fmt.Fprintf(&sb, "mgmt=%v;", sc.Mgmt)
	ie := append([]string{}, sc.InitEnable...)
	sort.Strings(ie)
	sb.WriteString(strings.Join(ie, ","))
	for _, s := range sc.Steps {
		fmt.Fprintf(&sb, ";%s:%s", s.Op, s.Mod)
	}
	if len(sc.PrepOps) > 0 {
		var ks []string
		for k := range sc.PrepOps {
			ks = append(ks, k)
		}
		sort.Strings(ks)
		for _, k := range ks {
			for _, st := range sc.PrepOps[k] {
				fmt.Fprintf(&sb, ";%s>%s:%s", k, st.Op, st.Mod)
			}
		}
	}
	if sc.Wide != nil {
		fmt.Fprintf(&sb, ";wide=%s/%s/%v", sc.Wide.Mode, sc.Wide.Hold, sc.Wide.Order)
	}
	if sc.Conc != nil {
		fmt.Fprintf(&sb, ";conc=%s/%s", sc.Conc.Kind, sc.Conc.Park)
		for c, steps := range sc.Conc.Clients {
			for _, s := range steps {
				fmt.Fprintf(&sb, ";c%d:%s:%s", c, s.Op, s.Mod)
			}
		}
	}
	return sb.String()
}
