package main

import (
	"fmt"
	"math"
	"sort"
	"strings"

	"verifharness/internal/vlib"
)

// portbase status values (modules/status.go)
const (
	stDead      = 0
	stPreparing = 1
	stOffline   = 2
	stStopping  = 3
	stStarting  = 4
	stOnline    = 5
)

var stName = map[int]string{0: "dead", 1: "preparing", 2: "offline", 3: "stopping", 4: "starting", 5: "online"}

const inf = math.MaxUint64

// Finding is one contradiction between the observed life and the C01 statement.
type Finding struct {
	Sig  string `json:"sig"`
	What string `json:"what"`
}

// inv is one invocation of a lifecycle callback.
type inv struct {
	n          int
	begin, end uint64 // end == 0: never ended in the log
	res        string
	seen       map[string]int // status of modules without the relevant callback, read when this callback began
}

type modLog struct {
	prep, start, stop []inv
}

// apiCall is one Start / ManageModules / Shutdown call of the driver goroutine.
type apiCall struct {
	op           string
	call, ret    uint64
	err          string // "" = nil
	who          string
	wanted       map[string]bool // modules that must be online after a nil return (the determined part)
	maybe        map[string]bool // modules that may be online (wanted, or touched by a concurrent Enable/Disable)
	overlap      bool            // a Start/ManageModules/Shutdown call of another client overlapped this one
	snap         map[string]int  // statuses right after the return
	snapSeq      uint64
	prepSwitched bool // Enable/Disable calls from the prep stage of this Start count for its wanted set
	failedBefore bool // an earlier Start/ManageModules returned an error
}

// Verdict is the outcome of judging one scenario.
type Verdict struct {
	Findings []Finding
	Incon    []string // reasons why some oracle could not decide
	// coverage
	Events                           int
	MaxConc                          map[string]int // phase -> max simultaneously running callbacks
	StartOK, StartFail, Stops, Preps int
	PrepFail, StopFail               int
	PassNil, PassErr                 int
	StartNil                         bool
	ShutdownErr                      string
	LateStarts                       int // start callbacks still running when the API call that launched them returned
	Restarts                         int // modules started more than once
	RetriedInPass                    int // a module's start routine launched twice by one Start/ManageModules call
	RetriedDetail                    string
	PrepSwitchedChecks               int // wanted-set checks of a Start during whose prep stage modules were switched
	OverlapCalls                     int // Start/ManageModules/Shutdown calls that overlapped a call of another client
	WantedChecks, OrderChecks        int
}

func fInt(f map[string]any, k string) int {
	switch v := f[k].(type) {
	case float64:
		return int(v)
	case int:
		return v
	case int64:
		return int(v)
	}
	return 0
}

func fStr(f map[string]any, k string) string {
	if s, ok := f[k].(string); ok {
		return s
	}
	return ""
}

func statusMap(f map[string]any) map[string]int {
	out := map[string]int{}
	if m, ok := f["status"].(map[string]any); ok {
		for k := range m {
			out[k] = fInt(m, k)
		}
	}
	return out
}

func sortedKeys(m map[string]bool) []string {
	var ks []string
	for k, v := range m {
		if v {
			ks = append(ks, k)
		}
	}
	sort.Strings(ks)
	return ks
}

// judge decides the C01 statement on one recorded life. It demands only what the
// statement says:
//
//	O1 a start routine begins only while every dependency is started (its start ended
//	   successfully before, and its stop has not begun since)
//	O2 a stop routine begins only when no started module that depends on it is still
//	   between the begin of its (successful) start and the end of its stop
//	O3 prep at most once per module, after the successful prep of its dependencies, all
//	   preps ended before any start began; exactly once when Start got past preparation
//	O4 Start / ManageModules returned nil  =>  online set == wanted set
//	O5 Shutdown returned => nobody online, and (at quiescence) one stop per successful start
func judge(sc *Scenario, out *ChildOut) *Verdict {
	v := &Verdict{MaxConc: map[string]int{}, Events: len(out.Events)}
	spec := map[string]*ModSpec{}
	rev := map[string][]string{}
	var names []string
	for i := range sc.Mods {
		m := &sc.Mods[i]
		spec[m.Name] = m
		names = append(names, m.Name)
	}
	sort.Strings(names)
	for _, m := range sc.Mods {
		for _, d := range m.Deps {
			rev[d] = append(rev[d], m.Name)
		}
	}
	add := func(sig, format string, a ...any) {
		v.Findings = append(v.Findings, Finding{Sig: sig, What: fmt.Sprintf(format, a...)})
	}

	// ---- parse the log -------------------------------------------------------------
	logs := map[string]*modLog{}
	for _, n := range names {
		logs[n] = &modLog{}
	}
	// Enable/Disable calls of all clients
	type flagOp struct {
		mod       string
		on        bool
		call, ret uint64 // ret == 0: did not return inside the log
		inPrep    bool   // made from the global prep function or a prep routine
	}
	var ops []*flagOp
	openOp := map[string]*flagOp{}
	var calls []*apiCall
	curBy := map[string]*apiCall{} // the latest Start/ManageModules/Shutdown call per client
	var quiescent map[string]int
	running := map[string]int{}
	anyFailed := false
	for _, e := range out.Events {
		switch e.Kind {
		case "begin", "end":
			ml := logs[e.Who]
			if ml == nil {
				v.Incon = append(v.Incon, "event of unknown module "+e.Who)
				continue
			}
			var lst *[]inv
			switch e.Op {
			case "prep":
				lst = &ml.prep
			case "start":
				lst = &ml.start
			case "stop":
				lst = &ml.stop
			default:
				continue
			}
			k := fInt(e.F, "n")
			if e.Kind == "begin" {
				iv := inv{n: k, begin: e.Seq}
				if sm, ok := e.F["seen"].(map[string]any); ok {
					iv.seen = map[string]int{}
					for o := range sm {
						iv.seen[o] = fInt(sm, o)
					}
				}
				*lst = append(*lst, iv)
				running[e.Op]++
				if running[e.Op] > v.MaxConc[e.Op] {
					v.MaxConc[e.Op] = running[e.Op]
				}
			} else {
				running[e.Op]--
				for i := range *lst {
					if (*lst)[i].n == k {
						(*lst)[i].end = e.Seq
						(*lst)[i].res = fStr(e.F, "res")
					}
				}
			}
		case "ret":
			switch e.Op {
			case "enable", "disable", "set-on", "set-off":
				if o := openOp[e.Who]; o != nil {
					o.ret = e.Seq
					delete(openOp, e.Who)
				}
			case "Start", "ManageModules", "Shutdown":
				if cur := curBy[e.Who]; cur != nil && cur.ret == 0 {
					cur.ret = e.Seq
					cur.err = fStr(e.F, "err")
					if cur.op != "Shutdown" && cur.err != "" {
						anyFailed = true
					}
				}
			}
		case "call":
			switch e.Op {
			case "enable", "disable", "set-on", "set-off":
				o := &flagOp{mod: fStr(e.F, "m"), on: e.Op == "enable" || e.Op == "set-on", call: e.Seq,
					inPrep: e.Who == "globalprep" || strings.HasPrefix(e.Who, "prep:")}
				ops = append(ops, o)
				openOp[e.Who] = o
			case "Start", "ManageModules", "Shutdown":
				cur := &apiCall{op: e.Op, who: e.Who, call: e.Seq, failedBefore: anyFailed}
				curBy[e.Who] = cur
				calls = append(calls, cur)
			}
		case "snap":
			if e.Op == "quiescent" {
				quiescent = statusMap(e.F)
			} else if cur := curBy[e.Who]; cur != nil && cur.snap == nil && cur.ret != 0 {
				cur.snap = statusMap(e.F)
				cur.snapSeq = e.Seq
			}
		}
	}
	// The wanted set of a pass is fixed by the Enable/Disable calls that returned before
	// the pass was called. A call of another client that was in progress or issued while
	// the pass ran - up to the moment the caller took its snapshot - makes that module
	// undetermined: it need not be online, but it may be. (Every module is switched by
	// one client only, so the calls on one module are ordered.)
	for _, c := range calls {
		if c.op == "Shutdown" {
			continue
		}
		until := c.snapSeq
		if until == 0 {
			until = inf
		}
		// Start evaluates the wanted set after the preparation stage: a call made from
		// the global prep function or from a prep routine has returned before that, so
		// it counts although it was made while Start was running
		firstStart := uint64(inf)
		if c.op == "Start" {
			for _, n := range names {
				for _, st := range logs[n].start {
					if st.begin > c.call && st.begin < firstStart {
						firstStart = st.begin
					}
				}
			}
		}
		sure, open := map[string]bool{}, map[string]bool{}
		for _, o := range ops { // in call order
			switch {
			case o.ret != 0 && o.ret < c.call:
				sure[o.mod] = o.on
			case c.op == "Start" && o.inPrep && o.ret != 0 && o.call > c.call && o.ret < firstStart && (c.ret == 0 || o.ret < c.ret):
				sure[o.mod] = o.on
				c.prepSwitched = true
			case o.call < until:
				open[o.mod] = true
			}
		}
		may := map[string]bool{}
		for m, on := range sure {
			may[m] = on
		}
		for m := range open {
			sure[m] = false
			may[m] = true
		}
		c.wanted = wantedSet(sc, spec, sure)
		c.maybe = wantedSet(sc, spec, may)
	}
	for _, c := range calls {
		for _, o := range calls {
			if o != c && o.who != c.who && o.call < c.ret && (o.ret == 0 || o.ret > c.call) {
				c.overlap = true
			}
		}
		if c.overlap {
			v.OverlapCalls++
		}
	}

	// ---- coverage ------------------------------------------------------------------
	for _, n := range names {
		ml := logs[n]
		v.Preps += len(ml.prep)
		for _, p := range ml.prep {
			if p.end != 0 && p.res != "ok" {
				v.PrepFail++
			}
		}
		for _, s := range ml.start {
			if s.end != 0 && s.res == "ok" {
				v.StartOK++
			} else if s.end != 0 {
				v.StartFail++
			}
			if c := launcher(calls, s.begin); c != nil && c.ret != 0 && (s.end == 0 || s.end > c.ret) {
				v.LateStarts++
			}
		}
		if len(ml.start) > 1 {
			v.Restarts++
		}
		// the same Start/ManageModules call launched the start routine of one module twice
		for i := 1; i < len(ml.start); i++ {
			a, b := launcher(calls, ml.start[i-1].begin), launcher(calls, ml.start[i].begin)
			if a != nil && a == b {
				v.RetriedInPass++
				v.RetriedDetail = fmt.Sprintf("%s: start %s launched again by the same %s call (seq %d): %s", n, n, a.op, a.call, fmtInvs(ml.start))
			}
		}
		v.Stops += len(ml.stop)
		for _, s := range ml.stop {
			if s.end != 0 && s.res != "ok" {
				v.StopFail++
			}
		}
	}
	for _, c := range calls {
		switch c.op {
		case "Start":
			v.StartNil = c.ret != 0 && c.err == ""
		case "ManageModules":
			if c.ret != 0 && c.err == "" {
				v.PassNil++
			} else if c.ret != 0 {
				v.PassErr++
			}
		case "Shutdown":
			switch {
			case c.ret == 0:
				v.ShutdownErr = "no-return"
			case c.err == "":
				v.ShutdownErr = "nil"
			case strings.Contains(c.err, "dependency loop"):
				v.ShutdownErr = "dependency-loop"
			default:
				v.ShutdownErr = "stop-error"
			}
		}
	}

	// ---- derived intervals ---------------------------------------------------------
	// run i of module m: successful start i (begin sb, end se) and the first stop that
	// began after se (begin tb, end te; inf if none).
	type run struct{ sb, se, tb, te uint64 }
	runs := map[string][]run{}
	for _, n := range names {
		ml := logs[n]
		for _, s := range ml.start {
			if s.end == 0 || s.res != "ok" {
				continue
			}
			r := run{sb: s.begin, se: s.end, tb: inf, te: inf}
			for _, t := range ml.stop {
				if t.begin > s.end {
					r.tb = t.begin
					if t.end != 0 {
						r.te = t.end
					}
					break
				}
			}
			runs[n] = append(runs[n], r)
		}
	}

	// ---- O1: start only while every dependency is started ----------------------------
	for _, n := range names {
		for _, s := range logs[n].start {
			for _, d := range spec[n].Deps {
				if spec[d].Start.Nil {
					continue // the dependency's start is not observable
				}
				v.OrderChecks++
				ok, ever := false, false
				for _, r := range runs[d] {
					if r.se < s.begin {
						ever = true
						if s.begin < r.tb {
							ok = true
						}
					}
				}
				if ok {
					continue
				}
				if !ever {
					add("C01:start-order:dependency-not-started",
						"start routine of %s (#%d) began at seq %d although its dependency %s had not finished starting successfully (start events of %s: %s)",
						n, s.n, s.begin, d, d, fmtInvs(logs[d].start))
				} else {
					add("C01:start-order:dependency-stopped",
						"start routine of %s (#%d) began at seq %d although the stop routine of its dependency %s had begun since %s last finished starting (stop events of %s: %s)",
						n, s.n, s.begin, d, d, d, fmtInvs(logs[d].stop))
				}
			}
		}
	}

	// O1 for dependencies registered without a start function: portbase's own record
	// (status online) is the only evidence that they "finished starting successfully"
	for _, n := range names {
		for _, s := range logs[n].start {
			for _, d := range spec[n].Deps {
				st, ok := s.seen[d]
				if !ok || !spec[d].Start.Nil {
					continue
				}
				v.OrderChecks++
				if st != stOnline {
					add("C01:start-order:dependency-not-online:nil-start",
						"start routine of %s (#%d) began at seq %d although its dependency %s (registered without start function) was %s, not online",
						n, s.n, s.begin, d, stName[st])
				}
			}
		}
	}

	// ---- O2: stop only after every started dependent has completely stopped ----------
	// "depends on it" is taken transitively: a module two levels up still runs on top of
	// it. On a correct implementation the indirect demand follows from the direct one
	// (an intermediate module can only be taken offline after the modules above it), so
	// it asks nothing new; it decides the cases in which the intermediate module has no
	// stop function and therefore no events.
	indirect := map[string][]string{}
	for _, n := range names {
		seenUp := map[string]bool{}
		var walk func(x string, depth int)
		walk = func(x string, depth int) {
			for _, r := range rev[x] {
				if !seenUp[r] {
					seenUp[r] = true
					walk(r, depth+1)
				}
			}
		}
		walk(n, 0)
		direct := map[string]bool{}
		for _, r := range rev[n] {
			direct[r] = true
		}
		for r := range seenUp {
			if !direct[r] {
				indirect[n] = append(indirect[n], r)
			}
		}
		sort.Strings(indirect[n])
	}
	for _, n := range names {
		for _, t := range logs[n].stop {
			for _, r := range indirect[n] {
				if spec[r].Start.Nil || spec[r].Stop.Nil {
					continue
				}
				v.OrderChecks++
				for _, ru := range runs[r] {
					if ru.se < t.begin && t.begin < ru.te {
						sig := "C01:stop-order:indirect-dependent-still-started"
						if ru.tb < t.begin {
							sig = "C01:stop-order:indirect-dependent-stop-still-running"
						}
						add(sig,
							"stop routine of %s (#%d) began at seq %d although %s, which depends on it through other modules, was started (start ended ok at seq %d) and had not completely stopped (stop begin=%s end=%s)",
							n, t.n, t.begin, r, ru.se, seqStr(ru.tb), seqStr(ru.te))
					}
				}
			}
			// direct dependents without stop or start function: decided by their status.
			// stopping and online are the states of a started module that has not
			// completely stopped ("starting" is left out: such a start may still fail).
			for _, r := range rev[n] {
				st, ok := t.seen[r]
				if !ok {
					continue
				}
				v.OrderChecks++
				if st == stOnline || st == stStopping {
					cls := "nil-stop"
					if !spec[r].Stop.Nil {
						cls = "nil-start"
					}
					add("C01:stop-order:dependent-not-offline:"+cls,
						"stop routine of %s (#%d) began at seq %d although %s, which depends on it, was %s (it has no %s function, its status is the only record of it)",
						n, t.n, t.begin, r, stName[st], strings.TrimPrefix(cls, "nil-"))
				}
			}
		}
	}
	for _, n := range names {
		for _, t := range logs[n].stop {
			for _, r := range rev[n] {
				if spec[r].Start.Nil || spec[r].Stop.Nil {
					continue // run interval of the dependent is not observable
				}
				v.OrderChecks++
				for _, ru := range runs[r] {
					if ru.se < t.begin && t.begin < ru.te {
						// two different failures of the mechanism: the dependent was not
						// asked to stop at all, or its stop routine was still running
						sig := "C01:stop-order:dependent-still-started"
						if ru.tb < t.begin {
							sig = "C01:stop-order:dependent-stop-still-running"
						}
						add(sig,
							"stop routine of %s (#%d) began at seq %d although %s, which depends on it, was started (start ended ok at seq %d) and had not completely stopped (stop begin=%s end=%s)",
							n, t.n, t.begin, r, ru.se, seqStr(ru.tb), seqStr(ru.te))
					} else if ru.sb < t.begin && t.begin < ru.se {
						add("C01:stop-order:dependent-starting",
							"stop routine of %s (#%d) began at seq %d while the (eventually successful) start routine of %s, which depends on it, was running (seq %d..%d)",
							n, t.n, t.begin, r, ru.sb, ru.se)
					}
				}
			}
		}
	}

	// ---- O3: prep ---------------------------------------------------------------------
	firstStart := uint64(inf)
	firstStartMod := ""
	for _, n := range names {
		for _, s := range logs[n].start {
			if s.begin < firstStart {
				firstStart, firstStartMod = s.begin, n
			}
		}
	}
	prepStageDone := firstStart != inf
	for _, c := range calls {
		if c.op == "Start" && c.ret != 0 && c.err == "" {
			prepStageDone = true
		}
	}
	for _, n := range names {
		if spec[n].Prep.Nil {
			continue
		}
		ps := logs[n].prep
		v.OrderChecks++
		if len(ps) > 1 {
			add("C01:prep:more-than-once", "prep routine of %s ran %d times: %s", n, len(ps), fmtInvs(ps))
		}
		if len(ps) == 0 && prepStageDone {
			add("C01:prep:never-ran", "prep routine of %s never ran although Start got past the preparation stage (first start: %s at seq %d)", n, firstStartMod, firstStart)
		}
		for _, p := range ps {
			if firstStart != inf && (p.end == 0 || p.end > firstStart) {
				add("C01:prep:not-before-start", "prep routine of %s (seq %d..%s) had not ended when the start routine of %s began at seq %d", n, p.begin, seqStr0(p.end), firstStartMod, firstStart)
			}
			for _, d := range spec[n].Deps {
				if spec[d].Prep.Nil {
					// no prep events: portbase's status must at least say "prepared"
					if st, ok := p.seen[d]; ok && st < stOffline {
						add("C01:prep:before-dependency:nil-prep", "prep routine of %s began at seq %d although its dependency %s (registered without prep function) was %s, not yet prepared", n, p.begin, d, stName[st])
					}
					continue
				}
				okd := false
				for _, q := range logs[d].prep {
					if q.end != 0 && q.res == "ok" && q.end < p.begin {
						okd = true
					}
				}
				if !okd {
					add("C01:prep:before-dependency", "prep routine of %s began at seq %d although the prep of its dependency %s had not ended successfully (prep events of %s: %s)", n, p.begin, d, d, fmtInvs(logs[d].prep))
				}
			}
		}
	}

	// ---- O4: wanted set after a pass that returned nil -------------------------------
	for _, c := range calls {
		if c.op == "Shutdown" || c.ret == 0 || c.err != "" {
			continue
		}
		if c.snap == nil {
			v.Incon = append(v.Incon, "no status snapshot after "+c.op)
			continue
		}
		v.WantedChecks++
		var missing, extra []string
		for _, n := range names {
			on := c.snap[n] == stOnline
			if c.wanted[n] && !on {
				missing = append(missing, fmt.Sprintf("%s(%s)", n, stName[c.snap[n]]))
			}
			if !c.maybe[n] && on {
				extra = append(extra, n)
			}
		}
		cls := ""
		if c.failedBefore {
			cls = ":after-failed-pass"
		}
		if c.overlap {
			cls += ":concurrent-call"
		}
		if c.prepSwitched {
			cls += ":switched-during-prep"
			v.PrepSwitchedChecks++
		}
		if len(missing) > 0 {
			add("C01:wanted-set:"+c.op+":missing"+cls,
				"%s returned nil (seq %d) but wanted modules are not online: %s; wanted=%v", c.op, c.ret, strings.Join(missing, " "), sortedKeys(c.wanted))
		}
		if len(extra) > 0 {
			add("C01:wanted-set:"+c.op+":extra"+cls,
				"%s returned nil (seq %d) but modules outside the wanted set are online: %s; wanted=%v", c.op, c.ret, strings.Join(extra, " "), sortedKeys(c.wanted))
		}
	}

	// ---- O5: after Shutdown ----------------------------------------------------------
	var sd *apiCall // the Shutdown call that returned last
	var sds []*apiCall
	for _, c := range calls {
		if c.op == "Shutdown" && c.ret != 0 {
			sds = append(sds, c)
			if sd == nil || c.ret > sd.ret {
				sd = c
			}
		}
	}
	if sd == nil {
		v.Incon = append(v.Incon, "Shutdown did not return inside the log")
		return v
	}
	// why a module was left behind (precondition class of the signature)
	lastStartFailed := func(n string) bool {
		ss := logs[n].start
		return len(ss) > 0 && ss[len(ss)-1].end != 0 && ss[len(ss)-1].res != "ok"
	}
	var belowFailed func(n string, seen map[string]bool) bool
	belowFailed = func(n string, seen map[string]bool) bool {
		for _, r := range rev[n] {
			if seen[r] {
				continue
			}
			seen[r] = true
			if lastStartFailed(r) || belowFailed(r, seen) {
				return true
			}
		}
		return false
	}
	lateRun := func(n string) bool { // last successful start ended after the API call that launched it had returned
		// the snapshot after a failed pass showing "starting" says the same (the only
		// observation for a nil start function; also covers a callback that had returned
		// but whose result portbase had not processed yet when the pass returned)
		for _, c := range calls {
			if c.op != "Shutdown" && c.err != "" && c.snap != nil && c.snap[n] == stStarting && !lastStartFailed(n) {
				return true
			}
		}
		rs := runs[n]
		if len(rs) == 0 {
			return false
		}
		r := rs[len(rs)-1]
		c := launcher(calls, r.sb)
		return c != nil && c.ret != 0 && r.se > c.ret
	}
	var belowLate func(n string, seen map[string]bool) bool
	belowLate = func(n string, seen map[string]bool) bool {
		for _, r := range rev[n] {
			if seen[r] {
				continue
			}
			seen[r] = true
			if lateRun(r) || belowLate(r, seen) {
				return true
			}
		}
		return false
	}
	class := func(n string) string {
		switch {
		case lateRun(n):
			return "start-in-flight-at-return"
		case belowLate(n, map[string]bool{}):
			return "dependency-of-start-in-flight"
		case belowFailed(n, map[string]bool{}):
			return "dependency-of-failed-start"
		}
		return "other"
	}
	// every Shutdown call that returns - also one that only reports that a shutdown was
	// already initiated - promises its caller that nothing is online any more and that
	// every successful start has had its stop routine invoked
	for _, c := range sds {
		cls := class
		if c.overlap {
			cls = func(string) string { return "overlapping-shutdown" }
		}
		if c.snap != nil {
			for _, n := range names {
				if c.snap[n] == stOnline {
					add("C01:shutdown:online-at-return:"+cls(n),
						"Shutdown (client %s) returned at seq %d (err=%q) but module %s is still online; statuses: %s", c.who, c.ret, c.err, n, fmtStatus(names, c.snap))
				}
			}
		}
		if !c.overlap {
			continue // for a single Shutdown the count is taken at quiescence below
		}
		for _, n := range names {
			if spec[n].Start.Nil || spec[n].Stop.Nil {
				continue
			}
			v.OrderChecks++
			nS, nT := 0, 0
			for _, st := range logs[n].start {
				if st.end != 0 && st.end < c.ret && st.res == "ok" {
					nS++
				}
			}
			for _, t := range logs[n].stop {
				if t.begin < c.ret {
					nT++
				}
			}
			if nT < nS {
				add("C01:stop-count:not-invoked-at-return:overlapping-shutdown",
					"Shutdown (client %s) returned at seq %d (err=%q) but module %s had %d successful start(s) and only %d stop invocation(s) by then (starts: %s; stops: %s)",
					c.who, c.ret, c.err, n, nS, nT, fmtInvs(logs[n].start), fmtInvs(logs[n].stop))
			}
		}
	}
	if !out.Quiesced || quiescent == nil {
		v.Incon = append(v.Incon, "callbacks still running at the end of the scenario: stop-count oracle not evaluated")
		return v
	}
	for _, n := range names {
		if quiescent[n] == stOnline && (sd.snap == nil || sd.snap[n] != stOnline) {
			add("C01:shutdown:online-after-return:"+class(n),
				"module %s came online after Shutdown had returned (err=%q) and nothing stops it any more; statuses at quiescence: %s", n, sd.err, fmtStatus(names, quiescent))
		}
	}
	for _, n := range names {
		if spec[n].Start.Nil || spec[n].Stop.Nil {
			continue
		}
		// alternation S (successful start end) / T (stop begin)
		type ev struct {
			seq uint64
			k   byte
			n   int
		}
		var evs []ev
		for _, s := range logs[n].start {
			if s.end != 0 && s.res == "ok" {
				evs = append(evs, ev{s.end, 'S', s.n})
			}
		}
		for _, t := range logs[n].stop {
			evs = append(evs, ev{t.begin, 'T', t.n})
		}
		sort.Slice(evs, func(i, j int) bool { return evs[i].seq < evs[j].seq })
		v.OrderChecks++
		started := false
		for _, e := range evs {
			switch {
			case e.k == 'S' && started:
				add("C01:stop-count:restarted-without-stop", "module %s finished a successful start (#%d, seq %d) although its previous successful start was never followed by a stop", n, e.n, e.seq)
			case e.k == 'S':
				started = true
			case e.k == 'T' && !started:
				add("C01:stop-count:stop-without-successful-start", "stop routine of %s (#%d) began at seq %d without a preceding successful start that was not yet stopped (starts: %s)", n, e.n, e.seq, fmtInvs(logs[n].start))
			default:
				started = false
			}
		}
		if started {
			add("C01:stop-count:never-stopped:"+class(n),
				"Shutdown returned (err=%q) and the system is quiescent, but module %s was started successfully (starts: %s) and its stop routine was not invoked afterwards (stops: %s); status now %s",
				sd.err, n, fmtInvs(logs[n].start), fmtInvs(logs[n].stop), stName[quiescent[n]])
		}
	}
	return v
}

// launcher returns the Start/ManageModules call that launched a start routine which
// began at seq: the last such call made before it (only these two launch starts, and the
// driver makes its calls one after the other). The routine itself may begin after that
// call has already returned, when its goroutine is scheduled late.
func launcher(calls []*apiCall, seq uint64) *apiCall {
	var l *apiCall
	for _, c := range calls {
		if c.op != "Shutdown" && c.call < seq {
			l = c
		}
	}
	return l
}

// wantedSet computes the modules that have to be online after a successful pass.
func wantedSet(sc *Scenario, spec map[string]*ModSpec, enabled map[string]bool) map[string]bool {
	w := map[string]bool{}
	if !sc.Mgmt {
		for n := range spec {
			w[n] = true
		}
		return w
	}
	var mark func(n string)
	mark = func(n string) {
		if w[n] {
			return
		}
		w[n] = true
		for _, d := range spec[n].Deps {
			mark(d)
		}
	}
	for n, on := range enabled {
		if on {
			mark(n)
		}
	}
	return w
}

func seqStr(s uint64) string {
	if s == inf {
		return "never"
	}
	return fmt.Sprint(s)
}

func seqStr0(s uint64) string {
	if s == 0 {
		return "never"
	}
	return fmt.Sprint(s)
}

func fmtInvs(is []inv) string {
	if len(is) == 0 {
		return "none"
	}
	var parts []string
	for _, i := range is {
		parts = append(parts, fmt.Sprintf("#%d[%d..%s %s]", i.n, i.begin, seqStr0(i.end), i.res))
	}
	return strings.Join(parts, " ")
}

func fmtStatus(names []string, st map[string]int) string {
	var parts []string
	for _, n := range names {
		parts = append(parts, n+"="+stName[st[n]])
	}
	return strings.Join(parts, " ")
}

// keep vlib imported for the Event type used by ChildOut
var _ = vlib.Event{}
