package main

import (
	"fmt"
	"math"
	"strconv"
	"strings"
)

// tval is a JSON-serialisable description of one Go value handed to portbase (so that
// a history is a replayable spec). T names the dynamic Go type.
type tval struct {
	T string   `json:"t"`
	S string   `json:"s,omitempty"` // scalar in strconv form
	L []string `json:"l,omitempty"` // []string
	E []tval   `json:"e,omitempty"` // []interface{} elements
}

func (v tval) String() string {
	switch v.T {
	case "[]string":
		return fmt.Sprintf("[]string%q", v.L)
	case "[]any":
		var p []string
		for _, e := range v.E {
			p = append(p, e.String())
		}
		return "[]any{" + strings.Join(p, ",") + "}"
	case "string":
		return fmt.Sprintf("string(%q)", v.S)
	}
	return v.T + "(" + v.S + ")"
}

func tS(s string) tval          { return tval{T: "string", S: s} }
func tB(b bool) tval            { return tval{T: "bool", S: strconv.FormatBool(b)} }
func tI(t string, i int64) tval { return tval{T: t, S: strconv.FormatInt(i, 10)} }
func tF(t string, f float64) tval {
	return tval{T: t, S: strconv.FormatFloat(f, 'g', -1, 64)}
}
func tL(l []string) tval { return tval{T: "[]string", L: append([]string{}, l...)} }
func tA(l []string) tval {
	v := tval{T: "[]any", E: []tval{}}
	for _, s := range l {
		v.E = append(v.E, tS(s))
	}
	return v
}

var intRanges = map[string][2]int64{
	"int": {math.MinInt64, math.MaxInt64}, "int8": {math.MinInt8, math.MaxInt8}, "int16": {math.MinInt16, math.MaxInt16},
	"int32": {math.MinInt32, math.MaxInt32}, "int64": {math.MinInt64, math.MaxInt64},
	"uint": {0, math.MaxInt64}, "uint8": {0, math.MaxUint8}, "uint16": {0, math.MaxUint16}, "uint32": {0, math.MaxUint32},
	"uint64": {0, math.MaxInt64}, "uintptr": {0, math.MaxInt64},
}

// goValue builds the Go value the tval describes.
func (v tval) goValue() interface{} {
	switch v.T {
	case "nil":
		return nil
	case "string":
		return v.S
	case "bool":
		return v.S == "true"
	case "int", "int8", "int16", "int32", "int64", "uint", "uint8", "uint16", "uint32", "uint64", "uintptr":
		i, _ := strconv.ParseInt(v.S, 10, 64)
		switch v.T {
		case "int":
			return int(i)
		case "int8":
			return int8(i)
		case "int16":
			return int16(i)
		case "int32":
			return int32(i)
		case "int64":
			return i
		case "uint":
			return uint(i)
		case "uint8":
			return uint8(i)
		case "uint16":
			return uint16(i)
		case "uint32":
			return uint32(i)
		case "uint64":
			return uint64(i)
		default:
			return uintptr(i)
		}
	case "float32":
		f, _ := strconv.ParseFloat(v.S, 64)
		return float32(f)
	case "float64":
		f, _ := strconv.ParseFloat(v.S, 64)
		return f
	case "[]string":
		return append([]string{}, v.L...)
	case "[]string-nil":
		return []string(nil)
	case "[]any":
		out := make([]interface{}, 0, len(v.E))
		for _, e := range v.E {
			out = append(out, e.goValue())
		}
		return out
	case "[]any-nil":
		return []interface{}(nil)
	case "[]byte":
		return []byte(v.S)
	case "[]rune":
		return []rune(v.S)
	case "[]int":
		return []int{1, 2}
	case "map":
		return map[string]interface{}{"x": v.S}
	case "struct":
		return struct{ X string }{v.S}
	case "ptr":
		x := 0
		return &x
	}
	panic("h_config: unknown tval type " + v.T)
}

// jsonShape returns the value as encoding/json would decode it into interface{}
// after it was marshalled (what a config file or an API client delivers).
func jsonShapeOf(x interface{}) tval {
	switch t := x.(type) {
	case nil:
		return tval{T: "nil"}
	case string:
		return tS(t)
	case bool:
		return tB(t)
	case float64:
		return tF("float64", t)
	case []interface{}:
		v := tval{T: "[]any", E: []tval{}}
		for _, e := range t {
			v.E = append(v.E, jsonShapeOf(e))
		}
		return v
	case map[string]interface{}:
		return tval{T: "map", S: "obj"}
	}
	return tval{T: "struct", S: fmt.Sprint(x)}
}

// mval is a canonical option value in the model (which field counts is given by the
// option type).
type mval struct {
	S string   `json:"s,omitempty"`
	A []string `json:"a,omitempty"`
	I int64    `json:"i,omitempty"`
	B bool     `json:"b,omitempty"`
}

func (a mval) equal(b mval, typ int) bool {
	switch typ {
	case tString:
		return a.S == b.S
	case tInt:
		return a.I == b.I
	case tBool:
		return a.B == b.B
	case tArray:
		if len(a.A) != len(b.A) { // nil and empty are the same list
			return false
		}
		for i := range a.A {
			if a.A[i] != b.A[i] {
				return false
			}
		}
		return true
	}
	return false
}

func (a mval) show(typ int) string {
	switch typ {
	case tString:
		return fmt.Sprintf("%q", a.S)
	case tInt:
		return strconv.FormatInt(a.I, 10)
	case tBool:
		return strconv.FormatBool(a.B)
	case tArray:
		return fmt.Sprintf("%q", a.A)
	}
	return "?"
}

// canonical Go value of an mval (what a Go caller would pass).
func (a mval) tval(typ int) tval {
	switch typ {
	case tString:
		return tS(a.S)
	case tInt:
		return tI("int64", a.I)
	case tBool:
		return tB(a.B)
	default:
		return tL(a.A)
	}
}

// fromGo converts a value returned by portbase (UserValue, GetActiveConfigValues) to
// an mval; ok=false if its dynamic type is not the canonical one for the option type.
func fromGo(x interface{}, typ int) (mval, bool) {
	switch typ {
	case tString:
		s, ok := x.(string)
		return mval{S: s}, ok
	case tInt:
		i, ok := x.(int64)
		return mval{I: i}, ok
	case tBool:
		b, ok := x.(bool)
		return mval{B: b}, ok
	case tArray:
		a, ok := x.([]string)
		return mval{A: a}, ok
	}
	return mval{}, false
}
