package main

import (
	"fmt"
	"math"
	"regexp"
	"sort"

	"verifharness/internal/vlib"
)

// history is the replayable spec of one sequential case.
type history struct {
	ID      string    `json:"id"`
	Opts    []optSpec `json:"opts"`
	Unknown []string  `json:"unknown"`
	Ops     []op      `json:"ops"`
}

type op struct {
	K      string          `json:"k"` // set setdef replace replacedef save load loadjson setfile getters perspective
	Key    string          `json:"key,omitempty"`
	Val    *tval           `json:"val,omitempty"`
	Map    map[string]tval `json:"map,omitempty"`
	Strict bool            `json:"strict,omitempty"`
	Seed   uint64          `json:"seed,omitempty"` // sub-stream for sampling inside the step
}

func (o op) String() string {
	switch o.K {
	case "set", "setdef":
		return fmt.Sprintf("%s(%s, %s)", o.K, o.Key, o.Val)
	case "replace", "replacedef", "loadjson", "perspective", "validate":
		ks := make([]string, 0, len(o.Map))
		for k := range o.Map {
			ks = append(ks, k)
		}
		sort.Strings(ks)
		s := o.K + "{"
		for i, k := range ks {
			if i > 0 {
				s += ", "
			}
			s += k + ": " + o.Map[k].String()
		}
		return s + "}"
	}
	return o.K
}

var (
	strVocab = []string{"alpha", "beta", "gamma", "delta", "x", "axe", "v1", "v12", "v1234", "A", "", "ünï", "a b",
		"with\"quote", "<tag>&", "line\nbreak", "stable", "0", "42", "experimental"}
	arrVocab = []string{"black", "white", "grey", "red", "x1", "UP", "", "a.b-c"}
	intVocab = []int64{0, 1, 2, 3, 5, 10, -1, -5, 100, 255, 256, 1000, 65535, 999999, 1000000, 1234567, 2000000,
		1 << 31, -(1 << 31), 1 << 53, -(1 << 53), 42, 127, -128, 20, 500}
	intTypes = []string{"int", "int8", "int16", "int32", "int64", "uint", "uint8", "uint16", "uint32", "float32", "float64"}
)

func fitsInt(t string, n int64) bool {
	switch t {
	case "float64":
		return math.Abs(float64(n)) <= 1<<53
	case "float32":
		return int64(float32(n)) == n && math.Abs(float64(n)) <= 1<<24
	}
	r := intRanges[t]
	return n >= r[0] && n <= r[1]
}

func intAs(r *vlib.Rand, n int64) tval {
	for i := 0; i < 20; i++ {
		t := intTypes[r.Intn(len(intTypes))]
		if fitsInt(t, n) {
			if t == "float32" || t == "float64" {
				return tF(t, float64(n))
			}
			return tI(t, n)
		}
	}
	return tI("int64", n)
}

func randArr(r *vlib.Rand, vocab []string) []string {
	n := r.Intn(5)
	out := make([]string, 0, n)
	for i := 0; i < n; i++ {
		out = append(out, vocab[r.Intn(len(vocab))])
	}
	return out
}

// candidates returns a diverse list of values to offer to an option: acceptable and
// unacceptable ones, in every Go type and JSON-decoded shape.
func candidates(r *vlib.Rand, o optSpec) []tval {
	var c []tval
	wrong := []tval{tS("alpha"), tS("5"), tS("true"), tI("int", 5), tI("int64", 0), tB(true), tB(false), tL([]string{"alpha"}),
		tA([]string{"black"}), tF("float64", 1), tF("float64", 2.5), {T: "[]byte", S: "alpha"}, {T: "[]rune", S: "beta"},
		{T: "[]int"}, {T: "map", S: "m"}, {T: "struct", S: "s"}, {T: "ptr"}, tI("uint64", 5), {T: "[]any", E: []tval{tI("int", 1)}}}
	switch o.Type {
	case tString:
		for _, s := range strVocab {
			c = append(c, tS(s))
		}
		for _, p := range o.Possible {
			c = append(c, p, p)
		}
	case tInt:
		for _, n := range intVocab {
			c = append(c, intAs(r, n), tI(vlib.Pick(r, "int", "int64"), n))
			if fitsInt("float64", n) {
				c = append(c, tF("float64", float64(n)))
			}
		}
		for _, p := range o.Possible {
			n := mustInt(p.S)
			c = append(c, intAs(r, n), intAs(r, n), tF("float64", float64(n)))
			// narrow types that wrap around to an allowed value
			c = append(c, tI("int8", int64(int8(n))), tI("uint8", int64(uint8(n))), tI("int16", int64(int16(n))), tI("uint16", int64(uint16(n))))
		}
		c = append(c, tF("float64", 1.5), tF("float64", -0.25), tF("float32", 2.5), tF("float64", 1e-9), tval{T: "float64", S: "NaN"},
			tval{T: "float64", S: "+Inf"}, tI("uint64", 5), tI("uint64", 1000000), tI("uintptr", 3))
	case tArray:
		vocab := arrVocab
		for i := 0; i < 10; i++ {
			a := randArr(r, vocab)
			switch r.Intn(3) {
			case 0:
				c = append(c, tL(a))
			case 1:
				c = append(c, tA(a))
			default:
				c = append(c, tL(a), tA(a))
			}
		}
		if len(o.Possible) > 0 {
			var pv []string
			for _, p := range o.Possible {
				pv = append(pv, p.S)
			}
			for i := 0; i < 6; i++ {
				a := randArr(r, pv)
				c = append(c, vlib.Pick(r, tL(a), tA(a)))
			}
		}
		c = append(c, tval{T: "[]string-nil"}, tval{T: "[]any-nil"}, tL([]string{}), tA([]string{}),
			tval{T: "[]any", E: []tval{tS("black"), tI("int", 1)}}, tval{T: "[]any", E: []tval{{T: "nil"}}},
			tval{T: "[]any", E: []tval{tS("white"), tB(true)}}, tval{T: "[]any", E: []tval{tA([]string{"black"})}},
			tL([]string{"black", "black"}), tL([]string{"black", "white", "grey"}))
	case tBool:
		c = append(c, tB(true), tB(false), tB(true), tB(false), tB(true), tB(false))
	}
	// values of foreign types
	n := 4
	if o.Type == tBool {
		n = 6
	}
	for i := 0; i < n; i++ {
		c = append(c, wrong[r.Intn(len(wrong))])
	}
	return c
}

func mustInt(s string) int64 {
	var n int64
	fmt.Sscan(s, &n)
	return n
}

type pool struct {
	valid, invalid []tval
}

func makePool(r *vlib.Rand, o optSpec, avoid map[string]bool) (pool, error) {
	mo, err := tempOpt(o)
	if err != nil {
		return pool{}, err
	}
	var p pool
	for _, v := range candidates(r, o) {
		if avoid[avoidClass(o, v)] {
			continue
		}
		verdict, _ := classify(mo, v)
		if verdict == vReject {
			p.invalid = append(p.invalid, v)
		} else {
			p.valid = append(p.valid, v)
		}
	}
	return p, nil
}

func tempOpt(o optSpec) (*mOpt, error) {
	// a model option without checking the default
	mo := &mOpt{Spec: o}
	if o.Regex != "" {
		re, err := regexp.Compile(o.Regex)
		if err != nil {
			return nil, err
		}
		mo.re = re
	}
	return mo, nil
}

// avoidClass is the value class that is left out of later histories of a child once
// it made portbase panic (the panic itself is reported; avoiding the class afterwards
// keeps the rest of the batch observable).
func avoidClass(o optSpec, v tval) string {
	c := v.T
	if len(o.Possible) > 0 {
		c += "+allowed"
	}
	return c
}

func (p pool) pick(r *vlib.Rand, validNum, den int) tval {
	if len(p.valid) > 0 && (len(p.invalid) == 0 || r.Chance(validNum, den)) {
		return p.valid[r.Intn(len(p.valid))]
	}
	if len(p.invalid) > 0 {
		return p.invalid[r.Intn(len(p.invalid))]
	}
	return tval{T: "nil"}
}

// genOption draws one option: type, constraints, release level and a default that
// satisfies the constraints.
func genOption(r *vlib.Rand, key string, typ int, avoid map[string]bool) optSpec {
	for attempt := 0; ; attempt++ {
		o := optSpec{Key: key, Type: typ, Release: r.Intn(3)}
		useRe := typ != tBool && r.Chance(35, 100)
		usePos := r.Chance(30, 100)
		useVF := r.Chance(30, 100)
		if attempt > 6 {
			useRe, usePos, useVF = false, false, false
		}
		switch typ {
		case tString:
			if useRe {
				o.Regex = vlib.Pick(r, `^[a-z]+$`, `^(alpha|beta|gamma)$`, `^v[0-9]{1,3}$`, `a`, `^[a-z0-9]*$`)
			}
			if usePos {
				all := []string{"alpha", "beta", "gamma", "delta", "v1"}
				vlib.Shuffle(r, all)
				for _, s := range all[:r.Range(2, 3)] {
					o.Possible = append(o.Possible, tS(s))
				}
			}
			if useVF {
				o.VF = vlib.Pick(r, "maxlen:5", "nox", "maxlen:4")
			}
		case tInt:
			if useRe {
				o.Regex = vlib.Pick(r, `^[0-9]+$`, `^-?[0-9]{1,3}$`, `^[0-9]*[05]$`, `^-?[0-9]+$`, `^[0-9]{1,7}$`)
				if usePos && r.Bool() {
					o.Regex = `^-?[0-9]+$`
				}
			}
			if usePos {
				for _, n := range vlib.Pick(r, []int64{1, 2, 3}, []int64{0, 255, 1000000}, []int64{-1, 255, 65535}, []int64{5, 10, 2000000}) {
					o.Possible = append(o.Possible, tI("int", n))
				}
			}
			if useVF {
				o.VF = vlib.Pick(r, "range:-10:1000", "even", "range:0:9007199254740992")
			}
		case tArray:
			if useRe {
				o.Regex = vlib.Pick(r, `^[a-z]+$`, `^[a-z0-9.-]*$`, `^[a-zA-Z0-9]+$`)
			}
			if usePos {
				all := []string{"black", "white", "grey", "red"}
				vlib.Shuffle(r, all)
				for _, s := range all[:r.Range(2, 3)] {
					o.Possible = append(o.Possible, tS(s))
				}
			}
			if useVF {
				o.VF = vlib.Pick(r, "arrmax:2", "nodup", "arrmax:3")
			}
		case tBool:
			if usePos {
				for _, b := range vlib.Pick(r, []bool{true}, []bool{false}, []bool{true, false}) {
					o.Possible = append(o.Possible, tB(b))
				}
			}
			if useVF {
				o.VF = vlib.Pick(r, "musttrue", "mustfalse")
			}
		}
		p, err := makePool(r, o, avoid)
		if err != nil {
			continue
		}
		// need at least two distinct acceptable canonical values (one for bool with constraints)
		mo, _ := tempOpt(o)
		distinct := map[string]bool{}
		var canonValid []tval
		for _, v := range p.valid {
			verdict, c := classify(mo, v)
			if verdict != vAccept {
				continue
			}
			if !distinct[c.show(typ)] {
				canonValid = append(canonValid, c.tval(typ))
			}
			distinct[c.show(typ)] = true
		}
		need := 2
		if typ == tBool {
			need = 1
		}
		if len(distinct) < need {
			continue
		}
		o.Default = canonValid[r.Intn(len(canonValid))]
		if typ == tInt && r.Bool() {
			o.Default.T = "int"
		}
		return o
	}
}

var optNames = map[int][]string{
	tString: {"s1", "grp/s2", "deep/er/s3", "S4"},
	tArray:  {"a1", "grp/a2", "lists/a3", "A_4"},
	tInt:    {"i1", "grp/i2", "num/i3", "I4"},
	tBool:   {"b1", "grp/b2", "flags/b3", "B4"},
}

// genHistory draws the options and the operation list of one sequential case.
func genHistory(r *vlib.Rand, id string, steps int, avoid map[string]bool) history {
	h := history{ID: id}
	nOpt := r.Range(4, 8)
	used := map[string]bool{}
	for i := 0; i < nOpt; i++ {
		typ := 1 + (i+r.Intn(2))%4
		names := optNames[typ]
		name := names[r.Intn(len(names))]
		if used[name] {
			continue
		}
		used[name] = true
		h.Opts = append(h.Opts, genOption(r, id+"/"+name, typ, avoid))
	}
	h.Unknown = []string{id + "/nope", id + "/ghost/x", "zz" + id}
	pools := map[string]pool{}
	all := append([]optSpec{}, h.Opts...)
	bm := newModel()
	for _, k := range []string{rlKey, exKey} {
		all = append(all, bm.opts[k].Spec)
	}
	for _, o := range all {
		pools[o.Key], _ = makePool(r, o, avoid)
	}
	pickKey := func() string {
		x := r.Intn(100)
		switch {
		case x < 68:
			return h.Opts[r.Intn(len(h.Opts))].Key
		case x < 84:
			return rlKey
		case x < 89:
			return exKey
		default:
			return h.Unknown[r.Intn(len(h.Unknown))]
		}
	}
	pickVal := func(key string) tval {
		if r.Chance(10, 100) {
			return tval{T: "nil"}
		}
		if p, ok := pools[key]; ok {
			return p.pick(r, 62, 100)
		}
		return vlib.Pick(r, tS("alpha"), tI("int", 1), tB(true), tL([]string{"black"}))
	}
	genMap := func(jsonOnly, safe bool) map[string]tval {
		mp := map[string]tval{}
		for _, o := range all {
			p := 50
			if o.Builtin {
				p = 35
			}
			if !r.Chance(p, 100) {
				continue
			}
			for try := 0; try < 10; try++ {
				v := pools[o.Key].pick(r, 65, 100)
				if r.Chance(4, 100) && !safe {
					v = tval{T: "nil"}
				}
				bad := avoid[avoidClass(o, v)] || (jsonOnly && !jsonable(v)) ||
					(safe && (v.T == "nil" || v.T == "[]byte" || v.T == "[]rune"))
				if !bad {
					mp[o.Key] = v
					break
				}
			}
		}
		if r.Chance(30, 100) {
			mp[h.Unknown[r.Intn(2)]] = vlib.Pick(r, tS("alpha"), tI("int", 1), tB(true))
		}
		return mp
	}
	fileOn := false
	for len(h.Ops) < steps {
		x := r.Intn(100)
		o := op{Seed: r.Uint64()}
		switch {
		case len(h.Ops) == 0 && r.Chance(75, 100), x < 3:
			o.K = "setfile"
			fileOn = true
		case x < 33:
			o.K, o.Key = "set", pickKey()
			v := pickVal(o.Key)
			o.Val = &v
		case x < 50:
			o.K, o.Key = "setdef", pickKey()
			v := pickVal(o.Key)
			o.Val = &v
		case x < 60:
			o.K, o.Map = "replace", genMap(false, false)
		case x < 67:
			o.K, o.Map = "replacedef", genMap(false, false)
		case x < 72:
			o.K = "save"
		case x < 80:
			if !fileOn {
				continue
			}
			o.K, o.Strict = "load", r.Bool()
		case x < 85:
			if !fileOn {
				continue
			}
			o.K, o.Map = "loadjson", genMap(true, false)
		case x < 93:
			o.K = "getters"
		case x < 97:
			o.K, o.Map = "perspective", genMap(false, true)
		default:
			o.K, o.Map = "validate", genMap(false, false)
			o.Key = pickKey()
			v := pickVal(o.Key)
			if v.T == "nil" {
				v = tS("alpha")
			}
			o.Val = &v
		}
		h.Ops = append(h.Ops, o)
	}
	return h
}

func jsonable(v tval) bool {
	switch v.T {
	case "nil", "string", "bool", "int", "int8", "int16", "int32", "int64", "uint", "uint8", "uint16", "uint32", "uint64", "[]string", "[]string-nil":
		return true
	case "float32", "float64":
		return v.S != "NaN" && v.S != "+Inf"
	case "[]any", "[]any-nil":
		for _, e := range v.E {
			if !jsonable(e) {
				return false
			}
		}
		return true
	}
	return false
}
