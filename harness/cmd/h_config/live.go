package main

import (
	"encoding/json"
	"fmt"
	"os"
	"path/filepath"

	"github.com/safing/portbase/config"
	_ "github.com/safing/portbase/database/dbmodule" // the config module depends on the database module
	"github.com/safing/portbase/dataroot"
	"github.com/safing/portbase/log"
	"github.com/safing/portbase/modules"

	"verifharness/internal/vlib"
)

// ---------------------------------------------------------------------------------
// histories with the module system started, and the real restart:
// phase 1 ("live") runs a sequential history with config.json under the data root and
// leaves expect.json; phase 2 ("restart") is a new process that registers the same
// options, starts the modules on the same data root and must observe the saved user
// layer through every channel.

type expectFile struct {
	Opts []optSpec       `json:"opts"`
	User map[string]mval `json:"user"`
}

func startLive(shared string) (string, error) {
	root := filepath.Join(shared, "dataroot")
	if err := os.MkdirAll(root, 0o755); err != nil {
		return "", err
	}
	if err := dataroot.Initialize(root, 0o755); err != nil {
		return "", fmt.Errorf("dataroot: %w", err)
	}
	modules.SetStdErrReporting(false)
	log.SetLogLevel(log.CriticalLevel)
	if err := modules.Start(); err != nil {
		return "", fmt.Errorf("modules.Start: %w", err)
	}
	return filepath.Join(root, "config.json"), nil
}

// liveBuiltins adds the options that config's prep registers to the model.
func liveBuiltins(m *model) error {
	lv := func(names ...string) []tval {
		var out []tval
		for _, n := range names {
			out = append(out, tS(n))
		}
		return out
	}
	if err := m.register(optSpec{Key: config.CfgDevModeKey, Type: tBool, Default: tB(false), Builtin: true}, -1); err != nil {
		return err
	}
	if err := m.register(optSpec{Key: config.CfgLogLevel, Type: tString, Default: tS("critical"),
		Possible: lv("critical", "error", "warning", "info", "debug", "trace"), Builtin: true}, -1); err != nil {
		return err
	}
	// neither is ever written by a history (the log level must stay where it is)
	return nil
}

func runLive(b *vlib.Batch, cs childSpec, scratch string) {
	path, err := startLive(cs.Shared)
	if err != nil {
		b.Inconclusive("live child: %v", err)
		return
	}
	sr := &seqRun{b: b, m: newModel(), dir: scratch, avoid: map[string]bool{}, livePath: path}
	if err := liveBuiltins(sr.m); err != nil {
		b.Note("harness: %v", err)
		return
	}
	r := vlib.NewRand(cs.Seed, fmt.Sprintf("C04/live/%d", cs.Batch), 0)
	id := fmt.Sprintf("l%d", cs.Batch)
	hist := genHistory(r, id, cs.Steps, sr.avoid)
	failed := sr.runHistory(hist, r.Uint64())
	b.Count("live_histories", 1)
	if !failed {
		// what a restart must find: the user layer as of the last save
		if err := config.SaveConfig(); err != nil {
			b.Violation("C04:save-error:SaveConfig", "SaveConfig returned "+err.Error(), map[string]any{"mode": "live"})
		}
		ex := expectFile{Opts: hist.Opts, User: map[string]mval{}}
		for k, o := range sr.m.opts {
			if o.user != nil {
				ex.User[k] = *o.user
			}
		}
		data, _ := json.Marshal(ex)
		_ = os.WriteFile(filepath.Join(cs.Shared, "expect.json"), data, 0o644)
	}
	if err := modules.Shutdown(); err != nil {
		b.Note("modules.Shutdown: %v", err)
	}
}

func runRestart(b *vlib.Batch, cs childSpec, scratch string) {
	data, err := os.ReadFile(filepath.Join(cs.Shared, "expect.json"))
	if err != nil {
		b.Note("restart: phase 1 left no expectation (it failed earlier)")
		return
	}
	var ex expectFile
	if err := json.Unmarshal(data, &ex); err != nil {
		b.Note("harness: expect.json: %v", err)
		return
	}
	m := newModel()
	sr := &seqRun{b: b, m: m, dir: scratch, avoid: map[string]bool{}}
	// like an application: options are registered before the config module loads the file
	for _, s := range ex.Opts {
		if err := m.register(s, 0); err != nil {
			b.Note("harness: %v", err)
			return
		}
		if err := config.Register(toOption(s, b)); err != nil {
			b.Note("restart: Register(%s): %v", s.Key, err)
			return
		}
	}
	path, err := startLive(cs.Shared)
	if err != nil {
		b.Inconclusive("restart child: %v", err)
		return
	}
	if err := liveBuiltins(m); err != nil {
		b.Note("harness: %v", err)
		return
	}
	// the start sets the default layer of the log level
	dl := mval{S: "critical"}
	m.opts[config.CfgLogLevel].def = &dl
	b.Eval(1)
	b.DistinctS("restart/" + string(data))
	b.Count("restarts", 1)
	fileText, _ := os.ReadFile(path)
	hr := &histRun{seqRun: sr, h: history{ID: "restart", Opts: ex.Opts, Unknown: []string{"restart/nope"}}, step: -1, prevEff: map[string]mval{}}
	for _, o := range m.opts {
		hr.opts = append(hr.opts, o)
	}
	if verrs := config.GetLoadedConfigValidationErrors(); len(verrs) > 0 {
		b.Note("restart: the load reported %v", verrs)
	}
	for _, k := range m.sortedKeys() {
		mo := m.opts[k]
		opt, gerr := config.GetOption(k)
		if gerr != nil {
			continue
		}
		uv := opt.UserValue()
		want, was := ex.User[k]
		got, ok := fromGo(uv, mo.Spec.Type)
		if (uv != nil) != was || (was && (!ok || !got.equal(want, mo.Spec.Type))) {
			ws := "unset"
			vc := "unset"
			if was {
				ws = want.show(mo.Spec.Type)
				vc = valueClass(mo, want.tval(mo.Spec.Type))
				if mo.Spec.Type == tArray && len(want.A) == 0 {
					vc += ":empty-list"
				}
			}
			b.Violation("C04:restart-lost-value:"+typeNames[mo.Spec.Type]+":"+vc,
				fmt.Sprintf("after a restart on the same data root %s has UserValue()=%v, saved before the shutdown: %s; validation errors of the load: %v",
					k, uv, ws, config.GetLoadedConfigValidationErrors()),
				map[string]any{"mode": "restart", "options": ex.Opts, "expected_user_layer": ex.User, "config_json": string(fileText)})
			_ = modules.Shutdown()
			return
		}
		if was {
			w := want
			mo.user = &w
		}
	}
	hr.check(vlib.NewRand(cs.Seed, "restart", uint64(cs.Batch)), "restart")
	_ = modules.Shutdown()
}
