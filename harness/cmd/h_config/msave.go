package main

import (
	"fmt"
	"os"
	"path/filepath"
	"runtime"
	"strings"
	"sync"
	"sync/atomic"
	"time"

	"github.com/safing/portbase/config"
	"github.com/safing/portbase/utils/vhook"

	"verifharness/internal/vlib"
)

// ---------------------------------------------------------------------------------
// concurrent setters with a configuration file: 2-4 goroutines call SetConfigOption
// (every successful call ends with SaveConfig) on their own and on a shared option,
// each writing unique increasing values, in rounds. At the end of every round all
// setters have returned (logical quiescence) and the oracle demands:
//   - the user layer of every option holds the value of a set that no other set of
//     that option strictly follows (single writer: the last set);
//   - the file parses the way loadConfig parses it and holds exactly the user layer;
//   - after clearing the user layer, a strict load restores exactly that user layer.
// Two readers run the multi-writer regular-register rule over the getters meanwhile.

type msaveScen struct {
	ID      string `json:"id"`
	Setters int    `json:"setters"`
	Rounds  int    `json:"rounds"`
	Burst   int    `json:"burst"`      // sets per setter and round (max)
	SharedP int    `json:"shared_pct"` // chance that a set goes to the shared option
	Extra   int    `json:"extra"`      // further registered options that carry a constant user value
	Delay   bool   `json:"delay"`      // yields at the presignal hook
	Seed    uint64 `json:"seed"`
}

func genMsaveScen(r *vlib.Rand, id string, race bool) msaveScen {
	sc := msaveScen{ID: id, Seed: r.Uint64()}
	sc.Setters = r.Range(2, 4)
	sc.Rounds = r.Range(60, 120)
	if race {
		sc.Rounds = r.Range(30, 60)
	}
	sc.Burst = r.Range(1, 3)
	sc.SharedP = vlib.Pick(r, 0, 0, 25, 50, 100)
	sc.Extra = r.Intn(6)
	sc.Delay = r.Bool()
	return sc
}

type mset struct {
	opt       int
	val       int64
	call, ret uint64
}

type mread struct {
	opt       int
	val       int64
	call, ret uint64
	kind      uint8 // 0 Concurrent-shared, 1 plain-private
}

func runMsaveScenario(b *vlib.Batch, sc msaveScen, dir string) {
	vhook.Clear()
	config.VerifSetConfigFile("")
	config.ReplaceConfig(map[string]interface{}{})
	config.ReplaceDefaultConfig(map[string]interface{}{})
	// option 0 is shared, option 1+j belongs to setter j; even index: int, odd: string
	nOpt := 1 + sc.Setters
	keys := make([]string, nOpt)
	isInt := make([]bool, nOpt)
	for i := range keys {
		keys[i] = fmt.Sprintf("%s/grp%d/o%d", sc.ID, i%2, i)
		isInt[i] = i%2 == 0
		o := &config.Option{Name: keys[i], Key: keys[i], Description: "verif concurrent save", OptType: config.OptTypeString, DefaultValue: "v000000"}
		if isInt[i] {
			o.OptType, o.DefaultValue = config.OptTypeInt, 0
		}
		if err := config.Register(o); err != nil {
			b.Note("harness: register %s: %v", keys[i], err)
			return
		}
	}
	file := filepath.Join(dir, strings.ReplaceAll(sc.ID, "/", "_")+".json")
	_ = os.Remove(file)
	config.VerifSetConfigFile(file)
	defer func() { config.VerifSetConfigFile(""); _ = os.Remove(file) }()
	for i := 0; i < sc.Extra; i++ {
		k := fmt.Sprintf("%s/const/c%d", sc.ID, i)
		_ = config.Register(&config.Option{Name: k, Key: k, Description: "verif constant", OptType: config.OptTypeStringArray, DefaultValue: []string{}})
		_ = config.SetConfigOption(k, []string{"constant", "entries", k})
	}
	goVal := func(opt int, v int64) interface{} {
		if isInt[opt] {
			return v
		}
		return fmt.Sprintf("v%06d", v)
	}
	fromAny := func(opt int, x interface{}) (int64, bool) {
		switch t := x.(type) {
		case nil:
			return 0, true // not set: the initial state
		case int64:
			return t, isInt[opt]
		case float64:
			return int64(t), isInt[opt] && float64(int64(t)) == t
		case string:
			return int64(parseIdx(t)), !isInt[opt] && parseIdx(t) >= 0
		}
		return 0, false
	}
	b.Eval(1)
	b.DistinctS(fmt.Sprintf("msave %+v", sc))
	b.Seen("child_scenarios", "concurrent-setters")
	b.Max("max_concurrent_setters", int64(sc.Setters))

	var seq atomic.Uint64
	var hookRnd atomic.Uint64
	hookRnd.Store(sc.Seed | 1)
	if sc.Delay {
		vhook.Set("config.set.presignal", func(_, _ string) {
			x := hookRnd.Add(0x9e3779b97f4a7c15)
			x ^= x >> 31
			if x%3 == 0 {
				runtime.Gosched()
			}
		})
	}
	defer vhook.Clear()

	sets := make([][]mset, nOpt) // all sets per option, appended at quiescence
	var reads []mread
	sharedG := make([]*concGetter, nOpt)
	for i := range sharedG {
		t := tString
		if isInt[i] {
			t = tInt
		}
		sharedG[i] = newConcGetter(keys[i], t, true)
	}
	detail := func(extra map[string]any) map[string]any {
		d := map[string]any{"mode": "msave", "mscen": sc}
		for k, v := range extra {
			d[k] = v
		}
		return d
	}
	deadline := time.Now().Add(90 * time.Second)
	counter := int64(0) // unique increasing values, handed out before each round
	for round := 0; round < sc.Rounds; round++ {
		if time.Now().After(deadline) {
			b.Inconclusive("concurrent-setter scenario %s hit its 90 s watchdog", sc.ID)
			return
		}
		rr := vlib.NewRand(sc.Seed, "msave-round", uint64(round))
		// plan: which setter sets which option to which value
		plan := make([][]mset, sc.Setters)
		for j := 0; j < sc.Setters; j++ {
			n := rr.Range(1, sc.Burst)
			for x := 0; x < n; x++ {
				counter++
				opt := 1 + j
				if rr.Chance(sc.SharedP, 100) {
					opt = 0
				}
				plan[j] = append(plan[j], mset{opt: opt, val: counter})
			}
		}
		var wg sync.WaitGroup
		start := make(chan struct{})
		var stopReaders atomic.Bool
		errs := make([]error, sc.Setters)
		for j := 0; j < sc.Setters; j++ {
			wg.Add(1)
			go func(j int) {
				defer wg.Done()
				<-start
				for x := range plan[j] {
					s := &plan[j][x]
					s.call = seq.Add(1)
					err := config.SetConfigOption(keys[s.opt], goVal(s.opt, s.val))
					s.ret = seq.Add(1)
					if err != nil {
						errs[j] = err
						return
					}
				}
			}(j)
		}
		var rwg sync.WaitGroup
		roundReads := make([][]mread, 2)
		for ri := 0; ri < 2; ri++ {
			rwg.Add(1)
			go func(ri int) {
				defer rwg.Done()
				rnd := vlib.NewRand(sc.Seed, "msave-reader", uint64(round*2+ri))
				private := make([]*concGetter, nOpt)
				<-start
				for n := 0; n < 40 && !(n >= 8 && stopReaders.Load()); n++ {
					opt := rnd.Intn(nOpt)
					rec := mread{opt: opt}
					g := sharedG[opt]
					if rnd.Bool() {
						if private[opt] == nil {
							t := tString
							if isInt[opt] {
								t = tInt
							}
							private[opt] = newConcGetter(keys[opt], t, false)
						}
						g, rec.kind = private[opt], 1
					}
					rec.call = seq.Add(1)
					rec.val = int64(g.read())
					rec.ret = seq.Add(1)
					roundReads[ri] = append(roundReads[ri], rec)
					if n%4 == 3 {
						runtime.Gosched()
					}
				}
			}(ri)
		}
		close(start)
		wg.Wait()
		stopReaders.Store(true)
		rwg.Wait()
		for j, err := range errs {
			if err != nil {
				b.Violation("C04:concurrent-save:set-error", fmt.Sprintf("setter %d: SetConfigOption of a valid value returned %v", j, err), detail(map[string]any{"round": round}))
				return
			}
		}
		for j := range plan {
			for _, s := range plan[j] {
				sets[s.opt] = append(sets[s.opt], s)
				b.Count("concurrent_setter_sets", 1)
			}
		}
		for _, rs := range roundReads {
			reads = append(reads, rs...)
		}
		b.Count("quiescence_checks", 1)

		// ---- quiescence: every set has returned
		// allowed final values per option: sets that no other set of the option strictly follows
		allowed := make([]map[int64]bool, nOpt)
		for o := 0; o < nOpt; o++ {
			allowed[o] = map[int64]bool{}
			if len(sets[o]) == 0 {
				allowed[o][0] = true
				continue
			}
			var maxCall uint64
			for _, s := range sets[o] {
				if s.call > maxCall {
					maxCall = s.call
				}
			}
			for _, s := range sets[o] {
				if s.ret > maxCall { // nobody began after s returned
					allowed[o][s.val] = true
				}
			}
		}
		class := func(o int) string {
			if o == 0 {
				return "shared-option"
			}
			return "own-option"
		}
		keysOf := func(m map[int64]bool) []int64 {
			var out []int64
			for k := range m {
				out = append(out, k)
			}
			return out
		}
		mem := make([]int64, nOpt)
		for o := 0; o < nOpt; o++ {
			opt, err := config.GetOption(keys[o])
			if err != nil {
				b.Note("harness: %v", err)
				return
			}
			v, ok := fromAny(o, opt.UserValue())
			if !ok || !allowed[o][v] {
				b.Violation("C04:concurrent-save:user-layer-not-last-set:"+class(o),
					fmt.Sprintf("round %d: after all setters returned, UserValue(%s)=%v; values of the sets that nothing follows: %v", round, keys[o], opt.UserValue(), keysOf(allowed[o])),
					detail(map[string]any{"round": round}))
				return
			}
			mem[o] = v
		}
		raw, err := os.ReadFile(file)
		if err != nil {
			b.Violation("C04:concurrent-save:file-missing", "after all setters returned the configuration file cannot be read: "+err.Error(), detail(map[string]any{"round": round}))
			return
		}
		text := string(raw)
		if len(text) > 3000 {
			text = text[:3000]
		}
		flat, err := config.JSONToMap(raw)
		if err != nil {
			b.Violation("C04:concurrent-save:file-unparsable",
				fmt.Sprintf("round %d: %d concurrent SetConfigOption calls all returned nil, but the configuration file does not parse: %v", round, sc.Setters, err),
				detail(map[string]any{"round": round, "file": text}))
			return
		}
		for o := 0; o < nOpt; o++ {
			fv, ok := fromAny(o, flat[keys[o]])
			if !ok || fv != mem[o] {
				kind := "foreign"
				for _, s := range sets[o] {
					if s.val == fv {
						kind = "older-set"
					}
				}
				if flat[keys[o]] == nil {
					kind = "missing"
				}
				b.Violation("C04:concurrent-save:file-differs-from-user-layer:"+kind+":"+class(o),
					fmt.Sprintf("round %d: after all setters returned nil, the file holds %v for %s but the user layer holds %d (sets of this round: %v); loading the file would not restore the user-set value",
						round, flat[keys[o]], keys[o], mem[o], plan), detail(map[string]any{"round": round, "file": text}))
				return
			}
		}
		// every few rounds: clear the user layer and load the file
		if round%4 == 3 || round == sc.Rounds-1 {
			config.ReplaceConfig(map[string]interface{}{})
			if err := config.VerifLoadConfig(true); err != nil {
				b.Violation("C04:concurrent-save:load-error", fmt.Sprintf("round %d: strict load of the file written by the concurrent setters failed: %v", round, err),
					detail(map[string]any{"round": round, "file": text}))
				return
			}
			b.Count("concurrent_save_loads", 1)
			for o := 0; o < nOpt; o++ {
				opt, _ := config.GetOption(keys[o])
				v, ok := fromAny(o, opt.UserValue())
				if !ok || v != mem[o] {
					b.Violation("C04:concurrent-save:load-lost-value:"+class(o),
						fmt.Sprintf("round %d: after clearing and loading, UserValue(%s)=%v, before: %d", round, keys[o], opt.UserValue(), mem[o]), detail(map[string]any{"round": round, "file": text}))
					return
				}
			}
			for i := 0; i < sc.Extra; i++ {
				k := fmt.Sprintf("%s/const/c%d", sc.ID, i)
				opt, _ := config.GetOption(k)
				if a, ok := opt.UserValue().([]string); !ok || len(a) != 3 || a[2] != k {
					b.Violation("C04:concurrent-save:load-lost-value:untouched-option", fmt.Sprintf("round %d: constant option %s has UserValue %v after the load", round, k, opt.UserValue()),
						detail(map[string]any{"round": round, "file": text}))
					return
				}
			}
			// the load counts as a write of the same values by the harness (sequence-wise instantaneous)
		}
	}
	// multi-writer regular-register rule for the reads
	b.Count("multi_setter_reads", int64(len(reads)))
	for _, rd := range reads {
		ss := sets[rd.opt]
		var w *mset
		if rd.val != 0 {
			for i := range ss {
				if ss[i].val == rd.val {
					w = &ss[i]
				}
			}
			if w == nil {
				b.Violation("C04:regular-register-multi:foreign-value:"+readKinds[rd.kind],
					fmt.Sprintf("getter of %s returned value index %d that no setter wrote to it", keys[rd.opt], rd.val), detail(nil))
				return
			}
			if w.call > rd.ret {
				b.Violation("C04:regular-register-multi:future-value:"+readKinds[rd.kind],
					fmt.Sprintf("getter of %s call [%d,%d] returned %d whose set began at %d", keys[rd.opt], rd.call, rd.ret, rd.val, w.call), detail(nil))
				return
			}
		}
		var wret uint64 // initial state "returned" at 0
		if w != nil {
			wret = w.ret
		}
		for i := range ss {
			if s := &ss[i]; s.call > wret && s.ret < rd.call {
				b.Violation("C04:regular-register-multi:stale:"+readKinds[rd.kind],
					fmt.Sprintf("getter of %s call [%d,%d] returned %d (set returned at %d), but the set of %d began at %d and returned at %d, before the read was called",
						keys[rd.opt], rd.call, rd.ret, rd.val, wret, s.val, s.call, s.ret), detail(nil))
				return
			}
		}
	}
}

// ---------------------------------------------------------------------------------
// setter storm: 2-4 setters change options at the same time (no file: the changes and
// their signals overlap as much as possible) while reader goroutines keep refreshing
// getters of every kind (shared Concurrent, private plain, GetActiveConfigValues).
// Per round: regular-register rule for every read; at quiescence every getter that
// lived through the storm shows the final value; then every option is changed once
// more sequentially and the same getters must show that change too.

type stormScen struct {
	ID      string `json:"id"`
	Setters int    `json:"setters"`
	Readers int    `json:"readers"`
	Rounds  int    `json:"rounds"`
	Burst   int    `json:"burst"`
	Layer   string `json:"layer"` // user default
	Sync    bool   `json:"sync"`  // pair the setters up at the presignal hook
	SharedP int    `json:"shared_pct"`
	Seed    uint64 `json:"seed"`
}

func genStormScen(r *vlib.Rand, id string, race bool) stormScen {
	sc := stormScen{ID: id, Seed: r.Uint64()}
	sc.Setters = r.Range(2, 4)
	sc.Readers = r.Range(3, 6)
	sc.Rounds = r.Range(40, 70)
	sc.Burst = r.Range(8, 24)
	if race {
		sc.Rounds = r.Range(15, 30)
		sc.Burst = r.Range(5, 12)
	}
	sc.Layer = vlib.Pick(r, "user", "user", "default")
	sc.Sync = r.Chance(60, 100)
	sc.SharedP = vlib.Pick(r, 0, 20, 50)
	return sc
}

var stormKinds = []string{"Concurrent-shared", "plain-private", "GetActiveConfigValues"}

func runStormScenario(b *vlib.Batch, sc stormScen) {
	vhook.Clear()
	config.VerifSetConfigFile("")
	config.ReplaceConfig(map[string]interface{}{})
	config.ReplaceDefaultConfig(map[string]interface{}{})
	nOpt := 1 + sc.Setters
	keys := make([]string, nOpt)
	isInt := make([]bool, nOpt)
	typ := make([]int, nOpt)
	for i := range keys {
		keys[i] = fmt.Sprintf("%s/o%d", sc.ID, i)
		isInt[i] = i%2 == 0
		typ[i] = tString
		o := &config.Option{Name: keys[i], Key: keys[i], Description: "verif setter storm", OptType: config.OptTypeString, DefaultValue: "v000000"}
		if isInt[i] {
			o.OptType, o.DefaultValue, typ[i] = config.OptTypeInt, 0, tInt
		}
		if err := config.Register(o); err != nil {
			b.Note("harness: register %s: %v", keys[i], err)
			return
		}
	}
	user := sc.Layer == "user"
	set := func(opt int, v int64) error {
		var gv interface{} = fmt.Sprintf("v%06d", v)
		if isInt[opt] {
			gv = v
		}
		if user {
			return config.SetConfigOption(keys[opt], gv)
		}
		return config.SetDefaultConfigOption(keys[opt], gv)
	}
	activeIdx := func(act map[string]interface{}, opt int) int64 {
		switch t := act[keys[opt]].(type) {
		case nil:
			return 0
		case int64:
			return t
		case string:
			return int64(parseIdx(t))
		}
		return -1
	}
	b.Eval(1)
	b.DistinctS(fmt.Sprintf("storm %+v", sc))
	b.Seen("child_scenarios", "setter-storm/"+sc.Layer)
	b.Max("max_concurrent_setters", int64(sc.Setters))
	detail := func(extra map[string]any) map[string]any {
		d := map[string]any{"mode": "storm", "storm": sc}
		for k, v := range extra {
			d[k] = v
		}
		return d
	}

	var seq atomic.Uint64
	var arrived atomic.Int64
	if sc.Sync {
		vhook.Set("config.set.presignal", func(_, _ string) {
			n := arrived.Add(1)
			if n%2 == 1 { // wait briefly for a partner so that two signals overlap
				for spin := 0; spin < 300 && arrived.Load() == n; spin++ {
					runtime.Gosched()
				}
			}
		})
	}
	defer vhook.Clear()

	sharedG := make([]*concGetter, nOpt)
	private := make([][]*concGetter, sc.Readers)
	for o := 0; o < nOpt; o++ {
		sharedG[o] = newConcGetter(keys[o], typ[o], true)
	}
	for ri := range private {
		private[ri] = make([]*concGetter, nOpt)
		for o := 0; o < nOpt; o++ {
			private[ri][o] = newConcGetter(keys[o], typ[o], false)
		}
	}
	prev := make([]int64, nOpt) // value in effect at the start of the round
	counter := int64(0)
	deadline := time.Now().Add(90 * time.Second)
	for round := 0; round < sc.Rounds; round++ {
		if time.Now().After(deadline) {
			b.Inconclusive("setter-storm scenario %s hit its 90 s watchdog", sc.ID)
			return
		}
		rr := vlib.NewRand(sc.Seed, "storm-round", uint64(round))
		plan := make([][]mset, sc.Setters)
		for j := range plan {
			for x := 0; x < sc.Burst; x++ {
				counter++
				opt := 1 + j
				if rr.Chance(sc.SharedP, 100) {
					opt = 0
				}
				plan[j] = append(plan[j], mset{opt: opt, val: counter})
			}
		}
		roundStart := seq.Add(1)
		var wg, rwg sync.WaitGroup
		start := make(chan struct{})
		var stop atomic.Bool
		errs := make([]error, sc.Setters)
		for j := range plan {
			wg.Add(1)
			go func(j int) {
				defer wg.Done()
				<-start
				for x := range plan[j] {
					s := &plan[j][x]
					s.call = seq.Add(1)
					err := set(s.opt, s.val)
					s.ret = seq.Add(1)
					if err != nil {
						errs[j] = err
						return
					}
				}
			}(j)
		}
		roundReads := make([][]mread, sc.Readers)
		for ri := 0; ri < sc.Readers; ri++ {
			rwg.Add(1)
			go func(ri int) {
				defer rwg.Done()
				rnd := vlib.NewRand(sc.Seed, "storm-reader", uint64(round*16+ri))
				<-start
				for n := 0; !(n >= 20 && stop.Load()) && n < 200000; n++ {
					rec := len(roundReads[ri]) < 400
					if ri == 0 && user {
						c := seq.Add(1)
						act := config.GetActiveConfigValues()
						t := seq.Add(1)
						if rec {
							for o := 0; o < nOpt; o++ {
								roundReads[ri] = append(roundReads[ri], mread{opt: o, val: activeIdx(act, o), call: c, ret: t, kind: 2})
							}
						}
						continue
					}
					opt := rnd.Intn(nOpt)
					g, kind := sharedG[opt], uint8(0)
					if rnd.Bool() {
						g, kind = private[ri][opt], 1
					}
					if !rec {
						g.read() // keep refreshing without recording
						continue
					}
					c := seq.Add(1)
					v := int64(g.read())
					t := seq.Add(1)
					roundReads[ri] = append(roundReads[ri], mread{opt: opt, val: v, call: c, ret: t, kind: kind})
				}
			}(ri)
		}
		close(start)
		wg.Wait()
		stop.Store(true)
		rwg.Wait()
		for j, err := range errs {
			if err != nil {
				b.Violation("C04:storm:set-error", fmt.Sprintf("setter %d: a valid value was rejected: %v", j, err), detail(map[string]any{"round": round}))
				return
			}
		}
		b.Count("storm_rounds", 1)
		sets := make([][]mset, nOpt)
		for j := range plan {
			for _, s := range plan[j] {
				sets[s.opt] = append(sets[s.opt], s)
				b.Count("storm_sets", 1)
			}
		}
		// regular-register rule for the reads of this round (the value at round start is a
		// write that returned before the round began)
		for _, rs := range roundReads {
			b.Count("storm_reads_checked", int64(len(rs)))
			for _, rd := range rs {
				ss := sets[rd.opt]
				var wret uint64
				found := rd.val == prev[rd.opt]
				if found {
					wret = roundStart
				}
				for i := range ss {
					if ss[i].val == rd.val {
						found = true
						wret = ss[i].ret
						if ss[i].call > rd.ret {
							found = false
						}
					}
				}
				if !found {
					b.Violation("C04:storm:regular-register:foreign-or-future-value:"+stormKinds[rd.kind],
						fmt.Sprintf("round %d: %s read [%d,%d] of %s returned value index %d, which is neither the value at round start (%d) nor written by a set that had begun", round, stormKinds[rd.kind], rd.call, rd.ret, keys[rd.opt], rd.val, prev[rd.opt]),
						detail(map[string]any{"round": round}))
					return
				}
				for i := range ss {
					if s := &ss[i]; s.val != rd.val && s.call > wret && s.ret < rd.call {
						b.Violation("C04:storm:regular-register:stale:"+stormKinds[rd.kind],
							fmt.Sprintf("round %d: %s read [%d,%d] of %s returned %d (its set returned at %d), but the set of %d began at %d and returned at %d, before the read was called",
								round, stormKinds[rd.kind], rd.call, rd.ret, keys[rd.opt], rd.val, wret, s.val, s.call, s.ret), detail(map[string]any{"round": round}))
						return
					}
				}
			}
		}
		// quiescence: the value in effect is one nothing follows; every getter shows it
		mem := make([]int64, nOpt)
		for o := 0; o < nOpt; o++ {
			mem[o] = int64(newConcGetter(keys[o], typ[o], false).read())
			ok := len(sets[o]) == 0 && mem[o] == prev[o]
			var maxCall uint64
			for _, s := range sets[o] {
				if s.call > maxCall {
					maxCall = s.call
				}
			}
			for _, s := range sets[o] {
				if s.ret > maxCall && s.val == mem[o] {
					ok = true
				}
			}
			if !ok {
				b.Violation("C04:storm:value-not-last-set", fmt.Sprintf("round %d: after all setters returned a new getter of %s yields %d, which is not the value of a set nothing follows", round, keys[o], mem[o]),
					detail(map[string]any{"round": round}))
				return
			}
		}
		checkAll := func(want []int64, phase string) bool {
			for o := 0; o < nOpt; o++ {
				if v := int64(sharedG[o].read()); v != want[o] {
					b.Violation("C04:storm:"+phase+":Concurrent-shared", fmt.Sprintf("round %d: the shared Concurrent getter of %s that lived through the concurrent setters returns %d, current value %d", round, keys[o], v, want[o]), detail(map[string]any{"round": round}))
					return false
				}
				for ri := range private {
					if v := int64(private[ri][o].read()); v != want[o] {
						b.Violation("C04:storm:"+phase+":plain-private", fmt.Sprintf("round %d: the plain getter of %s owned by reader %d returns %d, current value %d", round, keys[o], ri, v, want[o]), detail(map[string]any{"round": round}))
						return false
					}
				}
			}
			if user {
				act := config.GetActiveConfigValues()
				for o := 0; o < nOpt; o++ {
					if v := activeIdx(act, o); v != want[o] {
						b.Violation("C04:storm:"+phase+":GetActiveConfigValues", fmt.Sprintf("round %d: GetActiveConfigValues()[%s] = %v, current user value index %d", round, keys[o], act[keys[o]], want[o]), detail(map[string]any{"round": round}))
						return false
					}
				}
			}
			return true
		}
		if !checkAll(mem, "stale-after-quiescence") {
			return
		}
		// one more change of every option, sequentially
		for o := 0; o < nOpt; o++ {
			counter++
			if err := set(o, counter); err != nil {
				b.Violation("C04:storm:set-error", "sequential set rejected: "+err.Error(), detail(nil))
				return
			}
			mem[o] = counter
		}
		if !checkAll(mem, "stale-after-later-change") {
			return
		}
		copy(prev, mem)
	}
}
