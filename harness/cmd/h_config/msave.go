package main

import (
	"fmt"
	"os"
	"path/filepath"
	"runtime"
	"strings"
	"sync"
	"sync/atomic"
	"time"

	"github.com/safing/portbase/config"
	"github.com/safing/portbase/utils/vhook"

	"verifharness/internal/vlib"
)

// ---------------------------------------------------------------------------------
// concurrent setters with a configuration file: 2-4 goroutines call SetConfigOption
// (every successful call ends with SaveConfig) on their own and on a shared option,
// each writing unique increasing values, in rounds. At the end of every round all
// setters have returned (logical quiescence) and the oracle demands:
//   - the user layer of every option holds the value of a set that no other set of
//     that option strictly follows (single writer: the last set);
//   - the file parses the way loadConfig parses it and holds exactly the user layer;
//   - after clearing the user layer, a strict load restores exactly that user layer.
// Two readers run the multi-writer regular-register rule over the getters meanwhile.

type msaveScen struct {
	ID      string `json:"id"`
	Setters int    `json:"setters"`
	Rounds  int    `json:"rounds"`
	Burst   int    `json:"burst"`      // sets per setter and round (max)
	SharedP int    `json:"shared_pct"` // chance that a set goes to the shared option
	Extra   int    `json:"extra"`      // further registered options that carry a constant user value
	Delay   bool   `json:"delay"`      // yields at the presignal hook
	Seed    uint64 `json:"seed"`
}

func genMsaveScen(r *vlib.Rand, id string, race bool) msaveScen {
	sc := msaveScen{ID: id, Seed: r.Uint64()}
	sc.Setters = r.Range(2, 4)
	sc.Rounds = r.Range(60, 120)
	if race {
		sc.Rounds = r.Range(30, 60)
	}
	sc.Burst = r.Range(1, 3)
	sc.SharedP = vlib.Pick(r, 0, 0, 25, 50, 100)
	sc.Extra = r.Intn(6)
	sc.Delay = r.Bool()
	return sc
}

type mset struct {
	opt       int
	val       int64
	call, ret uint64
}

type mread struct {
	opt       int
	val       int64
	call, ret uint64
	kind      uint8 // 0 Concurrent-shared, 1 plain-private
}

func runMsaveScenario(b *vlib.Batch, sc msaveScen, dir string) {
	vhook.Clear()
	config.VerifSetConfigFile("")
	config.ReplaceConfig(map[string]interface{}{})
	config.ReplaceDefaultConfig(map[string]interface{}{})
	// option 0 is shared, option 1+j belongs to setter j; even index: int, odd: string
	nOpt := 1 + sc.Setters
	keys := make([]string, nOpt)
	isInt := make([]bool, nOpt)
	for i := range keys {
		keys[i] = fmt.Sprintf("%s/grp%d/o%d", sc.ID, i%2, i)
		isInt[i] = i%2 == 0
		o := &config.Option{Name: keys[i], Key: keys[i], Description: "verif concurrent save", OptType: config.OptTypeString, DefaultValue: "v000000"}
		if isInt[i] {
			o.OptType, o.DefaultValue = config.OptTypeInt, 0
		}
		if err := config.Register(o); err != nil {
			b.Note("harness: register %s: %v", keys[i], err)
			return
		}
	}
	file := filepath.Join(dir, strings.ReplaceAll(sc.ID, "/", "_")+".json")
	_ = os.Remove(file)
	config.VerifSetConfigFile(file)
	defer func() { config.VerifSetConfigFile(""); _ = os.Remove(file) }()
	for i := 0; i < sc.Extra; i++ {
		k := fmt.Sprintf("%s/const/c%d", sc.ID, i)
		_ = config.Register(&config.Option{Name: k, Key: k, Description: "verif constant", OptType: config.OptTypeStringArray, DefaultValue: []string{}})
		_ = config.SetConfigOption(k, []string{"constant", "entries", k})
	}
	goVal := func(opt int, v int64) interface{} {
		if isInt[opt] {
			return v
		}
		return fmt.Sprintf("v%06d", v)
	}
	fromAny := func(opt int, x interface{}) (int64, bool) {
		switch t := x.(type) {
		case nil:
			return 0, true // not set: the initial state
		case int64:
			return t, isInt[opt]
		case float64:
			return int64(t), isInt[opt] && float64(int64(t)) == t
		case string:
			return int64(parseIdx(t)), !isInt[opt] && parseIdx(t) >= 0
		}
		return 0, false
	}
	b.Eval(1)
	b.DistinctS(fmt.Sprintf("msave %+v", sc))
	b.Seen("child_scenarios", "concurrent-setters")
	b.Max("max_concurrent_setters", int64(sc.Setters))

	var seq atomic.Uint64
	var hookRnd atomic.Uint64
	hookRnd.Store(sc.Seed | 1)
	if sc.Delay {
		vhook.Set("config.set.presignal", func(_, _ string) {
			x := hookRnd.Add(0x9e3779b97f4a7c15)
			x ^= x >> 31
			if x%3 == 0 {
				runtime.Gosched()
			}
		})
	}
	defer vhook.Clear()

	sets := make([][]mset, nOpt) // all sets per option, appended at quiescence
	var reads []mread
	sharedG := make([]*concGetter, nOpt)
	for i := range sharedG {
		t := tString
		if isInt[i] {
			t = tInt
		}
		sharedG[i] = newConcGetter(keys[i], t, true)
	}
	detail := func(extra map[string]any) map[string]any {
		d := map[string]any{"mode": "msave", "mscen": sc}
		for k, v := range extra {
			d[k] = v
		}
		return d
	}
	deadline := time.Now().Add(90 * time.Second)
	counter := int64(0) // unique increasing values, handed out before each round
	for round := 0; round < sc.Rounds; round++ {
		if time.Now().After(deadline) {
			b.Inconclusive("concurrent-setter scenario %s hit its 90 s watchdog", sc.ID)
			return
		}
		rr := vlib.NewRand(sc.Seed, "msave-round", uint64(round))
		// plan: which setter sets which option to which value
		plan := make([][]mset, sc.Setters)
		for j := 0; j < sc.Setters; j++ {
			n := rr.Range(1, sc.Burst)
			for x := 0; x < n; x++ {
				counter++
				opt := 1 + j
				if rr.Chance(sc.SharedP, 100) {
					opt = 0
				}
				plan[j] = append(plan[j], mset{opt: opt, val: counter})
			}
		}
		var wg sync.WaitGroup
		start := make(chan struct{})
		var stopReaders atomic.Bool
		errs := make([]error, sc.Setters)
		for j := 0; j < sc.Setters; j++ {
			wg.Add(1)
			go func(j int) {
				defer wg.Done()
				<-start
				for x := range plan[j] {
					s := &plan[j][x]
					s.call = seq.Add(1)
					err := config.SetConfigOption(keys[s.opt], goVal(s.opt, s.val))
					s.ret = seq.Add(1)
					if err != nil {
						errs[j] = err
						return
					}
				}
			}(j)
		}
		var rwg sync.WaitGroup
		roundReads := make([][]mread, 2)
		for ri := 0; ri < 2; ri++ {
			rwg.Add(1)
			go func(ri int) {
				defer rwg.Done()
				rnd := vlib.NewRand(sc.Seed, "msave-reader", uint64(round*2+ri))
				private := make([]*concGetter, nOpt)
				<-start
				for n := 0; n < 40 && !(n >= 8 && stopReaders.Load()); n++ {
					opt := rnd.Intn(nOpt)
					rec := mread{opt: opt}
					g := sharedG[opt]
					if rnd.Bool() {
						if private[opt] == nil {
							t := tString
							if isInt[opt] {
								t = tInt
							}
							private[opt] = newConcGetter(keys[opt], t, false)
						}
						g, rec.kind = private[opt], 1
					}
					rec.call = seq.Add(1)
					rec.val = int64(g.read())
					rec.ret = seq.Add(1)
					roundReads[ri] = append(roundReads[ri], rec)
					if n%4 == 3 {
						runtime.Gosched()
					}
				}
			}(ri)
		}
		close(start)
		wg.Wait()
		stopReaders.Store(true)
		rwg.Wait()
		for j, err := range errs {
			if err != nil {
				b.Violation("C04:concurrent-save:set-error", fmt.Sprintf("setter %d: SetConfigOption of a valid value returned %v", j, err), detail(map[string]any{"round": round}))
				return
			}
		}
		for j := range plan {
			for _, s := range plan[j] {
				sets[s.opt] = append(sets[s.opt], s)
				b.Count("concurrent_setter_sets", 1)
			}
		}
		for _, rs := range roundReads {
			reads = append(reads, rs...)
		}
		b.Count("quiescence_checks", 1)

		// ---- quiescence: every set has returned
		// allowed final values per option: sets that no other set of the option strictly follows
		allowed := make([]map[int64]bool, nOpt)
		for o := 0; o < nOpt; o++ {
			allowed[o] = map[int64]bool{}
			if len(sets[o]) == 0 {
				allowed[o][0] = true
				continue
			}
			var maxCall uint64
			for _, s := range sets[o] {
				if s.call > maxCall {
					maxCall = s.call
				}
			}
			for _, s := range sets[o] {
				if s.ret > maxCall { // nobody began after s returned
					allowed[o][s.val] = true
				}
			}
		}
		class := func(o int) string {
			if o == 0 {
				return "shared-option"
			}
			return "own-option"
		}
		keysOf := func(m map[int64]bool) []int64 {
			var out []int64
			for k := range m {
				out = append(out, k)
			}
			return out
		}
		mem := make([]int64, nOpt)
		for o := 0; o < nOpt; o++ {
			opt, err := config.GetOption(keys[o])
			if err != nil {
				b.Note("harness: %v", err)
				return
			}
			v, ok := fromAny(o, opt.UserValue())
			if !ok || !allowed[o][v] {
				b.Violation("C04:concurrent-save:user-layer-not-last-set:"+class(o),
					fmt.Sprintf("round %d: after all setters returned, UserValue(%s)=%v; values of the sets that nothing follows: %v", round, keys[o], opt.UserValue(), keysOf(allowed[o])),
					detail(map[string]any{"round": round}))
				return
			}
			mem[o] = v
		}
		raw, err := os.ReadFile(file)
		if err != nil {
			b.Violation("C04:concurrent-save:file-missing", "after all setters returned the configuration file cannot be read: "+err.Error(), detail(map[string]any{"round": round}))
			return
		}
		text := string(raw)
		if len(text) > 3000 {
			text = text[:3000]
		}
		flat, err := config.JSONToMap(raw)
		if err != nil {
			b.Violation("C04:concurrent-save:file-unparsable",
				fmt.Sprintf("round %d: %d concurrent SetConfigOption calls all returned nil, but the configuration file does not parse: %v", round, sc.Setters, err),
				detail(map[string]any{"round": round, "file": text}))
			return
		}
		for o := 0; o < nOpt; o++ {
			fv, ok := fromAny(o, flat[keys[o]])
			if !ok || fv != mem[o] {
				kind := "foreign"
				for _, s := range sets[o] {
					if s.val == fv {
						kind = "older-set"
					}
				}
				if flat[keys[o]] == nil {
					kind = "missing"
				}
				b.Violation("C04:concurrent-save:file-differs-from-user-layer:"+kind+":"+class(o),
					fmt.Sprintf("round %d: after all setters returned nil, the file holds %v for %s but the user layer holds %d (sets of this round: %v); loading the file would not restore the user-set value",
						round, flat[keys[o]], keys[o], mem[o], plan), detail(map[string]any{"round": round, "file": text}))
				return
			}
		}
		// every few rounds: clear the user layer and load the file
		if round%4 == 3 || round == sc.Rounds-1 {
			config.ReplaceConfig(map[string]interface{}{})
			if err := config.VerifLoadConfig(true); err != nil {
				b.Violation("C04:concurrent-save:load-error", fmt.Sprintf("round %d: strict load of the file written by the concurrent setters failed: %v", round, err),
					detail(map[string]any{"round": round, "file": text}))
				return
			}
			b.Count("concurrent_save_loads", 1)
			for o := 0; o < nOpt; o++ {
				opt, _ := config.GetOption(keys[o])
				v, ok := fromAny(o, opt.UserValue())
				if !ok || v != mem[o] {
					b.Violation("C04:concurrent-save:load-lost-value:"+class(o),
						fmt.Sprintf("round %d: after clearing and loading, UserValue(%s)=%v, before: %d", round, keys[o], opt.UserValue(), mem[o]), detail(map[string]any{"round": round, "file": text}))
					return
				}
			}
			for i := 0; i < sc.Extra; i++ {
				k := fmt.Sprintf("%s/const/c%d", sc.ID, i)
				opt, _ := config.GetOption(k)
				if a, ok := opt.UserValue().([]string); !ok || len(a) != 3 || a[2] != k {
					b.Violation("C04:concurrent-save:load-lost-value:untouched-option", fmt.Sprintf("round %d: constant option %s has UserValue %v after the load", round, k, opt.UserValue()),
						detail(map[string]any{"round": round, "file": text}))
					return
				}
			}
			// the load counts as a write of the same values by the harness (sequence-wise instantaneous)
		}
	}
	// multi-writer regular-register rule for the reads
	b.Count("multi_setter_reads", int64(len(reads)))
	for _, rd := range reads {
		ss := sets[rd.opt]
		var w *mset
		if rd.val != 0 {
			for i := range ss {
				if ss[i].val == rd.val {
					w = &ss[i]
				}
			}
			if w == nil {
				b.Violation("C04:regular-register-multi:foreign-value:"+readKinds[rd.kind],
					fmt.Sprintf("getter of %s returned value index %d that no setter wrote to it", keys[rd.opt], rd.val), detail(nil))
				return
			}
			if w.call > rd.ret {
				b.Violation("C04:regular-register-multi:future-value:"+readKinds[rd.kind],
					fmt.Sprintf("getter of %s call [%d,%d] returned %d whose set began at %d", keys[rd.opt], rd.call, rd.ret, rd.val, w.call), detail(nil))
				return
			}
		}
		var wret uint64 // initial state "returned" at 0
		if w != nil {
			wret = w.ret
		}
		for i := range ss {
			if s := &ss[i]; s.call > wret && s.ret < rd.call {
				b.Violation("C04:regular-register-multi:stale:"+readKinds[rd.kind],
					fmt.Sprintf("getter of %s call [%d,%d] returned %d (set returned at %d), but the set of %d began at %d and returned at %d, before the read was called",
						keys[rd.opt], rd.call, rd.ret, rd.val, wret, s.val, s.call, s.ret), detail(nil))
				return
			}
		}
	}
}
