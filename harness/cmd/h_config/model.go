package main

import (
	"errors"
	"fmt"
	"math"
	"regexp"
	"sort"
	"strconv"
	"strings"
)

// Reference model of the property statement (written from the statement and the
// package documentation, not from validate.go/get.go):
//
//   - three layers per option: user, default layer, registered default;
//   - effective value = user value if set and option.ReleaseLevel <= effective release
//     level, else default-layer value if set, else registered default;
//   - effective release level = effective value (same rule) of core/releaseLevel;
//   - a value is acceptable for an option iff it has the option's type (see conv), every
//     string (entry) matches the regular expression, the value (every entry) is one of the
//     allowed values if any are given, and the validation function accepts it.

const (
	tString = 1
	tArray  = 2
	tInt    = 3
	tBool   = 4
)

var typeNames = map[int]string{tString: "string", tArray: "stringarray", tInt: "int", tBool: "bool"}

const (
	vAccept = iota
	vReject
	vEither // the statement/documentation leaves it open (e.g. uint64 for an int option)
)

const (
	rlKey = "core/releaseLevel"
	exKey = "core/expertiseLevel"
)

// optSpec is the serialisable description of one registered option.
type optSpec struct {
	Key      string `json:"key"`
	Type     int    `json:"type"`
	Release  int    `json:"release"`
	Default  tval   `json:"default"`
	Regex    string `json:"regex,omitempty"`
	Possible []tval `json:"possible,omitempty"` // allowed values (entries for arrays)
	VF       string `json:"vf,omitempty"`       // validation function kind
	Builtin  bool   `json:"builtin,omitempty"`
}

func (o optSpec) constraintClass() string {
	var p []string
	if o.Regex != "" {
		p = append(p, "regex")
	}
	if len(o.Possible) > 0 {
		p = append(p, "allowed")
	}
	if o.VF != "" {
		p = append(p, "func")
	}
	if len(p) == 0 {
		return "none"
	}
	return strings.Join(p, "+")
}

type mOpt struct {
	Spec     optSpec
	re       *regexp.Regexp
	user     *mval
	def      *mval
	fallback mval // registered default
	hist     int
}

type model struct {
	opts map[string]*mOpt
	keys []string // registration order
	// file is the content of the configuration file as JSON-decoded shapes (nil = no file)
	file map[string]tval
}

func newModel() *model {
	m := &model{opts: map[string]*mOpt{}}
	lv := func(names ...string) []tval {
		var out []tval
		for _, n := range names {
			out = append(out, tS(n))
		}
		return out
	}
	m.register(optSpec{Key: rlKey, Type: tString, Default: tS("stable"), Possible: lv("stable", "beta", "experimental"), Builtin: true}, -1)
	m.register(optSpec{Key: exKey, Type: tString, Default: tS("user"), Possible: lv("user", "expert", "developer"), Builtin: true}, -1)
	return m
}

func (m *model) register(s optSpec, hist int) error {
	o := &mOpt{Spec: s, hist: hist}
	if s.Regex != "" {
		re, err := regexp.Compile(s.Regex)
		if err != nil {
			return err
		}
		o.re = re
	}
	v, c := classify(o, s.Default)
	if v != vAccept {
		return fmt.Errorf("default %s of %s is not acceptable in the model", s.Default, s.Key)
	}
	o.fallback = c
	m.opts[s.Key] = o
	m.keys = append(m.keys, s.Key)
	return nil
}

// vfCheck is the validation function of kind vf (shared by the option handed to
// portbase and by the model: it is part of the option's specification).
func vfCheck(vf string, typ int, v mval) error {
	if vf == "" {
		return nil
	}
	p := strings.Split(vf, ":")
	atoi := func(i int) int64 { n, _ := strconv.ParseInt(p[i], 10, 64); return n }
	switch p[0] {
	case "maxlen":
		if int64(len(v.S)) > atoi(1) {
			return errors.New("too long")
		}
	case "nox":
		if strings.Contains(v.S, "x") {
			return errors.New("contains x")
		}
	case "range":
		if v.I < atoi(1) || v.I > atoi(2) {
			return errors.New("out of range")
		}
	case "even":
		if v.I%2 != 0 {
			return errors.New("odd")
		}
	case "arrmax":
		if int64(len(v.A)) > atoi(1) {
			return errors.New("too many entries")
		}
	case "nodup":
		seen := map[string]bool{}
		for _, e := range v.A {
			if seen[e] {
				return errors.New("duplicate entry")
			}
			seen[e] = true
		}
	case "musttrue":
		if !v.B {
			return errors.New("must be true")
		}
	case "mustfalse":
		if v.B {
			return errors.New("must be false")
		}
	default:
		return errors.New("unknown vf")
	}
	return nil
}

// conv decides whether v has the option's type and returns the canonical value.
func conv(typ int, v tval) (int, mval) {
	switch typ {
	case tString:
		if v.T == "string" {
			return vAccept, mval{S: v.S}
		}
	case tBool:
		if v.T == "bool" {
			return vAccept, mval{B: v.S == "true"}
		}
	case tInt:
		switch v.T {
		case "int", "int8", "int16", "int32", "int64", "uint", "uint8", "uint16", "uint32":
			i, _ := strconv.ParseInt(v.S, 10, 64)
			return vAccept, mval{I: i}
		case "uint64", "uintptr":
			// documented as not supported ("does not fit"), but an integer nevertheless
			i, _ := strconv.ParseInt(v.S, 10, 64)
			return vEither, mval{I: i}
		case "float32", "float64":
			f, _ := strconv.ParseFloat(v.S, 64)
			if v.T == "float32" {
				f = float64(float32(f))
			}
			if math.IsNaN(f) || math.IsInf(f, 0) || f != math.Trunc(f) {
				return vReject, mval{}
			}
			if math.Abs(f) >= 1<<62 {
				return vEither, mval{I: int64(f)}
			}
			return vAccept, mval{I: int64(f)}
		}
	case tArray:
		switch v.T {
		case "[]string":
			return vAccept, mval{A: append([]string{}, v.L...)}
		case "[]string-nil", "[]any-nil":
			return vAccept, mval{A: []string{}}
		case "[]any":
			out := []string{}
			for _, e := range v.E {
				if e.T != "string" {
					return vReject, mval{}
				}
				out = append(out, e.S)
			}
			return vAccept, mval{A: out}
		}
	}
	return vReject, mval{}
}

// classify decides whether the statement demands acceptance or rejection of v for o
// and returns the canonical value, plus the reason of a rejection.
func classify(o *mOpt, v tval) (int, mval) {
	verdict, c, _ := classifyWhy(o, v)
	return verdict, c
}

func classifyWhy(o *mOpt, v tval) (int, mval, string) {
	verdict, c := conv(o.Spec.Type, v)
	if verdict == vReject {
		return vReject, c, "type"
	}
	typ := o.Spec.Type
	// regular expression
	if o.re != nil {
		switch typ {
		case tString:
			if !o.re.MatchString(c.S) {
				return vReject, c, "regex"
			}
		case tArray:
			for _, e := range c.A {
				if !o.re.MatchString(e) {
					return vReject, c, "regex"
				}
			}
		case tInt:
			if !o.re.MatchString(strconv.FormatInt(c.I, 10)) {
				return vReject, c, "regex"
			}
		}
	}
	// allowed values
	if len(o.Spec.Possible) > 0 {
		allowed := func(e mval) bool {
			for _, p := range o.Spec.Possible {
				switch typ {
				case tString, tArray:
					if p.S == e.S {
						return true
					}
				case tInt:
					pi, _ := strconv.ParseInt(p.S, 10, 64)
					if pi == e.I {
						return true
					}
				case tBool:
					if (p.S == "true") == e.B {
						return true
					}
				}
			}
			return false
		}
		if typ == tArray {
			for _, e := range c.A {
				if !allowed(mval{S: e}) {
					return vReject, c, "allowed"
				}
			}
		} else if !allowed(c) {
			return vReject, c, "allowed"
		}
	}
	if err := vfCheck(o.Spec.VF, typ, c); err != nil {
		return vReject, c, "func"
	}
	return verdict, c, ""
}

var levelOf = map[string]int{"stable": 0, "beta": 1, "experimental": 2}

// level is the effective release-level setting: the effective value of the
// release-level option under the same layering rule as every other option (its own
// release level is stable, so its user value always counts).
func (m *model) level() int {
	o := m.opts[rlKey]
	v := o.fallback
	if o.def != nil {
		v = *o.def
	}
	if o.user != nil {
		v = *o.user
	}
	return levelOf[v.S]
}

// eff returns the effective value and the layer it comes from.
func (m *model) eff(o *mOpt) (mval, string) {
	if o.user != nil && o.Spec.Release <= m.level() {
		return *o.user, "user"
	}
	if o.def != nil {
		return *o.def, "default"
	}
	return o.fallback, "registered"
}

// layerOf names the layer(s) whose value equals got (for diagnosis in signatures).
func (m *model) layerOf(o *mOpt, got mval) string {
	t := o.Spec.Type
	switch {
	case o.user != nil && got.equal(*o.user, t):
		return "user"
	case o.def != nil && got.equal(*o.def, t):
		return "default"
	case got.equal(o.fallback, t):
		return "registered"
	}
	return "other"
}

// rlClass describes which layers of the release-level option are set (precondition
// class for signatures).
func (m *model) rlClass() string {
	o := m.opts[rlKey]
	switch {
	case o.user != nil && o.def != nil:
		if o.user.S == o.def.S {
			return "rl-user=default"
		}
		return "rl-user+default"
	case o.user != nil:
		return "rl-user"
	case o.def != nil:
		return "rl-default"
	}
	return "rl-unset"
}

type setOutcome struct {
	verdict int
	canon   mval
	unknown bool
	why     string
}

// planSet says what a single-option set must do (the model is updated by applySet
// once the observed outcome is known to be permitted).
func (m *model) planSet(key string, v tval) setOutcome {
	o, ok := m.opts[key]
	if !ok {
		return setOutcome{unknown: true, verdict: vReject, why: "unknown-key"}
	}
	if v.T == "nil" {
		return setOutcome{verdict: vAccept, why: "delete"}
	}
	verdict, c, why := classifyWhy(o, v)
	return setOutcome{verdict: verdict, canon: c, why: why}
}

func (m *model) applySet(key string, v tval, userLayer bool, accepted bool) {
	o, ok := m.opts[key]
	if !ok || !accepted {
		return
	}
	var nv *mval
	if v.T != "nil" {
		_, c := classify(o, v)
		nv = &c
	}
	if userLayer {
		o.user = nv
	} else {
		o.def = nv
	}
}

// planReplace computes the layer a whole-layer replace must install and the keys it
// must report as invalid; "either" entries are returned separately.
func (m *model) planReplace(mp map[string]tval) (install map[string]mval, mustReport map[string]bool, either map[string]mval) {
	install, mustReport, either = map[string]mval{}, map[string]bool{}, map[string]mval{}
	for k, v := range mp {
		o, ok := m.opts[k]
		if !ok {
			continue // unknown keys cannot be installed
		}
		verdict, c := classify(o, v)
		switch verdict {
		case vAccept:
			install[k] = c
		case vReject:
			mustReport[k] = true
		default:
			either[k] = c
		}
	}
	return
}

func (m *model) applyReplace(install map[string]mval, userLayer bool) {
	for _, o := range m.opts {
		var nv *mval
		if c, ok := install[o.Spec.Key]; ok {
			cc := c
			nv = &cc
		}
		if userLayer {
			o.user = nv
		} else {
			o.def = nv
		}
	}
}

// saved returns the user layer in the shapes a JSON file round trip yields.
func (m *model) saved() map[string]tval {
	out := map[string]tval{}
	for k, o := range m.opts {
		if o.user == nil {
			continue
		}
		switch o.Spec.Type {
		case tString:
			out[k] = tS(o.user.S)
		case tBool:
			out[k] = tB(o.user.B)
		case tInt:
			out[k] = tF("float64", float64(o.user.I))
		case tArray:
			out[k] = tA(o.user.A)
		}
	}
	return out
}

func (m *model) userSnapshot() map[string]string {
	out := map[string]string{}
	for k, o := range m.opts {
		if o.user != nil {
			out[k] = o.user.show(o.Spec.Type)
		}
	}
	return out
}

func (m *model) sortedKeys() []string {
	ks := append([]string{}, m.keys...)
	sort.Strings(ks)
	return ks
}
