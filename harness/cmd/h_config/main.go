// h_config — engine for C04 (config getters always return the layered, validated,
// current value).
//
// Orchestrator: derives the batch list from VERIF_SEED and runs every batch in a child
// process (the option registry of portbase is a package global that cannot be emptied:
// one process per batch, fresh key prefix per history).
//   - seq batches  (plain build): model-based sequential histories, every step compared
//     with the three-layer reference model over all observation channels;
//   - conc batches (plain and -race build): one setter against 2-16 readers with the
//     regular-register oracle and the vhook pause/delay plans;
//   - restart pairs: a history run with the module system started, then a second
//     process that starts the modules on the same data root and must see the same user
//     layer.
package main

import (
	"encoding/json"
	"fmt"
	"os"
	"path/filepath"
	"strings"
	"time"

	"github.com/safing/portbase/log"

	"verifharness/internal/vlib"
)

type childSpec struct {
	Mode    string     `json:"mode"` // seq conc live restart replay-seq replay-conc
	Tier    string     `json:"tier"`
	Seed    uint64     `json:"seed"`
	Batch   int        `json:"batch"`
	N       int        `json:"n"`     // histories / scenarios in this batch
	Steps   int        `json:"steps"` // steps per sequential history
	Race    bool       `json:"race"`
	Live    bool       `json:"live,omitempty"`   // start the module system first
	Shared  string     `json:"shared,omitempty"` // directory shared by a live/restart pair
	History *history   `json:"history,omitempty"`
	Scen    *concScen  `json:"scen,omitempty"`
	MScen   *msaveScen `json:"mscen,omitempty"`
	Storm   *stormScen `json:"storm,omitempty"`
}

var raceScope = []string{
	"config.GetAsString", "config.GetAsStringArray", "config.GetAsInt", "config.GetAsBool",
	"config.(*safe).GetAs", "config.getValueCache", "config.signalChanges", "config.getValidityFlag",
	"config.(*ValidityFlag)", "config.updateReleaseLevel", "config.getReleaseLevel",
}

func main() {
	if dir, ok := vlib.IsChild(); ok {
		childMain(dir)
		return
	}
	cfg := vlib.Load()
	rep := vlib.NewReport(cfg)
	rep.Rule("sequential case = 4-8 generated options (4 types x regex / allowed values / validation function / release level) plus the built-in release-level and expertise options, " +
		"and 40-70 PRNG-chosen operations (SetConfigOption, SetDefaultConfigOption, ReplaceConfig, ReplaceDefaultConfig, SaveConfig, load, load of a hand-written file, new getters, Perspective objects that are kept alive and re-read (all getters + Has) after every later step) " +
		"with acceptable and unacceptable values of every Go type and JSON-decoded shape; after every step all getters (old and new, plain and Concurrent, wrong-type, unknown), UserValue/IsSetByUser, " +
		"GetActiveConfigValues and the returned errors are compared with a three-layer model. concurrent case = one setter (40-160 operations with unique increasing values; set/default/replace/delete/release-level gate scripts) " +
		"against 2-16 readers using shared Concurrent getters, private plain getters and fresh getters, under a hook plan (none, random delays, reader parked between flag and value, setter parked before the signal), " +
		"decided by the regular-register condition on call/ret sequence numbers. concurrent-setter case = 2-4 goroutines calling SetConfigOption (own options and a shared one, unique increasing values, config file configured) in 60-120 rounds; at every quiescence the user layer must hold a set nothing follows, the file must parse and equal the user layer, a strict load after clearing must restore it, and getter reads obey the multi-writer regular-register rule. setter-storm case = 2-4 setters (user or default layer, no file, optionally paired up at the presignal hook) in 40-70 rounds of 8-24 sets each against 3-6 readers that keep refreshing shared Concurrent getters, private plain getters and GetActiveConfigValues; every read obeys the regular-register rule, at quiescence every getter that lived through the round shows the final value, and after one more sequential change of every option shows that change too. distinct = distinct history specs / scenario specs; every case is non-trivial (it is compared with the model at every step / every read)")
	rep.Assume("model: effective release level = effective value of core/releaseLevel under the same user > default layer > registered default rule")
	rep.Assume("int options accept Go integer types up to 32 bit unsigned / 64 bit signed and floats without fraction; uint64/uintptr may be accepted or rejected; regular expressions of int options apply to the decimal representation")
	rep.Assume("plain (non-Concurrent) getters are only used by the goroutine that created them")

	var specs []vlib.ChildSpec
	var cspecs []childSpec
	add := func(name string, bin string, cs childSpec, to time.Duration) {
		cs.Tier, cs.Seed = cfg.Tier, cfg.Seed
		specs = append(specs, vlib.ChildSpec{Name: name, Bin: bin, Spec: cs, Timeout: to, Race: cs.Race})
		cspecs = append(cspecs, cs)
	}
	if cfg.Replay != "" {
		cs, err := replaySpec(cfg.Replay)
		if err != nil {
			fmt.Println("h_config: cannot replay:", err)
			rep.Note("replay file not usable: %v", err)
			rep.Eval(1)
			rep.Distinct("replay-a")
			rep.Distinct("replay-b")
			_ = rep.Finish()
			return
		}
		bin := cfg.BinPlain
		add("replay", bin, cs, 5*time.Minute)
	} else {
		nSeq, nHist, steps := cfg.N(32, 160), cfg.N(24, 60), cfg.N(50, 70)
		nConcPlain, nConcRace, nScen := cfg.N(16, 80), cfg.N(12, 64), cfg.N(5, 8)
		nLive := cfg.N(4, 24)
		for i := 0; i < nSeq; i++ {
			add(fmt.Sprintf("seq-%03d", i), cfg.BinPlain, childSpec{Mode: "seq", Batch: i, N: nHist, Steps: steps}, 10*time.Minute)
		}
		for i := 0; i < nConcPlain; i++ {
			add(fmt.Sprintf("conc-%03d", i), cfg.BinPlain, childSpec{Mode: "conc", Batch: i, N: nScen}, 10*time.Minute)
		}
		if cfg.BinRace != "" {
			for i := 0; i < nConcRace; i++ {
				add(fmt.Sprintf("race-%03d", i), cfg.BinRace, childSpec{Mode: "conc", Batch: 1000 + i, N: nScen, Race: true}, 15*time.Minute)
			}
		}
		// several setters at once with a configuration file (save/load under concurrency)
		for i := 0; i < cfg.N(6, 32); i++ {
			add(fmt.Sprintf("msave-%03d", i), cfg.BinPlain, childSpec{Mode: "msave", Batch: 4000 + i, N: cfg.N(3, 6)}, 10*time.Minute)
		}
		if cfg.BinRace != "" {
			for i := 0; i < cfg.N(2, 12); i++ {
				add(fmt.Sprintf("msaverace-%03d", i), cfg.BinRace, childSpec{Mode: "msave", Batch: 5000 + i, N: cfg.N(2, 4), Race: true}, 15*time.Minute)
			}
		}
		// overlapping setters without a file against getters of every kind
		for i := 0; i < cfg.N(10, 40); i++ {
			add(fmt.Sprintf("storm-%03d", i), cfg.BinPlain, childSpec{Mode: "storm", Batch: 6000 + i, N: cfg.N(3, 6)}, 10*time.Minute)
		}
		if cfg.BinRace != "" {
			for i := 0; i < cfg.N(2, 12); i++ {
				add(fmt.Sprintf("stormrace-%03d", i), cfg.BinRace, childSpec{Mode: "storm", Batch: 7000 + i, N: cfg.N(2, 4), Race: true}, 15*time.Minute)
			}
		}
		for i := 0; i < nLive; i++ {
			sh := filepath.Join(cfg.OutDir, fmt.Sprintf("shared-%03d", i))
			_ = os.MkdirAll(sh, 0o755)
			add(fmt.Sprintf("live-%03d", i), cfg.BinPlain, childSpec{Mode: "live", Batch: i, Steps: steps, Shared: sh}, 5*time.Minute)
		}
		// concurrent scenarios with the module system running (change events, update pushes)
		for i := 0; i < cfg.N(2, 6); i++ {
			add(fmt.Sprintf("liveconc-%03d", i), cfg.BinPlain, childSpec{Mode: "conc", Batch: 2000 + i, N: nScen, Live: true}, 10*time.Minute)
			if cfg.BinRace != "" {
				add(fmt.Sprintf("liverace-%03d", i), cfg.BinRace, childSpec{Mode: "conc", Batch: 3000 + i, N: nScen, Race: true, Live: true}, 15*time.Minute)
			}
		}
	}
	tco := map[string]bool{}
	var handleOne func(cs childSpec, c *vlib.ChildResult)
	handleOne = func(cs childSpec, c *vlib.ChildResult) {
		rep.Seen("child_modes", cs.Mode+map[bool]string{true: "/race", false: "/plain"}[cs.Race])
		if cb := rep.MergeChild(c); cb != nil {
			for _, m := range cb.SeenSets["type_constraint_op"] {
				tco[m] = true
			}
		}
		for _, rr := range c.Races {
			switch {
			case rr.HarnessOnly():
				rep.FloorMissed("race report inside the harness only (monitor broken): %s", firstLines(rr.Text, 30))
			case rr.InScope(raceScope...):
				rep.Violation("C04:race:"+rr.Signature(), "data race on the state the getters are made of (validity flag / cached value / release level)",
					map[string]any{"mode": "race", "child": cs, "report": rr.Text})
			default:
				rep.Seen("race_diagnostics_out_of_scope", rr.Signature())
			}
		}
		if c.TimedOut {
			rep.Inconclusive("child %s hit its watchdog; stderr tail: %s", c.Name, lastGoroutines(c.StderrTail(6000)))
			return
		}
		if !c.Done {
			rep.Violation("C04:fatal:"+fatalSite(c.StderrTail(4000)), fmt.Sprintf("child %s died (exit=%d signal=%q) while driving the config package", c.Name, c.Exit, c.Signal),
				map[string]any{"mode": "fatal", "child": cs, "stderr_tail": c.StderrTail(4000)})
			return
		}
		if cs.Mode == "live" {
			// phase 2: a new process starts the modules on the same data root
			rs := cs
			rs.Mode = "restart"
			rc := vlib.RunChild(cfg, vlib.ChildSpec{Name: strings.Replace(c.Name, "live", "restart", 1), Bin: cfg.BinPlain, Spec: rs, Timeout: 5 * time.Minute})
			handleOne(rs, rc)
			_ = os.RemoveAll(rc.Dir)
			_ = os.RemoveAll(cs.Shared)
		}
	}
	handle := func(i int, c *vlib.ChildResult) { handleOne(cspecs[i], c) }
	vlib.RunChildren(cfg, specs, handle)

	if cfg.Replay == "" {
		rep.Floor(rep.Counter("steps") >= int64(cfg.N(5000, 50000)), "sequential steps=%d", rep.Counter("steps"))
		rep.Floor(rep.Counter("concurrent_reads") >= 100000, "concurrent reads=%d (<1e5)", rep.Counter("concurrent_reads"))
		rep.Floor(rep.SeenCount("interleaving_signatures") >= 20, "distinct interleaving signatures=%d (<20)", rep.SeenCount("interleaving_signatures"))
		rep.Floor(rep.Counter("quiescence_checks") >= 300, "quiescence checks after concurrent setters=%d (<300)", rep.Counter("quiescence_checks"))
		rep.Floor(rep.Counter("perspective_reads_after_level_change") >= 10000, "reads of kept-alive perspectives after a release-level change=%d (<10000)", rep.Counter("perspective_reads_after_level_change"))
		rep.Floor(rep.Counter("storm_rounds") >= 500, "setter-storm rounds=%d (<500)", rep.Counter("storm_rounds"))
		rep.Floor(rep.SeenCount("op_kinds") >= 9, "operation kinds seen=%d", rep.SeenCount("op_kinds"))
		// every option type x constraint kind x set-like operation
		missing := 0
		for _, t := range []string{"string", "stringarray", "int", "bool"} {
			for _, c := range []string{"none", "regex", "allowed", "func"} {
				if t == "bool" && c == "regex" {
					continue
				}
				for _, o := range []string{"set", "setdef", "replace", "replacedef"} {
					if !tco[t+":"+c+":"+o] {
						missing++
					}
				}
			}
		}
		rep.Floor(missing == 0, "%d type x constraint x operation combinations never executed", missing)
	}
	if err := rep.Finish(); err != nil {
		fmt.Println("h_config: cannot write result:", err)
		os.Exit(2)
	}
}

func firstLines(s string, n int) string {
	l := strings.Split(s, "\n")
	if len(l) > n {
		l = l[:n]
	}
	return strings.Join(l, "\n")
}

func lastGoroutines(s string) string {
	if len(s) > 2500 {
		s = s[len(s)-2500:]
	}
	return s
}

func fatalSite(tail string) string {
	for _, ln := range strings.Split(tail, "\n") {
		if strings.HasPrefix(ln, "fatal error:") || strings.HasPrefix(ln, "panic:") {
			s := strings.TrimSpace(ln)
			if len(s) > 80 {
				s = s[:80]
			}
			return s
		}
	}
	return "unknown"
}

func replaySpec(path string) (childSpec, error) {
	var doc struct {
		Detail struct {
			Mode     string     `json:"mode"`
			History  *history   `json:"history"`
			Scenario *concScen  `json:"scenario"`
			MScen    *msaveScen `json:"mscen"`
			Storm    *stormScen `json:"storm"`
		} `json:"detail"`
	}
	b, err := os.ReadFile(path)
	if err != nil {
		return childSpec{}, err
	}
	if err := json.Unmarshal(b, &doc); err != nil {
		return childSpec{}, err
	}
	switch {
	case doc.Detail.History != nil:
		return childSpec{Mode: "replay-seq", History: doc.Detail.History}, nil
	case doc.Detail.Storm != nil:
		return childSpec{Mode: "replay-storm", Storm: doc.Detail.Storm, N: 5}, nil
	case doc.Detail.MScen != nil:
		return childSpec{Mode: "replay-msave", MScen: doc.Detail.MScen, N: 5}, nil
	case doc.Detail.Scenario != nil:
		return childSpec{Mode: "replay-conc", Scen: doc.Detail.Scenario, N: 25}, nil
	}
	return childSpec{}, fmt.Errorf("witness of mode %q carries no history/scenario to re-execute", doc.Detail.Mode)
}

func childMain(dir string) {
	var cs childSpec
	if err := vlib.ChildSpecInto(dir, &cs); err != nil {
		fmt.Println("bad spec:", err)
		os.Exit(3)
	}
	// the logger is not started: keep log.Errorf (wrong-type / unknown getters) from
	// parking one goroutine per line
	log.SetLogLevel(log.CriticalLevel)
	b := vlib.NewBatch()
	scratch := os.Getenv("TMPDIR")
	if scratch == "" {
		scratch = dir
	}
	switch cs.Mode {
	case "seq":
		sr := &seqRun{b: b, m: newModel(), dir: scratch, avoid: map[string]bool{}}
		for h := 0; h < cs.N; h++ {
			r := vlib.NewRand(cs.Seed, fmt.Sprintf("C04/seq/%d", cs.Batch), uint64(h))
			id := fmt.Sprintf("q%dh%d", cs.Batch, h)
			hist := genHistory(r, id, cs.Steps, sr.avoid)
			sr.nHist = h
			sr.runHistory(hist, r.Uint64())
			if sr.avoid["!abort"] {
				break
			}
		}
	case "replay-seq":
		sr := &seqRun{b: b, m: newModel(), dir: scratch, avoid: map[string]bool{}}
		sr.runHistory(*cs.History, 1)
		b.DistinctS("replay-a")
		b.DistinctS("replay-b")
	case "live":
		runLive(b, cs, scratch)
	case "restart":
		runRestart(b, cs, scratch)
	case "conc":
		if cs.Live {
			if _, err := startLive(scratch); err != nil {
				b.Inconclusive("live concurrent child: %v", err)
				break
			}
		}
		for s := 0; s < cs.N; s++ {
			r := vlib.NewRand(cs.Seed, fmt.Sprintf("C04/conc/%d", cs.Batch), uint64(s))
			sc := genConcScen(r, fmt.Sprintf("c%ds%d", cs.Batch, s), cs.Race, cs.Tier == "thorough")
			runConcScenario(b, sc, scratch)
			if s == 0 && cs.Batch == 0 {
				b.Sample(map[string]any{"mode": "concurrent scenario", "scenario": sc})
			}
		}
	case "msave":
		for s := 0; s < cs.N; s++ {
			r := vlib.NewRand(cs.Seed, fmt.Sprintf("C04/msave/%d", cs.Batch), uint64(s))
			sc := genMsaveScen(r, fmt.Sprintf("m%ds%d", cs.Batch, s), cs.Race)
			runMsaveScenario(b, sc, scratch)
			if s == 0 && cs.Batch == 4000 {
				b.Sample(map[string]any{"mode": "concurrent setters with a config file", "scenario": sc})
			}
		}
	case "storm":
		for s := 0; s < cs.N; s++ {
			r := vlib.NewRand(cs.Seed, fmt.Sprintf("C04/storm/%d", cs.Batch), uint64(s))
			sc := genStormScen(r, fmt.Sprintf("t%ds%d", cs.Batch, s), cs.Race)
			runStormScenario(b, sc)
			if s == 0 && cs.Batch == 6000 {
				b.Sample(map[string]any{"mode": "setter storm", "scenario": sc})
			}
		}
	case "replay-storm":
		for s := 0; s < cs.N; s++ {
			sc := *cs.Storm
			sc.ID = fmt.Sprintf("%s_r%d", sc.ID, s)
			runStormScenario(b, sc)
		}
		b.DistinctS("replay-a")
		b.DistinctS("replay-b")
	case "replay-msave":
		for s := 0; s < cs.N; s++ {
			sc := *cs.MScen
			sc.ID = fmt.Sprintf("%s_r%d", sc.ID, s)
			runMsaveScenario(b, sc, scratch)
		}
		b.DistinctS("replay-a")
		b.DistinctS("replay-b")
	case "replay-conc":
		for s := 0; s < cs.N; s++ {
			sc := *cs.Scen
			sc.ID = fmt.Sprintf("%s_r%d", sc.ID, s)
			runConcScenario(b, sc, scratch)
		}
		b.DistinctS("replay-a")
		b.DistinctS("replay-b")
	default:
		fmt.Println("unknown mode", cs.Mode)
		os.Exit(3)
	}
	b.Finish(dir)
}
