package main

import (
	"fmt"
	"hash/fnv"
	"os"
	"path/filepath"
	"runtime"
	"sort"
	"strconv"
	"strings"
	"sync"
	"sync/atomic"
	"time"

	"github.com/safing/portbase/config"
	"github.com/safing/portbase/utils/vhook"

	"verifharness/internal/vlib"
)

// ---------------------------------------------------------------------------------
// concurrent histories: one setter, many readers, regular-register oracle.

type concScen struct {
	ID       string `json:"id"`
	ValType  int    `json:"valtype"`
	Mode     string `json:"mode"` // set setdef replace replacedef mixed-user mixed-def gate delete
	Readers  int    `json:"readers"`
	Shared   int    `json:"shared"`
	Sets     int    `json:"sets"`
	MinReads int    `json:"min_reads"`
	Hook     string `json:"hook"` // none delay park-reader park-setter
	DelayPct int    `json:"delay_pct"`
	FileOn   bool   `json:"file_on"`
	Log      bool   `json:"log"` // false: readers touch no harness synchronisation (race-detector friendly)
	Seed     uint64 `json:"seed"`
}

type wop struct {
	Kind  string // set setdef replace replacedef rl del
	K     int    // value index written (or -1)
	Level string
	Eff   int // effective value index after this op
	call  uint64
	pre   uint64 // seq at the presignal hook (0 if not passed)
	ret   uint64
}

type readRec struct {
	call, ret uint64
	val       int32
	kind      uint8
}

var readKinds = []string{"Concurrent-shared", "plain-private", "Concurrent-fresh", "plain-fresh"}

func genConcScen(r *vlib.Rand, id string, race bool, thorough bool) concScen {
	sc := concScen{ID: id, Seed: r.Uint64()}
	sc.ValType = vlib.Pick(r, tInt, tInt, tString, tArray)
	sc.Mode = vlib.Pick(r, "set", "set", "setdef", "replace", "replacedef", "mixed-user", "mixed-def", "gate", "gate", "delete")
	sc.Readers = r.Range(2, 16)
	sc.Shared = r.Range(1, 3)
	sc.Sets = r.Range(40, 160)
	sc.MinReads = 1500
	if race {
		sc.MinReads = 400
		sc.Sets = r.Range(30, 90)
	}
	sc.Hook = vlib.Pick(r, "none", "delay", "delay", "park-reader", "park-reader", "park-setter")
	sc.DelayPct = r.Range(5, 60)
	sc.FileOn = r.Chance(25, 100)
	sc.Log = true
	if race && r.Chance(35, 100) {
		sc.Log = false
		if sc.Hook == "park-setter" {
			sc.Hook = "delay"
		}
	}
	return sc
}

// script derives the writer's operations and the effective value after each.
func (sc concScen) script(r *vlib.Rand) []wop {
	var ops []wop
	user, def, lvl := -1, -1, 0
	rel := 0
	if sc.Mode == "gate" {
		rel = 1
	}
	eff := func() int {
		if user >= 0 && rel <= lvl {
			return user
		}
		if def >= 0 {
			return def
		}
		return 0
	}
	c := 0
	add := func(kind string, k int, level string) {
		switch kind {
		case "set", "replace":
			user = k
		case "setdef", "replacedef":
			def = k
		case "del":
			user = -1
		case "rl":
			lvl = levelOf[level]
		}
		ops = append(ops, wop{Kind: kind, K: k, Level: level, Eff: eff()})
	}
	for len(ops) < sc.Sets {
		c++
		switch sc.Mode {
		case "set", "setdef", "replace", "replacedef":
			add(sc.Mode, c, "")
		case "mixed-user":
			add(vlib.Pick(r, "set", "replace"), c, "")
		case "mixed-def":
			add(vlib.Pick(r, "setdef", "replacedef"), c, "")
		case "delete":
			// default layer grows, user value appears and disappears
			add("setdef", c, "")
			c++
			add("set", c, "")
			if r.Bool() {
				c++
				add("set", c, "")
			}
			add("del", -1, "")
		case "gate":
			add("setdef", c, "")
			c++
			add("set", c, "") // hidden: option is beta, level is stable
			add("rl", -1, vlib.Pick(r, "beta", "experimental"))
			c++
			add("set", c, "")
			c++
			add("setdef", c, "") // hidden behind the user value
			add("rl", -1, "stable")
		}
	}
	return ops
}

func concValue(typ, k int) interface{} {
	switch typ {
	case tInt:
		return int64(k)
	case tString:
		return fmt.Sprintf("v%06d", k)
	default:
		return []string{fmt.Sprintf("v%06d", k)}
	}
}

func parseIdx(s string) int32 {
	if len(s) != 7 || s[0] != 'v' {
		return -1
	}
	n, err := strconv.Atoi(s[1:])
	if err != nil {
		return -1
	}
	return int32(n)
}

type concGetter struct {
	typ int
	s   config.StringOption
	a   config.StringArrayOption
	i   config.IntOption
}

func newConcGetter(key string, typ int, conc bool) *concGetter {
	g := &concGetter{typ: typ}
	switch typ {
	case tInt:
		if conc {
			g.i = config.Concurrent.GetAsInt(key, -1)
		} else {
			g.i = config.GetAsInt(key, -1)
		}
	case tString:
		if conc {
			g.s = config.Concurrent.GetAsString(key, "fallback")
		} else {
			g.s = config.GetAsString(key, "fallback")
		}
	default:
		if conc {
			g.a = config.Concurrent.GetAsStringArray(key, []string{"fallback"})
		} else {
			g.a = config.GetAsStringArray(key, []string{"fallback"})
		}
	}
	return g
}

func (g *concGetter) read() int32 {
	switch g.typ {
	case tInt:
		v := g.i()
		if v < 0 || v > 1<<30 {
			return -1
		}
		return int32(v)
	case tString:
		return parseIdx(g.s())
	default:
		a := g.a()
		if len(a) != 1 {
			return -1
		}
		return parseIdx(a[0])
	}
}

func runConcScenario(b *vlib.Batch, sc concScen, dir string) {
	r := vlib.NewRand(sc.Seed, "conc", 0)
	key := sc.ID + "/v"
	ops := sc.script(r)
	// fresh world
	vhook.Clear()
	config.VerifSetConfigFile("")
	config.ReplaceConfig(map[string]interface{}{})
	config.ReplaceDefaultConfig(map[string]interface{}{})
	rel := config.ReleaseLevelStable
	if sc.Mode == "gate" {
		rel = config.ReleaseLevelBeta
	}
	def := concValue(sc.ValType, 0)
	if sc.ValType == tInt {
		def = 0
	}
	if err := config.Register(&config.Option{Name: key, Key: key, Description: "verif concurrent", OptType: portbaseType(sc.ValType),
		ReleaseLevel: rel, DefaultValue: def}); err != nil {
		b.Note("harness: register %s: %v", key, err)
		return
	}
	var file string
	if sc.FileOn {
		file = filepath.Join(dir, strings.ReplaceAll(sc.ID, "/", "_")+".json")
		config.VerifSetConfigFile(file)
		defer func() { config.VerifSetConfigFile(""); _ = os.Remove(file) }()
	}
	b.Eval(1)
	b.Seen("conc_modes", sc.Mode)
	b.Seen("conc_hook_plans", sc.Hook)
	b.Seen("conc_value_types", typeNames[sc.ValType])
	b.Max("max_readers", int64(sc.Readers))
	b.DistinctS(fmt.Sprintf("%+v", sc))

	var seq atomic.Uint64
	var reads atomic.Int64
	var setterDone atomic.Bool
	var hookRnd atomic.Uint64
	hookRnd.Store(sc.Seed | 1)
	rnd := func() uint64 {
		x := hookRnd.Add(0x9e3779b97f4a7c15)
		x ^= x >> 31
		x *= 0xbf58476d1ce4e5b9
		return x ^ (x >> 29)
	}
	deadline := time.Now().Add(90 * time.Second)

	// hook plans
	var armed atomic.Bool
	var parked atomic.Int32
	var parkMu sync.Mutex
	parkCh := make(chan struct{})
	var refetchSeqs []uint64 // seq numbers of refetch-hook hits (log mode)
	var refetchMu sync.Mutex
	var curOp atomic.Int32
	curOp.Store(-1)
	var parkTimeouts, parksDone, setterParks atomic.Int64
	delay := func() {
		x := rnd()
		if int(x%100) >= sc.DelayPct {
			return
		}
		switch (x >> 8) % 3 {
		case 0:
			runtime.Gosched()
		case 1:
			time.Sleep(time.Duration(1+(x>>16)%40) * time.Microsecond)
		default:
			for i := 0; i < int((x>>16)%4)+1; i++ {
				runtime.Gosched()
			}
		}
	}
	vhook.Set("config.get.refetch", func(_, subject string) {
		if subject != key {
			return
		}
		if sc.Log {
			s := seq.Add(1)
			refetchMu.Lock()
			if len(refetchSeqs) < 1<<16 {
				refetchSeqs = append(refetchSeqs, s)
			}
			refetchMu.Unlock()
		}
		switch sc.Hook {
		case "delay":
			delay()
		case "park-reader":
			if armed.CompareAndSwap(true, false) {
				parkMu.Lock()
				ch := parkCh
				parkMu.Unlock()
				parked.Add(1)
				select {
				case <-ch:
					parksDone.Add(1)
				case <-time.After(3 * time.Second):
					parkTimeouts.Add(1)
				}
				parked.Add(-1)
			}
		}
	})
	vhook.Set("config.set.presignal", func(_, _ string) {
		i := int(curOp.Load())
		if i >= 0 && i < len(ops) && sc.Log {
			ops[i].pre = seq.Add(1)
		}
		switch sc.Hook {
		case "delay":
			delay()
		case "park-setter":
			if !sc.Log || rnd()%3 == 0 {
				return
			}
			// the value is updated, the validity flag not yet invalidated: let every reader run
			c0 := reads.Load()
			t0 := time.Now()
			for reads.Load() < c0+int64(3*sc.Readers) && time.Since(t0) < time.Second {
				runtime.Gosched()
			}
			setterParks.Add(1)
		}
	})
	defer vhook.Clear()

	shared := make([]*concGetter, sc.Shared)
	for i := range shared {
		shared[i] = newConcGetter(key, sc.ValType, true)
	}
	recs := make([][]readRec, sc.Readers)
	var wg sync.WaitGroup
	start := make(chan struct{})
	const capReads = 60000
	var epoch atomic.Int64 // advanced by the setter at every call and return
	for ri := 0; ri < sc.Readers; ri++ {
		wg.Add(1)
		go func(ri int) {
			defer wg.Done()
			rr := vlib.NewRand(sc.Seed, "reader", uint64(ri))
			private := newConcGetter(key, sc.ValType, false)
			var mine []readRec
			<-start
			tail := -1
			budget := 40 + rr.Intn(80)
			seenEpoch, inEpoch := int64(-1), 0
			for n := 0; ; n++ {
				done := setterDone.Load()
				if tail < 0 && n >= sc.MinReads && done {
					tail = 4 // a few more reads that begin after everything returned
				}
				if tail == 0 || n >= capReads {
					break
				}
				if tail > 0 {
					tail--
				}
				if n&255 == 255 && time.Now().After(deadline) {
					break
				}
				if sc.Log && !done {
					// spread the reads over the whole script: a bounded number per setter phase
					e := epoch.Load()
					if e != seenEpoch {
						seenEpoch, inEpoch = e, 0
					}
					inEpoch++
					if inEpoch > budget {
						for spin := 0; epoch.Load() == e && !setterDone.Load(); spin++ {
							runtime.Gosched()
							if spin&1023 == 1023 && time.Now().After(deadline) {
								break
							}
						}
						n--
						continue
					}
				}
				var g *concGetter
				kind := uint8(0)
				switch x := rr.Intn(100); {
				case x < 45:
					g = shared[rr.Intn(len(shared))]
				case x < 90:
					g, kind = private, 1
				case x < 95:
					kind = 2
				default:
					kind = 3
				}
				var rec readRec
				rec.kind = kind
				if sc.Log {
					rec.call = seq.Add(1)
				}
				if g == nil {
					g = newConcGetter(key, sc.ValType, kind == 2)
				}
				rec.val = g.read()
				if sc.Log {
					rec.ret = seq.Add(1)
					reads.Add(1)
				}
				mine = append(mine, rec)
				if rr.Intn(64) == 0 {
					runtime.Gosched()
				}
			}
			recs[ri] = mine
		}(ri)
	}

	// the setter
	close(start)
	var setErr error
	for i := range ops {
		op := &ops[i]
		if time.Now().After(deadline) {
			break
		}
		parkThis := sc.Hook == "park-reader" && i > 0 && i%3 == 1
		if parkThis {
			// a reader that re-fetches because of the previous change parks between flag and value
			t0 := time.Now()
			for parked.Load() == 0 && time.Since(t0) < 20*time.Millisecond {
				runtime.Gosched()
			}
		}
		curOp.Store(int32(i))
		if sc.Log {
			epoch.Add(1)
			op.call = seq.Add(1)
		}
		var err error
		switch op.Kind {
		case "set":
			err = config.SetConfigOption(key, concValue(sc.ValType, op.K))
		case "setdef":
			err = config.SetDefaultConfigOption(key, concValue(sc.ValType, op.K))
		case "del":
			err = config.SetConfigOption(key, nil)
		case "replace", "replacedef":
			mp := map[string]interface{}{key: concValue(sc.ValType, op.K)}
			var verrs []*config.ValidationError
			if op.Kind == "replace" {
				verrs, _ = config.ReplaceConfig(mp)
			} else {
				verrs, _ = config.ReplaceDefaultConfig(mp)
			}
			if len(verrs) > 0 {
				err = verrs[0]
			}
		case "rl":
			err = config.SetConfigOption(rlKey, op.Level)
		}
		if sc.Log {
			op.ret = seq.Add(1)
			epoch.Add(1)
		}
		curOp.Store(-1)
		if err != nil {
			setErr = fmt.Errorf("op %d %s: %w", i, op.Kind, err)
			break
		}
		if sc.Hook == "park-reader" {
			// release whoever was parked across this operation, arm for the next re-fetch
			parkMu.Lock()
			close(parkCh)
			parkCh = make(chan struct{})
			parkMu.Unlock()
			if i%3 == 0 {
				armed.Store(true)
			}
		}
		// pacing: let the readers observe this state before the next change
		if sc.Log {
			c0 := reads.Load()
			want := int64(1 + r.Intn(2*sc.Readers))
			t0 := time.Now()
			for reads.Load() < c0+want && time.Since(t0) < 200*time.Millisecond {
				runtime.Gosched()
			}
		} else {
			time.Sleep(time.Duration(20+r.Intn(200)) * time.Microsecond)
		}
	}
	armed.Store(false)
	parkMu.Lock()
	close(parkCh)
	parkCh = make(chan struct{})
	parkMu.Unlock()
	setterDone.Store(true)
	wg.Wait()
	vhook.Clear()
	if setErr != nil {
		b.Violation("C04:set-rejected-valid:concurrent:"+typeNames[sc.ValType], "the setter's valid value was rejected: "+setErr.Error(), map[string]any{"mode": "conc", "scenario": sc})
		return
	}
	if time.Now().After(deadline) {
		b.Inconclusive("concurrent scenario %s hit its 90 s watchdog", sc.ID)
		return
	}
	if n := parkTimeouts.Load(); n > 0 {
		b.Count("park_timeouts", n)
	}
	b.Count("reader_parks_across_a_set", parksDone.Load())
	b.Count("setter_parks_before_signal", setterParks.Load())
	b.Count("setter_ops", int64(len(ops)))
	for _, op := range ops {
		b.Seen("conc_writer_ops", op.Kind)
	}
	total := 0
	for _, rs := range recs {
		total += len(rs)
	}
	b.Count("concurrent_reads", int64(total))

	final := ops[len(ops)-1].Eff
	written := map[int32]bool{0: true}
	for _, op := range ops {
		written[int32(op.Eff)] = true
	}
	detail := func(extra map[string]any) map[string]any {
		d := map[string]any{"mode": "conc", "scenario": sc, "ops": len(ops)}
		for k, v := range extra {
			d[k] = v
		}
		return d
	}
	if !sc.Log {
		// only what can be decided without a clock: every value was written by someone, and
		// after everything was joined a new read returns the final value
		b.Count("nolog_scenarios", 1)
		for ri, rs := range recs {
			for _, rec := range rs {
				if !written[rec.val] {
					b.Violation("C04:regular-register:foreign-value:"+readKinds[rec.kind], fmt.Sprintf("reader %d got value index %d which is never an effective value", ri, rec.val), detail(nil))
					return
				}
			}
		}
		for _, g := range append(shared, newConcGetter(key, sc.ValType, true), newConcGetter(key, sc.ValType, false)) {
			if v := g.read(); int(v) != final {
				b.Violation("C04:regular-register:stale-after-quiescence", fmt.Sprintf("after all operations returned a getter yields value index %d, final effective value index %d", v, final), detail(nil))
				return
			}
		}
		return
	}

	// regular-register oracle
	n := len(ops)
	calls := make([]uint64, n)
	rets := make([]uint64, n)
	for i, op := range ops {
		calls[i], rets[i] = op.call, op.ret
	}
	effAt := func(j int) int32 { // j = number of completed ops (0 = initial state)
		if j == 0 {
			return 0
		}
		return int32(ops[j-1].Eff)
	}
	var overlapping, sawInflight, sawOldDuring int64
	for ri, rs := range recs {
		for _, rec := range rs {
			// k = number of ops whose ret precedes the read's call
			k := sort.Search(n, func(i int) bool { return rets[i] > rec.call })
			// m = number of ops whose call precedes the read's ret
			m := sort.Search(n, func(i int) bool { return calls[i] > rec.ret })
			ok := false
			for j := k; j <= m; j++ {
				if effAt(j) == rec.val {
					ok = true
					if j > k {
						sawInflight++
					}
					break
				}
			}
			if m > k {
				overlapping++
				if rec.val == effAt(k) && effAt(k) != effAt(m) {
					sawOldDuring++
				}
			}
			if ok {
				continue
			}
			kind := "foreign-value" // never an effective value
			for j := m + 1; j <= n; j++ {
				if effAt(j) == rec.val {
					kind = "future-value" // only operations that had not begun produce it
				}
			}
			for j := 0; j < k; j++ {
				if effAt(j) == rec.val {
					kind = "stale" // overwritten by an operation that had returned
				}
			}
			lastOp := "initial"
			if k > 0 {
				lastOp = ops[k-1].Kind
			}
			var window []map[string]any
			for j := max(0, k-2); j < min(n, m+2); j++ {
				window = append(window, map[string]any{"op": j, "kind": ops[j].Kind, "k": ops[j].K, "level": ops[j].Level, "eff_after": ops[j].Eff,
					"call": ops[j].call, "presignal": ops[j].pre, "ret": ops[j].ret})
			}
			b.Violation("C04:regular-register:"+kind+":"+readKinds[rec.kind]+":after-"+lastOp,
				fmt.Sprintf("reader %d: %s getter call [%d,%d] returned value index %d; operation #%d (%s, effective value %d) had returned before the call (ret=%d) and only operations up to #%d had begun before the read returned (allowed effective values: %v)",
					ri, readKinds[rec.kind], rec.call, rec.ret, rec.val, k-1, lastOp, effAt(k), func() uint64 {
						if k > 0 {
							return rets[k-1]
						}
						return 0
					}(), m-1, func() []int32 {
						var a []int32
						for j := k; j <= m; j++ {
							a = append(a, effAt(j))
						}
						return a
					}()),
				detail(map[string]any{"read": map[string]any{"reader": ri, "call": rec.call, "ret": rec.ret, "value_index": rec.val, "getter": readKinds[rec.kind]}, "ops_window": window}))
			return
		}
	}
	b.Count("reads_overlapping_a_set", overlapping)
	b.Count("reads_returning_inflight_value", sawInflight)
	b.Count("reads_returning_old_value_during_set", sawOldDuring)
	// interleaving signature: per op, how many re-fetches fell before / after the presignal point
	sort.Slice(refetchSeqs, func(i, j int) bool { return refetchSeqs[i] < refetchSeqs[j] })
	h := fnv.New64a()
	for i, op := range ops {
		lo := sort.Search(len(refetchSeqs), func(x int) bool { return refetchSeqs[x] > op.call })
		mid := lo
		if op.pre != 0 {
			mid = sort.Search(len(refetchSeqs), func(x int) bool { return refetchSeqs[x] > op.pre })
		}
		hi := sort.Search(len(refetchSeqs), func(x int) bool { return refetchSeqs[x] > op.ret })
		a, c := min(mid-lo, 3), min(hi-mid, 3)
		pat := fmt.Sprintf("%s:%d/%d", op.Kind, a, c)
		b.Seen("op_interleaving_patterns", pat)
		if i < 48 {
			h.Write([]byte(pat))
		}
	}
	b.Seen("interleaving_signatures", strconv.FormatUint(h.Sum64(), 36))
	b.Count("refetch_hook_hits", int64(len(refetchSeqs)))
}
