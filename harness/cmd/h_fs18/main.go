// h_fs18 — engine for C18: externally supplied names never reach files outside the
// component's root.
//
// Orchestrator: derives, per component (fstree backend used directly, fstree behind a
// registered database, utils.DirStructure, updater archive unpacking, updater storage
// scan), a PRNG-determined list of hostile and harmless names, runs them in child
// processes against the real code inside a sandbox tree full of canaries, and merges
// what the children's oracles decided. Some children (quick) / all children (thorough)
// run under strace; their traces feed the path-access oracle (strace.go).
//
// Child: builds the sandbox, drives the component name by name; after every single
// call it compares a content-hash snapshot of everything outside the root with the
// previous one, looks for canary tokens in what the call returned, and demands an
// error for every name whose lexical resolution leaves the root.
package main

import (
	"encoding/json"
	"fmt"
	"os"
	"path/filepath"
	"runtime"
	"time"

	"verifharness/internal/vlib"
)

func init() { runtime.LockOSThread() }

var comps = []string{"fstree", "dbfstree", "dirs", "unpack", "scan"}

type spec struct {
	Comp   string   `json:"comp"`
	Tier   string   `json:"tier"`
	Seed   uint64   `json:"seed"`
	Shard  int      `json:"shard"`
	N      int      `json:"n"`
	Depth  int      `json:"depth"`
	Base   string   `json:"base,omitempty"`
	Strace bool     `json:"strace"`
	Lazy   bool     `json:"lazy_snapshot,omitempty"`
	Names  []string `json:"names,omitempty"`
	// replay of an archive: the exact entry list of the witness
	Entries []zipEntry `json:"entries,omitempty"`
}

const rule = "per component a PRNG-determined list of names (plain in-root paths, relative paths to existing canaries outside the root, " +
	"sibling directories whose name extends the root's name, absolute paths, '.', '..', empty segments, repeated separators, leave-and-come-back paths, " +
	"look-alikes, over-long / NUL / non-ASCII names, each optionally re-spelled by inserting './', '//', 'x/..'), against roots of depth 1-4; " +
	"a case is one (component, call form, name); distinct = distinct (component, form, name) actually executed"

func main() {
	if dir, ok := vlib.IsChild(); ok {
		childMain(dir)
		return
	}
	cfg := vlib.Load()
	rep := vlib.NewReport(cfg)
	rep.Rule(rule)
	rep.Assume("the sandbox contains no symbolic links except those an unpacked archive creates itself; escaping(name) is lexical, while the outside snapshot and the path-access oracle (which also reads the physical path of every returned descriptor) are physical")
	rep.Assume("escaping(name) is decided by a lexical reference resolver (cross-checked against filepath.Clean(Join(root,name)))")
	rep.Assume("archive/zip accepts non-local entry names (GODEBUG zipinsecurepath is not set to 0)")
	rep.Assume("for DirStructure the root is the path of the top-level structure (children delegate to it); for unpacking the root is the extraction directory <storage>/tmp/<name>, later renamed to the destination")

	var specs []vlib.ChildSpec
	var sps []spec
	add := func(sp spec, tag string) {
		name := fmt.Sprintf("%s-%s%03d", sp.Comp, tag, sp.Shard)
		cs := vlib.ChildSpec{Name: name, Bin: cfg.BinPlain, Spec: sp, Timeout: time.Duration(cfg.N(150, 600)) * time.Second}
		if sp.Strace {
			// --seccomp-bpf: ptrace stops only for the traced (file-class) system calls instead of
			// for every system call of the child; on a loaded machine every stop costs two
			// scheduling round trips, which is what made traced children crawl
			cs.Wrap = []string{"strace", "-f", "--seccomp-bpf", "-qq", "-e", "trace=%file", "-y", "-o", filepath.Join(cfg.OutDir, "child", name, "strace.out")}
		}
		specs = append(specs, cs)
		sps = append(sps, sp)
	}

	if cfg.Replay != "" {
		sp, err := replaySpec(cfg)
		if err != nil {
			fmt.Println("h_fs18: replay:", err)
			rep.Note("replay file not usable: %v", err)
			_ = rep.Finish()
			return
		}
		add(sp, "replay")
	} else {
		perComp := cfg.N(2000, 50000)
		shards := cfg.N(4, 24)
		for _, comp := range comps {
			for s := 0; s < shards; s++ {
				n := perComp / shards
				if s == 0 {
					n += perComp % shards
				}
				// quick: one extra small traced shard per component (added below)
				// thorough: two of three shards run under strace (path-access oracle, lazy
				// snapshots), the third untraced with a snapshot after every single call
				traced := cfg.Thorough() && s%3 != 2
				add(spec{Comp: comp, Tier: cfg.Tier, Seed: cfg.Seed, Shard: s, N: n, Depth: 1 + s%4, Strace: traced, Lazy: traced}, "s")
			}
			if !cfg.Thorough() {
				add(spec{Comp: comp, Tier: cfg.Tier, Seed: cfg.Seed, Shard: 100, N: 250, Depth: 1 + int(cfg.Seed%4), Strace: true, Lazy: true}, "t")
			}
		}
	}

	straceBroken := 0
	vlib.RunChildren(cfg, specs, func(i int, r *vlib.ChildResult) {
		sp := sps[i]
		if r.TimedOut {
			rep.Inconclusive("child %s timed out (watchdog %s): %s", r.Name, specs[i].Timeout, r.StderrTail(800))
			return
		}
		if !r.Done {
			rep.Inconclusive("child %s died (exit=%d signal=%q) before finishing: %s", r.Name, r.Exit, r.Signal, r.StderrTail(1200))
			return
		}
		b := rep.MergeChild(r)
		if b == nil {
			rep.Inconclusive("child %s left no output", r.Name)
			return
		}
		rep.Count("children."+sp.Comp, 1)
		rep.Max("child_wall_s_max", int64(r.Wall.Seconds()))
		rep.Seen("root_depths", fmt.Sprint(sp.Depth))
		if sp.Strace {
			if fi, err := os.Stat(filepath.Join(r.Dir, "strace.out")); err != nil || fi.Size() == 0 {
				straceBroken++
				rep.Inconclusive("child %s: strace produced no trace (%v)", r.Name, err)
				return
			}
			judgeTrace(rep, sp, r, b)
		}
	})

	if cfg.Replay == "" {
		for _, comp := range comps {
			want := int64(cfg.N(2000, 50000)) / 4
			rep.Floor(rep.Counter("escaping."+comp) >= want/4, "%s: only %d operations with escaping names", comp, rep.Counter("escaping."+comp))
			rep.Floor(rep.Counter("inside."+comp) >= want/4, "%s: only %d operations with non-escaping names", comp, rep.Counter("inside."+comp))
			rep.Floor(rep.Counter("works_checked."+comp) >= 5, "%s: only %d plain in-root names checked for 'still works'", comp, rep.Counter("works_checked."+comp))
		}
		rep.Floor(rep.Counter("strace.ops_judged") >= 500, "path-access oracle judged only %d operations", rep.Counter("strace.ops_judged"))
		rep.Floor(rep.SeenCount("root_depths") >= 4, "root depths seen: %d", rep.SeenCount("root_depths"))
	}
	if err := rep.Finish(); err != nil {
		fmt.Println("h_fs18: cannot write result:", err)
		os.Exit(2)
	}
}

// replaySpec turns a witness file into a one-name child run.
func replaySpec(cfg vlib.Cfg) (spec, error) {
	var doc struct {
		Seed   uint64 `json:"seed"`
		Detail struct {
			Comp  string     `json:"comp"`
			Name  string     `json:"name"`
			Depth int        `json:"depth"`
			Base  string     `json:"base"`
			Shard int        `json:"shard"`
			Extra []zipEntry `json:"extra"`
		} `json:"detail"`
	}
	b, err := os.ReadFile(cfg.Replay)
	if err != nil {
		return spec{}, err
	}
	if err := json.Unmarshal(b, &doc); err != nil {
		// "extra" may hold something else for other components; retry without it
		var loose struct {
			Seed   uint64         `json:"seed"`
			Detail map[string]any `json:"detail"`
		}
		if err2 := json.Unmarshal(b, &loose); err2 != nil {
			return spec{}, err
		}
		doc.Seed = loose.Seed
		doc.Detail.Comp, _ = loose.Detail["comp"].(string)
		doc.Detail.Name, _ = loose.Detail["name"].(string)
		doc.Detail.Base, _ = loose.Detail["base"].(string)
		if d, ok := loose.Detail["depth"].(float64); ok {
			doc.Detail.Depth = int(d)
		}
		if d, ok := loose.Detail["shard"].(float64); ok {
			doc.Detail.Shard = int(d)
		}
	}
	if doc.Detail.Comp == "" {
		return spec{}, fmt.Errorf("no component in the witness")
	}
	if doc.Detail.Depth == 0 {
		doc.Detail.Depth = 2
	}
	seed := doc.Seed
	if seed == 0 {
		seed = cfg.Seed
	}
	names := []string{doc.Detail.Name}
	sp := spec{Comp: doc.Detail.Comp, Tier: cfg.Tier, Seed: seed, Shard: doc.Detail.Shard, N: len(names), Depth: doc.Detail.Depth,
		Base: doc.Detail.Base, Names: names, Strace: true}
	if doc.Detail.Comp == "unpack" && len(doc.Detail.Extra) > 0 {
		sp.Entries = doc.Detail.Extra
	}
	return sp, nil
}
