package main

import (
	"archive/zip"
	"bytes"
	"fmt"
	"os"
	"path/filepath"
	"sort"
	"strings"

	"github.com/safing/portbase/updater"
	"github.com/safing/portbase/utils"
	"verifharness/internal/vlib"
)

// ---------------------------------------------------------------------------------
// archive unpacking

type zipEntry struct {
	Name    string `json:"name"`
	Dir     bool   `json:"dir,omitempty"`
	Content string `json:"content,omitempty"`
	Hostile bool   `json:"from_name_list,omitempty"`
	Kind    string `json:"kind,omitempty"`
	Link    bool   `json:"symlink,omitempty"` // symlink-mode entry; Content is the link target
}

func buildZip(ents []zipEntry) ([]byte, error) {
	var buf bytes.Buffer
	w := zip.NewWriter(&buf)
	for _, e := range ents {
		h := &zip.FileHeader{Name: e.Name, Method: zip.Store}
		if e.Dir {
			h.SetMode(0o755 | os.ModeDir)
		} else if e.Link {
			h.SetMode(os.ModeSymlink | 0o777)
		} else {
			h.SetMode(0o644)
		}
		f, err := w.CreateHeader(h)
		if err != nil {
			return nil, err
		}
		if !e.Dir {
			if _, err := f.Write([]byte(e.Content)); err != nil {
				return nil, err
			}
		}
	}
	if err := w.Close(); err != nil {
		return nil, err
	}
	return buf.Bytes(), nil
}

// runUnpack drives Resource.UnpackArchive (through ResourceRegistry.UnpackResources)
// with zip archives whose entry names come from the name generator. The root the
// oracle uses is the directory the archive is extracted into (<storage>/tmp/<name>),
// which UnpackArchive renames to the destination directory next to the archive.
func runUnpack(c *cctx) {
	comp := "unpack"
	storage := c.sb.Root
	reg := &updater.ResourceRegistry{Name: "c18"}
	if err := reg.Initialize(utils.NewDirStructure(storage, 0o755)); err != nil {
		c.b.Inconclusive("registry Initialize failed: %v", err)
		return
	}
	id := []string{"app.zip", "pkg/app.zip", "a/b/app.zip"}[c.sp.Shard%3]
	vp := updater.GetVersionedPath(id, "1.0.0")
	archive := filepath.Join(storage, filepath.FromSlash(vp))
	dest := strings.TrimSuffix(archive, ".zip")
	extract := filepath.Join(storage, "tmp", strings.TrimSuffix(filepath.Base(vp), ".zip"))
	reg.AutoUnpack = []string{id}
	if err := reg.AddResource(id, "1.0.0", nil, true, false, false); err != nil {
		c.b.Inconclusive("AddResource failed: %v", err)
		return
	}
	reg.SelectVersions()

	// canaries inside the storage dir but outside the extraction dir
	can := canaryRecord(c.sb.CTok)
	inStorage := []string{
		filepath.Join(storage, "pkg", "other_v1-0-0.zip"),
		filepath.Join(storage, "keep", "rec1"),
		filepath.Join(storage, "top_v2-0-0"),
		extract + "x/rec1",
		extract + "-other/rec1",
	}
	for _, p := range inStorage {
		mustWrite(p, can)
	}
	mustMkdir(filepath.Dir(archive))
	embed := c.sb.seedReplica(extract) // a replica of the extraction dir's absolute path in a foreign tree
	targets := append(append([]string{}, c.sb.Targets...), inStorage...)
	targets = append(targets, storage, filepath.Join(storage, "tmp"), filepath.Join(storage, "pkg"), filepath.Join(storage, "keep"), extract+"x")
	c.root = extract
	c.sb.excl = []string{extract, dest, archive}
	c.sb.freeze()
	c.b.Extra["extract"] = extract
	c.b.Extra["dest"] = dest
	c.b.Extra["archive"] = archive
	g := &nameGen{Root: extract, Targets: targets, Inside: []string{"d1", "d1/d2", "f1"}, Suffix: []string{"x", "-other"}, Embed: embed}
	// where symlink-mode entries may point: existing directories and files outside the extraction dir
	var linkDirs, linkFiles []string
	for _, t := range targets {
		if fi, err := os.Lstat(t); err == nil && fi.IsDir() {
			linkDirs = append(linkDirs, t)
		} else if err == nil {
			linkFiles = append(linkFiles, t)
		}
	}

	names := c.names(g)
	if len(c.sp.Entries) > 0 {
		names = [][2]string{{"(replayed entry list)", "replay"}}
	}
	for pos := 0; pos < len(names); {
		ch := c.choice(names[pos][0])
		k := ch.Range(1, 3)
		if len(c.sp.Names) > 0 {
			k = len(names)
		}
		if pos+k > len(names) {
			k = len(names) - pos
		}
		group := names[pos : pos+k]
		pos += k

		// benign skeleton
		ents := []zipEntry{{Name: "d1/", Dir: true}, {Name: "f1", Content: "F1"}, {Name: "d1/f2", Content: "F2"}}
		if ch.Bool() {
			ents = append(ents, zipEntry{Name: "d1/d2/", Dir: true}, zipEntry{Name: "d1/d2/f3", Content: "F3"})
		}
		if ch.Chance(1, 8) {
			ents = nil
		}
		allPlain := true
		for gi, nk := range group {
			name, kind := nk[0], nk[1]
			var add []zipEntry
			if kind == "plain" {
				// give plain names their parent directories so that they can be extracted
				segs := strings.Split(name, "/")
				for i := 1; i < len(segs); i++ {
					add = append(add, zipEntry{Name: "p" + fmt.Sprint(gi) + "/" + strings.Join(segs[:i], "/") + "/", Dir: true})
				}
				add = append([]zipEntry{{Name: "p" + fmt.Sprint(gi) + "/", Dir: true}}, add...)
				add = append(add, zipEntry{Name: "p" + fmt.Sprint(gi) + "/" + name, Content: "PLAIN-" + name, Hostile: true, Kind: kind})
			} else {
				allPlain = false
				e := zipEntry{Name: name, Content: fmt.Sprintf("EVIL-%d-%d", pos, gi), Hostile: true, Kind: kind}
				if ch.Chance(1, 6) {
					e.Dir = true
					if !strings.HasSuffix(e.Name, "/") {
						e.Name += "/"
					}
				} else if strings.HasSuffix(e.Name, "/") {
					e.Dir = true // archive/zip treats a trailing slash as a directory
				}
				add = []zipEntry{e}
			}
			at := ch.Intn(len(ents) + 1)
			if kind == "plain" {
				at = len(ents)
			}
			ents = append(ents[:at:at], append(add, ents[at:]...)...)
		}

		// symlink-mode entries (content = link target) followed by entries whose names pass
		// through the link or repeat its name: no name escapes lexically, the physical
		// oracles (outside snapshot, path-access) decide
		if ch.Chance(1, 3) {
			allPlain = false
			parent := vlib.Pick(ch, "", "assets/", "lib/x/")
			link := parent + vlib.Pick(ch, "shared", "lnk", "current")
			linkAbs := filepath.Join(extract, link)
			var lg []zipEntry
			for i, seg := 0, strings.Split(strings.TrimSuffix(parent, "/"), "/"); parent != "" && i < len(seg); i++ {
				lg = append(lg, zipEntry{Name: strings.Join(seg[:i+1], "/") + "/", Dir: true})
			}
			switch ch.Intn(5) {
			case 0, 1: // relative link to a directory outside, then entries below the link
				t, _ := filepath.Rel(filepath.Dir(linkAbs), vlib.Pick(ch, linkDirs...))
				lg = append(lg, zipEntry{Name: link, Link: true, Content: t},
					zipEntry{Name: link + "/pwned.txt", Content: "THROUGH-LINK"}, zipEntry{Name: link + "/rec1", Content: "OVERWRITTEN"})
				if ch.Bool() {
					lg = append(lg, zipEntry{Name: link + "/nd/", Dir: true})
				}
			case 2: // absolute link to a directory outside
				lg = append(lg, zipEntry{Name: link, Link: true, Content: vlib.Pick(ch, linkDirs...)},
					zipEntry{Name: link + "/rec1", Content: "OVERWRITTEN"}, zipEntry{Name: link + "/pwned.txt", Content: "THROUGH-LINK"})
			case 3: // link to a file outside, then a regular entry with the link's own name
				t := vlib.Pick(ch, linkFiles...)
				if ch.Bool() {
					t, _ = filepath.Rel(filepath.Dir(linkAbs), t)
				}
				lg = append(lg, zipEntry{Name: link, Link: true, Content: t}, zipEntry{Name: link, Content: "OVERWRITTEN"})
			default: // link that stays inside
				lg = append(lg, zipEntry{Name: link, Link: true, Content: vlib.Pick(ch, ".", "..", "f1", "d1")},
					zipEntry{Name: link + "/viaInsideLink", Content: "INSIDE"})
			}
			if ch.Bool() {
				ents = append(lg, ents...)
			} else {
				ents = append(ents, lg...)
			}
		}

		if len(c.sp.Entries) > 0 {
			ents, allPlain = c.sp.Entries, false
		}

		// oracle's view: resolve every entry against the extraction dir, simulate
		ni := &nameInfo{Comp: comp, Name: group[0][0], Kind: group[0][1], Form: "zip-entry", Class: "inside"}
		wellFormed, hasLink, linkDesc := true, false, ""
		sim := map[string]bool{extract: true} // path -> isDir
		for _, e := range ents {
			t := resolveFrom(extract, e.Name)
			if !strings.ContainsRune(e.Name, 0) && !crossCheck(extract, e.Name) {
				c.b.Inconclusive("reference resolver disagrees with filepath for zip entry %q", e.Name)
			}
			cl := escapeClass(extract, t)
			if e.Hostile {
				c.b.Seen("kinds."+comp, e.Kind)
				c.b.Seen("classes."+comp, cl)
				c.b.DistinctS(comp + "\x00" + e.Name)
			}
			if e.Link {
				hasLink = true
				linkDesc = e.Name + " -> " + e.Content
			}
			if cl != "inside" {
				if !ni.Esc {
					ni.Esc, ni.Class, ni.Name, ni.Kind, ni.Target = true, cl, e.Name, e.Kind, t
				}
				wellFormed = false
				continue
			}
			isDir, exists := sim[t]
			pd, pok := sim[filepath.Dir(t)]
			switch {
			case strings.ContainsRune(e.Name, 0) || len(filepath.Base(t)) > 255 || len(t) > 3500:
				wellFormed = false
			case !pok || !pd:
				wellFormed = false
			case e.Dir && exists:
				wellFormed = false
			case !e.Dir && exists && isDir:
				wellFormed = false
			default:
				sim[t] = e.Dir
			}
		}
		if !ni.Esc {
			ni.Target = resolveFrom(extract, ni.Name)
		}
		if hasLink {
			wellFormed = false
			c.b.Count("archives_with_symlink_entries", 1)
			if ni.Esc {
				ni.Class += "+link" // an escaping name and a link in one archive: either may be the cause
			} else {
				ni.Name, ni.Kind = "(symlink-mode entry) "+linkDesc, "symlink-entry"
				ni.Class = "through-link" // no name escapes lexically; only a link created by the archive can lead out
			}
		}
		data, err := buildZip(ents)
		if err != nil {
			c.b.Note("zip writer refused an entry list: %v", err)
			continue
		}
		if err := os.WriteFile(archive, data, 0o644); err != nil {
			c.b.Inconclusive("cannot write archive: %v", err)
			return
		}
		_ = os.RemoveAll(dest)
		_ = os.RemoveAll(extract)
		ni.Extra = ents

		res := c.do(ni, "UnpackArchive", func() (error, [][]byte) { return reg.UnpackResources(), nil })
		c.b.Count("zip_entries", int64(len(ents)))
		if c.nsamp < 3 && ((c.nsamp == 0) == ni.Esc) {
			c.nsamp++
			c.b.Sample(map[string]any{"name": ni, "entries": ents, "result": res})
		}
		if wellFormed {
			c.b.Count("wellformed_archives", 1)
			bad := ""
			if res.OK {
				for t, isDir := range sim {
					if t == extract {
						continue
					}
					p := dest + strings.TrimPrefix(t, extract)
					fi, err := os.Stat(p)
					if err != nil || fi.IsDir() != isDir {
						bad = fmt.Sprintf("%s missing or of the wrong type after a successful unpack (%v)", p, err)
					}
				}
			} else {
				bad = "unpacking failed: " + res.Err
			}
			if allPlain {
				c.b.Count("works_checked."+comp, 1)
				if bad != "" {
					c.b.Violation("C18:inside-broken:unpack.UnpackArchive", "a well-formed archive with plain entry names is not unpacked: "+bad,
						map[string]any{"comp": comp, "entries": ents, "root": storage, "depth": c.sp.Depth, "base": c.sb.Base, "result": res})
				}
			} else if bad != "" {
				c.b.Count("inside_unclean_refused."+comp, 1)
			}
		}
		_ = os.RemoveAll(dest)
	}
}

// ---------------------------------------------------------------------------------
// storage scan

func runScan(c *cctx) {
	comp := "scan"
	storage := c.sb.Root
	reg := &updater.ResourceRegistry{Name: "c18"}
	if err := reg.Initialize(utils.NewDirStructure(storage, 0o755)); err != nil {
		c.b.Inconclusive("registry Initialize failed: %v", err)
		return
	}
	seeded := map[string]string{"pkg/inres.zip": "1.2.3", "top": "0.1.0", "pkg/sub/deep.zip": "2.0.0"}
	for id, v := range seeded {
		mustWrite(filepath.Join(storage, filepath.FromSlash(updater.GetVersionedPath(id, v))), []byte("INSIDE"))
	}
	mustWrite(filepath.Join(storage, "pkg", "notes.txt"), []byte("INSIDE"))
	if err := os.Chdir(c.sb.Outer); err != nil {
		c.b.Inconclusive("chdir failed: %v", err)
		return
	}
	_ = os.Setenv("PWD", c.sb.Outer)
	c.cwd = c.sb.Outer
	c.sb.freeze()
	g := &nameGen{Root: storage, Targets: c.sb.Targets, Inside: []string{"pkg", "pkg/sub", "tmp", "pkg/inres_v1-2-3.zip"}, Suffix: c.sb.Suffixes, Embed: c.sb.Embed}

	for _, nk := range c.names(g) {
		name := nk[0]
		ch := c.choice(name)
		ni := &nameInfo{Comp: comp, Name: name, Kind: nk[1]}
		arg := name
		f := ch.Intn(6)
		if strings.HasPrefix(name, "/") && ch.Chance(2, 3) {
			f = 2
		}
		switch {
		case f <= 1:
			ni.Form = "abs-appended"
			arg = storage + "/" + name
		case f == 2:
			ni.Form = "as-given"
		case f == 3 || f == 4:
			ni.Form = "cwd-relative"
			arg = c.sb.Base + "/" + name
		default:
			ni.Form = "cwd-relative-dot"
			arg = "./" + c.sb.Base + "/" + name
		}
		if ni.Form == "as-given" && name == "" {
			ni.Form = "empty(full scan)"
		}
		ni.Arg = arg
		if arg == "" {
			c.classify(ni, storage, true, "")
		} else {
			c.classify(ni, c.cwd, false, arg)
		}
		var found []string
		res := c.do(ni, "ScanStorage", func() (error, [][]byte) {
			err := reg.ScanStorage(arg)
			var blobs [][]byte
			for id, r := range reg.Export() {
				vs := ""
				for _, v := range r.Versions {
					vs += " v" + v.VersionNumber
				}
				found = append(found, id)
				blobs = append(blobs, []byte(id+vs))
			}
			return err, blobs
		})
		reg.ResetResources()
		sort.Strings(found)
		c.sample(ni, res)
		for _, id := range found {
			if _, ok := seeded[id]; !ok && !(ni.Esc && res.OK) && !res.Leak {
				// something that is not one of the in-root resources was registered
				if strings.HasPrefix(id, "../") || strings.Contains(id, "/../") {
					c.b.Violation("C18:outside-read:scan.ScanStorage:"+ni.Class, fmt.Sprintf("ScanStorage(%q) registered %q, which is not below the storage dir", arg, id),
						map[string]any{"comp": comp, "op": "ScanStorage", "name": name, "form": ni.Form, "arg": arg, "root": storage, "depth": c.sp.Depth, "base": c.sb.Base, "found": found})
				}
			}
		}
		if !ni.Esc && ni.Target == storage && !strings.ContainsRune(arg, 0) {
			c.b.Count("works_checked."+comp, 1)
			missing := ""
			for id := range seeded {
				ok := false
				for _, f := range found {
					ok = ok || f == id
				}
				if !ok {
					missing += " " + id
				}
			}
			if !res.OK || missing != "" {
				c.b.Violation("C18:inside-broken:scan.ScanStorage", fmt.Sprintf("ScanStorage(%q) of the storage dir itself failed or missed resources:%s %s", arg, missing, res.Err),
					map[string]any{"comp": comp, "op": "ScanStorage", "name": name, "form": ni.Form, "arg": arg, "root": storage, "depth": c.sp.Depth, "base": c.sb.Base, "found": found, "result": res})
			}
		}
	}
}
