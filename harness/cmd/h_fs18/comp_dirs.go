package main

import (
	"fmt"
	"os"
	"path/filepath"
	"strings"

	"github.com/safing/portbase/updater"

	"github.com/safing/portbase/utils"
	"verifharness/internal/vlib"
)

// runDirs drives utils.DirStructure: EnsureAbsPath with path strings used as given,
// EnsureRelPath / EnsureRelDir with names joined under the structure's path; called on
// the top structure and on registered children (which delegate to the top, so the
// root the oracle uses is the top structure's path).
func runDirs(c *cctx) {
	comp := "dirs"
	lr := vlib.NewRand(c.sp.Seed, "C18/dirs/perm", uint64(c.sp.Shard))
	perm := vlib.Pick(lr, os.FileMode(0o700), 0o750, 0o755, 0o711)
	top := utils.NewDirStructure(c.sb.Root, perm)
	tmp := top.ChildDir("tmp", 0o700)
	deep := top.ChildDir("sub", 0o755).ChildDir("deep", 0o750)
	for _, ds := range []*utils.DirStructure{top, tmp, deep} {
		if err := ds.Ensure(); err != nil {
			c.b.Inconclusive("DirStructure.Ensure failed: %v", err)
			return
		}
	}
	_ = os.WriteFile(c.sb.Root+"/afile", []byte("x"), 0o644)
	freshBase := filepath.Join(c.sb.S, "fresh") // exists and is empty; roots that do not exist yet are placed below it
	mustMkdir(freshBase)
	c.sb.freeze()
	g := &nameGen{Root: c.sb.Root, Targets: c.sb.Targets, Inside: []string{"tmp", "sub", "sub/deep", "afile"}, Suffix: c.sb.Suffixes, Embed: c.sb.Embed}
	structs := []*utils.DirStructure{top, tmp, deep}
	snames := []string{"top", "child", "grandchild"}

	for i, nk := range c.names(g) {
		name := nk[0]
		ch := c.choice(name)
		si := ch.Intn(3)
		ds := structs[si]
		method := ch.Intn(4)
		ni := &nameInfo{Comp: comp, Name: name, Kind: nk[1]}
		var call func() error
		var op string
		switch method {
		case 0, 1:
			// an absolute path string used as given: either the name itself or the
			// name appended to the structure's path without cleaning
			op = "EnsureAbsPath"
			arg := name
			ni.Form = "abs-given@" + snames[si]
			if method == 0 && !strings.HasPrefix(name, "/") && ch.Bool() {
				arg = c.sb.Root + "/" + name
				ni.Form = "abs-rootappended@" + snames[si]
			}
			if method == 1 {
				arg = ds.Path + "/" + name
				ni.Form = "abs-appended@" + snames[si]
			}
			ni.Arg = arg
			c.classify(ni, c.cwd, false, arg)
			call = func() error { return ds.EnsureAbsPath(arg) }
		case 2:
			op = "EnsureRelPath"
			ni.Form = "rel@" + snames[si]
			c.classify(ni, ds.Path, true, name)
			call = func() error { return ds.EnsureRelPath(name) }
		default:
			op = "EnsureRelDir"
			ni.Form = "reldir@" + snames[si]
			segs := strings.Split(name, "/")
			c.classify(ni, ds.Path, true, strings.Join(segs, "/"))
			call = func() error { return ds.EnsureRelDir(segs...) }
		}
		res := c.do(ni, op, func() (error, [][]byte) { return call(), nil })
		c.sample(ni, res)

		if !ni.Esc && ni.Kind == "plain" {
			c.b.Count("works_checked."+comp, 1)
			fi, err := os.Stat(ni.Target)
			if !res.OK || err != nil || !fi.IsDir() {
				c.b.Violation("C18:inside-broken:"+comp+"."+op, fmt.Sprintf("%s(%q) did not create the in-root directory %s: %s %v", op, name, ni.Target, res.Err, err),
					map[string]any{"comp": comp, "op": op, "name": name, "form": ni.Form, "root": c.sb.Root, "depth": c.sp.Depth, "base": c.sb.Base, "result": res})
			}
		}
		if !ni.Esc && res.OK {
			if fi, err := os.Stat(ni.Target); err != nil || !fi.IsDir() {
				c.b.Note("dirs: %s(%q) returned nil but %s is not a directory", op, name, ni.Target)
			}
		}
		if ch.Chance(1, 5) || (i < 12 && len(c.sp.Names) == 0) {
			c.freshRootCase(ch, freshBase, i, name, nk[1])
		}
	}
}

// freshRootCase: history instead of a hostile string. The structure's root does not
// exist yet and 0-3 of its ancestors are missing as well; nothing is pre-created beyond
// the chosen level. Whatever is requested (Ensure, a well-formed relative or absolute
// path, a child's Ensure, the updater registry's Initialize on such a storage dir), the
// ancestors of the root lie outside the root: creating them is a creation outside the
// root, so the call has to fail without touching anything (or create only the root
// when just the root is missing).
func (c *cctx) freshRootCase(ch *vlib.Rand, freshBase string, i int, name, kind string) {
	comp := "dirs"
	levels := []string{fmt.Sprintf("case%d", i), vlib.Pick(ch, "opt", "var", "a"), vlib.Pick(ch, "data", "lib", "b")}
	missing := ch.Intn(4) // ancestors of the root that do not exist
	caseDir := filepath.Join(freshBase, levels[0])
	root := filepath.Join(append([]string{freshBase}, append(levels, "root")...)...)
	if pre := len(levels) - missing; pre > 0 {
		mustMkdir(filepath.Join(append([]string{freshBase}, levels[:pre]...)...))
	}
	oldExcl := c.sb.excl
	c.sb.excl = append(append([]string{}, oldExcl...), root)
	c.sb.last = c.sb.snap()
	perm := vlib.Pick(ch, os.FileMode(0o700), 0o750, 0o755)
	ds := utils.NewDirStructure(root, perm)
	rel := "sub"
	if kind == "plain" {
		rel = name
	}
	var op string
	var call func() error
	switch ch.Intn(6) {
	case 0:
		op, call = "Ensure", ds.Ensure
	case 1:
		op, call = "EnsureRelPath", func() error { return ds.EnsureRelPath(rel) }
	case 2:
		op, call = "EnsureAbsPath", func() error { return ds.EnsureAbsPath(root + "/" + rel) }
	case 3:
		op, call = "EnsureRelDir", func() error { return ds.EnsureRelDir(strings.Split(rel, "/")...) }
	case 4:
		op, call = "Ensure", ds.ChildDir("tmp", 0o700).Ensure
	default:
		op, call = "registry.Initialize", func() error { return (&updater.ResourceRegistry{Name: "c18fresh"}).Initialize(ds) }
	}
	ni := &nameInfo{Comp: comp, Name: rel, Kind: "fresh-root", Form: "freshroot=" + root, Arg: fmt.Sprintf("%d ancestor(s) of the root missing", missing),
		Target: root, Class: "missing-root", Check: true}
	c.b.Seen("kinds."+comp, ni.Kind)
	c.b.Seen("fresh_root_missing_ancestors", fmt.Sprint(missing))
	c.b.DistinctS(fmt.Sprintf("%s\x00fresh\x00%d\x00%s\x00%s", comp, missing, op, rel))
	res := c.do(ni, op, func() (error, [][]byte) { return call(), nil })
	c.b.Count("fresh_root_cases", 1)
	if missing == 0 && op == "Ensure" {
		// only the root itself was missing: creating it is the helper's job
		c.b.Count("works_checked."+comp, 1)
		if fi, err := os.Stat(root); !res.OK || err != nil || !fi.IsDir() {
			c.b.Violation("C18:inside-broken:dirs.Ensure:missing-root", fmt.Sprintf("Ensure() did not create the missing root %s below its existing parent: %s %v", root, res.Err, err),
				map[string]any{"comp": comp, "op": op, "root": root, "result": res})
		}
	}
	_ = os.RemoveAll(caseDir)
	c.sb.excl = oldExcl
	c.sb.last = c.sb.snap()
}
