package main

import (
	"fmt"
	"os"
	"strings"

	"github.com/safing/portbase/utils"
	"verifharness/internal/vlib"
)

// runDirs drives utils.DirStructure: EnsureAbsPath with path strings used as given,
// EnsureRelPath / EnsureRelDir with names joined under the structure's path; called on
// the top structure and on registered children (which delegate to the top, so the
// root the oracle uses is the top structure's path).
func runDirs(c *cctx) {
	comp := "dirs"
	lr := vlib.NewRand(c.sp.Seed, "C18/dirs/perm", uint64(c.sp.Shard))
	perm := vlib.Pick(lr, os.FileMode(0o700), 0o750, 0o755, 0o711)
	top := utils.NewDirStructure(c.sb.Root, perm)
	tmp := top.ChildDir("tmp", 0o700)
	deep := top.ChildDir("sub", 0o755).ChildDir("deep", 0o750)
	for _, ds := range []*utils.DirStructure{top, tmp, deep} {
		if err := ds.Ensure(); err != nil {
			c.b.Inconclusive("DirStructure.Ensure failed: %v", err)
			return
		}
	}
	_ = os.WriteFile(c.sb.Root+"/afile", []byte("x"), 0o644)
	c.sb.freeze()
	g := &nameGen{Root: c.sb.Root, Targets: c.sb.Targets, Inside: []string{"tmp", "sub", "sub/deep", "afile"}, Suffix: c.sb.Suffixes, Embed: c.sb.Embed}
	structs := []*utils.DirStructure{top, tmp, deep}
	snames := []string{"top", "child", "grandchild"}

	for _, nk := range c.names(g) {
		name := nk[0]
		ch := c.choice(name)
		si := ch.Intn(3)
		ds := structs[si]
		method := ch.Intn(4)
		ni := &nameInfo{Comp: comp, Name: name, Kind: nk[1]}
		var call func() error
		var op string
		switch method {
		case 0, 1:
			// an absolute path string used as given: either the name itself or the
			// name appended to the structure's path without cleaning
			op = "EnsureAbsPath"
			arg := name
			ni.Form = "abs-given@" + snames[si]
			if method == 0 && !strings.HasPrefix(name, "/") && ch.Bool() {
				arg = c.sb.Root + "/" + name
				ni.Form = "abs-rootappended@" + snames[si]
			}
			if method == 1 {
				arg = ds.Path + "/" + name
				ni.Form = "abs-appended@" + snames[si]
			}
			ni.Arg = arg
			c.classify(ni, c.cwd, false, arg)
			call = func() error { return ds.EnsureAbsPath(arg) }
		case 2:
			op = "EnsureRelPath"
			ni.Form = "rel@" + snames[si]
			c.classify(ni, ds.Path, true, name)
			call = func() error { return ds.EnsureRelPath(name) }
		default:
			op = "EnsureRelDir"
			ni.Form = "reldir@" + snames[si]
			segs := strings.Split(name, "/")
			c.classify(ni, ds.Path, true, strings.Join(segs, "/"))
			call = func() error { return ds.EnsureRelDir(segs...) }
		}
		res := c.do(ni, op, func() (error, [][]byte) { return call(), nil })
		c.sample(ni, res)

		if !ni.Esc && ni.Kind == "plain" {
			c.b.Count("works_checked."+comp, 1)
			fi, err := os.Stat(ni.Target)
			if !res.OK || err != nil || !fi.IsDir() {
				c.b.Violation("C18:inside-broken:"+comp+"."+op, fmt.Sprintf("%s(%q) did not create the in-root directory %s: %s %v", op, name, ni.Target, res.Err, err),
					map[string]any{"comp": comp, "op": op, "name": name, "form": ni.Form, "root": c.sb.Root, "depth": c.sp.Depth, "base": c.sb.Base, "result": res})
			}
		}
		if !ni.Esc && res.OK {
			if fi, err := os.Stat(ni.Target); err != nil || !fi.IsDir() {
				c.b.Note("dirs: %s(%q) returned nil but %s is not a directory", op, name, ni.Target)
			}
		}
	}
}
