package main

import (
	"path/filepath"
	"strings"

	"verifharness/internal/vlib"
)

// ---------------------------------------------------------------------------------
// Reference model of containment. It is purely lexical (the sandbox never contains
// symlinks, so lexical and physical resolution coincide) and deliberately does not
// use path/filepath: filepath.Clean/Join are only used as a cross-check.

// resolveFrom resolves name against the absolute directory base the way a
// lexical join does: empty and "." segments vanish, ".." removes the last
// segment (and is a no-op at "/"). A leading "/" in name does NOT restart at the
// file-system root (that is what Join(base, name) does).
func resolveFrom(base, name string) string {
	var st []string
	push := func(s string) {
		for _, seg := range strings.Split(s, "/") {
			switch seg {
			case "", ".":
			case "..":
				if len(st) > 0 {
					st = st[:len(st)-1]
				}
			default:
				st = append(st, seg)
			}
		}
	}
	push(base)
	push(name)
	return "/" + strings.Join(st, "/")
}

// resolveAbs resolves a path string that is used as given: absolute paths from the
// file-system root, relative ones against cwd.
func resolveAbs(cwd, p string) string {
	if strings.HasPrefix(p, "/") {
		return resolveFrom("/", p)
	}
	return resolveFrom(cwd, p)
}

// inside reports whether target is root or lies below root + separator.
func inside(root, target string) bool {
	if target == root {
		return true
	}
	r := root
	if !strings.HasSuffix(r, "/") {
		r += "/"
	}
	return strings.HasPrefix(target, r)
}

// escapeClass names the way a target lies outside root: a sibling whose path merely
// extends the root's path as a string ("sibling-prefix") or anything else ("outside").
func escapeClass(root, target string) string {
	if inside(root, target) {
		return "inside"
	}
	if strings.HasPrefix(target, root) {
		return "sibling-prefix"
	}
	return "outside"
}

// crossCheck compares the reference resolution with path/filepath.
func crossCheck(base, name string) bool {
	return filepath.Clean(filepath.Join(base, name)) == resolveFrom(base, name)
}

// ---------------------------------------------------------------------------------
// name generator

type nameGen struct {
	Root    string   // absolute, clean: the directory names are resolved against
	Targets []string // absolute paths of existing things outside Root (canary files and dirs)
	Inside  []string // relative paths of existing things inside Root
	Suffix  []string // suffixes that turn the root's name into a sibling's name
	Embed   []string // absolute paths of existing things below a replica of Root's absolute path inside a foreign tree
}

var plainSegs = []string{"a", "b", "c", "rec", "dir", "data.json", "k1", "k2", "note", "x_y", "v1", "new", "cfg", "core", "ui"}

var dotNames = []string{"", ".", "..", "/", "//", "./", "../", "...", "....", "..a", "a..", ".a", "a/..", "a/../..",
	"a/./b//c/", "./.", "../.", "./..", "../..", "../../..", "../../../..", "../../../../../../../..", "a/b/../../..",
	"a/b/../../../..", ".//..", "..//", "/..", "/../", "/../..", "/.", "a/", "a//", "/a", "//a"}

func (g *nameGen) rel(target string) string {
	r, err := filepath.Rel(g.Root, target)
	if err != nil {
		return target
	}
	return r
}

func (g *nameGen) plain(r *vlib.Rand) string {
	n := r.Range(1, 3)
	segs := make([]string, n)
	for i := range segs {
		segs[i] = vlib.Pick(r, plainSegs...)
	}
	return strings.Join(segs, "/")
}

// next returns a name and the generator class it came from.
func (g *nameGen) next(r *vlib.Rand) (string, string) {
	var name, kind string
	switch r.Intn(15) {
	case 0, 1:
		return g.plain(r), "plain"
	case 2, 3, 4:
		kind = "rel-target"
		name = g.rel(vlib.Pick(r, g.Targets...))
	case 5:
		kind = "rel-fresh"
		t := vlib.Pick(r, g.Targets...)
		name = g.rel(filepath.Join(filepath.Dir(t), vlib.Pick(r, "fresh", "new.rec", "n_v9-9-9.zip", "nd/x")))
	case 6:
		kind = "sibling"
		sfx := vlib.Pick(r, g.Suffix...)
		if r.Chance(1, 4) {
			sfx = vlib.Pick(r, "-none", "y", " ", "..", ".bak", "-", "0")
		}
		name = g.rel(g.Root + sfx)
		if r.Chance(3, 4) {
			name += "/" + vlib.Pick(r, "rec1", "sub/rec2", "in1", "fresh", "sub", "")
		}
	case 7:
		kind = "abs"
		switch r.Intn(5) {
		case 0:
			name = vlib.Pick(r, g.Targets...)
		case 1:
			name = g.Root + "/" + vlib.Pick(r, g.Inside...)
		case 2:
			name = "/" + g.plain(r)
		case 3:
			name = g.Root + vlib.Pick(r, g.Suffix...) + "/rec1"
		default:
			name = vlib.Pick(r, "/etc/passwd", "/tmp", "/", "/proc/self/environ", g.Root, g.Root+"/", filepath.Dir(g.Root))
		}
	case 8:
		kind = "comeback"
		// leave the root by k levels and come back into it
		segs := strings.Split(strings.TrimPrefix(g.Root, "/"), "/")
		k := r.Range(1, len(segs))
		name = strings.Repeat("../", k) + strings.Join(segs[len(segs)-k:], "/")
		if r.Chance(2, 3) {
			name += "/" + vlib.Pick(r, append([]string{g.plain(r)}, g.Inside...)...)
		}
	case 9:
		kind = "dots"
		name = vlib.Pick(r, dotNames...)
	case 10, 11:
		kind = "soup"
		base := filepath.Base(g.Root)
		alpha := []string{"..", "..", ".", "", "a", "sub", "rec1", "in1", base, base + g.Suffix[0], filepath.Base(vlib.Pick(r, g.Targets...)), "elsewhere", "tmp", "..."}
		n := r.Range(1, 7)
		segs := make([]string, n)
		for i := range segs {
			segs[i] = vlib.Pick(r, alpha...)
		}
		name = strings.Join(segs, vlib.Pick(r, "/", "/", "/", "//"))
	case 14:
		// <foreign tree>/<absolute path of the root>/<elem>: clean, absolute, no "..", no
		// shared name prefix, but the root's path is an inner substring
		if len(g.Embed) == 0 {
			return g.plain(r), "plain"
		}
		kind = "embed"
		name = vlib.Pick(r, g.Embed...)
		if r.Chance(1, 4) {
			name = filepath.Join(filepath.Dir(name), vlib.Pick(r, "fresh", "nd/x", "n_v9-9-9.zip"))
		}
	case 12:
		kind = "lookalike"
		base := filepath.Base(g.Root)
		name = vlib.Pick(r, base+g.Suffix[0]+"/rec1", ".../x", "..x/y", "x../y", `..\`+base+g.Suffix[0]+`\rec1`, "%2e%2e/x", "..%2f"+base,
			"a/..b/c", "..../x", ". ./x", ".. /x", " ../x", "a/.. /b", base, base+"/"+base+g.Suffix[0], "~/x", "$HOME/x", "a:b/c", "c18:../x")
	default:
		kind = "odd"
		switch r.Intn(5) {
		case 0:
			name = strings.Repeat("n", vlib.Pick(r, 254, 255, 256, 300))
		case 1:
			name = "../" + strings.Repeat("m", vlib.Pick(r, 255, 256)) + "/x"
		case 2:
			name = vlib.Pick(r, "sp ace/x", "tab\tx", "äö/ü", "‮../x", "a\nb", "q'uote", `d"q`)
		case 3:
			name = vlib.Pick(r, "a\x00b", "../\x00", g.rel(vlib.Pick(r, g.Targets...))+"\x00")
		default:
			name = strings.Repeat("d/", r.Range(20, 60)) + "x"
		}
	}
	// obfuscation: spelling variants that do not change where a lexical join ends up
	// (checked against the reference resolver by the caller, not assumed)
	if kind != "odd" && r.Chance(2, 5) {
		for i, n := 0, r.Range(1, 2); i < n; i++ {
			name = g.mutate(r, name)
		}
		kind += "+mut"
	}
	return name, kind
}

func (g *nameGen) mutate(r *vlib.Rand, name string) string {
	segs := strings.Split(name, "/")
	pos := r.Intn(len(segs) + 1)
	ins := func(extra ...string) string {
		out := append([]string{}, segs[:pos]...)
		out = append(out, extra...)
		out = append(out, segs[pos:]...)
		return strings.Join(out, "/")
	}
	switch r.Intn(7) {
	case 0:
		return "./" + name
	case 1:
		return name + "/"
	case 2:
		return ins(".")
	case 3:
		return ins("") // doubled separator
	case 4:
		if len(g.Inside) > 0 && pos == 0 && !strings.HasPrefix(name, "/") {
			// step into an existing in-root directory and back out
			return "sub/../" + name
		}
		return ins("zz", "..")
	case 5:
		return ins("zz", "..")
	default:
		return name + "/."
	}
}
