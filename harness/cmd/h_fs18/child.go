package main

import (
	"bufio"
	"bytes"
	"fmt"
	"hash/fnv"
	"os"
	"path/filepath"
	"regexp"
	"runtime/debug"
	"strconv"
	"strings"
	"syscall"
	"time"

	"verifharness/internal/vlib"
)

// cctx is the per-child context.
type cctx struct {
	sp     spec
	b      *vlib.Batch
	dir    string
	sb     *sandbox
	gen    *nameGen
	opno   int
	opsLog *bufio.Writer
	cwd    string
	nsamp  int
	root   string // the root the oracle judges against (default: the sandbox root)
	tmpdir string
	pend   map[string]*pendingViol
	order  []string
}

type pendingViol struct {
	what   string
	detail any
	count  int
	score  int
}

// viol buffers a violation; per signature the most telling witness is kept (effects
// observed outside the root first, then the shortest name).
func (c *cctx) viol(sig, what string, detail any, score int) {
	if c.pend == nil {
		c.pend = map[string]*pendingViol{}
	}
	p := c.pend[sig]
	if p == nil {
		c.pend[sig] = &pendingViol{what, detail, 1, score}
		c.order = append(c.order, sig)
		return
	}
	p.count++
	if score > p.score {
		p.what, p.detail, p.score = what, detail, score
	}
}

// periodic is the lazy mode's cross-check of the outside snapshot.
func (c *cctx) periodic(comp string) {
	if d := c.sb.check(); len(d) > 0 {
		if len(d) > 12 {
			d = d[:12]
		}
		c.b.Violation("C18:outside-modified:"+comp+":periodic-snapshot",
			"files outside the root changed during one of the last operations of this child (lazy snapshot of a traced child): "+strings.Join(d, "; "),
			map[string]any{"comp": comp, "root": c.sb.Root, "depth": c.sp.Depth, "base": c.sb.Base, "shard": c.sp.Shard, "outside_diff": d, "before_op": c.opno})
	}
}

func (c *cctx) flushViolations() {
	for _, sig := range c.order {
		p := c.pend[sig]
		for i := 0; i < p.count; i++ {
			c.b.Violation(sig, p.what, p.detail)
		}
	}
}

func (c *cctx) oroot() string {
	if c.root != "" {
		return c.root
	}
	return c.sb.Root
}

// opRes is what one call into portbase showed.
type opRes struct {
	Op       string   `json:"op"`
	Err      string   `json:"err,omitempty"`
	OK       bool     `json:"ok"`
	Panicked bool     `json:"panicked,omitempty"`
	Leak     bool     `json:"leak,omitempty"`
	Diff     []string `json:"outside_diff,omitempty"`
	blobs    [][]byte
}

func errStr(err error) string {
	if err == nil {
		return ""
	}
	s := err.Error()
	if len(s) > 300 {
		s = s[:300] + "…"
	}
	return s
}

func clip(s string, n int) string {
	if len(s) > n {
		return s[:n] + "…"
	}
	return s
}

func marker(opno int, edge string) {
	// a file-class system call that shows up in the strace log and touches nothing
	_ = syscall.Access("/C18MARK/"+strconv.Itoa(opno)+"/"+edge, 0)
}

// nameInfo is the oracle's view of one name for one operation.
type nameInfo struct {
	Comp   string `json:"comp"`
	Name   string `json:"name"`
	Kind   string `json:"kind"`
	Form   string `json:"form,omitempty"` // how the name was handed to the component
	Arg    string `json:"arg,omitempty"`  // the actual argument if it differs from Name
	Target string `json:"target"`
	Esc    bool   `json:"escaping"`
	Class  string `json:"class"`
	Extra  any    `json:"extra,omitempty"` // e.g. the full entry list of an archive
	Check  bool   `json:"-"`               // snapshot after this call even in lazy mode
}

// do runs one operation on the real code between two trace markers, then applies the
// oracles every operation shares: an escaping name must be rejected with an error,
// nothing outside the root may change, no canary token may come back.
func (c *cctx) do(ni *nameInfo, op string, fn func() (error, [][]byte)) *opRes {
	c.opno++
	no := c.opno
	res := &opRes{Op: op}
	var err error
	marker(no, "b")
	func() {
		defer func() {
			if r := recover(); r != nil {
				res.Panicked = true
				err = fmt.Errorf("PANIC: %v\n%s", r, clip(string(debug.Stack()), 1500))
			}
		}()
		err, res.blobs = fn()
	}()
	marker(no, "e")
	res.OK = err == nil
	res.Err = errStr(err)
	// canary file *contents* carry CTok; canary file *names* carry Token. A name the
	// harness itself supplied may contain Token, so only the scan (which reports file
	// names it found) is checked for Token.
	for _, bl := range res.blobs {
		if bytes.Contains(bl, []byte(c.sb.CTok)) || (ni.Comp == "scan" && bytes.Contains(bl, []byte(c.sb.Token))) {
			res.Leak = true
		}
	}
	// Traced children of the thorough tier snapshot lazily: every change outside the
	// root needs a file-class system call inside the operation's window, which the
	// path-access oracle sees; the snapshot is then only needed to put overwritten
	// canaries back (after an accepted escape) and as a periodic cross-check.
	if !c.sp.Lazy || ni.Check || (ni.Esc && err == nil) {
		res.Diff = c.sb.check()
	} else if c.opno%64 == 0 {
		c.periodic(ni.Comp)
	}
	if len(res.Diff) > 12 {
		res.Diff = append(res.Diff[:12], fmt.Sprintf("… %d more", len(res.Diff)-12))
	}
	// The process's private TMPDIR is scratch space a component may use while it runs
	// (fstree's atomic write stages its file there), but once the call has returned,
	// nothing it created may be left anywhere outside the root, TMPDIR included.
	opErr := err
	if left, rerr := os.ReadDir(c.tmpdir); rerr == nil && len(left) > 0 {
		var names []string
		for _, e := range left {
			sz := int64(-1)
			if fi, err := e.Info(); err == nil {
				sz = fi.Size()
			}
			names = append(names, fmt.Sprintf("%s (%d bytes)", e.Name(), sz))
			_ = os.RemoveAll(filepath.Join(c.tmpdir, e.Name()))
		}
		c.viol("C18:tmpdir-residue:"+ni.Comp+"."+op,
			fmt.Sprintf("%s.%s left files behind in the temporary directory, outside its root, after it returned (name %q, error: %v): %s",
				ni.Comp, op, ni.Name, opErr != nil, strings.Join(names, ", ")),
			map[string]any{"comp": ni.Comp, "op": op, "name": ni.Name, "kind": ni.Kind, "form": ni.Form, "root": c.sb.Root, "depth": c.sp.Depth,
				"base": c.sb.Base, "shard": c.sp.Shard, "left_in_tmpdir": names, "result_err": errStr(opErr)}, 1000-len(ni.Name))
	}
	compop := ni.Comp + "." + op
	if c.opsLog != nil {
		e := "I"
		if ni.Esc {
			e = "E"
		}
		r := "err"
		if res.OK {
			r = "ok"
		}
		fmt.Fprintf(c.opsLog, "%d\t%s\t%s\t%s\t%s\t%s\t%s\n", no, compop, e, r, ni.Class, ni.Form, strconv.Quote(ni.Name))
	}
	c.b.Eval(1)
	c.b.Count("ops."+compop, 1)
	detail := func() map[string]any {
		return map[string]any{"comp": ni.Comp, "op": op, "name": ni.Name, "kind": ni.Kind, "form": ni.Form, "arg": ni.Arg,
			"resolved_target": ni.Target, "escaping": ni.Esc, "class": ni.Class, "root": c.sb.Root, "oracle_root": c.oroot(), "extra": ni.Extra, "depth": c.sp.Depth,
			"base": c.sb.Base, "shard": c.sp.Shard, "result_err": res.Err, "outside_diff": res.Diff, "canary_token_returned": res.Leak}
	}
	score := 1000 - len(ni.Name)
	if score < 0 {
		score = 0
	}
	if res.Leak {
		score += 4000
	}
	if len(res.Diff) > 0 {
		score += 2000
	}
	switch {
	case ni.Esc && res.Panicked:
		c.viol("C18:panic:"+compop+":"+ni.Class, fmt.Sprintf("%s panicked on an escaping name instead of rejecting it: %q", compop, ni.Name), detail(), score)
	case res.Panicked:
		c.b.Note("%s panicked on the non-escaping name %q: %s", compop, ni.Name, clip(res.Err, 200))
	}
	accepted := ni.Esc && res.OK
	if ni.Esc {
		c.b.Count("escaping."+ni.Comp, 1)
		if accepted {
			c.b.Count("escaping_accepted."+ni.Comp, 1)
			c.viol("C18:escape-accepted:"+compop+":"+ni.Class,
				fmt.Sprintf("%s accepted a name that resolves outside its root (%q -> %s; outside changed: %v; canary returned: %v)",
					compop, ni.Name, ni.Target, len(res.Diff) > 0, res.Leak), detail(), score)
		} else {
			c.b.Count("escaping_rejected."+ni.Comp, 1)
		}
	} else {
		c.b.Count("inside."+ni.Comp, 1)
		if res.OK {
			c.b.Count("inside_ok."+ni.Comp, 1)
		}
	}
	if len(res.Diff) > 0 && !accepted {
		cl := ni.Class
		c.viol("C18:outside-modified:"+compop+":"+cl,
			fmt.Sprintf("%s changed files outside its root (name %q, returned error: %v): %s", compop, ni.Name, !res.OK, strings.Join(res.Diff, "; ")), detail(), score)
	}
	if res.Leak && !accepted {
		c.viol("C18:outside-read:"+compop+":"+ni.Class,
			fmt.Sprintf("%s returned canary content that only exists outside its root (name %q)", compop, ni.Name), detail(), score)
	}
	return res
}

// classify fills the oracle's view of a name resolved the way the component's contract
// says it is used (base = directory a relative name is joined under).
func (c *cctx) classify(ni *nameInfo, base string, joined bool, arg string) {
	if joined {
		ni.Target = resolveFrom(base, arg)
		if !strings.ContainsRune(arg, 0) && !crossCheck(base, arg) {
			c.b.Inconclusive("reference resolver disagrees with filepath.Clean(Join(%q,%q))", base, arg)
		}
	} else {
		ni.Target = resolveAbs(base, arg)
	}
	ni.Class = escapeClass(c.oroot(), ni.Target)
	ni.Esc = ni.Class != "inside"
	c.b.Seen("kinds."+ni.Comp, ni.Kind)
	c.b.Seen("classes."+ni.Comp, ni.Class)
	c.b.DistinctS(ni.Comp + "\x00" + ni.Form + "\x00" + ni.Name)
}

func (c *cctx) sample(ni *nameInfo, rs ...*opRes) {
	// keep a few escaping and a few inside cases per child
	if c.nsamp >= 3 || len(ni.Name) > 100 {
		return
	}
	if (c.nsamp == 0) != ni.Esc {
		return
	}
	c.nsamp++
	c.b.Sample(map[string]any{"name": ni, "results": rs})
}

// creatable: the oracle looks at the sandbox to decide whether a non-escaping target
// could be created as a file at all (every ancestor below root is a directory or
// absent, the target itself is absent or a regular file, name lengths are legal).
func creatable(root, target string) bool {
	if target == root || !inside(root, target) || strings.ContainsRune(target, 0) || len(target) > 3500 {
		return false
	}
	rel := strings.TrimPrefix(target, root+"/")
	p := root
	segs := strings.Split(rel, "/")
	for i, s := range segs {
		if len(s) > 255 {
			return false
		}
		p += "/" + s
		fi, err := os.Lstat(p)
		if err != nil {
			continue
		}
		if i < len(segs)-1 && !fi.IsDir() {
			return false
		}
		if i == len(segs)-1 && !fi.Mode().IsRegular() {
			return false
		}
	}
	return true
}

var runDirRe = regexp.MustCompile(`run-[A-Za-z0-9]+-[0-9]+`)

func strHash(s string) uint64 {
	h := fnv.New64a()
	h.Write([]byte(s))
	return h.Sum64()
}

// choice returns the PRNG stream that decides how one name is presented to the
// component; it depends on the name only, so a replay of the name makes the same choices.
func (c *cctx) choice(name string) *vlib.Rand {
	// the run's scratch directory is part of absolute names; keep the choice independent of it
	return vlib.NewRand(c.sp.Seed, "C18/choice/"+c.sp.Comp, strHash(runDirRe.ReplaceAllString(strings.ReplaceAll(name, c.dir, "$CHILD"), "run-N")))
}

func childMain(dir string) {
	var sp spec
	if err := vlib.ChildSpecInto(dir, &sp); err != nil {
		fmt.Println("bad spec:", err)
		os.Exit(3)
	}
	_ = time.Now().Local().String() // load the time zone before any traced window
	c := &cctx{sp: sp, b: vlib.NewBatch(), dir: dir}
	r := vlib.NewRand(sp.Seed, "C18/layout/"+sp.Comp, uint64(sp.Shard))
	token := fmt.Sprintf("CANARY%016x", r.Uint64())
	base := vlib.Pick(r, "fstree", "data", "updates", "r", "store.v1")
	if sp.Base != "" {
		base = sp.Base
	}
	var anc []string
	for i := 1; i < sp.Depth; i++ {
		anc = append(anc, []string{"outer", "lvl2", "lvl3", "lvl4"}[i-1])
	}
	if sp.Comp == "dbfstree" {
		anc, base = []string{"databases", "c18db"}, "fstree"
	}
	c.sb = newSandbox(dir, anc, base, token)
	c.sb.build()
	c.cwd, _ = os.Getwd()
	if sp.Strace {
		f, err := os.Create(filepath.Join(dir, "ops.log"))
		if err == nil {
			c.opsLog = bufio.NewWriterSize(f, 1<<16)
			defer func() { c.opsLog.Flush(); f.Close() }()
		}
	}
	c.b.Extra["root"] = c.sb.Root
	c.b.Extra["sandbox"] = c.sb.S
	c.tmpdir = os.TempDir()
	c.b.Extra["tmpdir"] = c.tmpdir
	c.b.Extra["comp"] = sp.Comp
	switch sp.Comp {
	case "fstree":
		runFstree(c, false)
	case "dbfstree":
		runFstree(c, true)
	case "dirs":
		runDirs(c)
	case "unpack":
		runUnpack(c)
	case "scan":
		runScan(c)
	default:
		fmt.Println("unknown component", sp.Comp)
		os.Exit(3)
	}
	c.b.Extra["cwd"] = c.cwd
	if c.sp.Lazy {
		c.periodic(sp.Comp)
	}
	c.flushViolations()
	if c.opsLog != nil {
		c.opsLog.Flush()
	}
	c.b.Finish(dir)
}

// names returns the shard's name list (or the replayed names).
func (c *cctx) names(g *nameGen) [][2]string {
	if len(c.sp.Names) > 0 {
		var out [][2]string
		for _, n := range c.sp.Names {
			out = append(out, [2]string{n, "replay"})
		}
		return out
	}
	r := vlib.NewRand(c.sp.Seed, "C18/names/"+c.sp.Comp, uint64(c.sp.Shard))
	out := make([][2]string, 0, c.sp.N)
	for i := 0; i < c.sp.N; i++ {
		n, k := g.next(r)
		out = append(out, [2]string{n, k})
	}
	return out
}
