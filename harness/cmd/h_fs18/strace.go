package main

import (
	"bufio"
	"fmt"
	"os"
	"path/filepath"
	"regexp"
	"strconv"
	"strings"

	"verifharness/internal/vlib"
)

// The path-access oracle. The child runs under
//   strace -f -e trace=%file -y -o <dir>/strace.out
// and brackets every call into portbase with two marker system calls
// (access("/C18MARK/<n>/b|e")). Everything between the two markers of operation n —
// on any thread: the child performs one operation at a time and waits for its
// asynchronous parts, so causality orders the lines — is attributed to operation n.

type opInfo struct {
	no     int
	compop string
	esc    bool
	ok     bool
	class  string
	form   string
	name   string
}

type access struct {
	Syscall string `json:"syscall"`
	Path    string `json:"path"`
}

var tokRe = regexp.MustCompile(`AT_FDCWD(?:<((?:[^>\\]|\\.)*)>)?|\b\d+<((?:[^>\\]|\\.)*)>|"((?:[^"\\]|\\.)*)"`)
var retFdRe = regexp.MustCompile(`^\d+<((?:[^>\\]|\\.)*)>`)
var lineRe = regexp.MustCompile(`^(\d+) +(?:<\.\.\. )?([a-z_0-9]+)`)

func unescape(s string) string {
	if !strings.Contains(s, `\`) {
		return s
	}
	var out []byte
	for i := 0; i < len(s); i++ {
		ch := s[i]
		if ch != '\\' || i+1 >= len(s) {
			out = append(out, ch)
			continue
		}
		i++
		switch s[i] {
		case 'n':
			out = append(out, '\n')
		case 't':
			out = append(out, '\t')
		case 'r':
			out = append(out, '\r')
		case 'v':
			out = append(out, '\v')
		case 'f':
			out = append(out, '\f')
		case 'x':
			if i+2 < len(s) {
				if v, err := strconv.ParseUint(s[i+1:i+3], 16, 8); err == nil {
					out = append(out, byte(v))
					i += 2
					continue
				}
			}
			out = append(out, 'x')
		case '0', '1', '2', '3', '4', '5', '6', '7':
			j := i
			for j < len(s) && j < i+3 && s[j] >= '0' && s[j] <= '7' {
				j++
			}
			v, _ := strconv.ParseUint(s[i:j], 8, 16)
			out = append(out, byte(v))
			i = j - 1
		default:
			out = append(out, s[i])
		}
	}
	return string(out)
}

// traceWindows parses the strace log and returns, per operation number, the paths
// touched inside its window.
func traceWindows(path, startCwd string) (map[int][]access, int, error) {
	f, err := os.Open(path)
	if err != nil {
		return nil, 0, err
	}
	defer f.Close()
	sc := bufio.NewScanner(f)
	sc.Buffer(make([]byte, 1<<20), 1<<26)
	win := map[int][]access{}
	cur := -1
	cwd := startCwd
	lines := 0
	for sc.Scan() {
		ln := sc.Text()
		lines++
		if i := strings.Index(ln, `"/C18MARK/`); i >= 0 {
			rest := ln[i+len(`"/C18MARK/`):]
			if j := strings.IndexByte(rest, '/'); j > 0 {
				n, _ := strconv.Atoi(rest[:j])
				if strings.HasPrefix(rest[j+1:], "b") {
					cur = n
					if _, ok := win[n]; !ok {
						win[n] = nil
					}
				} else {
					cur = -1
				}
			}
			continue
		}
		m := lineRe.FindStringSubmatch(ln)
		if m == nil {
			continue
		}
		sysc := m[2]
		if sysc == "chdir" && strings.HasSuffix(ln, "= 0") {
			if t := tokRe.FindStringSubmatch(ln); t != nil && t[3] != "" {
				cwd = resolveAbs(cwd, unescape(t[3]))
			}
		}
		if cur < 0 {
			continue
		}
		// cut the result part (" = 3</path>") off: the returned descriptor repeats a path argument
		args := ln
		if i := strings.LastIndex(args, ") = "); i >= 0 {
			// the descriptor a call returned is annotated with the path it physically
			// refers to: this is where an open through a symbolic link really ended up
			if m := retFdRe.FindStringSubmatch(args[i+4:]); m != nil {
				if p := strings.TrimSuffix(unescape(m[1]), " (deleted)"); strings.HasPrefix(p, "/") {
					win[cur] = append(win[cur], access{sysc + "=>fd", p})
				}
			}
			args = args[:i]
		}
		base := cwd
		nstr := 0
		for _, t := range tokRe.FindAllStringSubmatch(args, -1) {
			switch {
			case strings.HasPrefix(t[0], "AT_FDCWD"):
				if t[1] != "" {
					base = unescape(t[1])
				} else {
					base = cwd
				}
			case t[0][0] != '"':
				p := strings.TrimSuffix(unescape(t[2]), " (deleted)")
				if strings.HasPrefix(p, "/") {
					base = p
				}
			default:
				p := unescape(t[3])
				if strings.HasSuffix(t[0], `"...`) {
					continue
				}
				nstr++
				if sysc == "execve" {
					continue
				}
				// not path arguments: the target text of a new symbolic link (1st string)
				// and the buffer readlink fills (2nd string)
				if (nstr == 1 && (sysc == "symlinkat" || sysc == "symlink")) || (nstr == 2 && (sysc == "readlinkat" || sysc == "readlink")) {
					continue
				}
				var full string
				switch {
				case p == "":
					full = base
				case strings.HasPrefix(p, "/"):
					full = resolveFrom("/", p)
				default:
					full = resolveFrom(base, p)
				}
				win[cur] = append(win[cur], access{sysc, full})
			}
		}
	}
	return win, lines, sc.Err()
}

func loadOps(path string) (map[int]*opInfo, error) {
	f, err := os.Open(path)
	if err != nil {
		return nil, err
	}
	defer f.Close()
	out := map[int]*opInfo{}
	sc := bufio.NewScanner(f)
	sc.Buffer(make([]byte, 1<<20), 1<<24)
	for sc.Scan() {
		p := strings.SplitN(sc.Text(), "\t", 7)
		if len(p) < 7 {
			continue
		}
		n, _ := strconv.Atoi(p[0])
		name, _ := strconv.Unquote(p[6])
		out[n] = &opInfo{no: n, compop: p[1], esc: p[2] == "E", ok: p[3] == "ok", class: p[4], form: p[5], name: name}
	}
	return out, sc.Err()
}

// paths the Go runtime / standard library may open lazily on its own behalf
var benignPrefixes = []string{"/etc/localtime", "/usr/share/zoneinfo", "/usr/lib/go", "/usr/local/go", "/proc/", "/sys/", "/dev/"}

func benign(p string) bool {
	for _, b := range benignPrefixes {
		if p == b || strings.HasPrefix(p, b) {
			return true
		}
	}
	return false
}

func under(dir, p string) bool { return p == dir || strings.HasPrefix(p, dir+"/") }

// judgeTrace applies the path-access oracle to one straced child.
func judgeTrace(rep *vlib.Report, sp spec, r *vlib.ChildResult, b *vlib.Batch) {
	extra := func(k string) string {
		s, _ := b.Extra[k].(string)
		return s
	}
	root, tmpdir, cwd := extra("root"), extra("tmpdir"), extra("cwd")
	if root == "" {
		rep.Inconclusive("strace child %s reported no root", r.Name)
		return
	}
	ops, err := loadOps(filepath.Join(r.Dir, "ops.log"))
	if err != nil {
		rep.Inconclusive("strace child %s: no ops log: %v", r.Name, err)
		return
	}
	win, lines, err := traceWindows(filepath.Join(r.Dir, "strace.out"), r.Dir)
	if err != nil {
		rep.Inconclusive("strace child %s: cannot read trace: %v", r.Name, err)
		return
	}
	rep.Count("strace.lines", int64(lines))
	if len(win) < len(ops) {
		rep.Inconclusive("strace child %s: %d operations logged but only %d windows in the trace", r.Name, len(ops), len(win))
	}
	extract, dest, archive := extra("extract"), extra("dest"), extra("archive")
	allowed := func(o *opInfo, p string) bool {
		if tmpdir != "" && under(tmpdir, p) {
			return true
		}
		if strings.HasPrefix(o.form, "freshroot=") {
			// a structure on a root of its own (one that did not exist before the call)
			return under(strings.TrimPrefix(o.form, "freshroot="), p)
		}
		if sp.Comp == "unpack" {
			if under(extract, p) || under(dest, p) || p == archive {
				return true
			}
			// the storage dir, its tmp dir and the directories leading to the destination are
			// visited by the DirStructure helper
			if p == root || p == root+"/tmp" || (under(root, p) && under(p, dest)) {
				return true
			}
			return false
		}
		return under(root, p)
	}
	for n, o := range ops {
		acc, ok := win[n]
		if !ok {
			continue
		}
		rep.Count("strace.ops_judged", 1)
		rep.Count("strace.accesses", int64(len(acc)))
		var outside, touched []access
		for _, a := range acc {
			if benign(a.Path) {
				continue
			}
			// resolving a relative scan root needs the working directory itself
			if sp.Comp == "scan" && a.Path == cwd && (a.Syscall == "getcwd" || strings.Contains(a.Syscall, "stat")) {
				continue
			}
			touched = append(touched, a)
			if !allowed(o, a.Path) {
				outside = append(outside, a)
			}
		}
		cut := func(x []access) []access {
			if len(x) > 10 {
				return x[:10]
			}
			return x
		}
		detail := map[string]any{"comp": sp.Comp, "op": o.compop, "name": o.name, "form": o.form, "escaping": o.esc, "returned_ok": o.ok,
			"root": root, "depth": sp.Depth, "base": sp.Base, "shard": sp.Shard, "accesses_outside": cut(outside), "accesses": cut(touched)}
		switch {
		case o.esc && o.ok:
			// already reported by the child as escape-accepted
			if len(outside) > 0 {
				rep.Count("strace.accepted_escape_seen_outside", 1)
			}
		case o.esc && sp.Comp != "unpack":
			rep.Count("strace.rejections_judged", 1)
			if len(touched) > 0 {
				rep.Violation("C18:fs-access-before-reject:"+o.compop+":"+o.class,
					fmt.Sprintf("%s returned an error for the escaping name %q only after touching the file system: %s %s", o.compop, o.name, touched[0].Syscall, touched[0].Path), detail)
			}
		default:
			if len(outside) > 0 {
				cl := o.class
				rep.Violation("C18:path-access:"+o.compop+":"+cl,
					fmt.Sprintf("%s touched a path outside its root (name %q): %s %s", o.compop, o.name, outside[0].Syscall, outside[0].Path), detail)
			}
		}
	}
}
