package main

import (
	"crypto/sha256"
	"encoding/hex"
	"fmt"
	"os"
	"path/filepath"
	"sort"
	"strings"
	"syscall"

	"github.com/safing/portbase/database/record"
	"github.com/safing/portbase/formats/dsd"
)

// sandbox is the directory tree S a component's root lives in:
//
//	S/<anc...>/<base>            the root handed to the component
//	S/<anc...>/<base><suffix>    siblings whose name extends the root's name
//	S/<anc...>/zz-unrelated      a sibling with an unrelated name
//	S/elsewhere                  far away
//	S/<anc_i>/up.rec             a canary next to every ancestor
//
// Everything outside the root is a canary: a valid database record that carries
// the token, some of them under a valid versioned resource file name.
type sandbox struct {
	S     string
	Root  string
	Outer string // parent of Root
	Base  string
	Anc   []string
	Token string // part of canary file names
	CTok  string // inside canary file contents only

	Suffixes []string
	Targets  []string // existing paths outside Root (files and dirs)
	Embed    []string // existing paths below S/elsewhere/<absolute path of Root>/ (a replica of the root's path in a foreign tree)

	excl     []string          // subtrees that belong to the component (not part of "outside")
	pristine map[string]string // snapshot at freeze
	content  map[string][]byte // file contents at freeze (for repair)
	last     map[string]string
	cache    map[string]cacheEnt
}

type cacheEnt struct {
	ino, size    uint64
	msec, csec   int64
	mnsec, cnsec int64
	hash         string
}

var siblingSuffixes = []string{"-other", "x", "_", ".bak"}

// canaryRecord returns a serialised database record whose payload carries text.
func canaryRecord(text string) []byte {
	m := &record.Meta{}
	m.Update()
	w, _ := record.NewWrapper("canary:k", m, dsd.JSON, []byte(`{"v":"`+text+`"}`))
	b, err := w.MarshalRecord(w)
	if err != nil {
		panic("h_fs18: cannot build canary record: " + err.Error())
	}
	return b
}

func newSandbox(dir string, anc []string, base, token string) *sandbox {
	sb := &sandbox{S: filepath.Join(dir, "S"), Anc: anc, Base: base, Token: token, CTok: "CONTENT-" + token[6:], Suffixes: siblingSuffixes,
		cache: map[string]cacheEnt{}}
	sb.Outer = filepath.Join(append([]string{sb.S}, anc...)...)
	sb.Root = filepath.Join(sb.Outer, base)
	sb.excl = []string{sb.Root}
	return sb
}

func mustMkdir(p string) {
	if err := os.MkdirAll(p, 0o755); err != nil {
		panic("h_fs18: sandbox: " + err.Error())
	}
}

func mustWrite(p string, data []byte) {
	mustMkdir(filepath.Dir(p))
	if err := os.WriteFile(p, data, 0o644); err != nil {
		panic("h_fs18: sandbox: " + err.Error())
	}
}

// build creates the tree and the canaries.
func (sb *sandbox) build() {
	mustMkdir(sb.Root)
	can := canaryRecord(sb.CTok)
	seedDir := func(d string) {
		mustWrite(filepath.Join(d, "rec1"), can)
		mustWrite(filepath.Join(d, "in1"), can)
		mustWrite(filepath.Join(d, "sub", "rec2"), can)
		mustWrite(filepath.Join(d, "tok"+sb.Token+"_v1-0-0.zip"), can)
		mustWrite(filepath.Join(d, "pkg", "tok"+sb.Token+"b_v2-0-0"), can)
		sb.Targets = append(sb.Targets, d, filepath.Join(d, "rec1"), filepath.Join(d, "in1"), filepath.Join(d, "sub"),
			filepath.Join(d, "sub", "rec2"), filepath.Join(d, "tok"+sb.Token+"_v1-0-0.zip"), filepath.Join(d, "pkg", "tok"+sb.Token+"b_v2-0-0"))
	}
	for _, sfx := range sb.Suffixes {
		seedDir(sb.Root + sfx)
	}
	seedDir(filepath.Join(sb.Outer, "zz-unrelated"))
	seedDir(filepath.Join(sb.S, "elsewhere"))
	// something that is not a record at all (only far away, so that walks of the
	// prefix-sharing siblings still see records only)
	mustWrite(filepath.Join(sb.S, "elsewhere", "junk", "garbage.bin"), []byte("\xff\xfe not a record "+sb.CTok))
	sb.Targets = append(sb.Targets, filepath.Join(sb.S, "elsewhere", "junk", "garbage.bin"), filepath.Join(sb.S, "elsewhere", "junk"))
	sb.Embed = sb.seedReplica(sb.Root)
	p := sb.S
	for _, a := range sb.Anc {
		mustWrite(filepath.Join(p, "up.rec"), can)
		sb.Targets = append(sb.Targets, filepath.Join(p, "up.rec"))
		p = filepath.Join(p, a)
	}
	mustWrite(filepath.Join(p, "up.rec"), can)
	sb.Targets = append(sb.Targets, filepath.Join(p, "up.rec"), sb.Outer)
}

// seedReplica creates S/elsewhere/<abs>/ (abs = an absolute path, replicated inside the
// foreign tree) with canaries and returns the paths below it.
func (sb *sandbox) seedReplica(abs string) []string {
	d := filepath.Join(sb.S, "elsewhere") + abs
	can := canaryRecord(sb.CTok)
	files := []string{"rec1", "in1", "sub/rec2", "tok" + sb.Token + "r_v1-0-0.zip", "pkg/tok" + sb.Token + "rb_v2-0-0"}
	var out []string
	for _, f := range files {
		mustWrite(filepath.Join(d, f), can)
		out = append(out, filepath.Join(d, f))
	}
	out = append(out, filepath.Join(d, "sub"), filepath.Join(d, "pkg"))
	sb.Targets = append(sb.Targets, d)
	sb.Targets = append(sb.Targets, out...)
	return out
}

func (sb *sandbox) excluded(p string) bool {
	for _, e := range sb.excl {
		if p == e || strings.HasPrefix(p, e+"/") {
			return true
		}
	}
	return false
}

// snap returns path -> signature for everything in S outside the excluded subtrees.
func (sb *sandbox) snap() map[string]string {
	out := make(map[string]string, 64)
	var walk func(p string)
	walk = func(p string) {
		if sb.excluded(p) {
			return
		}
		fi, err := os.Lstat(p)
		if err != nil {
			out[p] = "err:" + err.Error()
			return
		}
		m := fi.Mode()
		switch {
		case m.IsDir():
			out[p] = fmt.Sprintf("d:%04o", m.Perm())
			ents, err := os.ReadDir(p)
			if err != nil {
				out[p] += ":unreadable"
				return
			}
			for _, e := range ents {
				walk(p + "/" + e.Name())
			}
		case m&os.ModeSymlink != 0:
			t, _ := os.Readlink(p)
			out[p] = "l:" + t
		case m.IsRegular():
			out[p] = fmt.Sprintf("f:%04o:%d:%s", m.Perm(), fi.Size(), sb.hash(p, fi))
		default:
			out[p] = "o:" + m.String()
		}
	}
	walk(sb.S)
	return out
}

func (sb *sandbox) hash(p string, fi os.FileInfo) string {
	st, _ := fi.Sys().(*syscall.Stat_t)
	if st != nil {
		if c, ok := sb.cache[p]; ok && c.ino == st.Ino && c.size == uint64(st.Size) && c.msec == int64(st.Mtim.Sec) &&
			c.mnsec == int64(st.Mtim.Nsec) && c.csec == int64(st.Ctim.Sec) && c.cnsec == int64(st.Ctim.Nsec) {
			return c.hash
		}
	}
	b, err := os.ReadFile(p)
	if err != nil {
		return "unreadable"
	}
	h := sha256.Sum256(b)
	hs := hex.EncodeToString(h[:8])
	if st != nil {
		sb.cache[p] = cacheEnt{ino: st.Ino, size: uint64(st.Size), msec: int64(st.Mtim.Sec), mnsec: int64(st.Mtim.Nsec),
			csec: int64(st.Ctim.Sec), cnsec: int64(st.Ctim.Nsec), hash: hs}
	}
	return hs
}

// freeze records the pristine state of the outside (after the component was set up).
func (sb *sandbox) freeze() {
	sb.pristine = sb.snap()
	sb.content = map[string][]byte{}
	for p, sig := range sb.pristine {
		if strings.HasPrefix(sig, "f:") {
			b, _ := os.ReadFile(p)
			sb.content[p] = b
		}
	}
	sb.last = sb.pristine
}

func diffSnap(a, b map[string]string) []string {
	var d []string
	for p, sa := range a {
		if sb, ok := b[p]; !ok {
			d = append(d, fmt.Sprintf("%s: %s -> (gone)", p, sa))
		} else if sa != sb {
			d = append(d, fmt.Sprintf("%s: %s -> %s", p, sa, sb))
		}
	}
	for p, sb := range b {
		if _, ok := a[p]; !ok {
			d = append(d, fmt.Sprintf("%s: (absent) -> %s", p, sb))
		}
	}
	sort.Strings(d)
	return d
}

// check snapshots the outside, returns the difference to the previous snapshot and, if
// there is one, restores the pristine state.
func (sb *sandbox) check() []string {
	cur := sb.snap()
	d := diffSnap(sb.last, cur)
	if len(d) == 0 {
		sb.last = cur
		return nil
	}
	sb.repair(cur)
	return d
}

// repair brings the outside back to the pristine state.
func (sb *sandbox) repair(cur map[string]string) {
	var extra []string
	for p := range cur {
		if _, ok := sb.pristine[p]; !ok {
			extra = append(extra, p)
		}
	}
	sort.Strings(extra)
	for _, p := range extra {
		_ = os.RemoveAll(p)
	}
	var want []string
	for p := range sb.pristine {
		want = append(want, p)
	}
	sort.Strings(want) // parents before children
	for _, p := range want {
		sig := sb.pristine[p]
		if cur[p] == sig {
			continue
		}
		var perm os.FileMode
		switch {
		case strings.HasPrefix(sig, "d:"):
			fmt.Sscanf(sig[2:], "%o", &perm)
			if fi, err := os.Lstat(p); err == nil && !fi.IsDir() {
				_ = os.RemoveAll(p)
			}
			_ = os.MkdirAll(p, 0o755)
			_ = os.Chmod(p, perm)
		case strings.HasPrefix(sig, "f:"):
			fmt.Sscanf(sig[2:], "%o", &perm)
			_ = os.RemoveAll(p)
			_ = os.MkdirAll(filepath.Dir(p), 0o755)
			_ = os.WriteFile(p, sb.content[p], perm)
			_ = os.Chmod(p, perm)
		}
	}
	after := sb.snap()
	if d := diffSnap(sb.pristine, after); len(d) > 0 {
		panic("h_fs18: sandbox repair failed: " + strings.Join(d, "; "))
	}
	sb.last = after
}
