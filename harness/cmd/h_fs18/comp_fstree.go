package main

import (
	"bytes"
	"errors"
	"fmt"
	"os"
	"strings"

	"github.com/safing/portbase/database"
	"github.com/safing/portbase/database/iterator"
	"github.com/safing/portbase/database/query"
	"github.com/safing/portbase/database/record"
	"github.com/safing/portbase/database/storage"
	"github.com/safing/portbase/database/storage/fstree"
	"github.com/safing/portbase/formats/dsd"
	"github.com/safing/portbase/utils"
)

// kv abstracts "fstree used directly through storage.Interface" and "fstree used as
// the backend of a registered database through database.Interface".
type kv interface {
	get(name string) (record.Record, error)
	put(name string, payload []byte) error
	del(name string) error
	query(prefix string) (*iterator.Iterator, error)
	// meta reads only the record's metadata (storage.MetaHandler); ok=false if this
	// access path does not offer it as a call of its own
	meta(name string) (m *record.Meta, err error, ok bool)
	// putLowPriv writes through an interface without full permissions: database.Interface
	// then asks the backend for the existing record's metadata first (getMeta -> GetMeta)
	putLowPriv(name string, payload []byte, asNew bool) (err error, ok bool)
}

type directKV struct{ st storage.Interface }

func (d directKV) get(name string) (record.Record, error) { return d.st.Get(name) }
func (d directKV) put(name string, payload []byte) error {
	m := &record.Meta{}
	m.Update()
	w, err := record.NewWrapper("c18:"+name, m, dsd.JSON, payload)
	if err != nil {
		return err
	}
	_, err = d.st.Put(w)
	return err
}
func (d directKV) del(name string) error { return d.st.Delete(name) }
func (d directKV) query(prefix string) (*iterator.Iterator, error) {
	return d.st.Query(query.New("c18:"+prefix), true, true)
}

func (d directKV) meta(name string) (*record.Meta, error, bool) {
	mh, ok := d.st.(storage.MetaHandler)
	if !ok {
		return nil, nil, false
	}
	m, err := mh.GetMeta(name)
	return m, err, true
}
func (d directKV) putLowPriv(string, []byte, bool) (error, bool) { return nil, false }

type dbKV struct{ db, low *database.Interface }

func (d dbKV) meta(string) (*record.Meta, error, bool) { return nil, nil, false }
func (d dbKV) putLowPriv(name string, payload []byte, asNew bool) (error, bool) {
	w, err := record.NewWrapper("c18db:"+name, nil, dsd.JSON, payload)
	if err != nil {
		return err, true
	}
	if asNew {
		return d.low.PutNew(w), true
	}
	return d.low.Put(w), true
}

func (d dbKV) get(name string) (record.Record, error) { return d.db.Get("c18db:" + name) }
func (d dbKV) put(name string, payload []byte) error {
	w, err := record.NewWrapper("c18db:"+name, nil, dsd.JSON, payload)
	if err != nil {
		return err
	}
	return d.db.Put(w)
}
func (d dbKV) del(name string) error { return d.db.Delete("c18db:" + name) }
func (d dbKV) query(prefix string) (*iterator.Iterator, error) {
	return d.db.Query(query.New("c18db:" + prefix))
}

func recBlob(r record.Record) []byte {
	if r == nil {
		return nil
	}
	if w, ok := r.(*record.Wrapper); ok {
		return append([]byte(r.DatabaseKey()+"\x00"), w.Data...)
	}
	b, _ := r.Marshal(r, dsd.JSON)
	return append([]byte(r.DatabaseKey()+"\x00"), b...)
}

func runFstree(c *cctx, viaDB bool) {
	comp := "fstree"
	var s kv
	if viaDB {
		comp = "dbfstree"
		if err := database.Initialize(utils.NewDirStructure(c.sb.S, 0o755)); err != nil {
			c.b.Inconclusive("database.Initialize failed: %v", err)
			return
		}
		if _, err := database.Register(&database.Database{Name: "c18db", Description: "C18", StorageType: "fstree"}); err != nil {
			c.b.Inconclusive("database.Register failed: %v", err)
			return
		}
		s = dbKV{db: database.NewInterface(&database.Options{Local: true, Internal: true}),
			low: database.NewInterface(&database.Options{Local: true, Internal: false})}
	} else {
		st, err := fstree.NewFSTree("c18", c.sb.Root)
		if err != nil {
			c.b.Inconclusive("NewFSTree failed: %v", err)
			return
		}
		s = directKV{st}
	}
	// in-root records (no token)
	for _, k := range []string{"in1", "sub/in2", "rec1"} {
		if err := s.put(k, []byte(`{"v":"INSIDE-`+k+`"}`)); err != nil {
			c.b.Inconclusive("seeding the root failed: %v", err)
			return
		}
	}
	if fi, err := os.Stat(c.sb.Root + "/sub/in2"); err != nil || !fi.Mode().IsRegular() {
		c.b.Inconclusive("root %s is not where the backend writes (sub/in2 missing)", c.sb.Root)
		return
	}
	c.sb.freeze()
	g := &nameGen{Root: c.sb.Root, Targets: c.sb.Targets, Inside: []string{"in1", "sub/in2", "sub", "rec1"}, Suffix: c.sb.Suffixes, Embed: c.sb.Embed}

	for i, nk := range c.names(g) {
		name := nk[0]
		ni := &nameInfo{Comp: comp, Name: name, Kind: nk[1], Form: "key"}
		c.classify(ni, c.sb.Root, true, name)
		payload := []byte(fmt.Sprintf(`{"v":"PUT-%d-%d"}`, c.sp.Shard, i))

		get := func() (error, [][]byte) {
			r, err := s.get(name)
			return err, [][]byte{recBlob(r)}
		}
		qry := func() (error, [][]byte) {
			it, err := s.query(name)
			if err != nil {
				return err, nil
			}
			var blobs [][]byte
			for r := range it.Next {
				blobs = append(blobs, recBlob(r))
			}
			return it.Err(), blobs
		}
		canCreate := !ni.Esc && creatable(c.sb.Root, ni.Target) && name != ""

		r1 := c.do(ni, "Get", get)
		r2 := c.do(ni, "Put", func() (error, [][]byte) { return s.put(name, payload), nil })
		r3 := c.do(ni, "Get", get)
		var rm, r6 *opRes
		if !viaDB {
			rm = c.do(ni, "GetMeta", func() (error, [][]byte) {
				m, err, _ := s.meta(name)
				if err == nil && m == nil {
					err = errors.New("GetMeta returned neither metadata nor an error")
				}
				return err, nil
			})
		}
		r4 := c.do(ni, "Query", qry)
		r5 := c.do(ni, "Delete", func() (error, [][]byte) { return s.del(name), nil })
		if viaDB {
			opn := "PutLowPriv"
			if i%2 == 1 {
				opn = "PutNewLowPriv"
			}
			r6 = c.do(ni, opn, func() (error, [][]byte) {
				err, _ := s.putLowPriv(name, payload, i%2 == 1)
				return err, nil
			})
			if !ni.Esc && r6.OK {
				_ = s.del(name)
			}
		}
		c.sample(ni, r1, r2, r3, r4, r5)

		// query results must be records of this root
		for _, bl := range r4.blobs {
			key := string(bl[:bytes.IndexByte(bl, 0)])
			if !inside(c.sb.Root, resolveFrom(c.sb.Root, key)) && !(ni.Esc && r4.OK) {
				c.b.Violation("C18:outside-read:"+comp+".Query:"+ni.Class,
					fmt.Sprintf("%s.Query returned a record whose key %q lies outside the root (prefix %q)", comp, key, name),
					map[string]any{"comp": comp, "op": "Query", "name": name, "root": c.sb.Root, "depth": c.sp.Depth, "base": c.sb.Base, "returned_key": key})
			}
		}

		// anti-vacuity: plain, creatable names must work (otherwise "rejects everything"
		// would pass). Only demanded for clean names made of ordinary segments.
		// fstree gives up a query when the consumer does not take a record within one
		// second of wall-clock time; on a loaded machine that is no verdict about the name
		queryTimedOut := !r4.OK && strings.Contains(r4.Err, "query buffer full, timeout")
		if queryTimedOut {
			c.b.Count("query_wallclock_timeouts."+comp, 1)
		}
		if ni.Kind == "plain" && canCreate && !queryTimedOut {
			c.b.Count("works_checked."+comp, 1)
			bad := ""
			switch {
			case !r2.OK:
				bad = "Put failed: " + r2.Err
			case !r3.OK || len(r3.blobs) != 1 || !bytes.Contains(r3.blobs[0], payload):
				bad = "Get after Put did not return the record: " + r3.Err
			case rm != nil && !rm.OK:
				bad = "GetMeta after Put failed: " + rm.Err
			case r6 != nil && !r6.OK:
				bad = "Put through an interface without full permissions failed: " + r6.Err
			case !r4.OK:
				bad = "Query failed: " + r4.Err
			case !r5.OK:
				bad = "Delete failed: " + r5.Err
			}
			if bad == "" {
				found := false
				for _, bl := range r4.blobs {
					if bytes.Contains(bl, payload) {
						found = true
					}
				}
				if !found {
					bad = "Query with the key as prefix did not return the record"
				}
			}
			if bad == "" {
				if _, err := s.get(name); err == nil || !(errors.Is(err, storage.ErrNotFound) || errors.Is(err, database.ErrNotFound)) {
					bad = fmt.Sprintf("Get after Delete: %v", err)
				}
			}
			if bad != "" {
				c.b.Violation("C18:inside-broken:"+comp, fmt.Sprintf("%s does not work for the plain in-root key %q: %s", comp, name, bad),
					map[string]any{"comp": comp, "name": name, "root": c.sb.Root, "depth": c.sp.Depth, "base": c.sb.Base, "results": []*opRes{r1, r2, r3, r4, r5}})
			}
		} else if !ni.Esc && canCreate && !r2.OK {
			c.b.Count("inside_unclean_put_refused."+comp, 1)
			c.b.Seen("inside_unclean_put_refused_why", clip(strings.ReplaceAll(r2.Err, c.sb.S, "S"), 60))
		}
		// leave the root as it was for the next name
		if !ni.Esc && r2.OK && !r5.OK {
			_ = os.Remove(ni.Target)
		}
	}
}
