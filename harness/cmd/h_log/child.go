package main

import (
	"context"
	"flag"
	"fmt"
	"math"
	"os"
	"runtime"
	"runtime/debug"
	"strings"
	"sync"
	"sync/atomic"
	"time"

	"github.com/safing/portbase/log"

	"verifharness/cmd/h_log/pkga"
	"verifharness/cmd/h_log/pkgb"
	"verifharness/cmd/h_log/pkgc"
	"verifharness/internal/vlib"
)

// ---------------------------------------------------------------------------------
// call sites

// siteID numbers a call site: directory x variant x severity.
func siteID(pkg, variant, lvl int) int { return (pkg*nVariants+variant)*nLevels + (lvl - 1) }
func sitePkg(id int) int               { return id / (nVariants * nLevels) }
func siteVariant(id int) int           { return id / nLevels % nVariants }
func siteLvl(id int) int               { return id%nLevels + 1 }
func siteName(id int) string {
	if id < 0 {
		return "?"
	}
	return fmt.Sprintf("%s/%s/%s", pkgDirs[sitePkg(id)], []string{"P", "Pf", "T", "Tf"}[siteVariant(id)], levelNames[siteLvl(id)])
}

func emit(site int, msg string, tr *log.ContextTracer) {
	v, l := siteVariant(site), siteLvl(site)
	switch sitePkg(site) {
	case 0:
		pkga.Emit(v, l, msg, tr)
	case 1:
		pkgb.Emit(v, l, msg, tr)
	case 2:
		pkgc.Emit(v, l, msg, tr)
	default:
		hereEmit(v, l, msg, tr)
	}
}

func addTracer(pkg int, ctx context.Context) (context.Context, *log.ContextTracer) {
	switch pkg {
	case 0:
		return pkga.AddTracer(ctx)
	case 1:
		return pkgb.AddTracer(ctx)
	case 2:
		return pkgc.AddTracer(ctx)
	default:
		return hereAddTracer(ctx)
	}
}

// ---------------------------------------------------------------------------------
// records

const (
	kLine   = 0 // one log call that enqueues one line if enabled
	kSubmit = 1 // ContextTracer.Submit of a non-nil tracer
)

type trLine struct {
	Src  int    `json:"src"` // 0 owner, 1.. helper goroutine
	Site int    `json:"site"`
	Text string `json:"text"`
}

// lineRec is one call into the logger, recorded by the calling goroutine around
// the call (Call before invoking, Ret after it returned; Ret==0: never returned).
type lineRec struct {
	Call  uint64   `json:"call"`
	Ret   uint64   `json:"ret"`
	Phase int      `json:"phase"`
	Kind  int      `json:"kind"`
	Site  int      `json:"site"`
	Text  string   `json:"text"`
	Trace []trLine `json:"trace,omitempty"` // kSubmit: everything collected, main line last
	NilTr bool     `json:"nil_tracer,omitempty"`
}

// adEntry is one Adapter.Write call, recorded when Write begins.
type adEntry struct {
	Seq  uint64   `json:"seq"`
	Text string   `json:"text"`
	Sev  int      `json:"sev"`
	File string   `json:"file"`
	Line int      `json:"line"`
	Dup  uint64   `json:"dup"`
	Fmt  []string `json:"fmt,omitempty"` // formatted output split in lines (tracer submissions, a few merged lines)
}

const (
	stRun = iota
	stInCall
	stBarrier
	stDone
)

type producer struct {
	w     *world
	id    int
	rng   *vlib.Rand
	state atomic.Int32
	mu    sync.Mutex
	recs  []lineRec

	runSeq, trSeq, colSeq, uniq int
	recent                      []struct {
		site int
		text string
	}
	goschedEvery, sleepEvery, sleepUs int
}

// addTracerObs is an observation of log.AddTracer.
type addTracerObs struct {
	Phase int
	Pkg   int
	Nil   bool
}

type world struct {
	sc    scenario
	clock atomic.Uint64

	returnedAll atomic.Int64 // log calls (any) that returned
	enqReturned atomic.Int64 // returned calls that certainly enqueued a line
	stop        atomic.Bool
	stopAt      atomic.Int64 // producers stop themselves once this many log calls have returned
	stopCh      chan struct{}
	stopOnce    sync.Once

	phases     []phaseSpec // [0]=init (flag-derived config), [1]=calibration, [2..]=scenario phases
	phaseStart []chan struct{}
	phaseWG    []sync.WaitGroup
	prods      []*producer
	ctl        *producer // the controlling goroutine logs the init and calibration lines
	transition atomic.Bool

	ad *recAdapter

	sharedSites [3]int

	startRet, shutCall, shutRet uint64 // shutCall: first Shutdown call; shutRet: first Shutdown return
	shutRetLast                 uint64 // last Shutdown return (concurrent callers)
	idlePoints                  []idlePoint
	idleSkipped, idleRounds     int
	shutDone                    chan struct{}

	trigCount         atomic.Int64
	firstTrigAtEnq    atomic.Int64 // enqReturned when the first trigger was sent (-1: none sent)
	flipActions       atomic.Int64
	twinBlocks        atomic.Int64
	earlyShutdown     bool
	longTraces        atomic.Int64
	oddLines          atomic.Int64
	oddSubmissions    atomic.Int64
	submitsAfterPlain atomic.Int64
	globalOnlyChanges int
	tracerObs         []addTracerObs
	tracerObsMu       sync.Mutex
	pendingAtShut     int64
	notes             []string
	stuckAfterShut    bool
}

func (w *world) tick() uint64 { return w.clock.Add(1) }

func (w *world) setStop() {
	w.stopOnce.Do(func() { w.stop.Store(true); close(w.stopCh) })
}

// shouldStop is checked by every logging goroutine before each call. After Shutdown
// was called only a bounded number of further calls may be started (nobody empties
// the buffer once the writer is gone), and the bound must not depend on another
// goroutine being scheduled in time.
func (w *world) shouldStop() bool {
	if w.stop.Load() {
		return true
	}
	if w.returnedAll.Load() >= w.stopAt.Load() {
		w.setStop()
		return true
	}
	return false
}

// quiescent: no producer can make progress on its own.
func (w *world) quiescent() (bool, int) {
	if w.transition.Load() {
		return false, 0
	}
	inflight := 0
	for _, p := range w.prods {
		switch p.state.Load() {
		case stRun:
			return false, 0
		case stInCall:
			inflight++
		}
	}
	if w.ctl.state.Load() == stRun || w.ctl.state.Load() == stInCall {
		return false, 0
	}
	return true, inflight
}

// ---------------------------------------------------------------------------------
// adapter

type recAdapter struct {
	w       *world
	mu      sync.Mutex
	entries []adEntry
	written int64 // sum of (dup+1) over Write calls begun
	holds   int

	inWrite atomic.Bool
	armed   atomic.Bool // hold the next Write until release is signalled
	holding atomic.Bool
	release chan struct{}

	// coverage (written by the writer goroutine only, read after Shutdown)
	forcedCertain, forcedStalled, holdTimeouts int
	maxInflight                                int
	maxOverCap                                 int64
	fmtSamples                                 int
}

func (a *recAdapter) Write(msg log.Message, dup uint64) {
	w := a.w
	a.inWrite.Store(true)
	defer a.inWrite.Store(false)
	e := adEntry{Seq: w.tick(), Text: msg.Text(), Sev: int(msg.Severity()), File: msg.File(), Line: msg.LineNumber(), Dup: dup}
	// formatted output: for everything that can be a tracer submission (texts of
	// tracer blocks contain a T; main lines without identity are empty or blank), and
	// for a few merged lines. Never for texts with line breaks (plain lines only): the
	// output is split at line breaks to find the carried lines.
	wantFmt := strings.Contains(e.Text, "T") || strings.TrimSpace(e.Text) == ""
	if dup > 0 && a.fmtSamples < 3 {
		a.fmtSamples++
		wantFmt = true
	}
	if strings.ContainsAny(e.Text, "\r\n") {
		wantFmt = false
	}
	if wantFmt {
		// the only way to see the lines of a tracer submission from an adapter
		e.Fmt = strings.Split(log.StdoutAdapter.Format(msg, dup), "\n")
	}
	a.mu.Lock()
	idx := len(a.entries)
	a.entries = append(a.entries, e)
	a.written += int64(dup) + 1
	written := a.written
	a.mu.Unlock()

	if a.armed.CompareAndSwap(true, false) {
		a.holding.Store(true)
		<-a.release
		a.holding.Store(false)
	}
	sc := &w.sc
	if sc.DelayEach > 0 && idx%sc.DelayEach == 0 {
		time.Sleep(time.Duration(sc.DelayUs) * time.Microsecond)
	}
	h := sc.Hold
	if h.First >= 0 && a.holds < h.Max && (idx == h.First || (h.Every > 0 && idx > h.First && (idx-h.First)%h.Every == 0)) {
		a.holds++
		a.hold(written)
	}
}

// hold blocks the writer inside Write until every producer is parked: inside a log
// call (the buffer is full and the writer is here, so the call cannot complete), at a
// barrier, or finished. What is looked at are the harness's own counters only.
func (a *recAdapter) hold(written int64) {
	w := a.w
	t0 := time.Now()
	stable, last := 0, int64(-1)
	inflight := 0
	for {
		q, n := w.quiescent()
		if q {
			r := w.returnedAll.Load()
			if r == last {
				stable++
			} else {
				stable, last = 0, r
			}
			inflight = n
		} else {
			stable, last = 0, -1
		}
		if stable >= 20 {
			break
		}
		if time.Since(t0) > 20*time.Second {
			a.holdTimeouts++
			return
		}
		time.Sleep(250 * time.Microsecond)
	}
	over := w.enqReturned.Load() - written
	if over > a.maxOverCap {
		a.maxOverCap = over
	}
	if inflight > a.maxInflight {
		a.maxInflight = inflight
	}
	if inflight >= 1 {
		// written counts the lines taken out of the buffer except possibly one (the
		// line the writer already fetched to compare with the one it is writing)
		switch {
		case over >= bufCap+1:
			a.forcedCertain++
		case over == bufCap:
			a.forcedStalled++
		}
	}
}

// ---------------------------------------------------------------------------------
// producers

func (p *producer) name() string {
	if p.id < 0 {
		return "ctl"
	}
	return fmt.Sprintf("g%d", p.id)
}

func (p *producer) addRec(r lineRec) int {
	p.mu.Lock()
	p.recs = append(p.recs, r)
	i := len(p.recs) - 1
	p.mu.Unlock()
	return i
}

// logLine performs one log call (tr==nil: plain call or nil-tracer call).
func (p *producer) logLine(phase, site int, text string, certainEnq bool) {
	w := p.w
	nilTr := siteVariant(site) >= 2
	p.state.Store(stInCall)
	i := p.addRec(lineRec{Call: w.tick(), Phase: phase, Kind: kLine, Site: site, Text: text, NilTr: nilTr})
	emit(site, text, nil)
	ret := w.tick()
	p.mu.Lock()
	p.recs[i].Ret = ret
	p.mu.Unlock()
	if certainEnq {
		w.enqReturned.Add(1)
	}
	w.returnedAll.Add(1)
	p.state.Store(stRun)
}

func (p *producer) pace(n int) {
	if p.goschedEvery > 0 && n%p.goschedEvery == 0 {
		runtime.Gosched()
	}
	if p.sleepEvery > 0 && n%p.sleepEvery == p.sleepEvery-1 {
		time.Sleep(time.Duration(p.sleepUs) * time.Microsecond)
	}
}

func (p *producer) randSite(plainOnly bool) int {
	r := p.rng
	v := r.Intn(2)
	if !plainOnly && r.Chance(1, 10) {
		v = 2 + r.Intn(2) // through a nil tracer
	}
	return siteID(r.Intn(nPkgs), v, r.Range(1, nLevels))
}

func (p *producer) runPhase(phase int, nops int) {
	w := p.w
	r := p.rng
	ph := &w.phases[phase]
	flip := ph.Flip != nil
	certain := func(site int) bool {
		return w.certainlyEnabled(phase, sitePkg(site), siteLvl(site))
	}
	name := fmt.Sprintf("g%d", p.id)
	for ops := 0; ops < nops; {
		if w.shouldStop() {
			return
		}
		p.pace(ops)
		k := r.Intn(100)
		var kind string
		if w.sc.Dense {
			switch {
			case k < 45:
				kind = "uniq"
			case k < 65:
				kind = "run"
			case k < 73:
				kind = "aba"
			case k < 85:
				kind = "shared"
			case k < 93:
				kind = "collide"
			default:
				kind = "tracer"
			}
		} else {
			switch {
			case k < 80:
				kind = "uniq"
			case k < 86:
				kind = "run"
			case k < 88:
				kind = "aba"
			case k < 92:
				kind = "shared"
			case k < 94:
				kind = "collide"
			default:
				kind = "tracer"
			}
		}
		if k2 := r.Intn(100); k2 < 5 || (w.sc.Dense && k2 < 9) {
			kind = "odd"
		}
		if w.sc.Family == "twin" && k%3 == 0 {
			kind = "twin"
		} else if w.sc.Tracers && w.sc.Dense && k >= 97 {
			kind = "twin"
		}
		if kind == "tracer" && !w.sc.Tracers {
			kind = "uniq"
		}
		if flip && (kind == "twin" || kind == "odd") {
			kind = "uniq"
		}
		if flip && kind != "tracer" {
			// lines racing with a level change are only bound by "at most once": keep
			// them unique so that this stays decidable
			kind = "uniq"
		}
		switch kind {
		case "uniq":
			s := p.randSite(false)
			p.uniq++
			p.logLine(phase, s, fmt.Sprintf("%s#%d", name, p.uniq), certain(s))
			ops++
		case "run":
			s := p.randSite(false)
			p.runSeq++
			text := fmt.Sprintf("%sr%d", name, p.runSeq)
			n := r.Range(2, 6)
			if r.Chance(1, 8) {
				n = r.Range(10, 60)
			}
			for i := 0; i < n && !w.shouldStop(); i++ {
				p.logLine(phase, s, text, certain(s))
				ops++
			}
			p.recent = append(p.recent, struct {
				site int
				text string
			}{s, text})
			if len(p.recent) > 4 {
				p.recent = p.recent[1:]
			}
		case "aba":
			if len(p.recent) == 0 {
				continue
			}
			x := p.recent[r.Intn(len(p.recent))]
			n := r.Range(1, 3)
			for i := 0; i < n && !w.shouldStop(); i++ {
				p.logLine(phase, x.site, x.text, certain(x.site))
				ops++
			}
		case "shared":
			i := r.Intn(len(w.sharedSites))
			s := w.sharedSites[i]
			n := r.Range(1, 4)
			for j := 0; j < n && !w.shouldStop(); j++ {
				p.logLine(phase, s, fmt.Sprintf("sh%d", i), certain(s))
				ops++
			}
		case "collide":
			// the same text through call sites that differ in exactly one of
			// directory / variant (= line) / severity: must never be merged
			s1 := p.randSite(true)
			pk, v, l := sitePkg(s1), siteVariant(s1), siteLvl(s1)
			switch r.Intn(3) {
			case 0:
				pk = (pk + 1 + r.Intn(nPkgs-1)) % nPkgs
			case 1:
				v = 1 - v
			case 2:
				l = (l-1+1+r.Intn(nLevels-1))%nLevels + 1
			}
			s2 := siteID(pk, v, l)
			p.colSeq++
			text := fmt.Sprintf("%sk%d", name, p.colSeq)
			n := r.Range(2, 5)
			for i := 0; i < n && !w.shouldStop(); i++ {
				s := s1
				if i%2 == 1 {
					s = s2
				}
				p.logLine(phase, s, text, certain(s))
				ops++
			}
		case "tracer":
			ops += p.tracerBlock(phase)
		case "twin":
			ops += p.twinBlock(phase)
		case "odd":
			ops += p.oddBlock(phase)
		}
	}
}

// oddBlock: message texts a logger must cope with like with any other: empty, blank,
// line breaks only, trailing / embedded line breaks, very long -- at every severity,
// plain and inside tracers. Texts without an identity are told apart by call site and
// counted (they are "shared" texts for the oracle); the others keep their id prefix.
func (p *producer) oddBlock(phase int) int {
	w := p.w
	r := p.rng
	certain := func(site int) bool { return w.certainlyEnabled(phase, sitePkg(site), siteLvl(site)) }
	blank := []string{"", "", "", " ", "\t", "   ", "\n", "\r\n", "\n\n"}
	n := 0
	switch k := r.Intn(8); {
	case k <= 2:
		// no identity; also repeated (merged) and directly followed by other lines
		s := p.randSite(false)
		if r.Chance(1, 2) {
			s = siteID(sitePkg(s), siteVariant(s), r.Range(4, nLevels))
		}
		text := blank[r.Intn(len(blank))]
		for i, m := 0, r.Range(1, 3); i < m && !w.shouldStop(); i++ {
			p.logLine(phase, s, text, certain(s))
			n++
		}
		w.oddLines.Add(int64(n))
	case k == 3 || k == 4:
		s := p.randSite(false)
		p.uniq++
		tail := []string{"\n", "\r\n", "\nsecond line", "\n\n", " \n "}[r.Intn(5)]
		p.logLine(phase, s, fmt.Sprintf("%s#%d%s", p.name(), p.uniq, tail), certain(s))
		n++
		w.oddLines.Add(1)
	case k == 5:
		s := p.randSite(false)
		p.uniq++
		p.logLine(phase, s, fmt.Sprintf("%s#%d %s", p.name(), p.uniq, strings.Repeat("x", r.Range(1000, 40000))), certain(s))
		n++
		w.oddLines.Add(1)
	default:
		if !w.sc.Tracers {
			return p.oddBlockPlainFallback(phase)
		}
		// tracer with odd collected lines; in half of the cases the main (last) line
		// has no identity either
		pkg := r.Intn(nPkgs)
		_, tr := addTracer(pkg, context.Background())
		w.tracerObsMu.Lock()
		w.tracerObs = append(w.tracerObs, addTracerObs{Phase: phase, Pkg: pkg, Nil: tr == nil})
		w.tracerObsMu.Unlock()
		if tr == nil {
			return p.oddBlockPlainFallback(phase)
		}
		p.trSeq++
		tid := fmt.Sprintf("%sT%d", p.name(), p.trSeq)
		var trace []trLine
		add := func(text string, lvlMin int) {
			t := trLine{0, siteID(pkg, 2+r.Intn(2), r.Range(lvlMin, nLevels)), text}
			emit(t.Site, t.Text, tr)
			trace = append(trace, t)
		}
		add(tid+"o#0", 1) // always one collected line with an identity
		for i, m := 1, r.Range(1, 4); i <= m; i++ {
			switch r.Intn(3) {
			case 0:
				add([]string{"", " ", "\t"}[r.Intn(3)], 1)
			case 1:
				add(fmt.Sprintf("%so#%d %s", tid, i, strings.Repeat("y", r.Range(500, 5000))), 1)
			default:
				add(fmt.Sprintf("%so#%d", tid, i), 1)
			}
		}
		if r.Chance(1, 2) {
			add([]string{"", "", " "}[r.Intn(3)], r.Range(1, 4)) // main line: empty or blank, often warning or above
		} else {
			add(tid+"o$", 1)
		}
		main := trace[len(trace)-1]
		if w.shouldStop() {
			return len(trace)
		}
		p.state.Store(stInCall)
		i := p.addRec(lineRec{Call: w.tick(), Phase: phase, Kind: kSubmit, Site: main.Site, Text: main.Text, Trace: trace})
		tr.Submit()
		ret := w.tick()
		p.mu.Lock()
		p.recs[i].Ret = ret
		p.mu.Unlock()
		w.enqReturned.Add(1)
		w.returnedAll.Add(1)
		p.state.Store(stRun)
		n = len(trace)
		w.oddSubmissions.Add(1)
	}
	// something identifiable right behind it (what a writer that stumbles loses)
	if !w.shouldStop() {
		s := p.randSite(false)
		p.uniq++
		p.logLine(phase, s, fmt.Sprintf("%s#%d", p.name(), p.uniq), certain(s))
		n++
	}
	return n
}

func (p *producer) oddBlockPlainFallback(phase int) int {
	s := siteID(p.rng.Intn(nPkgs), p.rng.Intn(nVariants), p.rng.Range(4, nLevels))
	p.logLine(phase, s, "", p.w.certainlyEnabled(phase, sitePkg(s), siteLvl(s)))
	p.w.oddLines.Add(1)
	return 1
}

// twinBlock: a plain line through a tracer-method call site with a nil tracer (the
// log.Tracer(ctx).Info(msg) idiom when the context has no tracer) directly next to
// submissions of real tracers whose main (last) line comes from the same call site
// with the same text. Same site, text, severity, file and line -- but a submission is
// never "the same line" as a plain line: each must arrive as its own entry.
func (p *producer) twinBlock(phase int) int {
	w := p.w
	r := p.rng
	var pkgs []int
	for pk := 0; pk < nPkgs; pk++ {
		if w.certainlyEnabled(phase, pk, 1) {
			pkgs = append(pkgs, pk)
		}
	}
	if len(pkgs) == 0 {
		// no directory where a tracer can exist in this phase
		p.uniq++
		s := p.randSite(false)
		p.logLine(phase, s, fmt.Sprintf("g%d#%d", p.id, p.uniq), w.certainlyEnabled(phase, sitePkg(s), siteLvl(s)))
		return 1
	}
	pkg := pkgs[r.Intn(len(pkgs))]
	site := siteID(pkg, 2+r.Intn(2), r.Range(1, nLevels))
	p.trSeq++
	x := fmt.Sprintf("g%dTW%d", p.id, p.trSeq)
	patterns := []string{"PS", "SP", "PPS", "SS", "SPP", "PSP", "SPS", "PSS"}
	pat := patterns[r.Intn(len(patterns))]
	nsub := 0
	for _, c := range pat {
		if w.shouldStop() {
			break
		}
		if c == 'P' {
			p.logLine(phase, site, x, true)
			continue
		}
		_, tr := addTracer(pkg, context.Background())
		w.tracerObsMu.Lock()
		w.tracerObs = append(w.tracerObs, addTracerObs{Phase: phase, Pkg: pkg, Nil: tr == nil})
		w.tracerObsMu.Unlock()
		if tr == nil {
			continue
		}
		nsub++
		var trace []trLine
		for i, n := 0, r.Range(1, 4); i < n; i++ {
			t := trLine{0, siteID(pkg, 2+r.Intn(2), r.Range(1, nLevels)), fmt.Sprintf("%sc%d#%d", x, nsub, i)}
			emit(t.Site, t.Text, tr)
			trace = append(trace, t)
		}
		emit(site, x, tr)
		trace = append(trace, trLine{0, site, x})
		p.state.Store(stInCall)
		i := p.addRec(lineRec{Call: w.tick(), Phase: phase, Kind: kSubmit, Site: site, Text: x, Trace: trace})
		tr.Submit()
		ret := w.tick()
		p.mu.Lock()
		p.recs[i].Ret = ret
		p.mu.Unlock()
		w.enqReturned.Add(1)
		w.returnedAll.Add(1)
		p.state.Store(stRun)
	}
	w.twinBlocks.Add(1)
	return len(pat)
}

// tracerBlock: AddTracer, a few lines (optionally from helper goroutines too), Submit.
func (p *producer) tracerBlock(phase int) int {
	w := p.w
	r := p.rng
	pkg := r.Intn(nPkgs)
	p.trSeq++
	tid := fmt.Sprintf("%sT%d", p.name(), p.trSeq)
	_, tr := addTracer(pkg, context.Background())
	w.tracerObsMu.Lock()
	w.tracerObs = append(w.tracerObs, addTracerObs{Phase: phase, Pkg: pkg, Nil: tr == nil})
	w.tracerObsMu.Unlock()
	nl := r.Range(0, 6)
	if r.Chance(1, 10) {
		// long traces, around the sizes at which a line buffer would grow
		nl = vlib.Pick(r, 31, 32, 33, 34, 63, 64, 65, 66, 96, 97, 128, 129, r.Range(33, 500), r.Range(33, 500))
		w.longTraces.Add(1)
	}
	type plan struct {
		site int
		text string
	}
	mk := func(n int, tag string) []plan {
		out := make([]plan, n)
		for i := range out {
			out[i] = plan{siteID(pkg, 2+r.Intn(2), r.Range(1, nLevels)), fmt.Sprintf("%s%s#%d", tid, tag, i)}
		}
		return out
	}
	own := mk(nl, "")
	if tr == nil {
		// the calls fall back to plain lines (filtered by level like any other)
		nid := strings.Replace(tid, "T", "N", 1)
		for i, x := range own {
			if w.shouldStop() {
				break
			}
			p.logLine(phase, x.site, fmt.Sprintf("%s#%d", nid, i), w.certainlyEnabled(phase, pkg, siteLvl(x.site)))
		}
		return nl + 1
	}
	var helpers [][]plan
	if r.Chance(1, 4) {
		for h := r.Range(1, 2); h > 0; h-- {
			helpers = append(helpers, mk(r.Range(1, 5), fmt.Sprintf("h%d", len(helpers)+1)))
		}
	}
	var wg sync.WaitGroup
	for _, hp := range helpers {
		wg.Add(1)
		go func(hp []plan) {
			defer wg.Done()
			for _, x := range hp {
				emit(x.site, x.text, tr)
				runtime.Gosched()
			}
		}(hp)
	}
	for _, x := range own {
		emit(x.site, x.text, tr)
	}
	wg.Wait()
	var trace []trLine
	for _, x := range own {
		trace = append(trace, trLine{0, x.site, x.text})
	}
	if len(helpers) > 0 {
		// a last line by the owner after the helpers are done: it is the main line
		fin := plan{siteID(pkg, 2+r.Intn(2), r.Range(1, nLevels)), tid + "$"}
		emit(fin.site, fin.text, tr)
		for h, hp := range helpers {
			for _, x := range hp {
				trace = append(trace, trLine{h + 1, x.site, x.text})
			}
		}
		trace = append(trace, trLine{0, fin.site, fin.text})
	}
	// plain lines of the same goroutine between its last tracer line and Submit
	// (tracer-unaware helper code): they were logged before the submission, so they
	// arrive before it -- although the submission carries the older timestamp of its
	// last collected line
	between := 0
	if r.Chance(1, 2) {
		for i, n := 0, r.Range(1, 3); i < n && !w.shouldStop(); i++ {
			s := p.randSite(true)
			if r.Chance(2, 3) {
				s = siteID(sitePkg(s), siteVariant(s), r.Range(4, nLevels)) // mostly enabled
			}
			p.logLine(phase, s, fmt.Sprintf("%sb#%d", strings.Replace(tid, "T", "B", 1), i), w.certainlyEnabled(phase, sitePkg(s), siteLvl(s)))
			between++
		}
	}
	rec := lineRec{Phase: phase, Kind: kSubmit, Site: -1, Trace: trace}
	if len(trace) > 0 {
		rec.Site, rec.Text = trace[len(trace)-1].Site, trace[len(trace)-1].Text
	}
	if between > 0 && len(trace) > 0 {
		w.submitsAfterPlain.Add(1)
	}
	nl += between
	if w.shouldStop() {
		return nl + 1
	}
	p.state.Store(stInCall)
	rec.Call = w.tick()
	i := p.addRec(rec)
	tr.Submit()
	ret := w.tick()
	p.mu.Lock()
	p.recs[i].Ret = ret
	p.mu.Unlock()
	if len(trace) > 0 {
		w.enqReturned.Add(1)
	}
	w.returnedAll.Add(1)
	p.state.Store(stRun)
	return nl + 1
}

func (p *producer) main() {
	w := p.w
	for ph := 2; ph < len(w.phases); ph++ {
		p.state.Store(stBarrier)
		select {
		case <-w.phaseStart[ph]:
		case <-w.stopCh:
			p.state.Store(stDone)
			for q := ph; q < len(w.phases); q++ {
				w.phaseWG[q].Done()
			}
			return
		}
		p.state.Store(stRun)
		p.runPhase(ph, w.phases[ph].Ops[p.id])
		p.state.Store(stBarrier)
		w.phaseWG[ph].Done()
	}
	p.state.Store(stDone)
}

// ---------------------------------------------------------------------------------
// level model

// cfgSet is the set of values the three level variables can take during a phase.
type cfgSet struct {
	actives []bool
	maps    []map[string]int
	globals []int
}

func (w *world) cfgSetOf(phase int) cfgSet {
	ph := &w.phases[phase]
	cs := cfgSet{actives: []bool{ph.Cfg.Active}, maps: []map[string]int{ph.Cfg.Pkg}, globals: []int{ph.Cfg.Global}}
	if f := ph.Flip; f != nil {
		cs.globals = append(cs.globals, f.Globals...)
		cs.maps = append(cs.maps, f.Maps...)
		if len(f.Maps) > 0 {
			cs.actives = append(cs.actives, true)
		}
		if f.Unset {
			cs.actives = append(cs.actives, false)
		}
	}
	return cs
}

// enabledRange returns whether a line is enabled in all / in some of the level
// states possible during the phase.
func (w *world) enabledRange(phase, pkg, lvl int) (all, some bool) {
	cs := w.cfgSetOf(phase)
	all = true
	for _, a := range cs.actives {
		for _, m := range cs.maps {
			for _, g := range cs.globals {
				if (levelCfg{Global: g, Active: a, Pkg: m}).enabled(pkg, lvl) {
					some = true
				} else {
					all = false
				}
			}
		}
	}
	return
}

func (w *world) certainlyEnabled(phase, pkg, lvl int) bool {
	all, _ := w.enabledRange(phase, pkg, lvl)
	return all
}

func copyMap(m map[string]int) map[string]log.Severity {
	out := make(map[string]log.Severity, len(m))
	for k, v := range m {
		out[k] = log.Severity(v)
	}
	return out
}

func (w *world) applyCfg(c levelCfg) {
	if c.KeepPkg {
		// only the global level changes; the per-package levels set in the previous
		// phase stay as they are (no SetPkgLevels call)
		log.SetLogLevel(log.Severity(c.Global))
		w.globalOnlyChanges++
		return
	}
	log.SetLogLevel(log.Severity(c.Global))
	if c.Active {
		log.SetPkgLevels(copyMap(c.Pkg))
	} else {
		log.UnSetPkgLevels()
	}
}

func (w *world) flipper(f *flipSpec, stop *atomic.Bool, done chan struct{}) {
	defer close(done)
	var acts []func()
	for _, g := range f.Globals {
		g := g
		acts = append(acts, func() { log.SetLogLevel(log.Severity(g)) })
	}
	for _, m := range f.Maps {
		m := m
		acts = append(acts, func() { log.SetPkgLevels(copyMap(m)) })
	}
	if f.Unset {
		acts = append(acts, func() { log.UnSetPkgLevels() })
	}
	for i := 0; !stop.Load(); i++ {
		acts[i%len(acts)]()
		w.flipActions.Add(1)
		if i%4 == 3 {
			time.Sleep(20 * time.Microsecond)
		} else {
			runtime.Gosched()
		}
	}
}

// ---------------------------------------------------------------------------------
// scenario execution

func initialCfg(sc *scenario) levelCfg {
	c := levelCfg{Global: 3}
	if sc.InitLog != "" {
		for i, n := range levelNames {
			if n == sc.InitLog {
				c.Global = i
			}
		}
	}
	if sc.InitPlog != "" {
		c.Active = true
		c.Pkg = map[string]int{}
		for _, pair := range strings.Split(sc.InitPlog, ",") {
			kv := strings.Split(pair, "=")
			for i, n := range levelNames {
				if len(kv) == 2 && n == kv[1] {
					c.Pkg[kv[0]] = i
				}
			}
		}
	}
	return c
}

func runScenario(sc scenario) *world {
	w := &world{sc: sc, stopCh: make(chan struct{}), shutDone: make(chan struct{})}
	w.firstTrigAtEnq.Store(-1)
	w.stopAt.Store(math.MaxInt64)
	w.ad = &recAdapter{w: w, release: make(chan struct{}, 1)}
	if sc.Procs > 0 {
		runtime.GOMAXPROCS(sc.Procs)
	}
	sr := vlib.NewRand(sc.Seed, "shared", 0)
	for i := range w.sharedSites {
		w.sharedSites[i] = siteID(sr.Intn(nPkgs), sr.Intn(2), sr.Range(1, nLevels))
	}
	allOnes := make([]int, sc.Producers)
	w.phases = append(w.phases, phaseSpec{Cfg: initialCfg(&sc), Ops: allOnes}, phaseSpec{Cfg: levelCfg{Global: 1}, Ops: allOnes})
	w.phases = append(w.phases, sc.Phases...)
	w.phaseStart = make([]chan struct{}, len(w.phases))
	w.phaseWG = make([]sync.WaitGroup, len(w.phases))
	for i := range w.phases {
		w.phaseStart[i] = make(chan struct{})
		if i >= 2 {
			w.phaseWG[i].Add(sc.Producers)
		}
	}
	w.ctl = &producer{w: w, id: -1, rng: vlib.NewRand(sc.Seed, "ctl", 0)}
	w.ctl.state.Store(stRun)
	w.transition.Store(true)
	for i := 0; i < sc.Producers; i++ {
		p := &producer{w: w, id: i, rng: vlib.NewRand(sc.Seed, "producer", uint64(i))}
		p.goschedEvery = vlib.Pick(p.rng, 0, 0, 1, 7, 50)
		if p.rng.Chance(1, 4) {
			p.sleepEvery, p.sleepUs = p.rng.Range(100, 1500), p.rng.Range(10, 300)
		}
		p.state.Store(stBarrier)
		w.prods = append(w.prods, p)
	}

	// --- start the logger
	if sc.InitLog != "" {
		_ = flag.Set("log", sc.InitLog)
	}
	if sc.InitPlog != "" {
		_ = flag.Set("plog", sc.InitPlog)
	}
	log.SetAdapter(w.ad)
	if sc.Sched {
		log.EnableScheduling()
	}
	if err := log.Start(); err != nil {
		w.notes = append(w.notes, "log.Start: "+err.Error())
	}
	w.startRet = w.tick()

	if sc.Family == "early" {
		// Start, a handful of lines, Shutdown -- back to back in this goroutine, before
		// the writer goroutine needs to have run at all. Everything logged (and returned)
		// before Shutdown was called must be at the adapter when Shutdown returns.
		for k := 0; k < sc.EarlyLines; k++ {
			s := siteID(w.ctl.rng.Intn(nPkgs), w.ctl.rng.Intn(nVariants), w.ctl.rng.Range(1, nLevels))
			if k%2 == 0 {
				s = siteID(sitePkg(s), siteVariant(s), w.ctl.rng.Range(4, nLevels))
			}
			w.ctl.logLine(0, s, fmt.Sprintf("ini%d", k), w.certainlyEnabled(0, sitePkg(s), siteLvl(s)))
		}
		w.ctl.state.Store(stBarrier)
		w.transition.Store(false)
		w.pendingAtShut = w.enqReturned.Load() - int64(w.ad.count())
		w.shutCall = w.tick()
		log.Shutdown()
		w.shutRet = w.tick()
		w.shutRetLast = w.shutRet
		w.setStop()
		close(w.shutDone)
		w.earlyShutdown = true
		return w
	}

	var prodWG sync.WaitGroup
	for _, p := range w.prods {
		prodWG.Add(1)
		go func(p *producer) { defer prodWG.Done(); p.main() }(p)
	}

	// --- trigger goroutine (externally scheduled writer)
	trigStop := make(chan struct{})
	trigDone := make(chan struct{})
	if sc.Sched {
		go func() {
			defer close(trigDone)
			if sc.Trig.WithholdUntil < 0 {
				return
			}
			for w.enqReturned.Load() < int64(sc.Trig.WithholdUntil) {
				select {
				case <-trigStop:
					return
				case <-time.After(100 * time.Microsecond):
				}
			}
			w.firstTrigAtEnq.Store(w.enqReturned.Load())
			for {
				select {
				case <-trigStop:
					return
				default:
				}
				log.TriggerWriter()
				w.trigCount.Add(1)
				if sc.Trig.EveryUs > 0 {
					time.Sleep(time.Duration(sc.Trig.EveryUs) * time.Microsecond)
				} else {
					runtime.Gosched()
				}
			}
		}()
	} else {
		close(trigDone)
	}

	// --- shutdown
	var spinStop atomic.Bool
	var spinWG sync.WaitGroup
	doShutdown := func() {
		if sc.GCStress {
			// frequent collections over a pointer-rich heap: goroutines that allocate
			// (the writer allocates a timer per drained line) are drafted for mark work
			ballast := make([][]*int, 1024)
			for i := range ballast {
				ballast[i] = make([]*int, 1024)
				for j := range ballast[i] {
					if j%8 == 0 {
						ballast[i][j] = new(int)
					}
				}
			}
			old := debug.SetGCPercent(1)
			defer func() { debug.SetGCPercent(old); runtime.KeepAlive(ballast) }()
		}
		for i := 0; i < sc.Spinners; i++ {
			spinWG.Add(1)
			go func(i int) {
				defer spinWG.Done()
				x := 0
				var keep [][]byte
				for !spinStop.Load() {
					x++
					if sc.GCStress && i%2 == 0 {
						keep = append(keep, make([]byte, 2048))
						if len(keep) > 256 {
							keep = keep[:0]
						}
					}
				}
				_, _ = x, keep
			}(i)
		}
		w.ad.mu.Lock()
		w.pendingAtShut = w.enqReturned.Load() - w.ad.written
		w.ad.mu.Unlock()
		if sc.Shutdown == "mid" {
			w.stopAt.Store(w.returnedAll.Load() + int64(sc.ShutExtra))
		}
		// 1-3 goroutines call Shutdown at the same moment (released by a barrier);
		// what Shutdown promises holds at the return of each of the calls
		nc := sc.ShutCallers
		if nc < 1 {
			nc = 1
		}
		calls, rets := make([]uint64, nc), make([]uint64, nc)
		gate := make(chan struct{})
		var cwg sync.WaitGroup
		for c := 0; c < nc; c++ {
			cwg.Add(1)
			go func(c int) {
				defer cwg.Done()
				<-gate
				calls[c] = w.tick()
				log.Shutdown()
				rets[c] = w.tick()
			}(c)
		}
		close(gate)
		cwg.Wait()
		w.shutCall, w.shutRet, w.shutRetLast = calls[0], rets[0], rets[0]
		for c := 1; c < nc; c++ {
			if calls[c] < w.shutCall {
				w.shutCall = calls[c]
			}
			if rets[c] < w.shutRet {
				w.shutRet = rets[c]
			}
			if rets[c] > w.shutRetLast {
				w.shutRetLast = rets[c]
			}
		}
		spinStop.Store(true)
		spinWG.Wait()
		close(w.shutDone)
	}
	if sc.Shutdown == "mid" {
		go func() {
			// shutdown moment = a number of returned log calls
			for w.returnedAll.Load() < int64(sc.ShutAfter) {
				select {
				case <-w.stopCh:
				case <-time.After(50 * time.Microsecond):
					continue
				}
				break
			}
			go func() {
				// producers stop a bounded number of calls later (bounded, because once
				// the writer is gone nobody empties the buffer any more)
				for w.returnedAll.Load() < int64(sc.ShutAfter+sc.ShutExtra) {
					select {
					case <-w.shutDone:
					case <-time.After(50 * time.Microsecond):
						continue
					}
					break
				}
				w.setStop()
			}()
			doShutdown()
		}()
	}

	// The rest of the controller runs in its own goroutine: if the logger stops
	// emptying the buffer while lines are still queued, the producers' last calls block
	// for ever; the scenario must then still be judged on what was recorded.
	ctlDone := make(chan struct{})
	go func() {
		defer close(ctlDone)
		// --- init lines (flag-derived configuration) and calibration lines (everything
		// enabled; they tell the oracle which file:line is which call site)
		for ph := 0; ph < 2; ph++ {
			if ph == 1 {
				w.applyCfg(w.phases[1].Cfg)
			}
			tag := []string{"ini", "cal"}[ph]
			for s := 0; s < nSites; s++ {
				if w.shouldStop() {
					break
				}
				w.ctl.logLine(ph, s, fmt.Sprintf("%s%d", tag, s), w.certainlyEnabled(ph, sitePkg(s), siteLvl(s)))
			}
		}
		w.ctl.state.Store(stBarrier)

		// --- phases
		idleRound := 0
		for ph := 2; ph < len(w.phases); ph++ {
			if w.stop.Load() {
				break
			}
			w.transition.Store(true)
			w.applyCfg(w.phases[ph].Cfg)
			var fstop atomic.Bool
			var fdone chan struct{}
			if f := w.phases[ph].Flip; f != nil {
				fdone = make(chan struct{})
				go w.flipper(f, &fstop, fdone)
			}
			close(w.phaseStart[ph])
			w.transition.Store(false)
			w.phaseWG[ph].Wait()
			if fdone != nil {
				fstop.Store(true)
				<-fdone
			}
			if sc.Family == "idle" && !w.stop.Load() {
				for i := 0; i < sc.IdleRounds; i++ {
					idleRound++
					w.idleRound(ph, idleRound)
				}
			}
		}
		w.transition.Store(false)
		if sc.Shutdown != "mid" {
			w.setStop() // nothing is running any more; releases producers of skipped phases
			if !sc.Sched {
				// free-running writer: nothing may be left waiting once everything is idle
				w.idleVerdict("before-shutdown")
			}
			if sc.Sched && sc.Trig.AfterAll {
				// everything is queued: now let the writer take it in one batch (the
				// shutdown drain does not merge, the writer's batch loop does)
				for t0 := time.Now(); time.Since(t0) < 5*time.Second; {
					log.TriggerWriter()
					w.trigCount.Add(1)
					w.ad.mu.Lock()
					done := w.ad.written >= w.enqReturned.Load()
					w.ad.mu.Unlock()
					if done {
						break
					}
					time.Sleep(100 * time.Microsecond)
				}
			}
			doShutdown()
		} else {
			// all producers finished before the shutdown moment was reached
			w.setStop()
			<-w.shutDone
		}
		close(trigStop)
		<-trigDone
		// producers must all be able to finish (after Shutdown at most
		// ShutExtra+producers lines are logged, far fewer than the buffer holds)
		prodWG.Wait()
	}()
	stuck := make(chan struct{})
	go func() {
		<-w.shutDone
		select {
		case <-ctlDone:
		case <-time.After(15 * time.Second):
			close(stuck)
		}
	}()
	select {
	case <-ctlDone:
	case <-stuck:
		w.stuckAfterShut = true
		fmt.Fprintln(os.Stderr, "h_log: log calls still blocked 15 s after Shutdown returned")
	}
	return w
}
