// h_log — engine for property C20 (no enabled log line is lost, duplicated or
// reordered).
//
// Parent mode: derives the scenario list from VERIF_SEED and runs every scenario in
// its own child process (log.Start/Shutdown are once-only per process), on the plain
// and on the -race build. Child mode: one logger life: a recording adapter is
// installed with log.SetAdapter before log.Start, producers in several directories
// (= "packages" for per-package levels) log through the real API, levels change at
// producer barriers (or, in marked phases, concurrently), the writer runs free or is
// triggered by the harness, the adapter can be held inside Write until all producers
// are parked on the full buffer, Shutdown comes at a PRNG-chosen number of returned
// calls. The oracle (oracle.go) then compares what the adapter received with what was
// logged.
package main

import (
	"encoding/json"
	"fmt"
	"os"
	"strconv"
	"strings"
	"sync"
	"sync/atomic"
	"time"

	"verifharness/internal/vlib"
)

const rule = "a case is one logger life in a fresh process: 1-32 producer goroutines, 1-4 level phases (global level, per-package levels for 4 call-site directories, " +
	"initial levels from the -log/-plog flags, some phases with level changes racing with the producers), 96 call sites (directory x plain/f/tracer-method x severity), " +
	"unique lines, texts without identity (empty, blank, line breaks only) and with trailing/embedded line breaks or 1-40 kB long, runs of identical lines, A-B-A repeats, texts shared by goroutines, equal texts from different call sites, context tracers (0-6 lines, one in ten 31-500 lines, optionally collected by 3 goroutines); " +
	"writer free-running or externally triggered (periods 0-20 ms, or withheld until > 1024 lines are queued, or never), adapter delayed or held inside Write until all producers are parked; " +
	"Shutdown after all producers finished or after a PRNG-chosen number of returned calls. Families: free, free-hold, sched, sched-withheld, small, squeeze (GOMAXPROCS 1-2 + busy goroutines during Shutdown), twin (plain lines through a nil tracer and tracer submissions with the same call site and main text logged back to back, 1-3 goroutines, writer triggered only after everything is queued), idle (free-running writer; at every barrier the adapter is held inside the final Write of a batch while more lines are logged, then released, then an idle verdict from a goroutine dump), early (Start, 1-60 lines and Shutdown back to back in one goroutine, GOMAXPROCS 1/2/default). In 2 of 5 cases 2-3 goroutines call Shutdown concurrently. " +
	"distinct = distinct scenario signatures (family, build, producers, lines, levels per phase, shutdown moment); non-trivial = at least 10 log calls and at least one line delivered"

// Watchdogs. A case normally takes 0.05-5 s (adapter delays are capped at ~3 s per
// case); firing is inconclusive, never a verdict.
const (
	childTimeout     = 100 * time.Second
	retryTimeout     = 45 * time.Second
	maxRetriesPerRun = 2
	// a tree on which children hang en masse must not cost hours: after hangsShort
	// watchdog hits the remaining children get shortTimeout, after hangsStop the
	// remaining cases are not run (reported inconclusive)
	hangsShort   = 3
	hangsStop    = 8
	shortTimeout = 30 * time.Second
)

// runPool runs the children cfg.Par at a time (like vlib.RunChildren) with the
// adaptive watchdog described above. handle is serialised.
func runPool(cfg vlib.Cfg, specs []vlib.ChildSpec, handle func(i int, r *vlib.ChildResult)) (notRun int) {
	par := cfg.Par
	if par < 1 {
		par = 1
	}
	sem := make(chan struct{}, par)
	var wg sync.WaitGroup
	var hmu sync.Mutex
	var hangs atomic.Int32
	for i := range specs {
		sem <- struct{}{}
		h := hangs.Load()
		if h >= hangsStop {
			notRun++
			<-sem
			continue
		}
		cs := specs[i]
		if h >= hangsShort {
			cs.Timeout = shortTimeout
		}
		wg.Add(1)
		go func(i int, cs vlib.ChildSpec) {
			defer wg.Done()
			defer func() { <-sem }()
			r := vlib.RunChild(cfg, cs)
			if r.TimedOut {
				hangs.Add(1)
			}
			hmu.Lock()
			handle(i, r)
			hmu.Unlock()
			_ = os.RemoveAll(r.Dir)
		}(i, cs)
	}
	wg.Wait()
	return notRun
}

// functions whose races are about the buffer / wake-up protocol of the property
var raceScope = []string{"portbase/log.log", "portbase/log.writer", "portbase/log.finalizeWriting", "portbase/log.(*ContextTracer).Submit",
	"portbase/log.Start", "portbase/log.Shutdown", "portbase/log.writerManager", "portbase/log.startWriter", "portbase/log.TriggerWriter"}

func inRaceScope(rr *vlib.RaceReport) bool {
	for i := 0; i < 2; i++ {
		top := rr.TopFrame(i, "safing/portbase")
		for _, f := range raceScope {
			if top != "" && strings.HasSuffix(top, f) {
				return true
			}
		}
	}
	return false
}

func main() {
	if dir, ok := vlib.IsChild(); ok {
		childMain(dir)
		return
	}
	cfg := vlib.Load()
	if cfg.Prop != "C20" {
		fmt.Println("h_log: unknown property", cfg.Prop)
		os.Exit(2)
	}
	rep := vlib.NewReport(cfg)
	rep.Rule(rule)

	var specs []vlib.ChildSpec
	var scs []scenario
	add := func(sc scenario, name string) {
		bin := cfg.BinPlain
		if sc.Build == "race" {
			bin = cfg.BinRace
		}
		scs = append(scs, sc)
		specs = append(specs, vlib.ChildSpec{Name: name, Bin: bin, Spec: sc, Timeout: childTimeout, Race: sc.Build == "race"})
	}
	if cfg.Replay != "" {
		var doc struct {
			Detail struct {
				Scenario *scenario `json:"scenario"`
			} `json:"detail"`
		}
		b, err := os.ReadFile(cfg.Replay)
		if err == nil {
			err = json.Unmarshal(b, &doc)
		}
		if err != nil || doc.Detail.Scenario == nil {
			fmt.Println("h_log: replay file has no scenario:", err)
			os.Exit(2)
		}
		// concurrent scenario: replay the same spec a number of times
		for i := 0; i < 32; i++ {
			sc := *doc.Detail.Scenario
			if sc.Build == "race" && cfg.BinRace == "" {
				sc.Build = "plain"
			}
			add(sc, fmt.Sprintf("replay-%02d", i))
		}
	} else {
		nPlain, nRace := cfg.N(128, 1400), cfg.N(48, 350)
		// development aid: H_LOG_ONLY=<family> keeps one family, H_LOG_N=<n> scales the list
		only := os.Getenv("H_LOG_ONLY")
		if v, err := strconv.Atoi(os.Getenv("H_LOG_N")); err == nil && v > 0 {
			nPlain, nRace = v, v/3
		}
		for i := 0; i < nPlain; i++ {
			if sc := genScenario(cfg, i, "plain", ""); only == "" || sc.Family == only {
				add(sc, fmt.Sprintf("plain-%04d", i))
			}
		}
		if cfg.BinRace != "" {
			for i := 0; i < nRace; i++ {
				if sc := genScenario(cfg, i, "race", ""); only == "" || sc.Family == only {
					add(sc, fmt.Sprintf("race-%04d", i))
				}
			}
		}
		// The shutdown drain is decided by a 10 ms timer inside the writer; the schedule in
		// which that matters needs the writer to lose the CPU inside a window of about
		// 100 ns per drained line. Many cheap squeeze cases (short, mostly waiting)
		// buy reach there that a few long ones cannot.
		// Plain lines and tracer submissions with equal site and text, queued back to
		// back and taken by the writer in one batch (family twin; small cases).
		if only == "" || only == "twin" {
			for i := 0; i < cfg.N(64, 400); i++ {
				add(genScenario(cfg, 200000+i, "plain", "twin"), fmt.Sprintf("plain-tw%04d", i))
			}
			if cfg.BinRace != "" {
				for i := 0; i < cfg.N(16, 100); i++ {
					add(genScenario(cfg, 200000+i, "race", "twin"), fmt.Sprintf("race-tw%04d", i))
				}
			}
		}
		// Free-running writer with the adapter held inside the final Write of a batch
		// while more lines are logged, then an idle verdict (family idle; small cases).
		if only == "" || only == "idle" {
			for i := 0; i < cfg.N(48, 250); i++ {
				add(genScenario(cfg, 300000+i, "plain", "idle"), fmt.Sprintf("plain-id%04d", i))
			}
			if cfg.BinRace != "" {
				for i := 0; i < cfg.N(12, 60); i++ {
					add(genScenario(cfg, 300000+i, "race", "idle"), fmt.Sprintf("race-id%04d", i))
				}
			}
		}
		// Start, a handful of lines and Shutdown back to back (family early; tiny cases).
		if only == "" || only == "early" {
			for i := 0; i < cfg.N(48, 300); i++ {
				add(genScenario(cfg, 400000+i, "plain", "early"), fmt.Sprintf("plain-ea%04d", i))
			}
			if cfg.BinRace != "" {
				for i := 0; i < cfg.N(16, 80); i++ {
					add(genScenario(cfg, 400000+i, "race", "early"), fmt.Sprintf("race-ea%04d", i))
				}
			}
		}
		if only == "" || only == "squeeze" {
			for i := 0; i < nPlain*2; i++ {
				add(genScenario(cfg, 100000+i, "plain", "squeeze"), fmt.Sprintf("plain-sq%04d", i))
			}
			if cfg.BinRace != "" {
				for i := 0; i < nRace; i++ {
					add(genScenario(cfg, 100000+i, "race", "squeeze"), fmt.Sprintf("race-sq%04d", i))
				}
			}
		}
	}

	retried := 0
	watchdogHits := 0
	var handle func(i int, c *vlib.ChildResult, attempt int)
	handle = func(i int, c *vlib.ChildResult, attempt int) {
		sc := scs[i]
		for _, rr := range c.Races {
			rr := rr
			switch {
			case rr.HarnessOnly():
				rep.FloorMissed("race report in harness-only frames (monitor is racy): %s\n%s", rr.Signature(), rr.Text)
			case inRaceScope(&rr):
				rep.Violation("C20:race:"+rr.Signature(), "data race reported on the log buffer / wake-up protocol of the logger",
					map[string]any{"scenario": sc, "report": rr.Text})
			default:
				rep.Count("race_reports_out_of_scope", 1)
				rep.Note("race report outside the scope of C20 (diagnostic): %s", rr.Signature())
			}
		}
		if c.TimedOut || (!c.Done && c.Signal == "killed") {
			// watchdog: not a verdict. Re-run the same spec once, with a shorter
			// watchdog, and only a few times per run: a tree on which children hang must
			// not multiply the run time (retries run while the other results wait).
			if attempt < 1 && retried < maxRetriesPerRun && watchdogHits <= hangsShort && cfg.Replay == "" {
				retried++
				cs := specs[i]
				cs.Timeout = retryTimeout
				cs.Name = fmt.Sprintf("%s-retry%d", cs.Name, attempt+1)
				r2 := vlib.RunChild(cfg, cs)
				handle(i, r2, attempt+1)
				_ = os.RemoveAll(r2.Dir)
				return
			}
			rep.Inconclusive("case %s (%s) hit the watchdog (%s, retry %s; run %d times); stderr tail: %s", c.Name, sc.Family, childTimeout, retryTimeout, attempt+1, tailLines(c.StderrTail(6000), 40))
			return
		}
		if !c.Done {
			tail := c.StderrTail(4000)
			rep.Violation("C20:child-died:"+fatalLine(tail), fmt.Sprintf("child %s died (exit=%d signal=%q) while driving the logger", c.Name, c.Exit, c.Signal),
				map[string]any{"scenario": sc, "stderr_tail": tail})
			return
		}
		if rep.MergeChild(c) == nil {
			rep.Inconclusive("case %s left no output", c.Name)
		}
	}
	notRun := runPool(cfg, specs, func(i int, c *vlib.ChildResult) {
		if c.TimedOut {
			watchdogHits++
		}
		handle(i, c, 0)
	})
	rep.Count("watchdog_hits", int64(watchdogHits))
	if notRun > 0 {
		rep.Inconclusive("%d children hung until their watchdog; the remaining %d cases of the run were not executed", watchdogHits, notRun)
	}
	rep.Count("cases_retried_after_watchdog", int64(retried))
	if cfg.Replay != "" && rep.NViolations() == 0 {
		rep.Note("replay: the scenario was re-executed %d times without reproducing; the witness is schedule-dependent (the record in the replay file is the observed history)", len(specs))
	}

	// floors: quantities the workload reaches by construction
	n := rep.Counter("cases_plain") + rep.Counter("cases_race")
	if cfg.Replay == "" {
		rep.Floor(n >= int64(len(specs))*9/10, "only %d of %d cases were decided", n, len(specs))
		rep.Floor(rep.Counter("cases_buffer_full_forced")*4 >= n, "buffer-full path forced in only %d of %d cases", rep.Counter("cases_buffer_full_forced"), n)
		rep.Floor(rep.Counter("cases_scheduled_writer") > 0 && rep.Counter("cases_free_running_writer") > 0, "writer modes not both seen")
		rep.Floor(rep.Counter("merged_entries") >= 20, "merged_entries=%d", rep.Counter("merged_entries"))
		rep.Floor(rep.Counter("submissions_checked") >= 20, "submissions_checked=%d", rep.Counter("submissions_checked"))
		rep.Floor(rep.Counter("cases_shutdown_with_lines_pending") >= 5, "cases_shutdown_with_lines_pending=%d", rep.Counter("cases_shutdown_with_lines_pending"))
		rep.Floor(rep.Counter("twin_plain_and_submission_arrived_adjacent") >= 100, "twin_plain_and_submission_arrived_adjacent=%d", rep.Counter("twin_plain_and_submission_arrived_adjacent"))
		rep.Floor(rep.Counter("idle_rounds_line_logged_during_final_write") >= 30 && rep.Counter("idle_points_judged") >= 60, "idle rounds=%d idle points=%d", rep.Counter("idle_rounds_line_logged_during_final_write"), rep.Counter("idle_points_judged"))
		rep.Floor(rep.Counter("cases_concurrent_shutdown_calls_with_lines_pending") >= 20, "cases_concurrent_shutdown_calls_with_lines_pending=%d", rep.Counter("cases_concurrent_shutdown_calls_with_lines_pending"))
		rep.Floor(rep.Counter("submissions_after_plain_lines_of_same_goroutine") >= 200, "submissions_after_plain_lines_of_same_goroutine=%d", rep.Counter("submissions_after_plain_lines_of_same_goroutine"))
		rep.Floor(rep.Counter("global_level_changes_with_pkg_levels_untouched") >= 8, "global_level_changes_with_pkg_levels_untouched=%d", rep.Counter("global_level_changes_with_pkg_levels_untouched"))
		rep.Floor(rep.Counter("odd_text_lines") >= 2000 && rep.Counter("odd_text_submissions") >= 100, "odd_text_lines=%d odd_text_submissions=%d", rep.Counter("odd_text_lines"), rep.Counter("odd_text_submissions"))
		rep.Floor(rep.Counter("tracer_blocks_with_31_to_500_lines") >= 100, "tracer_blocks_with_31_to_500_lines=%d", rep.Counter("tracer_blocks_with_31_to_500_lines"))
		rep.Floor(rep.Counter("cases_shutdown_right_after_start") >= 30, "cases_shutdown_right_after_start=%d", rep.Counter("cases_shutdown_right_after_start"))
		rep.Floor(rep.Counter("cases_shutdown_mid") >= 5, "cases_shutdown_mid=%d", rep.Counter("cases_shutdown_mid"))
		rep.Floor(rep.Counter("lines_below_level") >= 1000 && rep.Counter("lines_must") >= 10000, "lines: must=%d below=%d", rep.Counter("lines_must"), rep.Counter("lines_below_level"))
	}
	rep.Assume("the adapter installed with log.SetAdapter sees exactly what the writer hands out; lines of a tracer submission are read from log.StdoutAdapter.Format (the only public view on them)")
	rep.Assume("level changes happen at producer barriers; in phases with racing level changes a line is demanded only if it is enabled in every combination of values the level variables take in that phase, and forbidden only if disabled in all of them")
	rep.Assume("a line is 'logged before Shutdown' when its log call returned before Shutdown was called (sequence clock of the harness)")
	if err := rep.Finish(); err != nil {
		fmt.Println("h_log: cannot write result:", err)
		os.Exit(2)
	}
}

func tailLines(s string, n int) string {
	ls := strings.Split(s, "\n")
	if len(ls) > n {
		ls = ls[len(ls)-n:]
	}
	return strings.Join(ls, "\n")
}

func fatalLine(tail string) string {
	for _, ln := range strings.Split(tail, "\n") {
		if strings.HasPrefix(ln, "fatal error:") || strings.HasPrefix(ln, "panic:") {
			s := strings.TrimSpace(ln)
			if len(s) > 80 {
				s = s[:80]
			}
			return s
		}
	}
	return "unknown"
}

func childMain(dir string) {
	var sc scenario
	if err := vlib.ChildSpecInto(dir, &sc); err != nil {
		fmt.Println("bad spec:", err)
		os.Exit(3)
	}
	b := vlib.NewBatch()
	w := runScenario(sc)
	judge(w, b)
	b.Finish(dir)
	os.Exit(0) // goroutines blocked in the logger must not keep the process alive
}
