package main

import (
	"fmt"
	"os"
	"runtime"
	"strconv"
	"strings"
	"sync"
	"time"
)

// Idle verdicts (free-running writer only).
//
// With a free-running writer a line whose log call has returned needs no later event
// to reach the adapter: the producer that finds logsWaitingFlag unset signals
// logsWaiting, and the writer clears the flag *before* it drains, so whatever is
// queued while it drains or writes either is drained or finds the flag unset and
// signals again. Hence: when no goroutine is inside a log call, the adapter is not
// inside Write and the writer goroutine is parked in its wake-up select (the one that
// receives from logsWaiting; a send to that channel would have made it runnable, so
// being parked there means no signal is pending), nothing can move any more without a
// new log call or Shutdown -- and every enabled line logged so far must already be
// in the adapter record. (With an externally scheduled writer lines legitimately wait
// for the next trigger: no idle verdicts there.)
//
// The parked position is read from a goroutine dump (runtime.Stack stops the world:
// one consistent snapshot) and symbolised with the source line the dump names.

type idlePoint struct {
	Seq uint64 `json:"seq"`
	Tag string `json:"tag"`
}

var (
	selCacheMu sync.Mutex
	selCache   = map[string]bool{}
)

// selectWaitsForWakeup reports whether the select statement at file:line receives
// from logsWaiting.
func selectWaitsForWakeup(file string, line int) bool {
	key := file + ":" + strconv.Itoa(line)
	selCacheMu.Lock()
	defer selCacheMu.Unlock()
	if v, ok := selCache[key]; ok {
		return v
	}
	res := false
	if b, err := os.ReadFile(file); err == nil {
		lines := strings.Split(string(b), "\n")
		start := -1
		for i := line - 1; i >= 0 && i >= line-3 && i < len(lines); i-- {
			if strings.Contains(lines[i], "select {") {
				start = i
				break
			}
		}
		if start >= 0 {
			depth := 0
			for i := start; i < len(lines); i++ {
				if strings.Contains(lines[i], "<-logsWaiting") && depth >= 1 {
					res = true
				}
				depth += strings.Count(lines[i], "{") - strings.Count(lines[i], "}")
				if depth <= 0 {
					break
				}
			}
		}
	}
	selCache[key] = res
	return res
}

// writerParked: is the goroutine running log.writer blocked in its wake-up select?
func writerParked() (parked bool, where string) {
	buf := make([]byte, 1<<18)
	for {
		n := runtime.Stack(buf, true)
		if n < len(buf) {
			buf = buf[:n]
			break
		}
		buf = make([]byte, 2*len(buf))
	}
	for _, blk := range strings.Split(string(buf), "\n\n") {
		ls := strings.Split(blk, "\n")
		if len(ls) < 3 || !strings.HasPrefix(ls[0], "goroutine ") {
			continue
		}
		for i := 1; i+1 < len(ls); i++ {
			if !strings.HasPrefix(ls[i], "github.com/safing/portbase/log.writer(") {
				continue
			}
			// innermost portbase frame must be writer itself (not something it calls)
			inner := true
			for j := 1; j < i; j++ {
				if !strings.HasPrefix(ls[j], "\t") && !strings.HasPrefix(ls[j], "runtime.") {
					inner = false
				}
			}
			loc := strings.TrimSpace(ls[i+1])
			if sp := strings.Index(loc, " "); sp > 0 {
				loc = loc[:sp]
			}
			where = ls[0] + " " + loc
			if !inner || !strings.Contains(ls[0], "[select") {
				return false, where
			}
			c := strings.LastIndex(loc, ":")
			if c < 0 {
				return false, where
			}
			ln, err := strconv.Atoi(loc[c+1:])
			if err != nil {
				return false, where
			}
			return selectWaitsForWakeup(loc[:c], ln), where
		}
	}
	return false, "no goroutine runs log.writer"
}

func (w *world) loggerUntouched() bool {
	for _, p := range w.prods {
		if s := p.state.Load(); s != stBarrier && s != stDone {
			return false
		}
	}
	return w.ctl.state.Load() == stBarrier && !w.ad.inWrite.Load()
}

func (a *recAdapter) count() int {
	a.mu.Lock()
	defer a.mu.Unlock()
	return len(a.entries)
}

// idleVerdict waits for a stable idle point and records it (the oracle then demands
// every enabled line logged before it in the adapter record before it).
func (w *world) idleVerdict(tag string) bool {
	if w.sc.Sched {
		return false
	}
	deadline := time.Now().Add(10 * time.Second)
	consecutive := 0
	lastR, lastN := int64(-1), -1
	where := ""
	for time.Now().Before(deadline) {
		ok := false
		if w.loggerUntouched() {
			r, n := w.returnedAll.Load(), w.ad.count()
			var parked bool
			parked, where = writerParked()
			if parked && w.loggerUntouched() && r == w.returnedAll.Load() && n == w.ad.count() && (consecutive == 0 || (r == lastR && n == lastN)) {
				ok = true
				lastR, lastN = r, n
			}
		}
		if ok {
			consecutive++
		} else {
			consecutive = 0
		}
		if consecutive >= 2 {
			w.idlePoints = append(w.idlePoints, idlePoint{Seq: w.tick(), Tag: tag})
			return true
		}
		time.Sleep(time.Millisecond)
	}
	w.idleSkipped++
	w.notes = append(w.notes, fmt.Sprintf("no stable idle point within 10 s (%s); writer: %s", tag, where))
	return false
}

// idleRound: the adapter is held inside the Write of the only queued line (= the
// final Write of the writer's batch, after it saw the buffer empty); meanwhile more
// lines are logged and their calls return; the adapter is released; everything goes
// idle; verdict -- before anything else is logged and before Shutdown.
func (w *world) idleRound(phase, round int) {
	if !w.idleVerdict(fmt.Sprintf("before-round-%d", round)) {
		return
	}
	c := w.ctl
	r := c.rng
	pick := func() int {
		for i := 0; i < 30; i++ {
			s := siteID(r.Intn(nPkgs), r.Intn(nVariants), r.Range(1, nLevels))
			if w.certainlyEnabled(phase, sitePkg(s), siteLvl(s)) {
				return s
			}
		}
		return -1
	}
	sa := pick()
	if sa < 0 {
		return
	}
	w.ad.armed.Store(true)
	c.logLine(phase, sa, fmt.Sprintf("idl%dA", round), true)
	c.state.Store(stBarrier)
	for t0 := time.Now(); !w.ad.holding.Load(); {
		if time.Since(t0) > 5*time.Second {
			// never got there: make sure a late hold passes, and give up this round
			select {
			case w.ad.release <- struct{}{}:
			default:
			}
			w.idleSkipped++
			return
		}
		time.Sleep(50 * time.Microsecond)
	}
	switch k := r.Intn(3); {
	case k == 2 && w.sc.Tracers:
		c.tracerBlock(phase)
	default:
		for i, n := 0, 1+k*r.Intn(3); i < n; i++ {
			if s := pick(); s >= 0 {
				c.logLine(phase, s, fmt.Sprintf("idl%dB%d", round, i), true)
			}
		}
	}
	c.state.Store(stBarrier)
	w.idleRounds++
	w.ad.release <- struct{}{}
	w.idleVerdict(fmt.Sprintf("after-round-%d", round))
}
