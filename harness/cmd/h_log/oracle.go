package main

import (
	"fmt"
	"sort"
	"strconv"
	"strings"

	"verifharness/internal/vlib"
)

// The oracle of C20, run over what one logger life recorded at the harness/portbase
// boundary: the producers' call/ret records and the adapter's Write records.
//
//  every line is classified from the level states possible while it was logged and
//  from its position relative to the Shutdown call:
//    must  = enabled in every possible level state and returned before Shutdown was called
//    never = disabled in every possible level state
//    may   = anything else (racing with a level change, overlapping/after Shutdown)
//  O1 exactly-once with merge accounting: per (call site, text)
//        must <= sum(duplicates+1) <= must+may, counted on the record as it was when
//        Shutdown returned for the lower bound (O5) and on the whole record for the upper
//  O2 nothing unknown arrives (phantom), and every line arrives with the file, line
//        and severity of a call site it was logged from (merging joins identical lines only)
//  O3 per goroutine: the lines it logged arrive in the order it logged them
//  O4 tracer submissions: one entry, never merged, carrying every collected line
//        (in order per collecting goroutine, nothing else)
//  O5 when Shutdown returns all must-lines are in the record

type lineClass int

const (
	clMust lineClass = iota
	clMay
	clNever
)

type keyStat struct {
	must, may, never int
	got, gotAtRet    int
	gotAtLastRet     int // in the record when the last of several concurrent Shutdown calls returned
	owner            int // goroutine id, -1 ctl, -2 shared
	lastRec          [2]int
	kind             int
}

func ownerOf(text string) int {
	switch {
	case strings.HasPrefix(text, "ini"), strings.HasPrefix(text, "cal"), strings.HasPrefix(text, "idl"), strings.HasPrefix(text, "ctl"):
		return -1
	case strings.HasPrefix(text, "sh"), strings.TrimSpace(text) == "":
		// texts without an identity (shared by goroutines; empty, blank, line breaks
		// only): told apart by call site and counted
		return -2
	case strings.HasPrefix(text, "g"):
		i := 1
		for i < len(text) && text[i] >= '0' && text[i] <= '9' {
			i++
		}
		n, err := strconv.Atoi(text[1:i])
		if err == nil {
			return n
		}
	}
	return -3
}

func mkKey(site int, text string) string { return strconv.Itoa(site) + "|" + text }

// A tracer submission and a plain line can have the same call site and text (the
// main line of a submission is an ordinary call site); they are different things and
// are accounted separately.
func mkSubKey(site int, text string) string { return mkKey(site, text) + "|S" }

func splitKey(k string) (site int, text string, sub bool) {
	i := strings.Index(k, "|")
	site, _ = strconv.Atoi(k[:i])
	text = k[i+1:]
	if strings.HasSuffix(text, "|S") {
		text, sub = text[:len(text)-2], true
	}
	return
}

type witness map[string]any

func judge(w *world, b *vlib.Batch) {
	sc := &w.sc
	prop := "C20"
	viol := func(sig, what string, detail witness) {
		if detail == nil {
			detail = witness{}
		}
		detail["scenario"] = sc
		detail["shutdown_call_seq"] = w.shutCall
		detail["shutdown_ret_seq"] = w.shutRet
		b.Violation(prop+":"+sig, what, detail)
	}

	// ---- gather
	type gor struct {
		id   int
		recs []lineRec
		cls  []lineClass
		keys []string
		enab []bool // enabled in every level state possible while it was logged (whatever Shutdown does)
	}
	var gs []*gor
	for _, p := range append([]*producer{w.ctl}, w.prods...) {
		p.mu.Lock()
		g := &gor{id: p.id, recs: append([]lineRec(nil), p.recs...)}
		p.mu.Unlock()
		gs = append(gs, g)
	}
	w.ad.mu.Lock()
	entries := append([]adEntry(nil), w.ad.entries...)
	w.ad.mu.Unlock()

	// ---- expectations
	stats := map[string]*keyStat{}
	textSites := map[string]map[int]bool{}
	var nCalls, nMust, nMay, nNever, nSubmit, nSubmitEmpty, nInflight int
	for gi, g := range gs {
		g.cls = make([]lineClass, len(g.recs))
		g.keys = make([]string, len(g.recs))
		g.enab = make([]bool, len(g.recs))
		for i, r := range g.recs {
			nCalls++
			if r.Ret == 0 {
				nInflight++
			}
			before := r.Ret != 0 && r.Ret < w.shutCall
			var c lineClass
			if r.Kind == kSubmit {
				nSubmit++
				if len(r.Trace) == 0 {
					nSubmitEmpty++
					g.cls[i] = clNever
					g.keys[i] = ""
					continue
				}
				c = clMay
				if before {
					c = clMust
				}
				g.enab[i] = true
			} else {
				all, some := w.enabledRange(r.Phase, sitePkg(r.Site), siteLvl(r.Site))
				g.enab[i] = all
				switch {
				case !some:
					c = clNever
				case all && before:
					c = clMust
				default:
					c = clMay
				}
			}
			k := mkKey(r.Site, r.Text)
			if r.Kind == kSubmit {
				k = mkSubKey(r.Site, r.Text)
			}
			g.cls[i], g.keys[i] = c, k
			st := stats[k]
			if st == nil {
				st = &keyStat{owner: ownerOf(r.Text), kind: r.Kind}
				stats[k] = st
			}
			switch c {
			case clMust:
				st.must++
				nMust++
			case clMay:
				st.may++
				nMay++
			default:
				st.never++
				nNever++
			}
			st.lastRec = [2]int{gi, i}
			if textSites[r.Text] == nil {
				textSites[r.Text] = map[int]bool{}
			}
			textSites[r.Text][r.Site] = true
		}
	}

	// ---- adapter entries: which call site did each come from
	type fl struct {
		file string
		line int
	}
	learned := map[fl]int{}
	badOrigin := 0
	for _, e := range entries {
		ss := textSites[e.Text]
		if len(ss) != 1 {
			continue
		}
		var s int
		for x := range ss {
			s = x
		}
		k := fl{e.File, e.Line}
		if old, ok := learned[k]; ok && old != s {
			badOrigin++
			viol("wrong-origin:line-shared-by-sites", fmt.Sprintf("two call sites (%s, %s) arrive with the same file:line %s:%d", siteName(old), siteName(s), e.File, e.Line),
				witness{"entry": e})
			continue
		}
		learned[k] = s
		if !strings.HasSuffix(e.File, "/"+pkgDirs[sitePkg(s)]+"/emit") || e.Sev != siteLvl(s) {
			badOrigin++
			viol("wrong-origin:"+[]string{"plain", "submission"}[btoi(len(e.Fmt) > 1)], fmt.Sprintf("line %q logged at %s arrived as file=%s severity=%d", e.Text, siteName(s), e.File, e.Sev),
				witness{"entry": e})
		}
	}
	// a file:line must identify one site, and one site must have one file:line
	siteLine := map[int]fl{}
	for k, s := range learned {
		if old, ok := siteLine[s]; ok && old != k {
			badOrigin++
			viol("wrong-origin:site-with-two-lines", fmt.Sprintf("call site %s arrives as %s:%d and as %s:%d", siteName(s), old.file, old.line, k.file, k.line), nil)
		}
		siteLine[s] = k
	}

	entSite := make([]int, len(entries))
	entKey := make([]string, len(entries))
	undecidedTexts := map[string]bool{}
	var adLines, merged, maxDup, crossMerged, afterRet int
	for i, e := range entries {
		adLines += int(e.Dup) + 1
		if e.Dup > 0 {
			merged++
			if int(e.Dup) > maxDup {
				maxDup = int(e.Dup)
			}
			if ownerOf(e.Text) == -2 {
				crossMerged++
			}
		}
		if w.shutRet != 0 && e.Seq > w.shutRet {
			afterRet++
		}
		ss := textSites[e.Text]
		if ss == nil {
			entSite[i] = -1
			viol("phantom", fmt.Sprintf("the adapter received %q, which was never logged", e.Text), witness{"entry": e, "index": i})
			continue
		}
		s, ok := learned[fl{e.File, e.Line}]
		if !ok {
			// fall back to directory and severity
			var cand []int
			for x := range ss {
				if strings.HasSuffix(e.File, "/"+pkgDirs[sitePkg(x)]+"/emit") && siteLvl(x) == e.Sev {
					cand = append(cand, x)
				}
			}
			if len(cand) != 1 {
				entSite[i] = -1
				undecidedTexts[e.Text] = true
				continue
			}
			s = cand[0]
		}
		entSite[i] = s
		if !ss[s] {
			badOrigin++
			viol("wrong-origin:plain", fmt.Sprintf("line %q arrived from call site %s, but it was only logged from other sites", e.Text, siteName(s)), witness{"entry": e})
			entSite[i] = -1
			undecidedTexts[e.Text] = true
			continue
		}
		// submission or plain line? A submission that carries collected lines shows
		// them in its formatted output; one that consists of its main line only looks
		// like a plain line and is taken as the submission if no plain line of that
		// site and text was logged.
		k := mkKey(s, e.Text)
		if len(e.Fmt) > 1 || stats[k] == nil {
			k = mkSubKey(s, e.Text)
		}
		st := stats[k]
		if st == nil {
			viol("phantom:submission", fmt.Sprintf("the adapter received %q from %s as a tracer submission with collected lines, but no tracer was submitted with that main line", e.Text, siteName(s)), witness{"entry": e, "index": i})
			entSite[i] = -1
			undecidedTexts[e.Text] = true
			continue
		}
		entKey[i] = k
		st.got += int(e.Dup) + 1
		if w.shutRet == 0 || e.Seq < w.shutRet {
			st.gotAtRet += int(e.Dup) + 1
		}
		if w.shutRetLast == 0 || e.Seq < w.shutRetLast {
			st.gotAtLastRet += int(e.Dup) + 1
		}
		if st.kind == kSubmit && e.Dup > 0 {
			viol("merged-submission", fmt.Sprintf("tracer submission %q was merged (duplicates=%d)", e.Text, e.Dup), witness{"entry": e})
		}
	}

	// ---- O1/O5 counts
	// Shape of the losses of the whole case, from the lines that were logged exactly
	// once by their goroutine: "tail" = per goroutine the lost lines are a suffix of what
	// it logged before Shutdown was called (everything before them arrived, nothing
	// after them did) -- what is left in the buffer when the writer stops too early.
	lostUnique, deliveredUnique, lostTail := 0, 0, true
	firstLostCall := uint64(0)
	for _, g := range gs {
		seenLost := false
		for i := range g.recs {
			k := g.keys[i]
			if k == "" || g.cls[i] != clMust {
				continue
			}
			st := stats[k]
			if st.owner != g.id || st.must+st.may+st.never != 1 || undecidedTexts[g.recs[i].Text] {
				continue
			}
			if st.gotAtRet > 0 {
				deliveredUnique++
				if seenLost {
					lostTail = false
				}
			} else {
				lostUnique++
				seenLost = true
				if firstLostCall == 0 || g.recs[i].Call < firstLostCall {
					firstLostCall = g.recs[i].Call
				}
			}
		}
	}
	// ... and across goroutines: whatever was logged after the first lost line had
	// returned sits behind it in the buffer and must be lost as well
	if lostUnique > 0 && lostTail {
		minLostRet := uint64(0)
		for _, g := range gs {
			for i := range g.recs {
				if k := g.keys[i]; k != "" && g.cls[i] == clMust {
					if st := stats[k]; st.owner == g.id && st.must+st.may+st.never == 1 && st.gotAtRet == 0 && !undecidedTexts[g.recs[i].Text] {
						if minLostRet == 0 || g.recs[i].Ret < minLostRet {
							minLostRet = g.recs[i].Ret
						}
					}
				}
			}
		}
		for _, g := range gs {
			for i := range g.recs {
				if k := g.keys[i]; k != "" && g.cls[i] == clMust && g.recs[i].Call > minLostRet {
					if st := stats[k]; st.owner == g.id && st.must+st.may+st.never == 1 && st.gotAtRet > 0 {
						lostTail = false
					}
				}
			}
		}
	}
	// how many must-loggings of each key lie behind the last once-logged line of
	// their goroutine that did arrive (= could still have been queued at the end)
	tailCap := map[string]int{}
	for _, g := range gs {
		last := -1
		for i := range g.recs {
			if k := g.keys[i]; k != "" && g.cls[i] == clMust {
				if st := stats[k]; st.owner == g.id && st.must+st.may+st.never == 1 && st.gotAtRet > 0 {
					last = i
				}
			}
		}
		for i := last + 1; i < len(g.recs); i++ {
			if k := g.keys[i]; k != "" && g.cls[i] == clMust {
				tailCap[k]++
			}
		}
	}
	lastEntrySeq := uint64(0)
	if len(entries) > 0 {
		lastEntrySeq = entries[len(entries)-1].Seq
	}
	dirtyOwner := map[int]bool{}
	var keys []string
	for k := range stats {
		keys = append(keys, k)
	}
	sort.Strings(keys)
	nUndecided := 0
	for _, k := range keys {
		st := stats[k]
		site, text, _ := splitKey(k)
		if undecidedTexts[text] {
			nUndecided++
			continue
		}
		kindName := "plain"
		if st.kind == kSubmit {
			kindName = "submission"
		} else if siteVariant(site) >= 2 {
			kindName = "nil-tracer"
		}
		det := witness{"site": siteName(site), "text": text, "logged_must": st.must, "logged_may": st.may, "logged_below_level": st.never,
			"adapter_total": st.got, "adapter_when_shutdown_returned": st.gotAtRet}
		gi, ri := st.lastRec[0], st.lastRec[1]
		det["last_logging"] = gs[gi].recs[ri]
		det["phase_levels"] = fmt.Sprint(w.phases[gs[gi].recs[ri].Phase].Cfg)
		if st.got > st.must+st.may {
			dirtyOwner[st.owner] = true
			if st.never > 0 {
				viol("below-level:"+kindName, fmt.Sprintf("%q from %s was emitted %d times, but only %d loggings were at or above the level in force (%d below it)", text, siteName(site), st.got, st.must+st.may, st.never), det)
			} else {
				viol("duplicated:"+kindName, fmt.Sprintf("%q from %s was logged %d times but the adapter received it %d times", text, siteName(site), st.must+st.may, st.got), det)
			}
		}
		if st.gotAtRet < st.must {
			dirtyOwner[st.owner] = true
			det["case_unique_lines_lost"] = lostUnique
			det["case_unique_lines_delivered"] = deliveredUnique
			det["case_losses_are_a_tail_per_goroutine"] = lostTail
			det["case_first_lost_line_call_seq"] = firstLostCall
			det["case_last_adapter_write_seq"] = lastEntrySeq
			det["case_adapter_writes"] = len(entries)
			det["lines_not_yet_written_when_shutdown_was_called"] = w.pendingAtShut
			sig := "lost:mid-run:" + kindName
			what := "the lines logged after it by the same goroutine did arrive"
			switch {
			case sc.ShutCallers > 1 && st.gotAtLastRet >= st.must:
				sig = "lost:concurrent-shutdown-call-returned-early"
				what = fmt.Sprintf("%d goroutines called Shutdown concurrently; it was in the record when the last of the calls returned, but not when the first one returned", sc.ShutCallers)
			case st.got >= st.must:
				sig = "lost:written-after-shutdown-returned"
				what = "it was written after Shutdown had returned"
			case lostTail && st.must-st.gotAtRet <= tailCap[k]:
				// one defect whatever kind of line sits at the end of the buffer
				sig = "lost:at-shutdown"
				what = fmt.Sprintf("the case lost %d once-logged lines, and all losses can be the last lines each goroutine logged before Shutdown (%d once-logged lines arrived, none of them after a lost one): the writer stopped with lines still queued", lostUnique, deliveredUnique)
			case lostUnique == 0:
				// only texts that were logged repeatedly are short: the merge accounting
				sig = "lost:repeated-text:" + kindName
				what = "no line that was logged only once is missing in this case, only repetitions are"
			}
			viol(sig, fmt.Sprintf("%q from %s was logged %d times at an enabled level and returned before Shutdown was called, but the adapter had received it only %d times when Shutdown returned; %s",
				text, siteName(site), st.must, st.gotAtRet, what), det)
		}
	}

	// ---- idle points (free-running writer): every enabled line whose call returned
	// before a stable idle point is in the record before that point
	idleViol := 0
	for _, ip := range w.idlePoints {
		need := map[string]int{}
		example := map[string]lineRec{}
		for _, g := range gs {
			for i, r := range g.recs {
				if g.keys[i] != "" && g.enab[i] && r.Ret != 0 && r.Ret < ip.Seq && !undecidedTexts[r.Text] {
					need[g.keys[i]]++
					example[g.keys[i]] = r
				}
			}
		}
		have := map[string]int{}
		nEnt := 0
		for i, e := range entries {
			if e.Seq < ip.Seq {
				nEnt++
				if entSite[i] >= 0 {
					have[entKey[i]] += int(e.Dup) + 1
				}
			}
		}
		var missing []string
		for k, n := range need {
			// waiting = not there yet but written later (a line that never arrives is
			// the count check's finding, not a stuck one)
			if have[k] < n && stats[k].got > have[k] {
				missing = append(missing, k)
			}
		}
		if len(missing) > 0 {
			sort.Slice(missing, func(a, b int) bool { return example[missing[a]].Call < example[missing[b]].Call })
			k := missing[0]
			site, text, _ := splitKey(k)
			var later []adEntry
			for i, e := range entries {
				if e.Seq > ip.Seq && entSite[i] >= 0 && entKey[i] == k && len(later) < 2 {
					later = append(later, e)
				}
			}
			idleViol++
			viol("stuck:line-waits-for-later-event", fmt.Sprintf("free-running writer: %q from %s was logged at an enabled level and its call had returned, then everything went idle (no goroutine in a log call, adapter not in Write, writer goroutine parked in its wake-up select) with the line not handed to the adapter (%d lines in that state at idle point %q); it only moves when something else is logged or Shutdown is called",
				text, siteName(site), len(missing), ip.Tag),
				witness{"idle_point": ip, "logging": example[k], "lines_waiting": len(missing), "adapter_writes_before_idle_point": nEnt, "written_later_as": later})
		}
	}

	// ---- O3 order per goroutine
	// expanded arrival sequence (one element per logged line)
	var seq []string
	var seqEnt []int
	for i, e := range entries {
		if entSite[i] < 0 {
			continue
		}
		k := entKey[i]
		for d := 0; d <= int(e.Dup); d++ {
			seq = append(seq, k)
			seqEnt = append(seqEnt, i)
		}
	}
	pos := map[string][]int{}
	proj := map[int][]int{} // owner -> indexes into seq
	for i, k := range seq {
		pos[k] = append(pos[k], i)
		o := stats[k].owner
		if o >= -1 {
			proj[o] = append(proj[o], i)
		}
	}
	orderChecked := 0
	for _, g := range gs {
		if dirtyOwner[g.id] {
			continue // the count violation is the report; the order check would only echo it
		}
		// (a) the goroutine's own texts: arrival sequence == logging sequence (may-lines can be absent)
		a := proj[g.id]
		j := 0
		bad := -1
		for i := range g.recs {
			k := g.keys[i]
			if k == "" || g.cls[i] == clNever || stats[k].owner < -1 || undecidedTexts[g.recs[i].Text] {
				// (a below-level logging that arrived anyway is the count check's finding)
				continue
			}
			if j < len(a) && seq[a[j]] == k {
				j++
				continue
			}
			if g.cls[i] == clMust {
				bad = i
				break
			}
		}
		if bad >= 0 || j < len(a) {
			det := witness{"goroutine": g.id}
			what := ""
			if bad >= 0 {
				det["logged"] = g.recs[bad]
				det["logged_index"] = bad
				if j < len(a) {
					det["arrived_instead"] = entries[seqEnt[a[j]]]
					det["arrived_entry_index"] = seqEnt[a[j]]
				}
				lo := bad - 3
				if lo < 0 {
					lo = 0
				}
				hi := bad + 4
				if hi > len(g.recs) {
					hi = len(g.recs)
				}
				det["logged_context"] = g.recs[lo:hi]
				what = fmt.Sprintf("goroutine %d logged %q as its line #%d, but the adapter received its lines in another order", g.id, g.recs[bad].Text, bad)
			} else {
				det["arrived_extra"] = entries[seqEnt[a[j]]]
				what = fmt.Sprintf("goroutine %d: line %q arrived out of order (after lines logged later)", g.id, entries[seqEnt[a[j]]].Text)
			}
			var ctx []adEntry
			if j < len(a) {
				c := seqEnt[a[j]]
				for x := c - 3; x <= c+3; x++ {
					if x >= 0 && x < len(entries) {
						ctx = append(ctx, entries[x])
					}
				}
			}
			det["arrival_context"] = ctx
			kind := "plain"
			if bad >= 0 && g.recs[bad].Kind == kSubmit {
				kind = "submission"
			}
			viol("reordered:"+kind, what, det)
			continue
		}
		// (b) including texts shared with other goroutines: the must-lines are a
		// subsequence of the arrival sequence
		p := 0
		for i := range g.recs {
			if dirtyOwner[-2] {
				break // a shared text has a count violation: positions of its arrivals say nothing
			}
			if g.cls[i] != clMust || undecidedTexts[g.recs[i].Text] {
				continue
			}
			k := g.keys[i]
			pl := pos[k]
			x := sort.SearchInts(pl, p)
			if x == len(pl) {
				if !dirtyOwner[stats[k].owner] {
					viol("reordered:shared", fmt.Sprintf("goroutine %d: line %q (#%d) has no arrival after the lines the goroutine logged before it", g.id, g.recs[i].Text, i),
						witness{"goroutine": g.id, "logged": g.recs[i], "logged_index": i})
				}
				break
			}
			p = pl[x] + 1
		}
		orderChecked++
	}

	// ---- O4 tracer submissions
	// the n-th submission of a key by its goroutine is the n-th entry of that key
	entByKey := map[string][]int{}
	for i, e := range entries {
		if entSite[i] >= 0 && len(e.Fmt) > 0 {
			entByKey[entKey[i]] = append(entByKey[entKey[i]], i)
		}
	}
	subSeen := map[string]int{}
	subUsed := map[int]bool{}
	carried := func(e adEntry) []string {
		// "<colour><duration> <file>:<line> > <SEVE><colour end>     <message>"
		var out []string
		for _, ln := range e.Fmt[1:] {
			if j := strings.Index(ln, "\x1b[0m     "); j >= 0 {
				out = append(out, ln[j+9:])
			} else if f := strings.Fields(ln); len(f) > 0 {
				out = append(out, f[len(f)-1])
			} else {
				out = append(out, "")
			}
		}
		return out
	}
	var subChecked, subLines, subHelpers int
	for _, g := range gs {
		for i, r := range g.recs {
			if r.Kind != kSubmit || len(r.Trace) == 0 {
				continue
			}
			nth := subSeen[g.keys[i]]
			subSeen[g.keys[i]]++
			if dirtyOwner[g.id] && stats[g.keys[i]].must+stats[g.keys[i]].may > 1 {
				continue // which arrival is which is not known when some are missing
			}
			want := r.Trace[:len(r.Trace)-1]
			var e adEntry
			if stats[g.keys[i]].owner == -2 {
				// main line without identity (empty / blank text): several goroutines
				// submit under the same key; the submission is recognised by the
				// (unique) lines it collected
				if dirtyOwner[-2] {
					continue
				}
				var wl []string
				for _, t := range want {
					wl = append(wl, t.Text)
				}
				found := -1
				for _, ei := range entByKey[g.keys[i]] {
					if !subUsed[ei] && strings.Join(carried(entries[ei]), "\n") == strings.Join(wl, "\n") {
						found = ei
						break
					}
				}
				if found < 0 {
					if r.Ret != 0 && r.Ret < w.shutCall {
						viol("tracer-lines:missing", fmt.Sprintf("a submission with main text %q from %s arrived the right number of times, but none of the arrivals carries the lines %q this tracer collected", r.Text, siteName(r.Site), wl),
							witness{"submission": r, "goroutine": g.id})
					}
					continue
				}
				subUsed[found] = true
				e = entries[found]
			} else {
				if nth >= len(entByKey[g.keys[i]]) {
					continue // not delivered: decided by the count check
				}
				e = entries[entByKey[g.keys[i]][nth]]
			}
			subChecked++
			gotLines := carried(e)
			subLines += len(r.Trace)
			det := witness{"submission": r, "entry": e, "goroutine": g.id}
			// the main line
			if !strings.Contains(e.Fmt[0], " "+r.Text) {
				viol("tracer-lines:main", fmt.Sprintf("submission %q: first output line does not carry the main line", r.Text), det)
			}
			// per collecting goroutine the same order, nothing missing, nothing extra
			wantBySrc := map[int][]string{}
			srcOf := map[string]int{}
			for _, t := range want {
				wantBySrc[t.Src] = append(wantBySrc[t.Src], t.Text)
				srcOf[t.Text] = t.Src
			}
			if len(wantBySrc) > 1 {
				subHelpers++
			}
			gotBySrc := map[int][]string{}
			extra := ""
			for _, t := range gotLines {
				s, ok := srcOf[t]
				if !ok {
					extra = t
					continue
				}
				gotBySrc[s] = append(gotBySrc[s], t)
			}
			switch {
			case extra != "":
				viol("tracer-lines:extra", fmt.Sprintf("submission %q carries a line %q that was not collected by this tracer", r.Text, extra), det)
			case len(gotLines) < len(want):
				viol("tracer-lines:missing", fmt.Sprintf("submission %q carries %d of the %d collected lines", r.Text, len(gotLines)+1, len(want)+1), det)
			default:
				for s, wl := range wantBySrc {
					if strings.Join(wl, "\n") != strings.Join(gotBySrc[s], "\n") {
						sub := "order"
						if len(wl) != len(gotBySrc[s]) {
							sub = "missing"
						}
						viol("tracer-lines:"+sub, fmt.Sprintf("submission %q: lines collected by goroutine #%d of the tracer arrive as %v, logged as %v", r.Text, s, gotBySrc[s], wl), det)
						break
					}
				}
			}
			// severity tag of each carried line
			for x, t := range want {
				if len(wantBySrc) == 1 && len(gotLines) == len(want) && x+1 < len(e.Fmt) && !strings.Contains(e.Fmt[x+1], sevTag(siteLvl(t.Site))) {
					viol("tracer-lines:severity", fmt.Sprintf("submission %q: line %q is not shown with severity %s", r.Text, t.Text, sevTag(siteLvl(t.Site))), det)
					break
				}
			}
			// a tracer only exists when trace level is in force for its origin, so none of
			// its lines can be below the level in force
			if w.phases[r.Phase].Flip == nil {
				for _, t := range r.Trace {
					if !w.phases[r.Phase].Cfg.enabled(sitePkg(t.Site), siteLvl(t.Site)) {
						viol("below-level:tracer", fmt.Sprintf("tracer submission %q carries line %q of severity %s from %s although the level in force there is higher (%s)",
							r.Text, t.Text, levelNames[siteLvl(t.Site)], pkgDirs[sitePkg(t.Site)], w.phases[r.Phase].Cfg), det)
						break
					}
				}
			}
		}
	}

	// ---- a plain line and a submission with the same site and text arriving next to each other
	twinAdj := 0
	for i := 1; i < len(entries); i++ {
		if entSite[i] >= 0 && entSite[i] == entSite[i-1] && entries[i].Text == entries[i-1].Text && entKey[i] != entKey[i-1] {
			twinAdj++
		}
	}

	// ---- AddTracer observations (coverage; nil when trace is in force is not against the statement)
	var trNil, trNonNil, trUnexpectedNil int
	for _, o := range w.tracerObs {
		if o.Nil {
			trNil++
			if w.phases[o.Phase].Flip == nil && w.phases[o.Phase].Cfg.enabled(o.Pkg, 1) {
				trUnexpectedNil++
			}
		} else {
			trNonNil++
		}
	}

	// ---- coverage
	a := w.ad
	// Externally scheduled writer that was not triggered before more lines than the
	// buffer (+ the two the writer can hold) had been queued by calls that returned
	// before Shutdown was called: the writer can only have been moved by a producer
	// that found the buffer full (forceEmptyingOfBuffer).
	forcedTrig := sc.Sched && (w.firstTrigAtEnq.Load() < 0 || w.firstTrigAtEnq.Load() >= bufCap+3) && nMust >= bufCap+3
	forced := forcedTrig || a.forcedCertain > 0
	b.Eval(1)
	b.Count("cases_"+sc.Build, 1)
	b.Count("log_calls", int64(nCalls))
	b.Count("lines_must", int64(nMust))
	b.Count("lines_may", int64(nMay))
	b.Count("lines_below_level", int64(nNever))
	b.Count("adapter_entries", int64(len(entries)))
	b.Count("adapter_lines", int64(adLines))
	b.Count("merged_entries", int64(merged))
	b.Count("merged_entries_across_goroutines", int64(crossMerged))
	b.Max("max_duplicates", int64(maxDup))
	b.Count("submissions", int64(nSubmit))
	b.Count("submissions_empty", int64(nSubmitEmpty))
	b.Count("submissions_checked", int64(subChecked))
	b.Count("submission_lines_checked", int64(subLines))
	b.Count("submissions_multi_goroutine", int64(subHelpers))
	b.Count("addtracer_nil", int64(trNil))
	b.Count("addtracer_nonnil", int64(trNonNil))
	b.Count("addtracer_nil_though_trace_in_force", int64(trUnexpectedNil))
	b.Count("goroutine_orders_checked", int64(orderChecked))
	b.Count("calls_in_flight_at_end", int64(nInflight))
	b.Count("undecided_keys", int64(nUndecided))
	b.Count("entries_after_shutdown_returned", int64(afterRet))
	b.Count("level_flip_actions", w.flipActions.Load())
	b.Count("twin_blocks", w.twinBlocks.Load())
	if w.earlyShutdown {
		b.Count("cases_shutdown_right_after_start", 1)
	}
	b.Count("tracer_blocks_with_31_to_500_lines", w.longTraces.Load())
	b.Count("odd_text_lines", w.oddLines.Load())
	b.Count("odd_text_submissions", w.oddSubmissions.Load())
	b.Count("submissions_after_plain_lines_of_same_goroutine", w.submitsAfterPlain.Load())
	b.Count("global_level_changes_with_pkg_levels_untouched", int64(w.globalOnlyChanges))
	b.Count("idle_points_judged", int64(len(w.idlePoints)))
	b.Count("idle_points_not_reached", int64(w.idleSkipped))
	b.Count("idle_rounds_line_logged_during_final_write", int64(w.idleRounds))
	if sc.ShutCallers > 1 {
		b.Count("cases_concurrent_shutdown_calls", 1)
		if w.pendingAtShut > 0 {
			b.Count("cases_concurrent_shutdown_calls_with_lines_pending", 1)
		}
	}
	b.Count("twin_plain_and_submission_arrived_adjacent", int64(twinAdj))
	b.Count("writer_triggers", w.trigCount.Load())
	b.Count("adapter_holds", int64(a.holds))
	b.Count("adapter_hold_timeouts", int64(a.holdTimeouts))
	b.Max("max_producers", int64(sc.Producers))
	b.Max("max_parked_producers_seen", int64(a.maxInflight))
	b.Max("max_lines_pending_at_shutdown", w.pendingAtShut)
	b.Max("max_lines_one_case", int64(nCalls))
	if forced {
		b.Count("cases_buffer_full_forced", 1)
	}
	if forcedTrig {
		b.Count("cases_buffer_full_forced_by_withheld_trigger", 1)
	}
	if a.forcedCertain > 0 {
		b.Count("cases_buffer_full_forced_by_held_adapter", 1)
	}
	if a.forcedStalled > 0 {
		b.Count("cases_buffer_full_stalled_at_capacity", 1)
	}
	if a.maxOverCap > bufCap+1 {
		b.Note("case %d: %d returned enqueuing calls beyond what the adapter saw while the writer was held (buffer holds %d)", sc.Case, a.maxOverCap, bufCap)
	}
	if sc.Sched {
		b.Count("cases_scheduled_writer", 1)
	} else {
		b.Count("cases_free_running_writer", 1)
	}
	b.Count("cases_shutdown_"+sc.Shutdown, 1)
	if w.pendingAtShut > 0 {
		b.Count("cases_shutdown_with_lines_pending", 1)
	}
	if len(sc.Phases) > 1 {
		b.Count("cases_with_level_changes", 1)
	}
	for _, p := range sc.Phases {
		if p.Flip != nil {
			b.Count("phases_with_racing_level_changes", 1)
		}
		if p.Cfg.Active {
			b.Count("phases_with_pkg_levels", 1)
		}
	}
	b.Seen("families", sc.Family+"/"+sc.Build)
	b.Seen("producer_counts", strconv.Itoa(sc.Producers))
	if w.stuckAfterShut {
		// the buffer was not empty when the writer stopped, so the few lines logged
		// around Shutdown found no room: the losses above are the finding. Without a
		// loss it is unexplained.
		b.Count("cases_log_calls_blocked_after_shutdown", 1)
		if b.NViolations() == 0 {
			b.Inconclusive("case %d (%s): log calls still blocked 15 s after Shutdown returned, but no line is missing", sc.Case, sc.Family)
		}
	}
	for _, n := range w.notes {
		b.Note("case %d: %s", sc.Case, n)
	}
	if nCalls >= 10 && adLines >= 1 {
		b.DistinctS(sc.signature())
	}
	b.Sample(map[string]any{"case": sc.Case, "family": sc.Family, "build": sc.Build, "producers": sc.Producers, "scheduled_writer": sc.Sched,
		"phases": len(sc.Phases), "log_calls": nCalls, "must": nMust, "may": nMay, "below_level": nNever,
		"adapter_entries": len(entries), "adapter_lines": adLines, "merged_entries": merged, "max_duplicates": maxDup,
		"submissions_checked": subChecked, "shutdown": sc.Shutdown, "lines_pending_at_shutdown": w.pendingAtShut, "buffer_full_forced": forced,
		"first_entries": firstN(entries, 3)})
}

func firstN(e []adEntry, n int) []adEntry {
	if len(e) > n {
		return e[:n]
	}
	return e
}

func btoi(b bool) int {
	if b {
		return 1
	}
	return 0
}

func sevTag(l int) string {
	return []string{"", "TRAC", "DEBU", "INFO", "WARN", "ERRO", "CRIT"}[l]
}
