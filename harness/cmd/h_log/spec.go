package main

import (
	"fmt"
	"sort"
	"strings"

	"verifharness/internal/vlib"
)

// Directory names of the call sites (what portbase takes as "package" of a line).
var pkgDirs = []string{"pkga", "pkgb", "pkgc", "h_log"}

const (
	nPkgs     = 4
	nVariants = 4
	nLevels   = 6
	nSites    = nPkgs * nVariants * nLevels
	bufCap    = 1024 // log/logging.go: logBuffer = make(chan *logLine, 1024)
)

var levelNames = []string{"", "trace", "debug", "info", "warning", "error", "critical"}

// levelCfg is one level configuration of the logger.
type levelCfg struct {
	Global int            `json:"global"`        // 1..6
	Active bool           `json:"active"`        // per-package levels active
	Pkg    map[string]int `json:"pkg,omitempty"` // directory -> level
	// KeepPkg: Active/Pkg are those of the previous phase and are not set again at the
	// barrier; only SetLogLevel(Global) is called
	KeepPkg bool `json:"keep_pkg,omitempty"`
}

func (c levelCfg) enabled(pkg int, lvl int) bool {
	if c.Active {
		if l, ok := c.Pkg[pkgDirs[pkg]]; ok {
			return lvl >= l
		}
	}
	return lvl >= c.Global
}

func (c levelCfg) String() string {
	if !c.Active {
		return fmt.Sprintf("g%d", c.Global)
	}
	var ks []string
	for k, v := range c.Pkg {
		ks = append(ks, fmt.Sprintf("%s=%d", k, v))
	}
	sort.Strings(ks)
	return fmt.Sprintf("g%d{%s}", c.Global, strings.Join(ks, ","))
}

// flipSpec: level changes that run concurrently with the producers of a phase. The
// oracle evaluates such a phase over the product of all values each of the three
// level variables (active flag, map, global level) can have during the phase.
type flipSpec struct {
	Globals []int            `json:"globals,omitempty"`
	Maps    []map[string]int `json:"maps,omitempty"`
	Unset   bool             `json:"unset,omitempty"`
}

// phaseSpec: between two producer barriers.
type phaseSpec struct {
	Cfg  levelCfg  `json:"cfg"`
	Ops  []int     `json:"ops"` // per producer: number of operations
	Flip *flipSpec `json:"flip,omitempty"`
}

// trigSpec: how the harness paces an externally scheduled writer.
type trigSpec struct {
	WithholdUntil int  `json:"withhold_until"` // no trigger before this many enqueuing calls returned (-1: never trigger)
	EveryUs       int  `json:"every_us"`
	AfterAll      bool `json:"after_all,omitempty"` // with WithholdUntil -1: trigger once all producers have finished, before Shutdown       // then: one TriggerWriter() per this many microseconds (0: back-to-back with Gosched)
}

// holdSpec: the adapter blocks inside Write at these Write-call indexes until every
// producer is parked (in a log call, at a barrier, or finished).
type holdSpec struct {
	First int `json:"first"` // index of first held Write (-1: none)
	Every int `json:"every"` // afterwards hold again every so many Writes (0: never)
	Max   int `json:"max"`   // at most this many holds
}

// scenario is one logger life (= one child process).
type scenario struct {
	Case      int         `json:"case"`
	Family    string      `json:"family"`
	Seed      uint64      `json:"seed"` // producers' program streams derive from it
	Build     string      `json:"build"`
	Producers int         `json:"producers"`
	InitLog   string      `json:"init_log,omitempty"`  // value of the -log flag
	InitPlog  string      `json:"init_plog,omitempty"` // value of the -plog flag
	Sched     bool        `json:"sched"`               // log.EnableScheduling()
	Trig      trigSpec    `json:"trig"`
	Hold      holdSpec    `json:"hold"`
	DelayUs   int         `json:"delay_us"`   // adapter delay ...
	DelayEach int         `json:"delay_each"` // ... on every n-th Write (0: none)
	Phases    []phaseSpec `json:"phases"`
	// Shutdown: "end" = after all producers finished; "mid" = when ShutAfter log
	// calls have returned, producers are stopped ShutExtra calls later.
	Shutdown  string `json:"shutdown"`
	ShutAfter int    `json:"shut_after"`
	ShutExtra int    `json:"shut_extra"`
	// amplifier for the shutdown drain: GOMAXPROCS and busy goroutines during Shutdown
	Procs       int  `json:"procs,omitempty"`
	Spinners    int  `json:"spinners,omitempty"`
	GCStress    bool `json:"gc_stress,omitempty"`
	ShutCallers int  `json:"shut_callers,omitempty"` // goroutines calling log.Shutdown concurrently (0 = 1)
	IdleRounds  int  `json:"idle_rounds,omitempty"`  // family idle: held-final-Write rounds after each phase
	EarlyLines  int  `json:"early_lines,omitempty"`  // family early: lines between Start and the immediate Shutdown
	// workload mix switches
	Tracers bool `json:"tracers"`
	Dense   bool `json:"dense"` // many runs / shared / colliding texts (merging)
}

func (s *scenario) totalOps() int {
	n := 0
	for _, p := range s.Phases {
		for _, o := range p.Ops {
			n += o
		}
	}
	return n
}

func randPkgMap(r *vlib.Rand) map[string]int {
	m := map[string]int{}
	for _, d := range pkgDirs {
		if r.Chance(1, 2) {
			m[d] = r.Range(1, 6)
		}
	}
	if r.Chance(1, 6) {
		m["nosuchpkg"] = r.Range(1, 6)
	}
	return m
}

func randCfg(r *vlib.Rand, lowBias bool) levelCfg {
	c := levelCfg{Global: r.Range(1, 6)}
	if lowBias {
		c.Global = r.Range(1, 3)
	}
	if r.Chance(1, 2) {
		c.Active = true
		c.Pkg = randPkgMap(r)
		if lowBias {
			for k, v := range c.Pkg {
				if v > 3 {
					c.Pkg[k] = r.Range(1, 3)
				}
			}
		}
	}
	return c
}

func splitOps(r *vlib.Rand, total, producers int) []int {
	ops := make([]int, producers)
	if producers == 1 {
		ops[0] = total
		return ops
	}
	// uneven split: weights 1..8
	w := make([]int, producers)
	sum := 0
	for i := range w {
		w[i] = r.Range(1, 8)
		sum += w[i]
	}
	for i := range ops {
		ops[i] = total * w[i] / sum
		if ops[i] < 1 {
			ops[i] = 1
		}
		if ops[i] > 5000 {
			ops[i] = 5000
		}
	}
	return ops
}

// genScenario derives case number n of the run.
func genScenario(cfg vlib.Cfg, n int, build string, family string) scenario {
	r := vlib.NewRand(cfg.Seed, "C20/case/"+build, uint64(n))
	s := scenario{Case: n, Seed: r.Uint64(), Build: build, Hold: holdSpec{First: -1}, Trig: trigSpec{WithholdUntil: 0}}
	race := build == "race"
	families := []string{"free", "free-hold", "sched", "sched-withheld", "small", "squeeze", "free-hold", "sched-withheld"}
	s.Family = families[n%len(families)]
	if family != "" {
		s.Family = family
	}
	big := cfg.Thorough() && !race && r.Chance(1, 4)

	// size
	maxTotal := 12000
	if race {
		maxTotal = 6000
	}
	if big {
		maxTotal = 120000
	}
	s.Producers = vlib.Pick(r, 1, 2, 3, 4, 6, 8, 12, 16, 24, 32)
	total := r.Range(2500, maxTotal)
	nph := r.Range(1, 4)
	lowFirst := false

	switch s.Family {
	case "free":
		if r.Chance(1, 3) {
			s.DelayUs, s.DelayEach = vlib.Pick(r, 5, 50, 500, 2000), vlib.Pick(r, 1, 16, 128, 1024)
		}
	case "free-hold":
		lowFirst = true
		s.Hold = holdSpec{First: r.Intn(4), Every: vlib.Pick(r, 0, 0, 700, 3000), Max: 3}
		if s.Producers < 2 {
			s.Producers = 2
		}
	case "sched":
		s.Sched = true
		s.Trig = trigSpec{WithholdUntil: 0, EveryUs: vlib.Pick(r, 0, 20, 200, 2000, 20000)}
	case "sched-withheld":
		s.Sched = true
		lowFirst = true
		s.Trig = trigSpec{WithholdUntil: vlib.Pick(r, -1, 1100, 1500, 2500), EveryUs: vlib.Pick(r, 0, 100, 5000)}
	case "small":
		s.Producers = vlib.Pick(r, 1, 1, 2, 3, 5)
		total = r.Range(1, 300)
		s.Sched = r.Bool()
		s.Trig = trigSpec{WithholdUntil: vlib.Pick(r, -1, 0), EveryUs: vlib.Pick(r, 0, 100)}
		nph = r.Range(1, 3)
	case "early":
		// Start, a few lines, Shutdown at once (one goroutine; writer free or scheduled)
		s.Producers = 1
		nph = 1
		total = 1
		s.Sched = r.Chance(1, 3)
		s.Trig = trigSpec{WithholdUntil: -1}
		s.EarlyLines = vlib.Pick(r, 1, 2, 3, 5, 8, 20, 60)
		s.Procs = vlib.Pick(r, 0, 1, 1, 2)
	case "idle":
		// free-running writer, small phases, idle rounds at every barrier
		s.Producers = vlib.Pick(r, 1, 2, 4, 8)
		nph = r.Range(1, 3)
		total = r.Range(50, 1500)
		s.IdleRounds = r.Range(1, 3)
	case "twin":
		// one goroutine (or few), everything queued before the writer is triggered:
		// what was logged back to back is back to back in the writer's batch
		s.Producers = vlib.Pick(r, 1, 1, 1, 2, 3)
		s.Sched = true
		s.Trig = trigSpec{WithholdUntil: -1, AfterAll: true}
		nph = r.Range(1, 2)
		total = r.Range(60, 700)
	case "squeeze":
		// buffer as full as possible when Shutdown is called, writer squeezed for CPU
		s.Sched = true
		lowFirst = true
		s.Trig = trigSpec{WithholdUntil: -1}
		s.Procs = vlib.Pick(r, 1, 1, 2)
		s.Spinners = vlib.Pick(r, 1, 2, 3)
		s.GCStress = r.Bool()
		nph = 1
		total = r.Range(1500, 4000)
	}
	if lowFirst && total < 3500 {
		total = r.Range(3500, maxTotal)
	}
	if s.Family == "squeeze" {
		total = r.Range(2000, 4000)
	}

	for s.DelayEach > 0 && total/s.DelayEach*s.DelayUs > 3000000 { // at most ~3 s of adapter delay per case
		s.DelayEach *= 4
	}
	s.Tracers = r.Chance(2, 3)
	s.Dense = r.Chance(1, 2)
	if s.Family == "twin" {
		s.Tracers = true
	}

	// initial configuration through the flags
	if r.Chance(1, 4) {
		s.InitLog = levelNames[r.Range(1, 6)]
	}
	if r.Chance(1, 5) {
		var ps []string
		for k, v := range randPkgMap(r) {
			ps = append(ps, k+"="+levelNames[v])
		}
		sort.Strings(ps)
		s.InitPlog = strings.Join(ps, ",")
	}

	// phases
	left := total
	for p := 0; p < nph; p++ {
		share := left
		if p < nph-1 {
			share = left * r.Range(20, 70) / 100
		}
		if p == 0 && lowFirst {
			// the first phase must enqueue clearly more than the buffer holds
			if share < 3000 {
				share = 3000
			}
		}
		if share < 1 {
			share = 1
		}
		left -= share
		if left < 0 {
			left = 0
		}
		ph := phaseSpec{Cfg: randCfg(r, p == 0 && lowFirst), Ops: splitOps(r, share, s.Producers)}
		if p > 0 && s.Family != "twin" && r.Chance(3, 5) {
			// package levels stay active and untouched, only the global level changes:
			// directories without a level of their own follow the new global level
			if prev := s.Phases[p-1]; prev.Flip == nil && prev.Cfg.Active {
				g := prev.Cfg.Global
				for g == prev.Cfg.Global {
					g = r.Range(1, 6)
				}
				ph.Cfg = levelCfg{Global: g, Active: true, Pkg: prev.Cfg.Pkg, KeepPkg: true}
			}
		}
		if s.Family == "twin" && r.Chance(3, 4) {
			ph.Cfg.Global = 1 // tracers exist only where trace level is in force
		}
		if s.Family != "twin" && !(p == 0 && lowFirst) && r.Chance(1, 4) {
			f := &flipSpec{}
			switch r.Intn(3) {
			case 0:
				f.Globals = []int{r.Range(1, 6), r.Range(1, 6)}
			case 1:
				f.Maps = []map[string]int{randPkgMap(r), randPkgMap(r)}
				f.Unset = r.Bool()
			case 2:
				f.Globals = []int{r.Range(1, 6)}
				f.Maps = []map[string]int{randPkgMap(r)}
				f.Unset = true
			}
			ph.Flip = f
		}
		s.Phases = append(s.Phases, ph)
	}

	// shutdown
	tot := s.totalOps()
	s.Shutdown = "end"
	switch s.Family {
	case "squeeze", "twin", "idle", "early":
		s.Shutdown = "end"
	case "small":
		if r.Chance(1, 2) {
			s.Shutdown = "mid"
			s.ShutAfter = r.Intn(tot + 1)
			s.ShutExtra = r.Intn(50)
		}
	default:
		if r.Chance(1, 2) {
			s.Shutdown = "mid"
			s.ShutAfter = r.Range(0, tot)
			if lowFirst && r.Chance(2, 3) {
				// after the buffer-full episode
				s.ShutAfter = r.Range(tot/2, tot)
			}
			s.ShutExtra = r.Intn(300)
		}
	}
	if r.Chance(2, 5) && s.Family != "early" {
		s.ShutCallers = r.Range(2, 3)
	}
	return s
}

// signature of a scenario for the distinct-case count.
func (s *scenario) signature() string {
	var ph []string
	for _, p := range s.Phases {
		f := ""
		if p.Flip != nil {
			f = "~"
		}
		ph = append(ph, p.Cfg.String()+f)
	}
	return fmt.Sprintf("%s|%s|p%d|n%d|%v|h%d|%s@%d|%s|%s|%s", s.Family, s.Build, s.Producers, s.totalOps(), s.Sched, s.Hold.First, s.Shutdown, s.ShutAfter, s.InitLog, s.InitPlog, strings.Join(ph, ";"))
}
