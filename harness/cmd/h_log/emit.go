// This file holds log call sites of the C20 engine. portbase derives the
// per-package log level from the directory name of the calling file, so the same
// call sites exist in several directories (pkga, pkgb, pkgc and the engine's main
// directory h_log). Generated from pkga/emit.go — keep the copies identical.
package main

import (
	"context"

	"github.com/safing/portbase/log"
)

// Variants of a call site.
const (
	VPlain  = 0 // log.Info(msg)
	VPlainF = 1 // log.Infof("%s", msg)
	VTrc    = 2 // tracer.Info(msg)       (nil tracer: falls back to a plain line)
	VTrcF   = 3 // tracer.Infof("%s", msg)
)

// hereAddTracer calls log.AddTracer from this directory.
func hereAddTracer(ctx context.Context) (context.Context, *log.ContextTracer) {
	return log.AddTracer(ctx)
}

// hereEmit logs msg with the given severity (1..6) through the given call-site variant.
func hereEmit(variant, lvl int, msg string, tr *log.ContextTracer) {
	switch variant {
	case VPlain:
		switch lvl {
		case 1:
			log.Trace(msg)
		case 2:
			log.Debug(msg)
		case 3:
			log.Info(msg)
		case 4:
			log.Warning(msg)
		case 5:
			log.Error(msg)
		case 6:
			log.Critical(msg)
		}
	case VPlainF:
		switch lvl {
		case 1:
			log.Tracef("%s", msg)
		case 2:
			log.Debugf("%s", msg)
		case 3:
			log.Infof("%s", msg)
		case 4:
			log.Warningf("%s", msg)
		case 5:
			log.Errorf("%s", msg)
		case 6:
			log.Criticalf("%s", msg)
		}
	case VTrc:
		switch lvl {
		case 1:
			tr.Trace(msg)
		case 2:
			tr.Debug(msg)
		case 3:
			tr.Info(msg)
		case 4:
			tr.Warning(msg)
		case 5:
			tr.Error(msg)
		case 6:
			tr.Critical(msg)
		}
	case VTrcF:
		switch lvl {
		case 1:
			tr.Tracef("%s", msg)
		case 2:
			tr.Debugf("%s", msg)
		case 3:
			tr.Infof("%s", msg)
		case 4:
			tr.Warningf("%s", msg)
		case 5:
			tr.Errorf("%s", msg)
		case 6:
			tr.Criticalf("%s", msg)
		}
	}
}
