package main

import (
	"runtime"
	"strings"
	"sync"
	"sync/atomic"
	"time"

	"github.com/safing/portbase/utils/vhook"

	"verifharness/internal/vlib"
)

// hookRule is one entry of a case's hook plan (DESIGN 3.5): at a named point either
// sleep (delay amplification) or block until another goroutine reached a named event
// (pause-until: makes a two-goroutine interleaving deterministic).
type hookRule struct {
	Point   string `json:"point"`
	Subject string `json:"subject,omitempty"` // "" = any
	Role    string `json:"role,omitempty"`    // "" = any
	Mode    string `json:"mode"`              // delay | until
	DelayUs int    `json:"delay_us,omitempty"`
	Permil  int    `json:"permil,omitempty"`   // delay: probability per hit (0 = always)
	Until   string `json:"until,omitempty"`    // latch name
	AfterUs int    `json:"after_us,omitempty"` // until: extra delay after the latch fired
	MaxMs   int    `json:"max_ms,omitempty"`   // until: give up after (plan not realised)
	Once    bool   `json:"once,omitempty"`
	used    atomic.Int32
}

// latches are named one-shot events.
type latches struct {
	mu sync.Mutex
	m  map[string]chan struct{}
}

func newLatches() *latches { return &latches{m: map[string]chan struct{}{}} }

func (l *latches) ch(name string) chan struct{} {
	l.mu.Lock()
	defer l.mu.Unlock()
	c := l.m[name]
	if c == nil {
		c = make(chan struct{})
		l.m[name] = c
	}
	return c
}

func (l *latches) fire(name string) {
	c := l.ch(name)
	l.mu.Lock()
	select {
	case <-c:
	default:
		close(c)
	}
	l.mu.Unlock()
}

// wait blocks until the latch fired or max elapsed; it reports whether it fired.
func (l *latches) wait(name string, max time.Duration) bool {
	if l.fired(name) {
		return true
	}
	if max <= 0 {
		return false
	}
	select {
	case <-l.ch(name):
		return true
	case <-time.After(max):
		return false
	}
}

func (l *latches) fired(name string) bool {
	select {
	case <-l.ch(name):
		return true
	default:
		return false
	}
}

// callerRole classifies the goroutine that passes a hook point by the portbase
// functions on its stack (the hook API carries no goroutine identity).
func callerRole() string {
	var pcs [24]uintptr
	n := runtime.Callers(3, pcs[:])
	fr := runtime.CallersFrames(pcs[:n])
	for {
		f, more := fr.Next()
		fn := f.Function
		switch {
		case strings.Contains(fn, "modules.(*Module).concludeMicroTask"):
			return "mt"
		case strings.Contains(fn, "modules.(*Task).executeWithLocking"):
			return "task"
		case strings.Contains(fn, "modules.(*Module).RunWorker"):
			return "worker"
		case strings.Contains(fn, "modules.(*Module).runServiceWorker"):
			return "svc"
		case strings.Contains(fn, "modules.(*Module).startCtrlFn.func"):
			return "ctrlfn"
		case strings.Contains(fn, "modules.(*Module).stopAllTasks"):
			return "stopper"
		case strings.Contains(fn, "modules.microTaskScheduler"):
			return "sched"
		}
		if !more {
			return "other"
		}
	}
}

// hookSet installs handlers for the given points: every hit is recorded in the log
// (kind "hook"), fires the latches "<point>|<subject>" and "<point>|<subject>|<role>",
// and then applies the matching rules of the plan.
type hookSet struct {
	log        *vlib.Log
	lat        *latches
	rules      []*hookRule
	rmu        sync.Mutex
	rnd        *vlib.Rand
	unrealised sync.Map // rule description -> struct{}
	record     func(point, subject, role string) bool
}

func (hs *hookSet) install(points ...string) {
	for _, p := range points {
		vhook.Set(p, hs.handle)
	}
}

func (hs *hookSet) handle(point, subject string) {
	role := callerRole()
	if hs.record == nil || hs.record(point, subject, role) {
		hs.log.Rec("hook", subject, point, map[string]any{"role": role})
	}
	hs.lat.fire(point + "|" + subject)
	hs.lat.fire(point + "|" + subject + "|" + role)
	for _, r := range hs.rules {
		if r.Point != point || (r.Subject != "" && r.Subject != subject) || (r.Role != "" && r.Role != role) {
			continue
		}
		if r.Once && r.used.Add(1) > 1 {
			continue
		}
		switch r.Mode {
		case "delay":
			if r.Permil > 0 {
				hs.rmu.Lock()
				hit := hs.rnd.Intn(1000) < r.Permil
				hs.rmu.Unlock()
				if !hit {
					continue
				}
			}
			if r.DelayUs == 0 {
				runtime.Gosched()
			} else {
				time.Sleep(time.Duration(r.DelayUs) * time.Microsecond)
			}
		case "until":
			max := time.Duration(r.MaxMs) * time.Millisecond
			if max == 0 {
				max = 1500 * time.Millisecond
			}
			if !hs.lat.wait(r.Until, max) {
				hs.unrealised.Store(point+"|"+subject+"|"+role+" until "+r.Until, struct{}{})
			} else if r.AfterUs > 0 {
				time.Sleep(time.Duration(r.AfterUs) * time.Microsecond)
			}
			hs.log.Rec("hook", subject, point, map[string]any{"role": role, "resumed": true})
		}
	}
}

func (hs *hookSet) unrealisedList() []string {
	var out []string
	hs.unrealised.Range(func(k, _ any) bool { out = append(out, k.(string)); return true })
	return out
}
