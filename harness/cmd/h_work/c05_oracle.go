package main

import (
	"crypto/sha1"
	"encoding/hex"
	"fmt"
	"sort"
	"strings"

	"verifharness/internal/vlib"
)

const statusOffline = 2 // modules.StatusOffline

type c05Viol struct {
	Sig, What string
	Detail    map[string]any
}

type c05Verdict struct {
	Viol          []c05Viol
	Inconcl       []string
	Notes         []string
	RunningAtStop int            // max over the stops of the case: items begun before and ended after the stop began
	KindsRunning  map[string]int // class -> items seen still running at a stop
	Stops         int
	Signatures    []string // interleaving signature of each stop with >= 1 running item
	SigText       []string
	TimeoutsSeen  int
	P4Probes      int
	LateItems     int // items that began after their module's stop began (P1b demanded a cancelled context)
	Events        int
	PlanRealised  bool
	// invocations of restarting service workers' functions between the begin of their
	// module's stop and the module's next start (each was compared with the completions)
	LoopInvocationsWhileStopping int
}

type oItem struct {
	who, kind, mod string
	begin, end     uint64
	endT           int64
	ctxSeen        bool
	ctxDone        bool
	ctxSeq         uint64
	endStatus      int
	endPre         uint64 // last sequence number issued before endStatus was sampled
}

type oStop struct {
	mod                      string
	ctrlset, flagged, cancel uint64
	fnBegin, fnEnd, timeout  uint64
	fnEndT, timeoutT         int64
	live                     []string
	handed                   int
	modCtxDone, scanSeen     bool
}

func (s *oStop) ref() uint64 { // the moment the stop routine was invoked (nil routine: the point right before)
	if s.fnBegin != 0 {
		return s.fnBegin
	}
	return s.cancel
}

type oCall struct {
	op        string
	call, ret uint64
}

func fInt(f map[string]any, k string) int {
	switch v := f[k].(type) {
	case float64:
		return int(v)
	case int:
		return v
	}
	return -1
}

func fBool(f map[string]any, k string) bool  { b, _ := f[k].(bool); return b }
func fStr(f map[string]any, k string) string { s, _ := f[k].(string); return s }

// c05Oracle decides one recorded scenario. It only uses the order of sequence numbers;
// the single use of recorded time is the P3 structural witness (see below).
func c05Oracle(sp *c05Spec, out *c05Out) *c05Verdict {
	v := &c05Verdict{KindsRunning: map[string]int{}, Events: len(out.Events), PlanRealised: len(out.Unrealised) == 0}
	deps := map[string][]string{}
	itemMod := map[string]string{}
	for _, m := range sp.Mods {
		deps[m.Name] = m.Deps
		for _, it := range m.Items {
			itemMod[it.ID] = m.Name
		}
	}
	items := map[string]*oItem{}
	var order []*oItem
	stops := map[string][]*oStop{}
	starts := map[string][]uint64{}
	var calls []*oCall
	type notif struct {
		mod    string
		seq    uint64
		pre    uint64
		status int
	}
	var notifs []notif
	type p4mark struct {
		mod string
		seq uint64
	}
	var p4marks []p4mark
	loopFirst := map[string]uint64{}  // restarting service worker -> first invocation of its function
	startOK := map[string][]uint64{}  // module -> end events of start routines that returned nil
	afterShutdown := map[string]int{} // module -> Status() sampled right after Shutdown returned
	cur := func(m string) *oStop {
		l := stops[m]
		if len(l) == 0 {
			return nil
		}
		return l[len(l)-1]
	}
	for i := range out.Events {
		e := &out.Events[i]
		switch e.Kind {
		case "call":
			if e.Who == "driver" {
				calls = append(calls, &oCall{op: e.Op, call: e.Seq})
			}
		case "ret":
			if e.Who == "driver" {
				for j := len(calls) - 1; j >= 0; j-- {
					if calls[j].op == e.Op && calls[j].ret == 0 {
						calls[j].ret = e.Seq
						break
					}
				}
			}
		case "hook":
			m := e.Who
			if fBool(e.F, "resumed") {
				continue
			}
			switch e.Op {
			case "modules.stop.ctrlset":
				stops[m] = append(stops[m], &oStop{mod: m, ctrlset: e.Seq})
			case "modules.stop.flagged":
				if s := cur(m); s != nil {
					s.flagged = e.Seq
				}
			case "modules.stop.cancelled":
				if s := cur(m); s != nil {
					s.cancel = e.Seq
				}
			case "modules.stop.timeout":
				if s := cur(m); s != nil {
					s.timeout, s.timeoutT = e.Seq, e.T
				}
			}
		case "begin", "end", "scan":
			switch e.Op {
			case "start":
				if e.Kind == "begin" {
					starts[e.Who] = append(starts[e.Who], e.Seq)
				}
				if e.Kind == "end" && !fBool(e.F, "fail") {
					startOK[e.Who] = append(startOK[e.Who], e.Seq)
				}
			case "stop":
				s := cur(e.Who)
				if s == nil {
					v.Notes = append(v.Notes, "stop routine event without a preceding modules.stop.ctrlset hook event")
					continue
				}
				switch e.Kind {
				case "begin":
					s.fnBegin = e.Seq
				case "end":
					s.fnEnd, s.fnEndT = e.Seq, e.T
				case "scan":
					s.scanSeen = true
					s.handed = fInt(e.F, "handed")
					s.modCtxDone = fBool(e.F, "modctx_done")
					if l, ok := e.F["live"].([]any); ok {
						for _, x := range l {
							s.live = append(s.live, fmt.Sprint(x))
						}
					}
				}
			default:
				it := items[e.Who]
				if e.Kind == "begin" {
					if it != nil {
						v.Notes = append(v.Notes, "item "+e.Who+" began twice")
						continue
					}
					it = &oItem{who: e.Who, kind: e.Op, mod: fStr(e.F, "mod"), begin: e.Seq, endStatus: -1}
					items[e.Who] = it
					order = append(order, it)
				} else if e.Kind == "end" && it != nil {
					it.end, it.endT, it.endStatus, it.endPre = e.Seq, e.T, fInt(e.F, "status"), uint64(fInt(e.F, "pre"))
				}
			}
		case "loopfirst":
			loopFirst[e.Who] = e.Seq
		case "status-after-shutdown":
			afterShutdown[e.Who] = fInt(e.F, "status")
		case "ctx":
			if it := items[e.Who]; it != nil {
				it.ctxSeen, it.ctxDone, it.ctxSeq = true, fBool(e.F, "done"), e.Seq
			}
		case "notify":
			notifs = append(notifs, notif{e.Who, e.Seq, uint64(fInt(e.F, "pre")), fInt(e.F, "status")})
		case "p4":
			p4marks = append(p4marks, p4mark{e.Who, e.Seq})
		}
	}

	const inf = ^uint64(0)
	// restartBoundary: first moment after `after` at which module m may have been given a
	// fresh context (its start function began, or a later management pass was called)
	restartBoundary := func(m string, after uint64, passRet uint64) uint64 {
		b := inf
		for _, s := range starts[m] {
			if s > after && s < b {
				b = s
			}
		}
		for _, c := range calls {
			if c.op == "ManageModules" && c.call > after && (passRet == 0 || c.call > passRet) && c.call < b {
				b = c.call
			}
		}
		return b
	}
	passOf := func(s *oStop) *oCall {
		for _, c := range calls {
			if (c.op == "Shutdown" || c.op == "ManageModules") && c.call < s.ctrlset && (c.ret == 0 || c.ret > s.ctrlset) {
				return c
			}
		}
		return nil
	}
	isProbe := func(it *oItem) bool { return strings.HasPrefix(it.kind, "p4") }
	witness := func(s *oStop, it *oItem, extra map[string]any) map[string]any {
		d := map[string]any{"spec": sp, "module": s.mod, "stop": map[string]any{"ctrlset": s.ctrlset, "cancelled": s.cancel, "stopfn_begin": s.fnBegin,
			"stopfn_end": s.fnEnd, "timeout_hook": s.timeout}, "events": excerpt(out.Events, s.ctrlset, 60)}
		if it != nil {
			d["item"] = map[string]any{"id": it.who, "kind": it.kind, "begin": it.begin, "end": it.end, "end_status": it.endStatus}
		}
		for k, x := range extra {
			d[k] = x
		}
		return d
	}
	add := func(sig, what string, d map[string]any) { v.Viol = append(v.Viol, c05Viol{sig, what, d}) }

	for m, sl := range stops {
		for _, s := range sl {
			v.Stops++
			ref := s.ref()
			if ref == 0 {
				continue // stop did not get as far as cancelling (log cut)
			}
			pass := passOf(s)
			var passRet uint64
			if pass != nil {
				passRet = pass.ret
			}
			nextStart := restartBoundary(m, s.ctrlset, passRet)

			// ---- P1a: contexts handed out so far are cancelled when the stop routine runs
			if s.scanSeen {
				if len(s.live) > 0 {
					kind := "?"
					if it := items[s.live[0]]; it != nil {
						kind = kindClass(it.kind)
					}
					add("C05:P1:ctx-live-at-stop:"+kind, fmt.Sprintf("stop routine of %s was invoked while %d context(s) handed to its work were not cancelled (first: %s)", m, len(s.live), s.live[0]),
						witness(s, items[s.live[0]], map[string]any{"live": s.live}))
				}
				if !s.modCtxDone {
					add("C05:P1:module-ctx-live-at-stop", "stop routine of "+m+" was invoked while Module.Ctx was not cancelled", witness(s, nil, nil))
				}
			}

			// items of this module that had begun when the stop routine was invoked
			var before []*oItem
			running := 0
			for _, it := range order {
				if it.mod != m || isProbe(it) || it.begin > ref {
					continue
				}
				before = append(before, it)
				if it.end == 0 || it.end > ref {
					running++
					v.KindsRunning[kindClass(it.kind)]++
				}
			}
			if running > v.RunningAtStop {
				v.RunningAtStop = running
			}
			if running > 0 {
				sg, txt := interleaving(out.Events, s, passRet, itemMod)
				v.Signatures = append(v.Signatures, sg)
				v.SigText = append(v.SigText, txt)
			}

			// ---- P3: prompt completion
			if s.timeout != 0 {
				v.TimeoutsSeen++
				var lastT int64 = s.fnEndT
				open := ""
				if s.fnBegin != 0 && (s.fnEnd == 0 || s.fnEnd > s.timeout) {
					open = "stop routine"
				}
				for _, it := range order {
					if it.mod != m || isProbe(it) || it.begin > s.timeout {
						continue
					}
					if it.end == 0 || it.end > s.timeout {
						open = it.who
						break
					}
					if it.endT > lastT {
						lastT = it.endT
					}
				}
				switch {
				case open != "" && (sp.NeverReturn || (sp.SlowStop && strings.HasPrefix(open, "slow"))):
					// the timeout path itself: nothing demanded
				case open != "":
					v.Inconcl = append(v.Inconcl, fmt.Sprintf("case %d (%s): stop timeout of %s fired while %s had not returned (slow machine?)", sp.Case, sp.Class, m, open))
				default:
					gapMs := (s.timeoutT - lastT) / 1e6
					if gapMs >= int64(sp.StopTimeoutMs/2) {
						pre := ""
						for _, ms := range sp.Mods {
							if ms.Name != m {
								continue
							}
							if ms.StopPanic {
								pre = ":stop-routine-panicked"
							}
							for _, it := range ms.Items {
								switch {
								case pre != "":
								case it.PanicAtEnd:
									pre = ":work-item-panicked"
								case it.Kind == kSvc && it.Restarts >= 2 && it.BackoffMs >= sp.StopTimeoutMs:
									pre = ":service-worker-backing-off"
								}
							}
						}
						add("C05:P3:stop-waited-out-timeout"+pre, fmt.Sprintf("stop of %s waited out the stop timeout although its stop routine and all %d work items had returned %d ms earlier", m, len(before), gapMs),
							witness(s, nil, map[string]any{"idle_ms_before_timeout": gapMs, "counts_at_end": out.Counts}))
					} else {
						v.Inconcl = append(v.Inconcl, fmt.Sprintf("case %d (%s): stop timeout of %s fired only %d ms after the last return", sp.Case, sp.Class, m, gapMs))
					}
				}
				continue // P2 is not asserted for a stop that ran into the timeout
			}

			// ---- P2: offline / dependencies stopping / pass return only after the work returned
			type later struct {
				what string
				seq  uint64
			}
			var completions []later
			if passRet != 0 {
				completions = append(completions, later{"pass-returned", passRet})
			}
			for _, d := range deps[m] {
				for _, ds := range stops[d] {
					if pass != nil && ds.ctrlset > pass.call && (passRet == 0 || ds.ctrlset < passRet) {
						completions = append(completions, later{"dep-stopped", ds.ctrlset})
					}
				}
			}
			for _, n := range notifs {
				if n.mod == m && n.status == statusOffline && n.pre >= s.ctrlset && n.seq < nextStart {
					completions = append(completions, later{"reported-offline", n.seq})
				}
			}
			for _, c := range completions {
				if s.fnBegin != 0 && (s.fnEnd == 0 || c.seq < s.fnEnd) {
					add("C05:P2:"+c.what+"-before-stopfn-end", fmt.Sprintf("%s: %s (seq %d) before the stop routine of %s had returned", m, c.what, c.seq, m), witness(s, nil, map[string]any{"completion_seq": c.seq}))
				}
				for _, it := range before {
					if it.end == 0 || c.seq < it.end {
						add("C05:P2:"+c.what+"-before-work-end:"+kindClass(it.kind), fmt.Sprintf("%s: %s (seq %d) while %s %s, running since before the stop routine was invoked, had not returned", m, c.what, c.seq, kindClass(it.kind), it.who),
							witness(s, it, map[string]any{"completion_seq": c.seq}))
						break
					}
				}
			}
			for _, it := range before {
				if it.endPre >= ref && it.end < nextStart && it.endStatus == statusOffline {
					add("C05:P2:reported-offline-before-work-end:"+kindClass(it.kind), fmt.Sprintf("%s %s of %s saw Status()==offline while it was still running", kindClass(it.kind), it.who, m), witness(s, it, nil))
					break
				}
			}

			// ---- P2 for restarting service workers: a service worker whose function had
			// been invoked before the stop is one piece of running work until portbase ends
			// its restart loop; an invocation of its function (necessarily with a cancelled
			// context) is legitimate while the module is stopping, but not after the module
			// was reported offline, a dependency began to stop or the pass returned
			for _, it := range order {
				if it.mod != m || it.kind != "svc_loop" || it.begin < s.ctrlset || it.begin > nextStart {
					continue
				}
				base := it.who
				if i := strings.Index(base, "#"); i > 0 {
					base = base[:i]
				}
				if f, ok := loopFirst[base]; !ok || f > ref {
					continue
				}
				v.LoopInvocationsWhileStopping++
				hit := ""
				for _, c := range completions {
					if c.seq < it.begin {
						hit = c.what
						break
					}
				}
				if hit == "" && it.endStatus == statusOffline && it.endPre >= it.begin && it.end < nextStart {
					hit = "reported-offline"
				}
				if hit != "" {
					add("C05:P2:service-worker-reinvoked-after:"+hit, fmt.Sprintf("%s: the function of service worker %s, which had been running (restarting) since before the stop, was invoked again (%s) after %s", m, base, it.who, hit),
						witness(s, it, map[string]any{"first_invocation_seq": loopFirst[base]}))
					break
				}
			}
		}
	}

	// ---- P2 for the global Shutdown as a whole: when it returns, every module is offline
	// and every item that was running on a then-online module when Shutdown was called has
	// returned - unless the stop of that module ran into its stop timeout (the statement's
	// "as long as each returns within the stop timeout"). This also covers modules whose
	// stop had not even begun when Shutdown returned.
	for _, c := range calls {
		if c.op != "Shutdown" || c.ret == 0 {
			continue
		}
		for _, ms := range sp.Mods {
			m := ms.Name
			var lastStart, lastStop uint64
			for _, x := range startOK[m] {
				if x < c.call && x > lastStart {
					lastStart = x
				}
			}
			for _, st := range stops[m] {
				if st.ctrlset < c.call && st.ctrlset > lastStop {
					lastStop = st.ctrlset
				}
			}
			if lastStart == 0 || lastStop > lastStart {
				continue // not online when Shutdown was called
			}
			timedOut := false
			var inPass *oStop
			for _, st := range stops[m] {
				if st.ctrlset > c.call {
					if inPass == nil {
						inPass = st
					}
					if st.timeout != 0 {
						timedOut = true
					}
				}
			}
			if timedOut {
				continue
			}
			if inPass == nil {
				inPass = &oStop{mod: m}
			}
			if st, ok := afterShutdown[m]; ok && st != statusOffline {
				add("C05:P2:module-not-offline-after-shutdown", fmt.Sprintf("Shutdown returned while module %s, online when Shutdown was called, was not offline (status %d) and no stop timeout had fired for it", m, st),
					witness(inPass, nil, map[string]any{"shutdown_call": c.call, "shutdown_ret": c.ret}))
			}
			for _, it := range order {
				if it.mod != m || isProbe(it) || it.kind == "svc_loop" || it.begin > c.call || it.begin < lastStart {
					continue
				}
				if it.end == 0 || it.end > c.ret {
					add("C05:P2:shutdown-returned-before-work-end:"+kindClass(it.kind), fmt.Sprintf("Shutdown returned (seq %d) while %s %s of module %s, running since before Shutdown was called, had not returned, and no stop timeout had fired for %s", c.ret, kindClass(it.kind), it.who, m, m),
						witness(inPass, it, map[string]any{"shutdown_call": c.call, "shutdown_ret": c.ret}))
					break
				}
			}
		}
	}

	// ---- P1b: an item that begins after the stop routine was invoked gets a cancelled context
	for _, it := range order {
		if !it.ctxSeen || it.mod == "" {
			continue
		}
		if isProbe(it) {
			continue
		}
		var last *oStop
		for _, s := range stops[it.mod] {
			if r := s.ref(); r != 0 && r < it.begin {
				last = s
			}
		}
		if last == nil {
			continue
		}
		var passRet uint64
		if p := passOf(last); p != nil {
			passRet = p.ret
		}
		if restartBoundary(it.mod, last.ctrlset, passRet) < it.ctxSeq {
			continue
		}
		v.LateItems++
		if !it.ctxDone {
			add("C05:P1:late-start-live-ctx:"+kindClass(it.kind), fmt.Sprintf("%s %s of %s began after the module's stop routine was invoked but was handed a context that is not cancelled", kindClass(it.kind), it.who, it.mod),
				witness(last, it, nil))
		}
	}

	// ---- a stop that never completed (structural witness recorded by the child): the stop
	// routine and every item of the module had returned, the module's status was already
	// offline, but the stopper sat in a call that only the harness could unblock
	for i := range out.Events {
		e := &out.Events[i]
		if e.Kind != "stuck" {
			continue
		}
		m := e.Who
		var st *oStop
		for _, x := range stops[m] {
			if x.ctrlset < e.Seq {
				st = x
			}
		}
		if st == nil || (st.fnBegin != 0 && st.fnEnd == 0) {
			continue
		}
		open := false
		for _, it := range order {
			if it.mod == m && !isProbe(it) && it.begin < e.Seq && (it.end == 0 || it.end > e.Seq) {
				open = true
			}
		}
		if !open {
			add("C05:P3:stop-never-completed:stopper-blocked-in-failure-update-function", fmt.Sprintf("stop of %s: its stop routine and all its work items had returned, but the stop did not complete (no dependency began stopping, Shutdown did not return): the stopper was blocked in %s, which only the harness could release", m, e.Op),
				witness(st, nil, map[string]any{"stuck_seq": e.Seq}))
		}
	}

	// ---- a task that was cleared for execution before its module's stop began while no
	// task timeslot could be handed out (slotstarve class: all microtask slots are held until
	// the stop routine has returned) must not execute once the stop has begun
	if sp.Class == "slotstarve" {
		for i := range out.Events {
			e := &out.Events[i]
			if e.Kind != "hook" || e.Op != "modules.task.cleared" {
				continue
			}
			it := items[e.Who]
			if it == nil {
				continue
			}
			for _, st := range stops[it.mod] {
				if e.Seq < st.ctrlset && it.begin > st.ctrlset {
					add("C05:P4:cleared-task-executed-after-stop", fmt.Sprintf("task %s of %s was cleared for execution before the module's stop began, could not get a task timeslot until the stop routine had returned, and was executed afterwards", it.who, it.mod),
						witness(st, it, map[string]any{"cleared_seq": e.Seq}))
					break
				}
			}
		}
	}

	// ---- P4: work submitted to a stopped module
	for _, it := range order {
		if !isProbe(it) {
			continue
		}
		v.P4Probes++
		var mark uint64
		for _, pm := range p4marks {
			if pm.mod == it.mod && pm.seq < it.begin {
				mark = pm.seq
			}
		}
		if mark == 0 || restartBoundary(it.mod, mark, mark) < it.begin {
			continue // not attributable to a stopped phase of the module
		}
		d := map[string]any{"spec": sp, "probe": it.who, "events": excerpt(out.Events, mark, 40)}
		switch it.kind {
		case "p4task":
			parts := strings.Split(it.who, ":")
			how := "?"
			if len(parts) > 2 {
				how = parts[2]
			}
			add("C05:P4:task-executed:"+how, "a task created with NewTask on the stopped module "+it.mod+" and submitted with "+how+" was executed", d)
		case "p4pretask":
			add("C05:P4:pretask-executed", "a task created while "+it.mod+" was online and queued after the module was stopped was executed", d)
		case "p4hook":
			add("C05:P4:hook-executed", "TriggerEvent on a stopped module ran an event hook ("+it.who+")", d)
		case "p4ctx":
			if it.ctxSeen && !it.ctxDone {
				parts := strings.Split(it.who, ":")
				kind := "?"
				if len(parts) > 2 {
					kind = parts[2]
				}
				add("C05:P4:live-ctx:"+kind, kind+" started on the stopped module "+it.mod+" received a context that is not cancelled", d)
			}
		}
	}
	// p4 markers without any probe execution still count as performed probes
	v.P4Probes += len(p4marks)
	return v
}

// excerpt returns up to n events starting a little before seq.
func excerpt(evs []vlib.Event, seq uint64, n int) []vlib.Event {
	i := sort.Search(len(evs), func(i int) bool { return evs[i].Seq >= seq })
	if i > 5 {
		i -= 5
	} else {
		i = 0
	}
	j := i + n
	if j > len(evs) {
		j = len(evs)
	}
	return evs[i:j]
}

var pointShort = map[string]string{"modules.stop.ctrlset": "S1", "modules.stop.flagged": "S2", "modules.stop.cancelled": "S3", "modules.stop.timeout": "TO",
	"modules.stop.check": "chk", "modules.worker.dec": "wdec", "modules.task.defer": "tdef", "modules.task.prelock": "tpre", "modules.mt.conclude": "mtc", "modules.ctrlfn.done": "cfd", "modules.ctrlfn.sent": "cfs", "modules.task.cleared": "tclr"}

// interleaving returns the signature of one stop: the order in which the stopper's
// steps, the stop routine and the finishing items' decrement / completion-check steps
// were observed for that module (consecutive duplicates merged).
func interleaving(evs []vlib.Event, s *oStop, passRet uint64, itemMod map[string]string) (string, string) {
	var toks []string
	for i := range evs {
		e := &evs[i]
		if e.Seq < s.ctrlset {
			continue
		}
		if passRet != 0 && e.Seq > passRet {
			break
		}
		var tok string
		switch e.Kind {
		case "hook":
			m := e.Who
			if e.Op == "modules.task.defer" || e.Op == "modules.task.prelock" || e.Op == "modules.task.cleared" {
				m = itemMod[e.Who]
			}
			if m != s.mod {
				continue
			}
			if e.Op == "modules.stop.ctrlset" && e.Seq != s.ctrlset {
				continue
			}
			tok = pointShort[e.Op] + "/" + fStr(e.F, "role")
			if fBool(e.F, "resumed") {
				tok += "+resumed"
			}
		case "begin", "end":
			if e.Op == "stop" && e.Who == s.mod {
				tok = "fn-" + e.Kind
			}
		}
		if tok == "" {
			continue
		}
		if n := len(toks); n > 0 && toks[n-1] == tok {
			continue
		}
		toks = append(toks, tok)
	}
	txt := strings.Join(toks, " ")
	h := sha1.Sum([]byte(txt))
	return hex.EncodeToString(h[:8]), txt
}
