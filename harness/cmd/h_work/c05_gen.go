package main

import (
	"fmt"

	"verifharness/internal/vlib"
)

var c05MtKinds = []string{"mt_run_high", "mt_run_med", "mt_run_low", "mt_start_high", "mt_start_med", "mt_start_low",
	"mt_sig_high", "mt_sig_med", "mt_sig_low"}

var c05AllKinds = append([]string{kWorker, kWorkerRun, kSvc, kTaskQ, kTaskP, kTaskA, kTaskS, kTaskO, kHook}, c05MtKinds...)

// kindClass maps an item kind to the class named in the property's quantifier.
func kindClass(k string) string {
	switch k {
	case kWorker, kWorkerRun:
		return "worker"
	case kSvc, "svc_pre", "svc_loop":
		return "service worker"
	case kTaskQ, kTaskP, kTaskA, kTaskS, kTaskO:
		return "task"
	case kHook:
		return "event hook"
	case "mt_run_high", "mt_start_high":
		return "microtask high"
	case "mt_run_med", "mt_start_med":
		return "microtask medium"
	case "mt_run_low", "mt_start_low":
		return "microtask low"
	case "mt_sig_high", "mt_sig_med", "mt_sig_low":
		return "signalled microtask"
	}
	return k
}

func fromStartOK(k string) bool {
	switch k {
	case kWorker, kSvc, kTaskQ, kTaskP, kTaskA, kTaskS, kHook, "mt_start_high", "mt_start_med", "mt_start_low":
		return true
	}
	return false
}

var c05Delays = []int{0, 0, 1, 1, 5, 5, 20, 100}

const c05StopTimeoutMs = 8000

// c05Cases is the fixed, PRNG-determined case list of a run.
func c05Cases(cfg vlib.Cfg) []*c05Spec {
	n := cfg.N(400, 8000)
	var out []*c05Spec
	for i := 0; i < n; i++ {
		r := vlib.NewRand(cfg.Seed, "C05/case", uint64(i))
		var sp *c05Spec
		switch {
		case i == 0:
			sp = c05TimeoutCase(r)
		case i%40 == 7:
			sp = c05DoneStormCase(r)
		case i%40 == 27:
			sp = c05SlotStarveCase(r)
		case i%40 == 17:
			sp = c05EarlyContextCase(r)
		case i%40 == 37 && i < 240:
			sp = c05SvcLoopCase(r)
		case i%40 == 11 && i < 240:
			sp = c05ReportBusyCase(r)
		case i%40 == 21 && i < 240:
			sp = c05SvcBackoffCase(r)
		case i%40 == 31 && i < 240:
			sp = c05StopPanicCase(r)
		case i%40 == 1 && i < 240:
			sp = c05FailureFnCase(r)
		case i%40 == 9:
			sp = c05StragglerCase(r)
		case i%40 == 19 && i < 320:
			sp = c05SlowChainCase(r)
		case i%40 == 39 && i < 320:
			sp = c05NotifyManagesCase(r)
		case i%40 == 29:
			sp = c05HookWindowCase(r)
		case i%40 == 3 || i%40 == 23:
			sp = c05ConcludeStormCase(r)
		case i%40 == 13 || i%40 == 33:
			sp = c05ParkedStopperCase(r, i/20)
		case i%3 == 1:
			sp = c05PairCase(r, i/3)
		case i%30 == 11:
			sp = c05StaleCtrlFnCase(r)
		case i%6 == 5:
			sp = c05QuickStopCase(r)
		default:
			sp = c05RandomCase(r)
		}
		sp.Prop = "C05"
		sp.Case = i
		sp.Seed = cfg.Seed
		out = append(out, sp)
	}
	return out
}

func c05Graph(r *vlib.Rand, n int) (names []string, deps map[string][]string, shape string) {
	names = []string{"ma", "mb", "mc", "md"}[:n]
	deps = map[string][]string{}
	switch n {
	case 1:
		shape = "single"
	case 2:
		if r.Chance(3, 4) {
			deps["mb"] = []string{"ma"}
			shape = "chain2"
		} else {
			shape = "indep2"
		}
	case 3:
		switch r.Intn(3) {
		case 0:
			deps["mb"] = []string{"ma"}
			deps["mc"] = []string{"mb"}
			shape = "chain3"
		case 1:
			deps["mb"] = []string{"ma"}
			deps["mc"] = []string{"ma"}
			shape = "fanout3"
		default:
			deps["mc"] = []string{"ma", "mb"}
			shape = "fanin3"
		}
	default:
		switch r.Intn(3) {
		case 0:
			deps["mb"] = []string{"ma"}
			deps["mc"] = []string{"ma"}
			deps["md"] = []string{"mb", "mc"}
			shape = "diamond"
		case 1:
			deps["mb"] = []string{"ma"}
			deps["mc"] = []string{"mb"}
			deps["md"] = []string{"mc"}
			shape = "chain4"
		default:
			deps["mb"] = []string{"ma"}
			deps["md"] = []string{"mc"}
			shape = "twochains"
		}
	}
	return
}

func c05RandomCase(r *vlib.Rand) *c05Spec {
	sp := &c05Spec{Class: "random", Limit: 64, StopTimeoutMs: c05StopTimeoutMs, StopVia: "shutdown"}
	n := r.Range(1, 4)
	names, deps, shape := c05Graph(r, n)
	sp.Class = "random:" + shape
	sp.Mgmt = r.Chance(2, 5)
	blockQueueTaskUsed := false
	mtItems := 0
	overdueOK := r.Chance(1, 8)
	for _, name := range names {
		ms := &c05Mod{Name: name, Deps: deps[name], StopNil: r.Chance(1, 10), StopDelayMs: vlib.Pick(r, c05Delays...), StopErr: r.Chance(1, 20)}
		ni := r.Range(0, 12)
		if r.Chance(1, 10) {
			ni = 0
		}
		for j := 0; j < ni; j++ {
			it := c05RandomItem(r, ms, names, fmt.Sprintf("%s-i%d", name, j), 1)
			if it.Kind == kTaskO && !overdueOK {
				it.Kind = kWorker
			}
			if it.Kind == kTaskO && it.Settled && !blockQueueTaskUsed {
				// a task with a tiny max delay is also started through the queue when the
				// queue is free: the first one counts as the scenario's queue task; later
				// ones are started by the schedule handler once their max delay expired
				blockQueueTaskUsed = true
				it.FromStart = false
			} else if isQueueTask(it.Kind) {
				// Queue-started tasks execute one at a time, and after a task that returns
				// quickly the queue handler may wait out its 1-minute execution-wait limit
				// before it starts the next one (the slot-release goroutine reads the task's
				// context after the finished execution replaced it; see DESIGN C07 limits).
				// Therefore at most one queue-started task per scenario is waited for, and it
				// is submitted first; all others are of the just-submitted class.
				it.FromStart = false
				if it.Settled {
					if blockQueueTaskUsed {
						it.Settled = false
					}
					blockQueueTaskUsed = true
				}
			}
			if len(it.Kind) > 3 && it.Kind[:3] == "mt_" {
				mtItems++
				if mtItems > 40 {
					it.Kind = kWorker
				}
			}
			ms.Items = append(ms.Items, it)
		}
		sp.Mods = append(sp.Mods, ms)
	}
	if sp.Mgmt && r.Chance(3, 4) {
		sp.StopVia = "manage"
		k := r.Range(1, n)
		perm := append([]string(nil), names...)
		vlib.Shuffle(r, perm)
		sp.Disable = perm[:k]
		sp.Restart = r.Chance(1, 3)
		if sp.Restart {
			for _, ms := range sp.Mods {
				dis := false
				for _, d := range sp.Disable {
					if d == ms.Name {
						dis = true
					}
				}
				if !dis {
					continue
				}
				nj := r.Range(0, 5)
				for j := 0; j < nj; j++ {
					it := c05RandomItem(r, ms, names, fmt.Sprintf("%s-c2i%d", ms.Name, j), 2)
					if isQueueTask(it.Kind) || it.Kind == kTaskO {
						it.Kind = kWorker
					}
					if it.Kind == kHook {
						it.SrcMod = ms.Name
						it.Settled = false // the module may not have been restarted (still needed as a dependency)
					}
					it.Settled = it.Settled && true
					ms.Items = append(ms.Items, it)
				}
			}
		}
	}
	// hook delay plan: PRNG-chosen small delays at every point (DESIGN 3.5 (b)); one in
	// three random cases runs with hooks idle (pure stress)
	if !r.Chance(1, 3) {
		for _, p := range []string{"modules.stop.ctrlset", "modules.stop.flagged", "modules.stop.cancelled", "modules.stop.check",
			"modules.worker.dec", "modules.task.defer", "modules.task.prelock", "modules.mt.conclude"} {
			if r.Chance(2, 3) {
				sp.Hooks = append(sp.Hooks, &hookRule{Point: p, Mode: "delay", DelayUs: vlib.Pick(r, 0, 50, 200, 1000, 3000), Permil: vlib.Pick(r, 200, 500, 1000)})
			}
		}
	}
	return sp
}

func c05RandomItem(r *vlib.Rand, ms *c05Mod, names []string, id string, cycle int) *c05Item {
	it := &c05Item{ID: id, Kind: vlib.Pick(r, c05AllKinds...), Cycle: cycle}
	it.Settled = r.Chance(3, 4)
	switch x := r.Intn(20); {
	case x < 11:
		it.Wait = "ctx"
	case x < 15:
		it.Wait = "self"
		it.RunMs = vlib.Pick(r, 0, 1, 5, 20)
	case x < 17:
		it.Wait = "latch"
		it.Latch = "stopfn.begin|" + ms.Name
	default:
		it.Wait = "latch"
		it.Latch = "stopfn.end|" + ms.Name
	}
	if it.Wait == "latch" && ms.StopNil {
		it.Latch = "modules.stop.cancelled|" + ms.Name
	}
	it.LingerMs = vlib.Pick(r, c05Delays...)
	if fromStartOK(it.Kind) && r.Chance(1, 4) {
		it.FromStart = true
	}
	if it.Kind == kHook {
		it.SrcMod = vlib.Pick(r, names...)
		if it.FromStart {
			// an event triggered on a module that has not started yet is dropped by portbase
			// (runEventHook sees the source's initial context cancelled by start()); that is
			// about event delivery, not about this property: trigger on the own module
			it.SrcMod = ms.Name
		}
	}
	if it.Kind == kSvc {
		it.Restarts = vlib.Pick(r, 0, 0, 1, 2)
	}
	if cycle == 1 && !isQueueTask(it.Kind) && it.Kind != kTaskO && it.Kind != kHook && r.Chance(1, 8) {
		// submitted while the module is stopping: begins before or after the stop routine
		it.AtStop, it.Settled, it.FromStart = true, false, false
		if it.Wait == "latch" {
			it.Wait = "ctx"
		}
	}
	if len(it.Kind) > 6 && it.Kind[:6] == "mt_sig" {
		it.DoneCalls = r.Range(1, 3)
	}
	return it
}

// c05PairCase builds one of the explicit pairwise ordering plans (DESIGN 3.5 (c)): a
// finishing work item and the stopper are forced through a chosen order of their steps.
func c05PairCase(r *vlib.Rand, idx int) *c05Spec {
	sp := &c05Spec{Limit: 64, StopTimeoutMs: c05StopTimeoutMs, StopVia: "shutdown"}
	ms := &c05Mod{Name: "ma", StopDelayMs: vlib.Pick(r, 0, 0, 1, 5), StopNil: r.Chance(1, 3)}
	sp.Mods = []*c05Mod{ms}
	if r.Chance(1, 3) {
		// a dependency whose stop must wait for ma
		sp.Mods = append(sp.Mods, &c05Mod{Name: "m0", StopDelayMs: 0})
		ms.Deps = []string{"m0"}
		sp.Mods[1].Items = append(sp.Mods[1].Items, &c05Item{ID: "m0-w", Kind: kWorker, Settled: true, Wait: "ctx", Cycle: 1})
	}
	// the key item: finishes on its own; which decrement hook it passes depends on its kind
	type kp struct{ kind, point, role string }
	kps := []kp{{kWorker, "modules.worker.dec", "worker"}, {kWorkerRun, "modules.worker.dec", "worker"}, {kSvc, "modules.worker.dec", "svc"},
		{kHook, "modules.worker.dec", "worker"}, {kTaskQ, "modules.task.defer", "task"}, {kTaskA, "modules.task.defer", "task"},
		{"mt_run_med", "modules.mt.conclude", "mt"}, {"mt_start_high", "modules.mt.conclude", "mt"}, {"mt_sig_low", "modules.mt.conclude", "mt"}}
	k := kps[idx%len(kps)]
	key := &c05Item{ID: "key", Kind: k.kind, Settled: true, Wait: "self", Cycle: 1, SrcMod: "ma", DoneCalls: 2}
	plans := []string{"dec-until-ctrlset", "dec-until-flagged", "dec-until-cancelled", "dec-until-stopcheck", "dec-until-stopfn-end",
		"stopper-ctrlset-until-item-ret", "stopper-flagged-until-item-ret", "stopper-cancelled-until-item-ret", "item-ends-at-stopfn-end"}
	plan := plans[(idx/len(kps))%len(plans)]
	if ms.StopNil && (plan == "dec-until-stopfn-end" || plan == "item-ends-at-stopfn-end") {
		ms.StopNil = false
	}
	sp.Class = "pair:" + plan + ":" + k.kind
	after := vlib.Pick(r, 0, 100, 1000)
	switch plan {
	case "dec-until-ctrlset", "dec-until-flagged", "dec-until-cancelled":
		pt := map[string]string{"dec-until-ctrlset": "modules.stop.ctrlset", "dec-until-flagged": "modules.stop.flagged", "dec-until-cancelled": "modules.stop.cancelled"}[plan]
		sp.Hooks = append(sp.Hooks, &hookRule{Point: k.point, Subject: subjOf(k.point, "ma", "key"), Role: k.role, Mode: "until", Until: pt + "|ma", AfterUs: after, MaxMs: 4000, Once: true})
		sp.WaitHit = k.point + "|" + subjOf(k.point, "ma", "key") + "|" + k.role
	case "dec-until-stopcheck":
		// parked until the stopper's own completion check has begun (the control function
		// or, for a nil stop function, stopAllTasks itself): the item's check is the last
		role := "ctrlfn"
		if ms.StopNil {
			role = "stopper"
		}
		sp.Hooks = append(sp.Hooks, &hookRule{Point: k.point, Subject: subjOf(k.point, "ma", "key"), Role: k.role, Mode: "until", Until: "modules.stop.check|ma|" + role, AfterUs: after + 200, MaxMs: 4000, Once: true})
		sp.WaitHit = k.point + "|" + subjOf(k.point, "ma", "key") + "|" + k.role
	case "dec-until-stopfn-end":
		sp.Hooks = append(sp.Hooks, &hookRule{Point: k.point, Subject: subjOf(k.point, "ma", "key"), Role: k.role, Mode: "until", Until: "stopfn.end|ma", AfterUs: after, MaxMs: 4000, Once: true})
		sp.WaitHit = k.point + "|" + subjOf(k.point, "ma", "key") + "|" + k.role
	case "stopper-ctrlset-until-item-ret", "stopper-flagged-until-item-ret", "stopper-cancelled-until-item-ret":
		pt := map[string]string{"stopper-ctrlset-until-item-ret": "modules.stop.ctrlset", "stopper-flagged-until-item-ret": "modules.stop.flagged",
			"stopper-cancelled-until-item-ret": "modules.stop.cancelled"}[plan]
		// the item stays until the stopper is parked at pt, then finishes completely
		// (decrement + completion check) before the stopper moves on
		key.Wait = "latch"
		key.Latch = pt + "|ma"
		until := "item.end|key"
		if k.kind == kWorkerRun || k.kind == "mt_run_med" || k.kind == "mt_sig_low" {
			until = "item.ret|key" // blocking variants: the call returned, i.e. the check ran
		}
		sp.Hooks = append(sp.Hooks, &hookRule{Point: pt, Subject: "ma", Mode: "until", Until: until, AfterUs: after + 300, MaxMs: 4000, Once: true})
	case "item-ends-at-stopfn-end":
		key.Wait = "latch"
		key.Latch = "stopfn.end|ma"
	}
	ms.Items = append(ms.Items, key)
	// bystanders that simply wait for the cancellation
	nb := r.Range(0, 3)
	for j := 0; j < nb; j++ {
		ms.Items = append(ms.Items, &c05Item{ID: fmt.Sprintf("by%d", j), Kind: vlib.Pick(r, kWorker, kSvc, "mt_start_med", "mt_sig_high", kWorkerRun),
			Settled: true, Wait: "ctx", LingerMs: vlib.Pick(r, 0, 1, 5), Cycle: 1, DoneCalls: 1})
	}
	return sp
}

func subjOf(point, mod, item string) string {
	if point == "modules.task.defer" || point == "modules.task.prelock" {
		return item // task hooks carry the task name
	}
	return mod
}

// c05TimeoutCase: one item never returns; only "Shutdown still returns" is observed.
func c05TimeoutCase(r *vlib.Rand) *c05Spec {
	sp := &c05Spec{Class: "timeout", Limit: 64, StopTimeoutMs: 300, StopVia: "shutdown", NeverReturn: true}
	ms := &c05Mod{Name: "ma", StopDelayMs: 1}
	ms.Items = append(ms.Items, &c05Item{ID: "never", Kind: kWorker, Settled: true, Wait: "ctx", Never: true, Cycle: 1})
	ms.Items = append(ms.Items, &c05Item{ID: "ok", Kind: kWorker, Settled: true, Wait: "ctx", Cycle: 1})
	dep := &c05Mod{Name: "m0"}
	ms.Deps = []string{"m0"}
	dep.Items = append(dep.Items, &c05Item{ID: "m0-w", Kind: kWorker, Settled: true, Wait: "ctx", Cycle: 1})
	sp.Mods = []*c05Mod{ms, dep}
	return sp
}

// c05QuickStopCase: Shutdown immediately after Start returned (the run/main.go path
// when a late module fails, or a service that is stopped right after it came up): the
// goroutines portbase ran the start functions in may not have finished their clean-up
// yet when the stop sequence reaches the same module.
func c05QuickStopCase(r *vlib.Rand) *c05Spec {
	sp := &c05Spec{Limit: 64, StopTimeoutMs: c05StopTimeoutMs, StopVia: "shutdown"}
	n := r.Range(1, 4)
	names, deps, shape := c05Graph(r, n)
	sp.Class = "quickstop:" + shape
	for _, name := range names {
		ms := &c05Mod{Name: name, Deps: deps[name], StopDelayMs: vlib.Pick(r, 5, 20, 20)}
		ni := r.Range(0, 2)
		for j := 0; j < ni; j++ {
			it := &c05Item{ID: fmt.Sprintf("%s-i%d", name, j), Kind: vlib.Pick(r, kWorker, kSvc, "mt_start_med", "mt_start_high", "mt_sig_low", kWorkerRun),
				Wait: vlib.Pick(r, "ctx", "ctx", "self"), LingerMs: vlib.Pick(r, 0, 1, 5), Cycle: 1, DoneCalls: 1}
			it.FromStart = fromStartOK(it.Kind)
			ms.Items = append(ms.Items, it)
		}
		if r.Chance(1, 2) {
			// a task created and queued by the prep routine (never runs on the unchanged code)
			ms.Items = append(ms.Items, &c05Item{ID: name + "-pt", Kind: vlib.Pick(r, kTaskQ, kTaskP, kTaskA), FromPrep: true, Wait: "latch", Latch: "stopfn.begin|" + name, LingerMs: 1, Cycle: 1})
		}
		sp.Mods = append(sp.Mods, ms)
	}
	return sp
}

// c05StaleCtrlFnCase: Shutdown right after Start while the goroutine that ran the start
// function is held back in front of its deferred clean-up until the stop routine of the
// same module has begun. Needs the hook point "modules.ctrlfn.done" (first statement of
// the deferred function in startCtrlFn's goroutine, see proposed_fixes/C05-hook-ctrlfn-done.diff);
// without that point the handler is never called and the case is a plain quick stop.
func c05StaleCtrlFnCase(r *vlib.Rand) *c05Spec {
	sp := &c05Spec{Class: "pair:start-cleanup-until-stopfn-begin:ctrlfn", Limit: 64, StopTimeoutMs: c05StopTimeoutMs, StopVia: "shutdown"}
	dep := &c05Mod{Name: "m0", StopDelayMs: 0}
	dep.Items = append(dep.Items, &c05Item{ID: "m0-w", Kind: kWorker, Settled: true, Wait: "ctx", Cycle: 1})
	ms := &c05Mod{Name: "ma", Deps: []string{"m0"}, StopDelayMs: vlib.Pick(r, 5, 20)}
	nb := r.Range(0, 2)
	for j := 0; j < nb; j++ {
		ms.Items = append(ms.Items, &c05Item{ID: fmt.Sprintf("by%d", j), Kind: vlib.Pick(r, kWorker, "mt_start_med"), Wait: "ctx", FromStart: true, Settled: true, Cycle: 1})
	}
	sp.Mods = []*c05Mod{ms, dep}
	if r.Bool() {
		sp.Hooks = append(sp.Hooks, &hookRule{Point: "modules.ctrlfn.done", Subject: "ma", Mode: "until", Until: "stopfn.begin|ma", AfterUs: 300, MaxMs: 300})
	} else {
		// behind the hand-over of the result: the start goroutine's completion check runs
		// while the stop routine of the same module is running
		sp.Class = "pair:start-check-until-stopfn-begin:ctrlfn"
		sp.Hooks = append(sp.Hooks, &hookRule{Point: "modules.ctrlfn.sent", Subject: "ma", Mode: "until", Until: "stopfn.begin|ma", AfterUs: 300, MaxMs: 2000})
	}
	return sp
}

// c05DoneStormCase: done() of signalled microtasks called concurrently before the stop,
// then microtasks with staggered lingers running at the stop (see doneStorm).
func c05DoneStormCase(r *vlib.Rand) *c05Spec {
	sp := &c05Spec{Class: "donestorm", Limit: 64, StopTimeoutMs: c05StopTimeoutMs, StopVia: "shutdown"}
	dep := &c05Mod{Name: "m0", StopDelayMs: 0}
	dep.Items = append(dep.Items, &c05Item{ID: "m0-w", Kind: kWorker, Settled: true, Wait: "ctx", Cycle: 1})
	ms := &c05Mod{Name: "ma", Deps: []string{"m0"}, StopDelayMs: vlib.Pick(r, 0, 1), StopNil: r.Chance(1, 4)}
	kinds := []string{"mt_start_med", "mt_run_low", "mt_sig_high", "mt_start_high", "mt_run_med", "mt_sig_low"}
	for j, l := range []int{5, 20, 40, 60, 80, 100} {
		ms.Items = append(ms.Items, &c05Item{ID: fmt.Sprintf("ma-mt%d", j), Kind: kinds[(j+r.Intn(6))%6], Settled: true, Wait: "ctx", LingerMs: l, Cycle: 1, DoneCalls: 1})
	}
	sp.Mods = []*c05Mod{ms, dep}
	sp.DoneStorm = &doneStorm{Mod: "ma", N: vlib.Pick(r, 20, 60, 200), Callers: r.Range(2, 4)}
	if r.Chance(1, 3) {
		sp.Mgmt, sp.StopVia, sp.Disable = true, "manage", []string{"ma"}
	}
	return sp
}

// c05SlotStarveCase: all microtask slots are taken, so the task queue handler has
// cleared a task of module ma for execution but waits for a task timeslot; ma is stopped
// in that state; the slots are released when ma's stop routine has returned. The task must
// neither run nor hold up the stop.
func c05SlotStarveCase(r *vlib.Rand) *c05Spec {
	sp := &c05Spec{Class: "slotstarve", Limit: 2, StopTimeoutMs: c05StopTimeoutMs, StopVia: "shutdown"}
	dep := &c05Mod{Name: "m0", StopDelayMs: 0}
	ms := &c05Mod{Name: "ma", Deps: []string{"m0"}, StopDelayMs: vlib.Pick(r, 0, 1, 5)}
	holder := dep // the slots are held by microtasks of the dependency (stops later) or of ma itself
	if r.Bool() {
		holder = ms
	}
	for j := 0; j < 2; j++ {
		holder.Items = append(holder.Items, &c05Item{ID: fmt.Sprintf("hold%d", j), Kind: vlib.Pick(r, "mt_start_med", "mt_start_low", "mt_run_med"), Settled: true,
			Wait: "latch", Latch: "stopfn.end|ma", LingerMs: vlib.Pick(r, 0, 1, 5), Cycle: 1})
	}
	ms.Items = append(ms.Items, &c05Item{ID: "qt", Kind: vlib.Pick(r, kTaskQ, kTaskP, kTaskA), Settled: false, Wait: "self", Cycle: 1})
	if r.Bool() {
		ms.Items = append(ms.Items, &c05Item{ID: "ma-w", Kind: kWorker, Settled: true, Wait: "ctx", LingerMs: 1, Cycle: 1})
	}
	sp.Mods = []*c05Mod{ms, dep}
	sp.WaitHit = "modules.task.cleared|qt"
	if r.Bool() {
		sp.Mgmt, sp.StopVia, sp.Disable = true, "manage", []string{"ma"}
	}
	return sp
}

// c05EarlyContextCase: work that was handed a module context before the start cycle in
// which the module is finally stopped: (i) items launched by a start routine whose
// attempt then failed (the module is started again by a later management pass), (ii)
// items launched by the prep routine. P1 covers every context handed to the module's
// items since registration; the items that stay until the stop routine runs also
// exercise P2 for work of an earlier attempt.
func c05EarlyContextCase(r *vlib.Rand) *c05Spec {
	sp := &c05Spec{Limit: 64, StopTimeoutMs: c05StopTimeoutMs, StopVia: "shutdown"}
	withFail := r.Chance(2, 3)
	withPrep := !withFail || r.Bool()
	sp.Class = "earlyctx:"
	dep := &c05Mod{Name: "m0", StopDelayMs: 0}
	dep.Items = append(dep.Items, &c05Item{ID: "m0-w", Kind: kWorker, Settled: true, Wait: "ctx", Cycle: 1})
	ms := &c05Mod{Name: "ma", Deps: []string{"m0"}, StopDelayMs: vlib.Pick(r, 0, 1, 5)}
	kinds := []string{kWorker, kSvc, "mt_start_med", "mt_start_high", "mt_start_low"}
	wait := func(it *c05Item) {
		if r.Chance(2, 3) {
			it.Wait, it.Latch = "latch", "stopfn.begin|ma"
		} else {
			it.Wait = "ctx"
		}
		it.LingerMs = vlib.Pick(r, 0, 1, 5)
	}
	lastCycle := 1
	if withFail {
		sp.Class += "failed-start"
		sp.Mgmt = true
		sp.FailStart = []string{"ma"}
		lastCycle = 2
		n := r.Range(2, 4)
		for j := 0; j < n; j++ {
			it := &c05Item{ID: fmt.Sprintf("ma-f%d", j), Kind: vlib.Pick(r, kinds...), Settled: true, FromStart: true, Cycle: 1}
			wait(it)
			ms.Items = append(ms.Items, it)
		}
	}
	if withPrep {
		// a task created and queued by the prep routine (on the unchanged code its context
		// derives from the module's initial context, which the start cancels: it never runs;
		// if it does run, it is work of the module like any other and P1/P2 apply)
		ms.Items = append(ms.Items, &c05Item{ID: "ma-pt", Kind: vlib.Pick(r, kTaskQ, kTaskP, kTaskA), Settled: false, FromPrep: true, Wait: "latch", Latch: "stopfn.begin|ma", LingerMs: 1, Cycle: 1})
	}
	if withPrep {
		sp.Class += "+prep"
		n := r.Range(1, 3)
		for j := 0; j < n; j++ {
			it := &c05Item{ID: fmt.Sprintf("ma-p%d", j), Kind: vlib.Pick(r, kinds...), Settled: true, FromPrep: true, Cycle: 1}
			wait(it)
			ms.Items = append(ms.Items, it)
		}
	}
	n := r.Range(1, 3)
	for j := 0; j < n; j++ {
		ms.Items = append(ms.Items, &c05Item{ID: fmt.Sprintf("ma-i%d", j), Kind: vlib.Pick(r, kWorker, kWorkerRun, "mt_run_med", "mt_sig_low", kSvc), Settled: true,
			Wait: "ctx", LingerMs: vlib.Pick(r, 0, 1, 5), Cycle: lastCycle, DoneCalls: 1, FromStart: false})
	}
	sp.Mods = []*c05Mod{ms, dep}
	if sp.Mgmt && r.Bool() {
		sp.StopVia, sp.Disable = "manage", []string{"ma"}
	}
	return sp
}

// c05SvcLoopCase: many service workers of one module that restart all the time (their
// function returns ErrRestartNow at once, or an error with a 1 ms back-off) - far more
// runnable goroutines than Ps (the child runs with GOMAXPROCS=2), so that at the moment
// of the stop they are parked at arbitrary instructions of portbase's restart loop.
func c05SvcLoopCase(r *vlib.Rand) *c05Spec {
	sp := &c05Spec{Class: "svcloop", Limit: 64, StopTimeoutMs: c05StopTimeoutMs, StopVia: "shutdown", GoMaxProcs: 2}
	// many small modules rather than one big one: a module's stop can only complete
	// without a worker that is parked inside the restart loop if its other workers are
	// done, and the parked goroutine only comes late if plenty of other goroutines (the
	// workers and stoppers of the other modules) are queued in front of it
	k := vlib.Pick(r, 30, 40, 50)
	j := 0
	for mi := 0; mi < k; mi++ {
		ms := &c05Mod{Name: fmt.Sprintf("s%02d", mi), StopDelayMs: 0, StopNil: r.Chance(1, 3)}
		n := r.Range(1, 3)
		for x := 0; x < n; x++ {
			it := &c05Item{ID: fmt.Sprintf("sl%d", j), Kind: "svc_loop", Settled: true, Wait: "self", Cycle: 1}
			if j%5 == 4 {
				it.RunMs = 1 // restarts through the back-off path (plain error, back-off 1 ms x failure count)
			}
			j++
			ms.Items = append(ms.Items, it)
		}
		sp.Mods = append(sp.Mods, ms)
	}
	if r.Bool() {
		sp.Mgmt, sp.StopVia = true, "manage"
		for mi := 0; mi < k; mi += 2 {
			sp.Disable = append(sp.Disable, sp.Mods[mi].Name)
		}
	}
	return sp
}

// c05ConcludeStormCase: many microtasks of one module conclude at the same instant, in
// many rounds; microtasks are started at the instant at which others conclude and are
// running at the stop (staggered lingers). A lost decrement keeps the counter above zero
// (P3: the stop waits out the timeout), a lost increment hides running work (P2).
func c05ConcludeStormCase(r *vlib.Rand) *c05Spec {
	sp := &c05Spec{Class: "concludestorm", Limit: 64, StopTimeoutMs: c05StopTimeoutMs, StopVia: "shutdown"}
	dep := &c05Mod{Name: "m0", StopDelayMs: 0}
	dep.Items = append(dep.Items, &c05Item{ID: "m0-w", Kind: kWorker, Settled: true, Wait: "ctx", Cycle: 1})
	ms := &c05Mod{Name: "ma", Deps: []string{"m0"}, StopDelayMs: vlib.Pick(r, 0, 1), StopNil: r.Chance(1, 4)}
	n := r.Range(8, 14)
	for j := 0; j < n; j++ {
		ms.Items = append(ms.Items, &c05Item{ID: fmt.Sprintf("ma-s%d", j), Kind: "mt_sig_high", Settled: true, ByStorm: true, Wait: "ctx", LingerMs: 2 + 6*j, Cycle: 1, DoneCalls: 1})
	}
	sp.Mods = []*c05Mod{ms, dep}
	sp.DoneStorm = &doneStorm{Mod: "ma", Mode: "conclude", N: vlib.Pick(r, 100, 150, 200), Callers: vlib.Pick(r, 4, 6, 8)}
	if r.Chance(1, 3) {
		sp.Mgmt, sp.StopVia, sp.Disable = true, "manage", []string{"ma"}
	}
	return sp
}

// c05ParkedStopperCase: all work of the stopping module finishes completely (blocking
// variants: the call returned, so the decrement and the completion check are done) while
// the stopper is parked right after it set the stop flag / cancelled the context and
// before it starts the stop routine; the stop routine then takes 50-100 ms and the module
// has a dependency whose stop must not begin before it returned.
func c05ParkedStopperCase(r *vlib.Rand, idx int) *c05Spec {
	sp := &c05Spec{Limit: 64, StopTimeoutMs: c05StopTimeoutMs, StopVia: "shutdown"}
	point := "modules.stop.cancelled"
	if idx%2 == 1 {
		point = "modules.stop.flagged"
	}
	sp.Class = "pair:all-work-ends-while-stopper-parked-at-" + point[len("modules.stop."):] + ":blocking"
	dep := &c05Mod{Name: "m0", StopDelayMs: 0}
	dep.Items = append(dep.Items, &c05Item{ID: "m0-w", Kind: kWorker, Settled: true, Wait: "ctx", Cycle: 1})
	ms := &c05Mod{Name: "ma", Deps: []string{"m0"}, StopDelayMs: vlib.Pick(r, 50, 70, 100)}
	n := r.Range(1, 3)
	for j := 0; j < n; j++ {
		it := &c05Item{ID: fmt.Sprintf("k%d", j), Kind: vlib.Pick(r, kWorkerRun, kWorkerRun, "mt_run_med", "mt_run_high", "mt_run_low"), Settled: true, Wait: "latch", Latch: point + "|ma", Cycle: 1}
		ms.Items = append(ms.Items, it)
		sp.Hooks = append(sp.Hooks, &hookRule{Point: point, Subject: "ma", Mode: "until", Until: "item.ret|" + it.ID, MaxMs: 4000})
	}
	sp.Hooks[len(sp.Hooks)-1].AfterUs = vlib.Pick(r, 0, 200, 1000)
	sp.Mods = []*c05Mod{ms, dep}
	if r.Chance(1, 3) {
		sp.Mgmt, sp.StopVia, sp.Disable = true, "manage", []string{"ma"}
	}
	return sp
}

// c05StragglerCase (several lives): the first stop of ma (by a management pass) runs into
// a small stop timeout because one item only returns when the modules.stop.timeout hook
// fired; it returns afterwards; ma is started again by the next pass; items of the same
// counter family are running at the next stop (or nothing is). The later stop must wait
// for them (P2) and must not wait for anything else (P3).
func c05StragglerCase(r *vlib.Rand) *c05Spec {
	sp := &c05Spec{Class: "stragglers:", Limit: 64, StopTimeoutMs: 300, StopTimeoutMs2: c05StopTimeoutMs, SlowStop: true,
		Mgmt: true, StopVia: "manage", Disable: []string{"ma"}, Restart: true}
	dep := &c05Mod{Name: "m0", StopDelayMs: 0}
	dep.Items = append(dep.Items, &c05Item{ID: "m0-w", Kind: kWorker, Settled: true, Wait: "ctx", Cycle: 1})
	ms := &c05Mod{Name: "ma", Deps: []string{"m0"}, StopDelayMs: vlib.Pick(r, 0, 1)}
	fam := r.Intn(3)
	slowKind := []string{kWorkerRun, "mt_run_med", kTaskQ}[fam]
	sp.Class += []string{"worker", "microtask", "task"}[fam]
	ms.Items = append(ms.Items, &c05Item{ID: "slow0", Kind: slowKind, Settled: true, Wait: "latch", Latch: "modules.stop.timeout|ma", LingerMs: vlib.Pick(r, 0, 1, 5), Cycle: 1})
	ms.Items = append(ms.Items, &c05Item{ID: "ma-c1", Kind: kWorker, Settled: true, Wait: "ctx", Cycle: 1})
	if r.Chance(3, 4) {
		next := [][]string{{kWorker, kWorkerRun, kSvc}, {"mt_start_med", "mt_run_low", "mt_sig_high", "mt_start_high"}, {kTaskQ, kTaskA}}[fam]
		n := r.Range(1, 2)
		if fam == 2 {
			n = 1
		}
		for j := 0; j < n; j++ {
			ms.Items = append(ms.Items, &c05Item{ID: fmt.Sprintf("ma-n%d", j), Kind: vlib.Pick(r, next...), Settled: true, Wait: "ctx", LingerMs: vlib.Pick(r, 20, 40, 60), Cycle: 2, DoneCalls: 1})
		}
	} else {
		sp.Class += "+idle-next-life"
	}
	sp.Mods = []*c05Mod{ms, dep}
	return sp
}

// c05HookWindowCase: an event is triggered on a module that is already offline while a
// module that hooks the event (and does not depend on the source) is still online: the
// source and mx stop first during Shutdown, mh (a dependency of mx) stays online until
// mx's slow stop routine - which triggers the event - has returned.
func c05HookWindowCase(r *vlib.Rand) *c05Spec {
	sp := &c05Spec{Class: "hookwindow", Limit: 64, StopTimeoutMs: c05StopTimeoutMs, StopVia: "shutdown", Mgmt: r.Bool()}
	src := &c05Mod{Name: "ms", StopDelayMs: 0, StopNil: r.Chance(1, 3)}
	if r.Bool() {
		src.Items = append(src.Items, &c05Item{ID: "ms-w", Kind: kWorker, Settled: true, Wait: "ctx", Cycle: 1})
	}
	mh := &c05Mod{Name: "mh", StopDelayMs: 0}
	mh.Items = append(mh.Items, &c05Item{ID: "mh-w", Kind: kWorker, Settled: true, Wait: "ctx", Cycle: 1})
	mx := &c05Mod{Name: "mx", Deps: []string{"mh"}, StopDelayMs: vlib.Pick(r, 10, 30), TriggerOnStopped: "ms"}
	sp.Mods = []*c05Mod{src, mh, mx}
	return sp
}

// c05SlowChainCase: a dependency chain of 4-6 modules whose stops are necessarily
// sequential; at every level work returns only 0.6 x stop timeout after it was cancelled
// (within the timeout), so the whole Shutdown takes several stop timeouts. Shutdown may
// only return when all of it has returned.
func c05SlowChainCase(r *vlib.Rand) *c05Spec {
	sp := &c05Spec{Class: "slowchain", Limit: 64, StopTimeoutMs: 500, StopVia: "shutdown", Mgmt: r.Chance(1, 3)}
	n := r.Range(4, 6)
	for i := 0; i < n; i++ {
		ms := &c05Mod{Name: fmt.Sprintf("c%d", i), StopDelayMs: vlib.Pick(r, 0, 1, 5)}
		if i > 0 {
			ms.Deps = []string{fmt.Sprintf("c%d", i-1)}
		}
		k := r.Range(1, 2)
		for j := 0; j < k; j++ {
			ms.Items = append(ms.Items, &c05Item{ID: fmt.Sprintf("c%d-i%d", i, j), Kind: vlib.Pick(r, kWorker, kWorkerRun, kSvc, "mt_start_med", "mt_sig_high", kHook),
				Settled: true, Wait: "ctx", LingerMs: 300 - 40*j, Cycle: 1, DoneCalls: 1, SrcMod: ms.Name})
		}
		sp.Mods = append(sp.Mods, ms)
	}
	return sp
}

// c05NotifyManagesCase: module management whose change-notify function calls
// ManageModules() (the documented way to use it); ma is stopped by a management pass while
// its items are running, optionally started and stopped again. All of the user's work
// returns promptly, so the stop has to complete without the stop timeout.
func c05NotifyManagesCase(r *vlib.Rand) *c05Spec {
	sp := &c05Spec{Class: "notifymanages", Limit: 64, StopTimeoutMs: c05StopTimeoutMs, Mgmt: true, NotifyManages: true, StopVia: "manage", Disable: []string{"ma"}, Restart: r.Chance(1, 3)}
	dep := &c05Mod{Name: "m0", StopDelayMs: 0}
	dep.Items = append(dep.Items, &c05Item{ID: "m0-w", Kind: kWorker, Settled: true, Wait: "ctx", Cycle: 1})
	ms := &c05Mod{Name: "ma", Deps: []string{"m0"}, StopDelayMs: vlib.Pick(r, 0, 1, 5), StopNil: r.Chance(1, 4)}
	n := r.Range(1, 4)
	for j := 0; j < n; j++ {
		ms.Items = append(ms.Items, &c05Item{ID: fmt.Sprintf("ma-i%d", j), Kind: vlib.Pick(r, kWorker, kWorkerRun, kSvc, "mt_start_med", "mt_run_low", "mt_sig_high"), Settled: true,
			Wait: "ctx", LingerMs: vlib.Pick(r, 0, 1, 5, 20), Cycle: 1, DoneCalls: 1})
	}
	if sp.Restart {
		ms.Items = append(ms.Items, &c05Item{ID: "ma-c2", Kind: kWorker, Settled: true, Wait: "ctx", LingerMs: 1, Cycle: 2})
	}
	sp.Mods = []*c05Mod{ms, dep}
	return sp
}

// The next three classes put something that the stop path merely depends on between the
// return of the user's work and the completion of the stop. The stop timeout is shortened
// to 2 s, the verdict is P3: the stop may not end through modules.stop.timeout when the
// stop routine and every work item had returned long before.

// c05ReportBusyCase: an error reporting channel that nobody reads is installed and work
// items of ma panic when they are cancelled (the panic is reported before the item is
// taken off the module's counter).
func c05ReportBusyCase(r *vlib.Rand) *c05Spec {
	sp := &c05Spec{Class: "reportbusy", Limit: 64, StopTimeoutMs: 2000, StopVia: "shutdown", ReportChan: true}
	dep := &c05Mod{Name: "m0", StopDelayMs: 0}
	dep.Items = append(dep.Items, &c05Item{ID: "m0-w", Kind: kWorker, Settled: true, Wait: "ctx", Cycle: 1})
	ms := &c05Mod{Name: "ma", Deps: []string{"m0"}, StopDelayMs: vlib.Pick(r, 0, 1, 5), StopErr: r.Chance(1, 3)}
	n := r.Range(1, 3)
	for j := 0; j < n; j++ {
		ms.Items = append(ms.Items, &c05Item{ID: fmt.Sprintf("ma-p%d", j), Kind: vlib.Pick(r, kWorker, kWorkerRun, kSvc, "mt_start_med", "mt_run_low", kHook), Settled: true,
			Wait: "ctx", LingerMs: vlib.Pick(r, 0, 1, 5), Cycle: 1, PanicAtEnd: true, SrcMod: "ma"})
	}
	ms.Items = append(ms.Items, &c05Item{ID: "ma-w", Kind: kWorker, Settled: true, Wait: "ctx", LingerMs: 1, Cycle: 1})
	sp.Mods = []*c05Mod{ms, dep}
	if r.Chance(1, 3) {
		sp.Mgmt, sp.StopVia, sp.Disable = true, "manage", []string{"ma"}
	}
	return sp
}

// c05SvcBackoffCase: a service worker's function returns an error right before the stop,
// so the worker sits in a 6 s back-off when its module is stopped.
func c05SvcBackoffCase(r *vlib.Rand) *c05Spec {
	sp := &c05Spec{Class: "svcbackoff", Limit: 64, StopTimeoutMs: 2000, StopVia: "shutdown"}
	dep := &c05Mod{Name: "m0", StopDelayMs: 0}
	dep.Items = append(dep.Items, &c05Item{ID: "m0-w", Kind: kWorker, Settled: true, Wait: "ctx", Cycle: 1})
	ms := &c05Mod{Name: "ma", Deps: []string{"m0"}, StopDelayMs: vlib.Pick(r, 0, 1, 5), StopNil: r.Chance(1, 4)}
	// two leading invocations: ErrRestartNow, then a plain error (back-off 1 x 6 s)
	ms.Items = append(ms.Items, &c05Item{ID: "sv0", Kind: kSvc, Settled: false, Wait: "ctx", Restarts: 2, BackoffMs: 6000, Cycle: 1})
	if r.Bool() {
		ms.Items = append(ms.Items, &c05Item{ID: "ma-w", Kind: vlib.Pick(r, kWorker, "mt_start_med"), Settled: true, Wait: "ctx", LingerMs: vlib.Pick(r, 0, 1, 5), Cycle: 1})
	}
	sp.Mods = []*c05Mod{ms, dep}
	sp.WaitHit = "item.pre|sv0#1"
	if r.Chance(1, 3) {
		sp.Mgmt, sp.StopVia, sp.Disable = true, "manage", []string{"ma"}
	}
	return sp
}

// c05StopPanicCase: the stop routine panics and is the last thing of the module to end.
func c05StopPanicCase(r *vlib.Rand) *c05Spec {
	sp := &c05Spec{Class: "stoppanic", Limit: 64, StopTimeoutMs: 2000, StopVia: "shutdown"}
	dep := &c05Mod{Name: "m0", StopDelayMs: 0}
	dep.Items = append(dep.Items, &c05Item{ID: "m0-w", Kind: kWorker, Settled: true, Wait: "ctx", Cycle: 1})
	ms := &c05Mod{Name: "ma", Deps: []string{"m0"}, StopDelayMs: vlib.Pick(r, 20, 40), StopPanic: true}
	n := r.Range(0, 3)
	for j := 0; j < n; j++ {
		ms.Items = append(ms.Items, &c05Item{ID: fmt.Sprintf("ma-i%d", j), Kind: vlib.Pick(r, kWorker, kWorkerRun, kSvc, "mt_start_med", "mt_sig_high"), Settled: true,
			Wait: "ctx", LingerMs: vlib.Pick(r, 0, 1, 5), Cycle: 1, DoneCalls: 1})
	}
	sp.Mods = []*c05Mod{ms, dep}
	if r.Chance(1, 3) {
		sp.Mgmt, sp.StopVia, sp.Disable = true, "manage", []string{"ma"}
	}
	return sp
}

// c05FailureFnCase: a failure-update notify function (SetFailureUpdateNotifyFunc) is
// registered and ma has a failure status set; from the moment the stop is triggered the
// function blocks until the harness releases it, which it only does after Shutdown has
// returned (or was found stuck). Reporting failure states is not work of the module's
// start cycle: the stop has to complete without it.
func c05FailureFnCase(r *vlib.Rand) *c05Spec {
	sp := &c05Spec{Class: "failurefn", Limit: 64, StopTimeoutMs: c05StopTimeoutMs, StopVia: "shutdown", FailureFn: true}
	dep := &c05Mod{Name: "m0", StopDelayMs: 0}
	dep.Items = append(dep.Items, &c05Item{ID: "m0-w", Kind: kWorker, Settled: true, Wait: "ctx", Cycle: 1})
	ms := &c05Mod{Name: "ma", Deps: []string{"m0"}, StopDelayMs: vlib.Pick(r, 0, 1, 5)}
	n := r.Range(1, 3)
	for j := 0; j < n; j++ {
		ms.Items = append(ms.Items, &c05Item{ID: fmt.Sprintf("ma-i%d", j), Kind: vlib.Pick(r, kWorker, kWorkerRun, kSvc, "mt_start_med"), Settled: true, Wait: "ctx", LingerMs: vlib.Pick(r, 0, 1, 5), Cycle: 1})
	}
	sp.Mods = []*c05Mod{ms, dep}
	return sp
}
