package main

import "verifharness/internal/vlib"

func c15Parent(cfg vlib.Cfg)          {}
func c15Child(dir string, raw []byte) {}
