package main

import (
	"context"
	"encoding/json"
	"errors"
	"fmt"
	"os"
	"path/filepath"
	"runtime"
	"sort"
	"strings"
	"sync"
	"sync/atomic"
	"time"

	plog "github.com/safing/portbase/log"
	"github.com/safing/portbase/modules"
	"github.com/safing/portbase/utils/vhook"

	"verifharness/internal/vlib"
)

// C15 — microtask concurrency limit, exactly-once execution, accounting.
//
// One child = one started module system; several short histories run in it, each
// followed by a logical quiescence fence (see fence()). The oracles run in the child
// (the event volume is large) and are reported through a vlib.Batch.

// ---------------------------------------------------------------------------------
// scenario

type c15Spec struct {
	Prop  string      `json:"prop"`
	Case  int         `json:"case"`
	Seed  uint64      `json:"seed"`
	Limit int         `json:"limit"`
	Mods  int         `json:"mods"`
	Hists []*c15Hist  `json:"hists"`
	Hooks []*hookRule `json:"hooks,omitempty"`
	// GoMaxProcs > 0: the child runs with GOMAXPROCS=<n>. portbase sizes its clearance
	// queues at package init (100*GOMAXPROCS requests); the overflow classes shrink them.
	GoMaxProcs int `json:"gomaxprocs,omitempty"`
	// ParkCheck: after the histories, two rounds of "all slots taken by gated functions that
	// finish at the same moment, then a fresh microtask" (see parkCheck).
	ParkCheck bool `json:"park_check,omitempty"`
	// Restart: module management is on; after the histories module w0 is stopped by a
	// management pass while Run* functions of it are running (M2 at a module stop), gets
	// microtasks while it is offline, is started again while they run, and they finish in
	// its next life (M3/M4 across lives), see restartCheck.
	Restart bool `json:"restart,omitempty"`
	// SetProcs > 0: the child calls runtime.GOMAXPROCS(SetProcs) first of all - before it
	// configures the microtask limit and before modules.Start()
	SetProcs int `json:"set_procs,omitempty"`
	// EarlyPanics > 0: before modules.Start() (the logging system is not started yet) that
	// many high-priority Run* microtasks panic one after the other; every one logs an
	// error line from portbase's recovery handler. Each call has to return its panic.
	EarlyPanics int `json:"early_panics,omitempty"`
	// LogFlood: see logFloodCheck
	LogFlood bool `json:"log_flood,omitempty"`
}

type c15Hist struct {
	Class      string     `json:"class"` // m1: max delays never expire, the limit is asserted | tiny: tiny max delays, only M2-M4
	Submitters int        `json:"submitters"`
	Tasks      []*c15Task `json:"tasks"`
}

type c15Task struct {
	ID         int    `json:"id"`
	Sub        int    `json:"sub"`
	Mod        int    `json:"mod"`
	Variant    string `json:"v"` // run | start | sig
	Prio       string `json:"p"` // high | med | low
	RunUs      int    `json:"us"`
	Panic      bool   `json:"panic,omitempty"`
	Err        bool   `json:"err,omitempty"`
	DoneCalls  int    `json:"done,omitempty"`
	DoneConc   bool   `json:"done_conc,omitempty"`
	MaxDelayMs int    `json:"maxdelay_ms"`
	Hold       bool   `json:"hold,omitempty"`       // saturation phase: stays until `limit` such tasks run at the same time
	PanicKind  string `json:"panic_kind,omitempty"` // what a panicking function panics with: "" (a string) | nil-pointer-error | panicking-error | panicking-stringer
	NilMod     bool   `json:"nil_module,omitempty"` // the call is made on a nil *modules.Module: refused, function not run, accounting untouched
	Phase      int    `json:"phase,omitempty"`      // overflow classes: 1 = slot holder (gated), 2 = fills the clearance queue, 3 = submitted while the queue is full
}

const c15BigDelayMs = 30000

func c15Cases(cfg vlib.Cfg) []*c15Spec {
	n := cfg.N(160, 5000)
	var out []*c15Spec
	for i := 0; i < n; i++ {
		r := vlib.NewRand(cfg.Seed, "C15/case", uint64(i))
		sp := &c15Spec{Prop: "C15", Case: i, Seed: cfg.Seed, Limit: []int{2, 3, 4, 8, 32}[i%5], Mods: r.Range(1, 3)}
		nh := 3
		id := 0
		for hI := 0; hI < nh; hI++ {
			h := &c15Hist{Class: "m1", Submitters: vlib.Pick(r, 1, 2, 4, 8, 16)}
			if (i+hI)%4 == 3 {
				h.Class = "tiny"
			}
			nt := vlib.Pick(r, 10, 30, 60, 120, 250, 400)
			withHigh := r.Chance(1, 2)
			panicPm := vlib.Pick(r, 0, 0, 30, 100)
			holds := 0
			for k := 0; k < nt; k++ {
				t := &c15Task{ID: id, Sub: r.Intn(h.Submitters), Mod: r.Intn(sp.Mods), Variant: vlib.Pick(r, "run", "run", "start", "start", "sig"),
					Prio: vlib.Pick(r, "med", "med", "low", "low", "high"), RunUs: vlib.Pick(r, 0, 0, 100, 100, 1000, 5000), MaxDelayMs: c15BigDelayMs}
				id++
				if t.Prio == "high" && !withHigh {
					t.Prio = "med"
				}
				if nt >= 250 && t.RunUs == 5000 {
					t.RunUs = 1000
				}
				if t.Variant != "sig" {
					t.Panic = r.Intn(1000) < panicPm
					t.Err = !t.Panic && r.Chance(1, 5)
					if t.Panic && t.Variant == "run" && r.Chance(1, 2) {
						// panic values whose own Error()/String() method panics (only on the
						// blocking variants: an escaping panic can be contained per call there)
						t.PanicKind = vlib.Pick(r, "nil-pointer-error", "panicking-error", "panicking-stringer")
					}
				} else {
					t.DoneCalls = r.Range(1, 3)
					t.DoneConc = r.Bool()
				}
				if h.Class == "tiny" {
					t.MaxDelayMs = vlib.Pick(r, 0, 1, 1, 2, 5) // 0 = portbase default for Run*/Start* (1s / 3s); expires immediately for Signal*
					if t.Variant == "sig" && t.MaxDelayMs == 0 {
						t.MaxDelayMs = 1
					}
				}
				if h.Class == "m1" && t.Prio != "high" && holds < sp.Limit && nt >= sp.Limit+2 && !t.Panic {
					t.Hold = true
					holds++
				}
				h.Tasks = append(h.Tasks, t)
			}
			if holds < sp.Limit {
				for _, t := range h.Tasks {
					t.Hold = false
				}
			}
			sp.Hists = append(sp.Hists, h)
		}
		if i%40 == 9 || i%40 == 29 {
			// overflow class (first history of the child): limit 2, both slots held, more
			// requests than a clearance queue holds, then submissions with a tiny max
			// delay that cannot even queue their request
			prio := "low"
			if i%40 == 29 {
				prio = "med"
			}
			sp.Limit, sp.GoMaxProcs, sp.Mods = 2, 2, 2
			sp.Hists[0] = c15OverflowHist(r, sp, prio, &id)
			sp.Hists[1].Class = "m1"
			c15Renumber(sp)
		}
		if i%80 == 10 {
			// a signalled microtask whose done() comes late (6.5 s) while the limit is
			// reached and further submissions with 30 s max delays are waiting
			sp.Limit = []int{2, 3}[(i/80)%2]
			ls := &c15Hist{Class: "longsignal", Submitters: 1}
			ls.Tasks = append(ls.Tasks, &c15Task{Mod: 0, Variant: "sig", Prio: vlib.Pick(r, "med", "low"), RunUs: 6500000, MaxDelayMs: c15BigDelayMs, DoneCalls: 2, Phase: 5})
			for k := 0; k < sp.Limit-1; k++ {
				ls.Tasks = append(ls.Tasks, &c15Task{Mod: k % sp.Mods, Variant: "run", Prio: "med", MaxDelayMs: c15BigDelayMs, Phase: 4})
			}
			for k := 0; k < 4; k++ {
				ls.Tasks = append(ls.Tasks, &c15Task{Mod: r.Intn(sp.Mods), Variant: vlib.Pick(r, "start", "run"), Prio: vlib.Pick(r, "med", "low"), RunUs: 100, MaxDelayMs: c15BigDelayMs, Phase: 6})
			}
			sp.Hists = append(sp.Hists, ls)
			c15Renumber(sp)
		}
		if sp.GoMaxProcs == 0 && i%3 == 0 {
			sp.SetProcs = []int{3, 24, 6, 40}[(i/3)%4] // below and above the value at package init
		}
		if sp.GoMaxProcs == 0 && i%4 == 2 {
			sp.EarlyPanics = 1100 // more than the 1024 lines any of portbase's log buffers holds
		}
		sp.LogFlood = sp.GoMaxProcs == 0 && i%8 == 3
		sp.ParkCheck = sp.GoMaxProcs == 0 && i%4 == 1
		sp.Restart = sp.GoMaxProcs == 0 && i%8 == 6
		if i%4 == 3 && sp.GoMaxProcs == 0 {
			// one refused call on a nil module per history, at a PRNG-chosen position
			for _, h := range sp.Hists {
				t := h.Tasks[r.Intn(len(h.Tasks))]
				if !t.Hold && !t.Panic {
					t.NilMod = true
					if t.Variant == "start" { // Start* on a nil module is not driven (see report)
						t.Variant = "run"
					}
				}
			}
		}
		// amplifiers: hooks idle / PRNG delays at the grant and conclude points
		switch i % 3 {
		case 1:
			sp.Hooks = append(sp.Hooks, &hookRule{Point: "modules.mt.granted", Mode: "delay", DelayUs: vlib.Pick(r, 0, 20, 100, 500), Permil: vlib.Pick(r, 100, 300, 1000)})
		case 2:
			sp.Hooks = append(sp.Hooks, &hookRule{Point: "modules.mt.granted", Mode: "delay", DelayUs: vlib.Pick(r, 0, 50, 200), Permil: vlib.Pick(r, 200, 500)})
			sp.Hooks = append(sp.Hooks, &hookRule{Point: "modules.mt.conclude", Mode: "delay", DelayUs: vlib.Pick(r, 0, 50, 200, 1000), Permil: vlib.Pick(r, 100, 300, 1000)})
		}
		out = append(out, sp)
	}
	return out
}

func c15OverflowHist(r *vlib.Rand, sp *c15Spec, prio string, id *int) *c15Hist {
	h := &c15Hist{Class: "overflow-" + prio, Submitters: 1}
	q := sp.GoMaxProcs * 100
	add := func(t *c15Task) { h.Tasks = append(h.Tasks, t) }
	for k := 0; k < 2; k++ {
		add(&c15Task{Mod: k % sp.Mods, Variant: "start", Prio: "med", MaxDelayMs: c15BigDelayMs, Phase: 1})
	}
	for k := 0; k < q+20; k++ {
		add(&c15Task{Mod: r.Intn(sp.Mods), Variant: "start", Prio: prio, RunUs: vlib.Pick(r, 0, 100), MaxDelayMs: 400, Phase: 2})
	}
	for k := 0; k < q+60; k++ {
		t := &c15Task{Mod: r.Intn(sp.Mods), Variant: "start", Prio: prio, RunUs: vlib.Pick(r, 0, 100, 1000), MaxDelayMs: 1, Phase: 3}
		if k%10 == 0 {
			t.Variant = "run"
			t.Err = r.Bool()
		}
		add(t)
	}
	return h
}

// c15Renumber gives the tasks of a case consecutive ids again.
func c15Renumber(sp *c15Spec) {
	id := 0
	for _, h := range sp.Hists {
		holds := 0
		for _, t := range h.Tasks {
			t.ID = id
			t.Mod %= sp.Mods
			id++
			if t.Hold { // the saturation phase was laid out for the case's original limit
				if holds >= sp.Limit {
					t.Hold = false
				}
				holds++
			}
		}
	}
}

// ---------------------------------------------------------------------------------
// child

type c15Ev struct {
	Seq  uint64 `json:"seq"`
	Kind string `json:"k"` // begin | end
	Cls  string `json:"cls"`
	ID   int    `json:"id"`
}

type probeSample struct {
	global int32
	perMod []int32
	// a modules.mt.recheck event lies between the probe's submission and the begin of its function
	recheckBetween bool
}

type c15H struct {
	dir  string
	sp   *c15Spec
	b    *vlib.Batch
	mods []*modules.Module
	prb  *modules.Module

	granted   atomic.Int64 // modules.mt.granted hits (= clearances given by the regular scheduler)
	maxdelay  atomic.Int64 // modules.mt.maxdelay hits
	timeouts  atomic.Int64 // modules.stop.timeout hits
	submitted atomic.Int64 // medium/low submissions made by the harness (each puts one request into a clearance queue)
	concluded atomic.Int64 // modules.mt.conclude hits (module counter already decremented, global counter about to be)
	expConcl  atomic.Int64 // microtasks submitted by the harness (each concludes exactly once)

	probeArmed atomic.Pointer[chan probeSample]
	drainMode  bool // set by an overflow history: the number of queued requests is unknown from then on, fences drain the queues instead of counting

	rechecks        atomic.Int64 // modules.mt.recheck hits: the scheduler, parked because all slots were taken, was woken by its 1 s ticker
	forceConclDelay atomic.Bool  // parkCheck: every conclusion stays 2 ms at modules.mt.conclude
	afterShutdown   atomic.Int32 // functions submitted by the probe module's stop routine that have run

	prepGate chan struct{}
	prepWg   sync.WaitGroup

	preWg        sync.WaitGroup // microtasks submitted before modules.Start()
	preN         int
	preUncleared atomic.Int64

	firstTimeoutT   atomic.Int64 // unix nanos of the first modules.stop.timeout hit
	firstTimeoutMod atomic.Value // module name of it

	emu sync.Mutex
	seq uint64
	evs []c15Ev

	execs []atomic.Int32 // per task id
}

var errC15 = errors.New("harness microtask error")

// panic values whose own methods panic when they are asked for a message
type panickingError struct{ id int }

func (e panickingError) Error() string { panic(fmt.Sprintf("Error() of panic value %d panics", e.id)) }

type panickingStringer struct{ id int }

func (e panickingStringer) String() string {
	panic(fmt.Sprintf("String() of panic value %d panics", e.id))
}

func panicValueOf(t *c15Task) any {
	switch t.PanicKind {
	case "nil-pointer-error":
		var e error = (*os.PathError)(nil) // Error() dereferences the nil receiver
		return e
	case "panicking-error":
		return panickingError{t.ID}
	case "panicking-stringer":
		return panickingStringer{t.ID}
	}
	return fmt.Sprintf("harness panic %d", t.ID)
}

func (h *c15H) rec(kind, cls string, id int) {
	h.emu.Lock()
	h.seq++
	h.evs = append(h.evs, c15Ev{h.seq, kind, cls, id})
	h.emu.Unlock()
}

func c15Child(dir string, raw []byte) {
	var sp c15Spec
	if err := json.Unmarshal(raw, &sp); err != nil {
		fmt.Println("bad spec:", err)
		os.Exit(3)
	}
	h := &c15H{dir: dir, sp: &sp, b: vlib.NewBatch(), prepGate: make(chan struct{})}
	total := 0
	for _, hs := range sp.Hists {
		total += len(hs.Tasks)
	}
	h.execs = make([]atomic.Int32, total)

	go func() { // internal watchdog: leave a goroutine dump
		time.Sleep(170 * time.Second)
		buf := make([]byte, 1<<20)
		buf = buf[:runtime.Stack(buf, true)]
		_ = os.WriteFile(filepath.Join(dir, "hang-goroutines.txt"), buf, 0o644)
		fmt.Fprintln(os.Stderr, "c15 child wedged")
		os.Exit(4)
	}()

	hs := &hookSet{log: vlib.NewLog(), lat: newLatches(), rules: sp.Hooks, rnd: vlib.NewRand(sp.Seed, "c15/hookdelay", uint64(sp.Case)),
		record: func(string, string, string) bool { return false }}
	vhook.Set("modules.mt.granted", func(p, s string) {
		if ch := h.probeArmed.Swap(nil); ch != nil {
			// the probe's clearance: everything granted before it has been counted, the
			// probe itself is neither counted nor concluded yet
			smp := probeSample{global: modules.VerifMicroTasks()}
			for _, m := range h.mods {
				_, _, mt := m.VerifModuleCounts()
				smp.perMod = append(smp.perMod, mt)
			}
			*ch <- smp
		}
		h.granted.Add(1)
		hs.handle(p, s)
	})
	vhook.Set("modules.mt.conclude", func(p, s string) {
		h.concluded.Add(1)
		if h.forceConclDelay.Load() {
			time.Sleep(2 * time.Millisecond)
		}
		hs.handle(p, s)
	})
	vhook.Set("modules.mt.recheck", func(p, s string) { h.rechecks.Add(1) })
	vhook.Set("modules.mt.maxdelay", func(p, s string) { h.maxdelay.Add(1) })
	vhook.Set("modules.stop.timeout", func(p, s string) {
		if h.timeouts.Add(1) == 1 {
			h.firstTimeoutMod.Store(s)
			h.firstTimeoutT.Store(time.Now().UnixNano())
		}
	})

	if sp.SetProcs > 0 {
		runtime.GOMAXPROCS(sp.SetProcs)
	}
	modules.VerifSetStopTimeout(8 * time.Second)
	modules.SetStdErrReporting(false)
	for i := 0; i < sp.Mods; i++ {
		var prep func() error
		if i == 0 {
			prep = h.prepW0
		}
		h.mods = append(h.mods, modules.Register(fmt.Sprintf("w%d", i), prep, nil, nil))
	}
	h.prb = modules.Register("probe", nil, nil, h.prbStop)
	modules.SetMaxConcurrentMicroTasks(sp.Limit)
	if sp.Restart {
		modules.EnableModuleManagement(func(*modules.Module) {})
		for _, m := range h.mods {
			m.Enable()
		}
		h.prb.Enable()
	}
	if sp.EarlyPanics > 0 && !h.earlyPanics() {
		return
	}
	h.preStart()
	if err := modules.Start(); err != nil {
		h.b.Inconclusive("case %d: modules.Start failed: %v", sp.Case, err)
		h.b.Finish(dir)
		return
	}
	// the microtasks the prep function of w0 started have been running across the module's
	// first start; they finish now, in its first life
	close(h.prepGate)
	h.prepWg.Wait()
	if st := modules.GetStatus(); st == nil || st.Config.MicroTasksThreshhold != sp.Limit {
		got := -1
		if st != nil {
			got = st.Config.MicroTasksThreshhold
		}
		h.b.Violation("C15:limit-not-configured", fmt.Sprintf("SetMaxConcurrentMicroTasks(%d) was called before modules.Start(), after Start GetStatus reports a limit of %d (GOMAXPROCS set to %d before)", sp.Limit, got, sp.SetProcs),
			map[string]any{"spec_limit": sp.Limit, "reported": got, "set_procs": sp.SetProcs})
	}
	ok := h.judgePreStart()
	if ok {
		// (prep-started microtasks finished in the first life of w0)
		ok = h.settle("after-first-start") && h.moduleCountsZero("after-first-start")
	}
	for i, hist := range sp.Hists {
		if !ok {
			break
		}
		if !h.runHist(i, hist) {
			ok = false
			break
		}
	}
	if ok && sp.LogFlood {
		ok = h.logFloodCheck()
	}
	if ok {
		ok = h.repeatedPanicCheck(dir)
	}
	if ok && sp.Restart {
		ok = h.restartCheck()
	}
	if ok && sp.ParkCheck {
		ok = h.parkCheck()
	}
	if ok {
		// M4 (second half): stopping the modules is not held up - neither when nothing
		// runs any more nor when a microtask is the last thing of a module to finish
		fl := h.launchInFlight()
		done := make(chan error, 1)
		go func() { done <- modules.Shutdown() }()
		select {
		case <-done:
			h.judgeShutdown(fl)
			h.afterShutdownAccounting()
		case <-time.After(60 * time.Second):
			h.b.Inconclusive("case %d: Shutdown did not return within 60s", sp.Case)
		}
		// late duplicates
		for id := range h.execs {
			if n := h.execs[id].Load(); n != 1 {
				if t := h.task(id); t != nil && t.Variant != "sig" && !t.NilMod {
					h.b.Violation("C15:M2:executed-"+cnt(n)+":"+t.Variant+"-"+t.Prio, fmt.Sprintf("microtask function %d executed %d times (checked after shutdown)", id, n), map[string]any{"task": t})
				}
			}
		}
	}
	h.b.Finish(dir)
}

// across launches one microtask of each kind on module m whose function stays until gate
// is closed, and returns when all of them have begun (are counted). Used for microtasks
// that run across a (re)start of their module: two medium/low ones (the limit is at least
// two) and two high-priority ones.
func (h *c15H) across(m *modules.Module, gate chan struct{}, wg *sync.WaitGroup) {
	var begun atomic.Int32
	big := c15BigDelayMs * time.Millisecond
	fn := func(context.Context) error {
		defer wg.Done()
		begun.Add(1)
		<-gate
		return nil
	}
	wg.Add(4)
	h.submitted.Add(2)
	h.expConcl.Add(4)
	m.StartMicroTask("across", big, fn)
	go func() { _ = m.RunLowPriorityMicroTask("across", big, fn) }()
	// (high-priority microtasks count against the limit too: the medium/low ones first)
	for dl := time.Now().Add(10 * time.Second); begun.Load() < 2 && time.Now().Before(dl); {
		time.Sleep(100 * time.Microsecond)
	}
	m.StartHighPriorityMicroTask("across", fn)
	go func() {
		done := m.SignalHighPriorityMicroTask()
		_ = fn(nil)
		done()
	}()
	for dl := time.Now().Add(10 * time.Second); begun.Load() < 4 && time.Now().Before(dl); {
		time.Sleep(100 * time.Microsecond)
	}
	h.b.Count("microtasks_running_across_a_module_start", int64(begun.Load()))
}

// prepW0 is the prep function of module w0: it starts microtasks that are still running
// when the module is started for the first time.
func (h *c15H) prepW0() error {
	h.across(h.mods[0], h.prepGate, &h.prepWg)
	return nil
}

// restartCheck (module management on): (1) Run* functions of w0 are running when w0 is
// stopped by a management pass and return their context's error, an error wrapping it, or
// another error: Run* must hand back exactly that error (M2). (2) w0 gets microtasks while
// it is offline, is started again by the next pass while they run, and they finish in its
// new life: afterwards its count and the global count are zero (M3); the later stop of w0
// at Shutdown must not be held up (M4, judged there).
func (h *c15H) restartCheck() bool {
	sp := h.sp
	m := h.mods[0]
	big := c15BigDelayMs * time.Millisecond
	wrapped := fmt.Errorf("harness wrap: %w", context.Canceled)
	type res struct {
		kind     string
		got, exp error
	}
	results := make(chan res, 3)
	launch := func(kind string) {
		begun := make(chan struct{})
		var exp error
		fn := func(ctx context.Context) error {
			close(begun)
			<-ctx.Done()
			switch kind {
			case "ctx-err":
				exp = ctx.Err()
			case "wrapped-canceled":
				exp = wrapped
			default:
				exp = errC15
			}
			return exp
		}
		h.expConcl.Add(1)
		go func() {
			var err error
			switch kind {
			case "ctx-err":
				h.submitted.Add(1)
				err = m.RunMicroTask("stopping", big, fn)
			case "wrapped-canceled":
				h.submitted.Add(1)
				err = m.RunLowPriorityMicroTask("stopping", big, fn)
			default:
				err = m.RunHighPriorityMicroTask("stopping", fn)
			}
			results <- res{kind, err, exp}
		}()
		select {
		case <-begun:
		case <-time.After(20 * time.Second):
		}
	}
	launch("ctx-err")
	launch("wrapped-canceled")
	launch("other-error")
	m.Disable()
	_ = modules.ManageModules() // stops w0: cancels its context and waits for the three
	for i := 0; i < 3; i++ {
		select {
		case r := <-results:
			h.b.Count("run_errors_checked_at_module_stop", 1)
			if r.got != r.exp { //nolint:errorlint // identity is what is demanded
				h.b.Violation("C15:M2:error-not-returned:module-stopping:"+r.kind, fmt.Sprintf("a Run* microtask function that was running when its module was stopped returned %q, Run* returned %v", r.exp, r.got),
					map[string]any{"spec": h.specNoTasks(), "kind": r.kind})
			}
		case <-time.After(30 * time.Second):
			h.b.Inconclusive("case %d: restart check: a Run* call did not return after its module was stopped", sp.Case)
			return false
		}
	}
	// microtasks started while w0 is offline, running across its restart
	gate := make(chan struct{})
	var wg sync.WaitGroup
	h.across(m, gate, &wg)
	m.Enable()
	_ = modules.ManageModules() // starts w0 again
	close(gate)
	wg.Wait()
	if !h.settle("restart") {
		return false
	}
	h.b.Count("restart_checks", 1)
	return h.moduleCountsZero("restart")
}

// moduleCountsZero takes a probe sample (all conclude hooks have been passed, so the
// module counters are final) and reports a non-zero module counter.
func (h *c15H) moduleCountsZero(where string) bool {
	smp, ok := h.probe(-1)
	if !ok {
		return false
	}
	for i, c := range smp.perMod {
		if c != 0 {
			h.b.Violation("C15:M3:module-count-nonzero:"+sign(c)+":"+where, fmt.Sprintf("microtask count of module w%d is %d after all its microtasks had concluded (%s)", i, c, where),
				map[string]any{"spec": h.specNoTasks(), "per_module": smp.perMod})
			return false
		}
	}
	if smp.global < 0 {
		h.b.Violation("C15:M3:global-count-nonzero:negative:"+where, fmt.Sprintf("global microtask count is %d (%s)", smp.global, where), map[string]any{"spec": h.specNoTasks()})
		return false
	}
	return true
}

// inFlight is a microtask that is still running when Shutdown is called: it returns a
// few milliseconds after its module's context was cancelled and is then the last piece
// of work of that module (the modules have no stop routine).
type inFlight struct {
	mod     string
	variant string
	begun   chan struct{}
	endT    atomic.Int64
	// blocking variants: what the function returned and what Run* handed back
	exp, got error
	ret      chan struct{}
}

func (h *c15H) launchInFlight() []*inFlight {
	ml := []string{"run-med", "start-low", "sig-med", "run-low-panic", "sig-low", "start-med", "run-med-panic", "start-low"}
	hp := []string{"start-high", "sig-high", "run-high-panic", "run-high"}
	var out []*inFlight
	for i, m := range h.mods {
		m := m
		f := &inFlight{mod: m.Name, begun: make(chan struct{})}
		if i < 2 { // the limit is at least 2
			f.variant = ml[(h.sp.Case+i*3)%len(ml)]
		} else {
			f.variant = hp[h.sp.Case%len(hp)]
		}
		out = append(out, f)
		fn := func(ctx context.Context) error {
			close(f.begun)
			<-ctx.Done()
			time.Sleep(3 * time.Millisecond)
			f.endT.Store(time.Now().UnixNano())
			if strings.HasSuffix(f.variant, "-panic") {
				panic("harness in-flight panic")
			}
			// the function noticed that its module is being stopped and says so
			switch f.variant {
			case "run-med":
				f.exp = ctx.Err()
			case "run-high":
				f.exp = fmt.Errorf("harness wrap: %w", ctx.Err())
			}
			return f.exp
		}
		big := c15BigDelayMs * time.Millisecond
		f.ret = make(chan struct{})
		switch f.variant {
		case "run-med", "run-med-panic":
			go func() { f.got = m.RunMicroTask("inflight", big, fn); close(f.ret) }()
		case "run-low-panic":
			go func() { f.got = m.RunLowPriorityMicroTask("inflight", big, fn); close(f.ret) }()
		case "run-high", "run-high-panic":
			go func() { f.got = m.RunHighPriorityMicroTask("inflight", fn); close(f.ret) }()
		case "start-med":
			m.StartMicroTask("inflight", big, fn)
		case "start-low":
			m.StartLowPriorityMicroTask("inflight", big, fn)
		case "start-high":
			m.StartHighPriorityMicroTask("inflight", fn)
		default: // signalled
			go func() {
				var done func()
				switch f.variant {
				case "sig-med":
					done = m.SignalMicroTask(big)
				case "sig-low":
					done = m.SignalLowPriorityMicroTask(big)
				default:
					done = m.SignalHighPriorityMicroTask()
				}
				close(f.begun)
				<-m.Stopping()
				time.Sleep(3 * time.Millisecond)
				f.endT.Store(time.Now().UnixNano())
				done()
				done()
			}()
		}
		// one after the other (the medium/low ones come first): each is counted before
		// the next one asks for admission, so all of them fit below the limit
		select {
		case <-f.begun:
		case <-time.After(20 * time.Second):
			h.b.Inconclusive("case %d: in-flight microtask %s on %s was not admitted within 20s", h.sp.Case, f.variant, f.mod)
		}
	}
	return out
}

func (h *c15H) judgeShutdown(fl []*inFlight) {
	for _, f := range fl {
		h.b.Count("stops_with_last_item_microtask:"+f.variant, 1)
		if f.variant == "run-med" || f.variant == "run-high" {
			select {
			case <-f.ret:
				h.b.Count("run_errors_checked_at_module_stop", 1)
				if f.got != f.exp || f.exp == nil { //nolint:errorlint // identity is what is demanded
					h.b.Violation("C15:M2:error-not-returned:module-stopping:"+f.variant, fmt.Sprintf("a Run* microtask function that was running when its module was stopped returned %q, Run* returned %v", f.exp, f.got),
						map[string]any{"spec": h.specNoTasks(), "variant": f.variant})
				}
			case <-time.After(10 * time.Second):
				h.b.Inconclusive("case %d: in-flight %s did not return after Shutdown", h.sp.Case, f.variant)
			}
		}
	}
	if h.timeouts.Load() == 0 {
		h.b.Count("shutdowns_without_timeout", 1)
		return
	}
	mod, _ := h.firstTimeoutMod.Load().(string)
	variant := "none"
	var lastEnd int64
	open := false
	for _, f := range fl {
		if f.mod != mod {
			continue
		}
		variant = f.variant
		if e := f.endT.Load(); e == 0 || e > h.firstTimeoutT.Load() {
			open = true
		} else if e > lastEnd {
			lastEnd = e
		}
	}
	switch {
	case variant == "none":
		h.b.Violation("C15:M4:stop-held-up", "a module stop ran into the stop timeout although every microtask had finished before Shutdown was called",
			map[string]any{"spec": h.specNoTasks(), "module": mod, "timeout_hook_hits": h.timeouts.Load(), "counts": h.counts()})
	case open:
		h.b.Inconclusive("case %d: stop timeout of %s fired while its in-flight microtask had not returned", h.sp.Case, mod)
	default:
		idleMs := (h.firstTimeoutT.Load() - lastEnd) / 1e6
		if idleMs >= 4000 {
			h.b.Violation("C15:M4:stop-held-up-after-last-microtask:"+variant, fmt.Sprintf("the stop of module %s waited out the stop timeout although its last running microtask (%s) had returned %d ms earlier", mod, variant, idleMs),
				map[string]any{"spec": h.specNoTasks(), "module": mod, "variant": variant, "idle_ms_before_timeout": idleMs, "counts": h.counts()})
		} else {
			h.b.Inconclusive("case %d: stop timeout of %s fired only %d ms after its last microtask returned", h.sp.Case, mod, idleMs)
		}
	}
}

// nilModuleCall makes the call on a nil *modules.Module (what Register returns once the
// module system is locked). The blocking variants must refuse it with an error and not
// run the function; nothing may be counted (the fences of the history check that: a
// refused call that took a slot or was granted a clearance shows up in M3/M4).
func (h *c15H) nilModuleCall(t *c15Task, md time.Duration) {
	var nm *modules.Module
	ran := false
	fn := func(context.Context) error { ran = true; return nil }
	h.b.Count("calls_on_nil_module:"+t.Variant+"-"+t.Prio, 1)
	switch t.Variant {
	case "run":
		var err error
		switch t.Prio {
		case "high":
			err = nm.RunHighPriorityMicroTask("nil", fn)
		case "med":
			err = nm.RunMicroTask("nil", md, fn)
		default:
			err = nm.RunLowPriorityMicroTask("nil", md, fn)
		}
		if err == nil || ran {
			h.b.Violation("C15:M2:nil-module-not-refused:run-"+t.Prio, fmt.Sprintf("Run* on a nil module returned %v, function ran: %v", err, ran), map[string]any{"task": t})
		}
	case "sig":
		// (the returned done function is nil; it is not called)
		switch t.Prio {
		case "high":
			_ = nm.SignalHighPriorityMicroTask()
		case "med":
			_ = nm.SignalMicroTask(md)
		default:
			_ = nm.SignalLowPriorityMicroTask(md)
		}
	}
}

func orStr(s, d string) string {
	if s == "" {
		return d
	}
	return s
}

func cnt(n int32) string {
	switch {
	case n == 0:
		return "never"
	case n == 2:
		return "twice"
	}
	return "many"
}

func (h *c15H) task(id int) *c15Task {
	for _, hs := range h.sp.Hists {
		for _, t := range hs.Tasks {
			if t.ID == id {
				return t
			}
		}
	}
	return nil
}

func (h *c15H) specNoTasks() map[string]any {
	var hs []map[string]any
	for _, x := range h.sp.Hists {
		hs = append(hs, map[string]any{"class": x.Class, "submitters": x.Submitters, "tasks": len(x.Tasks)})
	}
	return map[string]any{"case": h.sp.Case, "seed": h.sp.Seed, "limit": h.sp.Limit, "mods": h.sp.Mods, "hists": hs, "hooks": h.sp.Hooks}
}

func (h *c15H) counts() map[string]any {
	out := map[string]any{"global": modules.VerifMicroTasks()}
	for _, m := range h.mods {
		_, _, mt := m.VerifModuleCounts()
		out[m.Name] = mt
	}
	return out
}

// runHist runs one history and its oracles. It returns false when the child cannot go on.
func (h *c15H) runHist(hi int, hist *c15Hist) bool {
	sp := h.sp
	h.emu.Lock()
	h.evs = h.evs[:0]
	h.emu.Unlock()
	md0 := h.maxdelay.Load()

	var wg sync.WaitGroup // one per function body
	var holdIn atomic.Int32
	holdRelease := make(chan struct{})
	holds := 0
	for _, t := range hist.Tasks {
		if t.Hold {
			holds++
		}
	}
	type retRec struct {
		t   *c15Task
		err error
	}
	var rmu sync.Mutex
	var rets []retRec

	overflow := strings.HasPrefix(hist.Class, "overflow")
	gate := make(chan struct{})
	var holdersIn atomic.Int32

	longsig := hist.Class == "longsignal"
	var lateDone atomic.Bool
	body := func(t *c15Task) {
		if t.Phase == 1 { // slot holder: not part of the gauge, stays until the gate opens
			holdersIn.Add(1)
			<-gate
			return
		}
		cls := "ml"
		if t.Prio == "high" {
			cls = "hp"
		}
		h.rec("begin", cls, t.ID)
		if t.Phase == 4 { // gated, part of the gauge
			holdersIn.Add(1)
			<-gate
		}
		if t.Phase == 5 {
			defer lateDone.Store(true)
		}
		if t.Hold {
			if int(holdIn.Add(1)) == holds {
				close(holdRelease)
			}
			select {
			case <-holdRelease:
				time.Sleep(500 * time.Microsecond) // stay while further submissions queue up
			case <-time.After(3 * time.Second):
			}
		}
		if t.RunUs > 0 {
			time.Sleep(time.Duration(t.RunUs) * time.Microsecond)
		}
		h.rec("end", cls, t.ID)
	}
	fnOf := func(t *c15Task) func(context.Context) error {
		return func(context.Context) error {
			defer wg.Done()
			h.execs[t.ID].Add(1)
			body(t)
			if t.Panic {
				panic(panicValueOf(t))
			}
			if t.Err {
				return errC15
			}
			return nil
		}
	}
	var escaped atomic.Int32
	// contained runs a blocking call; a panic that escapes portbase's recovery is a
	// violation of its own and must not take the child down (the counts are checked after)
	contained := func(t *c15Task, call func() error) (err error) {
		defer func() {
			if r := recover(); r != nil {
				escaped.Add(1)
				h.b.Violation("C15:M2:panic-escaped:"+t.Variant+"-"+t.Prio+":"+orStr(t.PanicKind, "string"), fmt.Sprintf("the panic of a microtask function escaped from %s*MicroTask instead of being returned as an error (recovered by the harness: %v)", "Run", r),
					map[string]any{"task": t, "spec": h.specNoTasks(), "history": hi})
				err = errors.New("escaped panic")
			}
		}()
		return call()
	}
	submit := func(t *c15Task) {
		md := time.Duration(t.MaxDelayMs) * time.Millisecond
		if t.NilMod {
			h.nilModuleCall(t, md)
			return
		}
		m := h.mods[t.Mod]
		if t.Prio != "high" && !overflow {
			h.submitted.Add(1) // (overflow classes: not every submission gets to queue a request; re-based at the fence)
		}
		h.expConcl.Add(1)
		switch t.Variant {
		case "run":
			wg.Add(1)
			var err error
			switch t.Prio {
			case "high":
				err = contained(t, func() error { return m.RunHighPriorityMicroTask("t", fnOf(t)) })
			case "med":
				err = contained(t, func() error { return m.RunMicroTask("t", md, fnOf(t)) })
			default:
				err = contained(t, func() error { return m.RunLowPriorityMicroTask("t", md, fnOf(t)) })
			}
			rmu.Lock()
			rets = append(rets, retRec{t, err})
			rmu.Unlock()
		case "start":
			wg.Add(1)
			switch t.Prio {
			case "high":
				m.StartHighPriorityMicroTask("t", fnOf(t))
			case "med":
				m.StartMicroTask("t", md, fnOf(t))
			default:
				m.StartLowPriorityMicroTask("t", md, fnOf(t))
			}
		case "sig":
			wg.Add(1)
			var done func()
			switch t.Prio {
			case "high":
				done = m.SignalHighPriorityMicroTask()
			case "med":
				done = m.SignalMicroTask(md)
			default:
				done = m.SignalLowPriorityMicroTask(md)
			}
			h.execs[t.ID].Add(1)
			go func() {
				defer wg.Done()
				body(t)
				n := t.DoneCalls
				if n < 1 {
					n = 1
				}
				if t.DoneConc && n > 1 {
					var dw sync.WaitGroup
					for i := 0; i < n; i++ {
						dw.Add(1)
						go func() { defer dw.Done(); done() }()
					}
					dw.Wait()
				} else {
					for i := 0; i < n; i++ {
						done()
					}
				}
			}()
		}
	}

	var swg sync.WaitGroup
	if overflow {
		// scripted: holders take both slots, phase 2 fills the clearance queue (nothing is
		// granted meanwhile), phase 3 finds it full and runs into its 1 ms max delay
		phase := func(p int) {
			for _, t := range hist.Tasks {
				if t.Phase != p {
					continue
				}
				if t.Variant == "run" {
					t := t
					swg.Add(1)
					go func() { defer swg.Done(); submit(t) }()
				} else {
					submit(t)
				}
			}
		}
		phase(1)
		for dl := time.Now().Add(10 * time.Second); holdersIn.Load() < 2 && time.Now().Before(dl); {
			time.Sleep(200 * time.Microsecond)
		}
		phase(2)
		time.Sleep(40 * time.Millisecond)
		phase(3)
		for dl := time.Now().Add(5 * time.Second); time.Now().Before(dl); {
			pending := 0
			for _, t := range hist.Tasks {
				if t.Phase == 3 && h.execs[t.ID].Load() == 0 {
					pending++
				}
			}
			if pending == 0 {
				break
			}
			time.Sleep(time.Millisecond)
		}
		close(gate)
	}
	if longsig {
		// scripted: the late signalled microtask and the gated holders take all slots,
		// the waiters queue up; the gate opens when the late one has called done()
		each := func(p int) {
			for _, t := range hist.Tasks {
				if t.Phase == p {
					t := t
					swg.Add(1)
					go func() { defer swg.Done(); submit(t) }()
				}
			}
		}
		each(5)
		for dl := time.Now().Add(20 * time.Second); time.Now().Before(dl); {
			if h.execs[hist.Tasks[0].ID].Load() > 0 {
				break
			}
			time.Sleep(200 * time.Microsecond)
		}
		each(4)
		for dl := time.Now().Add(20 * time.Second); int(holdersIn.Load()) < sp.Limit-1 && time.Now().Before(dl); {
			time.Sleep(200 * time.Microsecond)
		}
		each(6)
		for dl := time.Now().Add(30 * time.Second); !lateDone.Load() && time.Now().Before(dl); {
			time.Sleep(time.Millisecond)
		}
		close(gate)
	}
	// saturation phase: the holding tasks are submitted from their own goroutines
	for _, t := range hist.Tasks {
		if overflow || longsig {
			break
		}
		if t.Hold {
			t := t
			swg.Add(1)
			go func() { defer swg.Done(); submit(t) }()
		}
	}
	for s := 0; s < hist.Submitters && !overflow && !longsig; s++ {
		s := s
		swg.Add(1)
		go func() {
			defer swg.Done()
			for _, t := range hist.Tasks {
				if t.Sub == s && !t.Hold {
					submit(t)
				}
			}
		}()
	}
	fin := make(chan struct{})
	go func() { swg.Wait(); wg.Wait(); close(fin) }()
	progress := func() int64 {
		h.emu.Lock()
		n := int64(h.seq)
		h.emu.Unlock()
		return n + h.concluded.Load() + h.granted.Load()
	}
	last, lastT, t0 := progress(), time.Now(), time.Now()
	lastDL := time.Now()
waitFin:
	for {
		select {
		case <-fin:
			break waitFin
		case <-time.After(100 * time.Millisecond):
		}
		if escaped.Load() > 0 && time.Since(lastT) > 300*time.Millisecond {
			return false // a slot is lost with the escaped panic, the rest may never be admitted; the violation is recorded
		}
		if p := progress(); p != last {
			last, lastT = p, time.Now()
		}
		if time.Since(lastT) > 2*time.Second && time.Since(lastDL) > 2*time.Second {
			lastDL = time.Now()
			if bl, where := blockedInLog(); bl >= sp.Limit && bl == int(modules.VerifMicroTasks()) {
				h.b.Violation("C15:M2:run-never-returned:blocked-in:"+where+":all-slots-blocked-in-log", fmt.Sprintf("%d panicking microtasks are never concluded: their recovery handlers are blocked in %s writing an error line, they are the only microtasks still counted (limit %d), so the scheduler never hands the log writer its timeslot again", bl, where, sp.Limit),
					map[string]any{"spec": h.specNoTasks(), "history": hi, "blocked": bl, "limit": sp.Limit})
				h.b.Finish(h.dir)
				os.Exit(0)
			}
			if reportDeadlocked() {
				h.b.Violation("C15:M2:run-never-returned:blocked-in:(*ModuleError).Report", fmt.Sprintf("a panicking microtask function has returned but its microtask is never concluded: runMicroTask's recovery handler is blocked acquiring the reporting lock in modules.(*ModuleError).Report and no goroutine holds it (global count %d)", modules.VerifMicroTasks()),
					map[string]any{"spec": h.specNoTasks(), "history": hi, "counts": h.counts()})
				h.b.Finish(h.dir)
				os.Exit(0)
			}
		}
		if time.Since(lastT) > 15*time.Second {
			// nothing has moved for 15 s: look for a microtask wedged in portbase's recovery path
			if where := stuckInRecovery(); where != "" {
				h.b.Violation("C15:M2:run-never-returned:blocked-in:"+where, fmt.Sprintf("a panicking microtask function has returned but its microtask was never concluded: 15 s without any progress in the history, a goroutine is blocked in modules.%s below runMicroTask's recovery handler (global count %d)", where, modules.VerifMicroTasks()),
					map[string]any{"spec": h.specNoTasks(), "history": hi, "blocked_in": where, "counts": h.counts()})
				h.b.Finish(h.dir)
				os.Exit(0)
			}
			lastT = time.Now()
		}
		if time.Since(t0) < 100*time.Second {
			continue
		}
		missing := 0
		for _, t := range hist.Tasks {
			if h.execs[t.ID].Load() == 0 {
				missing++
			}
		}
		h.b.Inconclusive("case %d history %d (%s): not all microtasks finished within 100s (%d of %d never began; global count %d)", sp.Case, hi, hist.Class, missing, len(hist.Tasks), modules.VerifMicroTasks())
		return false
	}
	h.b.Eval(1)
	h.b.Count("microtasks_run", int64(len(hist.Tasks)))
	h.b.Count("histories_"+hist.Class, 1)
	mdHits := h.maxdelay.Load() - md0
	h.b.Count("maxdelay_expiries_observed", mdHits)
	if overflow {
		q := 100 * runtime.GOMAXPROCS(0)
		if mdHits > int64(q) { // more expiries than the queue holds requests: some came from submissions that found it full
			h.b.Count("overflow_histories_with_queue_full_expiries", 1)
		}
	}

	// ---- M2: exactly once, errors handed back
	for _, t := range hist.Tasks {
		if t.NilMod {
			continue // judged in nilModuleCall
		}
		if n := h.execs[t.ID].Load(); n != 1 {
			h.b.Violation("C15:M2:executed-"+cnt(n)+":"+t.Variant+"-"+t.Prio, fmt.Sprintf("microtask function executed %d times", n), map[string]any{"task": t, "spec": h.specNoTasks(), "history": hi})
		}
		h.b.Count("mix:"+t.Variant+"-"+t.Prio, 1)
	}
	for _, r := range rets {
		t := r.t
		switch {
		case r.err != nil && r.err.Error() == "escaped panic":
			// already reported
		case t.Panic:
			if isP, me := modules.IsPanic(r.err); !isP {
				h.b.Violation("C15:M2:panic-not-returned:"+t.Prio, fmt.Sprintf("Run* of a panicking function returned %v instead of a panic error", r.err), map[string]any{"task": t})
			} else if me.PanicValue != panicValueOf(t) {
				h.b.Violation("C15:M2:wrong-panic-value:"+t.Prio, "Run* returned the panic of another function", map[string]any{"task": t, "got": fmt.Sprint(me.PanicValue)})
			}
			h.b.Count("run_panics_checked", 1)
			if t.PanicKind != "" {
				h.b.Count("run_panics_with_panicking_value_checked", 1)
			}
		case t.Err:
			if r.err != errC15 { //nolint:errorlint // identity is what is demanded
				h.b.Violation("C15:M2:error-not-returned:"+t.Prio, fmt.Sprintf("Run* returned %v instead of the function's error", r.err), map[string]any{"task": t})
			}
			h.b.Count("run_errors_checked", 1)
		default:
			if r.err != nil {
				h.b.Violation("C15:M2:spurious-error:"+t.Prio, fmt.Sprintf("Run* returned %v although the function returned nil", r.err), map[string]any{"task": t})
			}
		}
	}

	if escaped.Load() > 0 {
		return false // the conclusion of that microtask never comes; the violation is recorded
	}

	// ---- M1: concurrency bound (sweep over the begin/end log)
	h.emu.Lock()
	evs := append([]c15Ev(nil), h.evs...)
	h.emu.Unlock()
	hp, ml, maxMl, maxMlNoHp := 0, 0, 0, 0
	hasHp := false
	viol := -1
	for i, e := range evs {
		d := 1
		if e.Kind == "end" {
			d = -1
		}
		if e.Cls == "hp" {
			hp += d
			hasHp = true
		} else {
			ml += d
		}
		if ml > maxMl {
			maxMl = ml
		}
		if hp == 0 && ml > maxMlNoHp {
			maxMlNoHp = ml
			if ml > sp.Limit && viol < 0 {
				viol = i
			}
		}
	}
	h.b.Max("max_concurrent_medium_low_seen", int64(maxMl))
	if hist.Class == "m1" || longsig {
		if mdHits > 0 {
			h.b.Count("m1_histories_skipped_maxdelay_expired", 1)
		} else {
			h.b.Count("m1_histories_checked", 1)
			if !hasHp {
				h.b.Count("m1_histories_without_high", 1)
				if maxMlNoHp >= sp.Limit {
					h.b.Count("m1_histories_without_high_that_reached_limit", 1)
				}
			}
			if maxMlNoHp >= sp.Limit {
				h.b.Count("m1_histories_that_reached_limit", 1)
			}
			if viol >= 0 {
				lo := viol - 40
				if lo < 0 {
					lo = 0
				}
				h.b.Violation(fmt.Sprintf("C15:M1:limit-exceeded:%s", limClass(sp.Limit)), fmt.Sprintf("%d medium/low-priority microtasks executed at the same time with limit %d, no high-priority microtask running, no max delay expired, before shutdown", maxMlNoHp, sp.Limit),
					map[string]any{"spec": h.specNoTasks(), "history": hi, "limit": sp.Limit, "observed": maxMlNoHp, "events_before": evs[lo : viol+1]})
			}
		}
	}
	h.b.DistinctS(fmt.Sprintf("%s|lim%d|sub%d|n%d|hp%v|max%d|md%v|hooks%d|%s", hist.Class, sp.Limit, hist.Submitters, len(hist.Tasks), hasHp, maxMl, mdHits > 0, len(sp.Hooks), mixSig(hist)))
	if hi == 0 && sp.Case < 6 {
		h.b.Sample(map[string]any{"case": sp.Case, "history": hi, "class": hist.Class, "limit": sp.Limit, "submitters": hist.Submitters, "microtasks": len(hist.Tasks),
			"max_concurrent_medium_low": maxMl, "high_priority_present": hasHp, "maxdelay_expiries": mdHits, "mix": mixSig(hist), "first_events": firstEvs(evs, 12)})
	}

	// ---- M3 / M4: logical quiescence fence, then the counters are sampled at the probe's grant
	return h.fence(hi, hist)
}

func limClass(l int) string { return fmt.Sprintf("limit%d", l) }

func firstEvs(e []c15Ev, n int) []c15Ev {
	if len(e) > n {
		return e[:n]
	}
	return e
}

func mixSig(h *c15Hist) string {
	m := map[string]int{}
	for _, t := range h.Tasks {
		k := t.Variant + "-" + t.Prio
		if t.Panic {
			k += "!"
		}
		m[k]++
	}
	var ks []string
	for k := range m {
		ks = append(ks, k)
	}
	sort.Strings(ks)
	return strings.Join(ks, ",")
}

// fence establishes logical quiescence and checks M3 and M4.
//
// Every medium/low submission puts exactly one request into a clearance queue (the
// queues hold 100*GOMAXPROCS requests, a history has at most 400 outstanding) and the
// regular scheduler answers each request exactly once, passing modules.mt.granted. When
// the number of grants equals the number of such submissions, no request is pending.
// Then one more medium-priority microtask (the probe) is run on its own module: inside
// the grant hook for it - after the request was answered, before the scheduler counts
// it - all earlier grants have been counted and the probe itself is neither counted nor
// concluded (its function waits for the sample). The global counter must be exactly 0
// there, and so must the per-module counters of all workload modules.
func (h *c15H) fence(hi int, hist *c15Hist) bool {
	sp := h.sp
	deadline := time.Now().Add(60 * time.Second)
	if strings.HasPrefix(hist.Class, "overflow") {
		h.drainMode = true
	}
	overflow := h.drainMode
	if !overflow && !h.settle(hist.Class) {
		return false
	}
	for (!overflow && h.granted.Load() != h.submitted.Load()) || h.concluded.Load() != h.expConcl.Load() {
		// both expectations are final here (every submission of the history was made),
		// the observed counts only grow: an excess cannot go away
		if c, e := h.concluded.Load(), h.expConcl.Load(); c > e {
			h.b.Violation("C15:M3:concluded-more-than-once:"+hist.Class, fmt.Sprintf("%d microtask conclusions observed for %d microtasks: a microtask was concluded (counters decremented) more than once", c, e),
				map[string]any{"spec": h.specNoTasks(), "history": hi, "mix": mixSig(hist), "counts": h.counts()})
			return false
		}
		if g, sb := h.granted.Load(), h.submitted.Load(); g > sb && !overflow {
			h.b.Violation("C15:M3:more-grants-than-requests:"+hist.Class, fmt.Sprintf("%d clearances granted for %d requests", g, sb), map[string]any{"spec": h.specNoTasks(), "history": hi})
			return false
		}
		if time.Now().After(deadline) {
			h.b.Inconclusive("case %d history %d: after 60s of quiescence %d clearances granted for %d medium/low submissions, %d conclusions for %d microtasks", sp.Case, hi,
				h.granted.Load(), h.submitted.Load(), h.concluded.Load(), h.expConcl.Load())
			return false
		}
		time.Sleep(200 * time.Microsecond)
	}
	// All module counters have been decremented now (the conclude hook lies behind that
	// decrement). The global decrement follows the hook by a few instructions, but only
	// Run* and done() let the harness know when it has happened; the goroutine of a
	// Start* microtask may still be between the hook and the decrement. A sample that is
	// too HIGH is therefore re-taken with fresh probes for up to 10 s before it counts
	// as a leak (a leaked count never goes away; a goroutine that merely has not been
	// scheduled does). A sample that is too LOW or a non-zero module counter cannot be
	// transient and is reported at once.
	if overflow {
		// Submissions that found their clearance queue full never queued a request, so
		// the number of requests is unknown here. The queues are FIFO: once a low- and
		// then a medium-priority drain microtask submitted now have been granted, every
		// request queued during the history (also the stale ones of functions that
		// started by their max delay) has been answered and counted. All later fences of
		// this child work the same way.
		h.expConcl.Add(2)
		_ = h.prb.RunLowPriorityMicroTask("drain", c15BigDelayMs*time.Millisecond, func(context.Context) error { return nil })
		_ = h.prb.RunMicroTask("drain", c15BigDelayMs*time.Millisecond, func(context.Context) error { return nil })
	}
	var smp probeSample
	negRetakes := 0
	patience := time.Now().Add(10 * time.Second)
	for try := 0; ; try++ {
		var ok bool
		smp, ok = h.probe(hi)
		if !ok {
			return false
		}
		if overflow && smp.global < 0 && negRetakes < 6 {
			// In the overflow classes the request count is unknown, so the fence cannot wait
			// for "grants == requests" before arming the probe. The grant handler of the
			// previous (drain or probe) microtask may then still be pending when the probe is
			// armed - the scheduler goroutine was descheduled between answering that request
			// and reaching the hook - and takes the sample in the probe's place, one
			// increment short. A genuinely negative count is the same in every sample; the
			// artifact needs that coincidence anew each time. Re-take before judging.
			negRetakes++
			h.b.Count("m3_overflow_negative_samples_retaken", 1)
			time.Sleep(2 * time.Millisecond)
			continue
		}
		if smp.global <= 0 || time.Now().After(patience) {
			if try > 0 {
				h.b.Count("m3_samples_retaken_after_transient_positive", int64(try))
			}
			break
		}
		time.Sleep(time.Duration(1+try) * time.Millisecond)
	}
	h.b.Count("quiescence_fences", 1)
	if smp.global != 0 {
		h.b.Violation("C15:M3:global-count-nonzero:"+sign(smp.global)+":"+hist.Class, fmt.Sprintf("global microtask count is %d after all microtasks of the history had concluded and every clearance request was answered", smp.global),
			map[string]any{"spec": h.specNoTasks(), "history": hi, "global": smp.global, "per_module": smp.perMod, "mix": mixSig(hist)})
		return false // the imbalance would be reported again by every later history
	}
	for i, c := range smp.perMod {
		if c != 0 {
			h.b.Violation("C15:M3:module-count-nonzero:"+sign(c)+":"+hist.Class, fmt.Sprintf("microtask count of module w%d is %d after all its microtasks had concluded", i, c),
				map[string]any{"spec": h.specNoTasks(), "history": hi, "per_module": smp.perMod, "mix": mixSig(hist)})
			return false
		}
	}
	if st := modules.GetStatus(); st != nil {
		for i := range h.mods {
			if ms := st.Modules[fmt.Sprintf("w%d", i)]; ms != nil && ms.MicroTasks != 0 {
				h.b.Violation("C15:M3:status-count-nonzero", fmt.Sprintf("GetStatus reports %d running microtasks for module w%d at quiescence", ms.MicroTasks, i), map[string]any{"spec": h.specNoTasks(), "history": hi})
				return false
			}
		}
	}
	return true
}

// stuckInRecovery looks for a goroutine that is inside the deferred recovery handler of
// runMicroTask and blocked there; it returns the innermost portbase/modules function of
// that goroutine ("" if there is none). Structural part of the "never returned" verdicts.
func stuckInRecovery() string {
	buf := make([]byte, 4<<20)
	buf = buf[:runtime.Stack(buf, true)]
	for _, g := range strings.Split(string(buf), "\n\n") {
		if !strings.Contains(g, "modules.(*Module).runMicroTask.func1") {
			continue
		}
		hdr := g
		if i := strings.Index(g, "\n"); i > 0 {
			hdr = g[:i]
		}
		if !(strings.Contains(hdr, "semacquire") || strings.Contains(hdr, "sync.Mutex.Lock") || strings.Contains(hdr, "chan ") || strings.Contains(hdr, "select")) {
			continue
		}
		for _, ln := range strings.Split(g, "\n") {
			if strings.HasPrefix(ln, "github.com/safing/portbase/modules.") {
				if i := strings.LastIndex(ln, "("); i > 0 {
					ln = ln[:i]
				}
				return strings.TrimPrefix(ln, "github.com/safing/portbase/modules.")
			}
		}
	}
	return ""
}

// blockedInLog returns how many goroutines are, below the recovery handler of
// runMicroTask, blocked inside portbase's log package (the error line that the handler
// logs before it concludes the microtask), and the innermost log function of one of them.
func blockedInLog() (n int, where string) {
	buf := make([]byte, 8<<20)
	buf = buf[:runtime.Stack(buf, true)]
	for _, g := range strings.Split(string(buf), "\n\n") {
		if !strings.Contains(g, "modules.(*Module).runMicroTask.func1") || !strings.Contains(g, "safing/portbase/log.") {
			continue
		}
		hdr := g
		if i := strings.Index(g, "\n"); i > 0 {
			hdr = g[:i]
		}
		if !(strings.Contains(hdr, "chan send") || strings.Contains(hdr, "select")) {
			continue
		}
		n++
		for _, ln := range strings.Split(g, "\n") {
			if strings.HasPrefix(ln, "github.com/safing/portbase/log.") {
				if i := strings.LastIndex(ln, "("); i > 0 {
					ln = ln[:i]
				}
				where = strings.TrimPrefix(ln, "github.com/safing/portbase/")
				break
			}
		}
	}
	return
}

// logFloodCheck: the logging system runs as modules.Start() sets it up (the log writer
// waits for a timeslot from the microtask scheduler). All slots are taken by gated
// microtasks, so no timeslot is handed out; 1300 error lines are logged (more than the log
// buffer holds); limit+1 high-priority microtasks panic (their recovery handler logs an
// error line before it concludes them); then the gate opens. Every Run* call has to return
// its panic. If calls stay out although the slot holders have returned, the verdict is
// taken from the goroutine dump and the counter: every microtask that is still counted is
// a goroutine blocked inside the log package below the recovery handler, and these are at
// least `limit` - so the scheduler can never hand the log writer its timeslot again and
// nothing can unblock them.
func (h *c15H) logFloodCheck() bool {
	sp := h.sp
	m := h.mods[0]
	big := c15BigDelayMs * time.Millisecond
	gate := make(chan struct{})
	var begun atomic.Int32
	var hwg sync.WaitGroup
	for i := 0; i < sp.Limit; i++ {
		hwg.Add(1)
		h.submitted.Add(1)
		h.expConcl.Add(1)
		go func() {
			defer hwg.Done()
			_ = m.RunMicroTask("floodholder", big, func(context.Context) error { begun.Add(1); <-gate; return nil })
		}()
	}
	for dl := time.Now().Add(20 * time.Second); int(begun.Load()) < sp.Limit && time.Now().Before(dl); {
		time.Sleep(100 * time.Microsecond)
	}
	floodDone := make(chan struct{})
	go func() {
		for i := 0; i < 1300; i++ {
			plog.Errorf("harness log flood line %d", i)
		}
		close(floodDone)
	}()
	select {
	case <-floodDone:
	case <-time.After(2 * time.Second):
	}
	n := sp.Limit + 1
	res := make(chan error, n)
	for i := 0; i < n; i++ {
		val := fmt.Sprintf("harness flood panic %d", i)
		h.expConcl.Add(1)
		go func() {
			defer func() {
				if r := recover(); r != nil {
					res <- fmt.Errorf("escaped: %v", r)
				}
			}()
			err := m.RunHighPriorityMicroTask("floodpanic", func(context.Context) error { panic(val) })
			if isP, me := modules.IsPanic(err); !isP || me.PanicValue != val {
				err = fmt.Errorf("not the panic: %v", err)
			} else {
				err = nil
			}
			res <- err
		}()
	}
	time.Sleep(20 * time.Millisecond)
	close(gate)
	hwg.Wait()
	got := 0
	t0 := time.Now()
	for got < n {
		select {
		case err := <-res:
			got++
			if err != nil {
				h.b.Violation("C15:M2:panic-not-returned:log-flood", fmt.Sprintf("Run* of a panicking function during a log flood: %v", err), map[string]any{"spec": h.specNoTasks()})
				return false
			}
		case <-time.After(300 * time.Millisecond):
			if time.Since(t0) < time.Second {
				continue
			}
			cnt := int(modules.VerifMicroTasks())
			if bl, where := blockedInLog(); bl >= sp.Limit && bl == cnt {
				h.b.Violation("C15:M2:run-never-returned:blocked-in:"+where+":all-slots-blocked-in-log", fmt.Sprintf("%d panicking Run* microtasks do not return: their recovery handlers are blocked in %s writing an error line, they are the only microtasks still counted (%d, limit %d), so the scheduler never hands the log writer its timeslot again", bl, where, cnt, sp.Limit),
					map[string]any{"spec": h.specNoTasks(), "blocked": bl, "global_count": cnt, "limit": sp.Limit})
				h.b.Finish(h.dir)
				os.Exit(0)
			}
			if time.Since(t0) > 30*time.Second {
				h.b.Inconclusive("case %d: log flood check: %d of %d panicking Run* calls did not return within 30s", sp.Case, n-got, n)
				h.b.Finish(h.dir)
				os.Exit(0)
			}
		}
	}
	<-floodDone
	h.b.Count("log_flood_checks", 1)
	return h.settle("logflood")
}

// earlyPanics runs before modules.Start(): nothing receives log lines yet, nothing else
// runs in the child. A Run* call that has not returned after a second, with its goroutine
// blocked inside the log package below the recovery handler, cannot be unblocked by
// anything but the start of the logging system, which has not been asked for: the panic
// is not handed back (and the microtask stays counted).
func (h *c15H) earlyPanics() bool {
	m := h.mods[0]
	for i := 0; i < h.sp.EarlyPanics; i++ {
		val := fmt.Sprintf("harness early panic %d", i)
		res := make(chan error, 1)
		h.expConcl.Add(1)
		go func() {
			defer func() {
				if r := recover(); r != nil {
					res <- fmt.Errorf("escaped: %v", r)
				}
			}()
			res <- m.RunHighPriorityMicroTask("early", func(context.Context) error { panic(val) })
		}()
		select {
		case err := <-res:
			if isP, me := modules.IsPanic(err); !isP || me.PanicValue != val {
				h.b.Violation("C15:M2:panic-not-returned:before-start", fmt.Sprintf("Run* of panicking function %d before modules.Start() returned %v", i, err), map[string]any{"spec": h.specNoTasks()})
				h.b.Finish(h.dir)
				return false
			}
		case <-time.After(time.Second):
			for t0 := time.Now(); time.Since(t0) < 20*time.Second; time.Sleep(200 * time.Millisecond) {
				if len(res) > 0 {
					break
				}
				if n, where := blockedInLog(); n > 0 {
					h.b.Violation("C15:M2:run-never-returned:blocked-in:"+where+":before-log-start", fmt.Sprintf("panicking Run* microtask no. %d before modules.Start() does not return: the recovery handler of runMicroTask is blocked in %s (logging its error line; the logging system is not started and nothing else runs), the microtask stays counted (global %d)", i+1, where, modules.VerifMicroTasks()),
						map[string]any{"spec": h.specNoTasks(), "panics_before": i, "blocked_in": where})
					h.b.Finish(h.dir)
					os.Exit(0)
				}
			}
			if len(res) == 0 {
				h.b.Inconclusive("case %d: early panicking Run* no. %d did not return within 20s", h.sp.Case, i)
				h.b.Finish(h.dir)
				os.Exit(0)
			}
			<-res
		}
	}
	h.b.Count("panicking_microtasks_before_log_start", int64(h.sp.EarlyPanics))
	return true
}

// reportDeadlocked: at least one goroutine is blocked acquiring a mutex inside
// (*ModuleError).Report and no goroutine is anywhere else inside a function that holds
// that lock: the lock is held by nobody who could release it. This is a deadlock proven
// from the goroutine dump, not a time-out.
func reportDeadlocked() bool {
	buf := make([]byte, 4<<20)
	buf = buf[:runtime.Stack(buf, true)]
	waiting := 0
	for _, g := range strings.Split(string(buf), "\n\n") {
		in := strings.Contains(g, "modules.(*ModuleError).Report") || strings.Contains(g, "modules.SetErrorReportingChannel") || strings.Contains(g, "modules.GetLastReportedError")
		if !in {
			continue
		}
		hdr := g
		if i := strings.Index(g, "\n"); i > 0 {
			hdr = g[:i]
		}
		lines := strings.Split(g, "\n")
		blockedInLock := strings.Contains(hdr, "sync.Mutex.Lock") && len(lines) > 1 && strings.HasPrefix(lines[1], "sync.")
		// the innermost non-runtime/sync frame must be Report itself
		inner := ""
		for _, ln := range lines[1:] {
			if strings.HasPrefix(ln, "\t") || strings.HasPrefix(ln, "sync.") || strings.HasPrefix(ln, "runtime.") || strings.HasPrefix(ln, "internal/") {
				continue
			}
			inner = ln
			break
		}
		if blockedInLock && strings.Contains(inner, "modules.(*ModuleError).Report") {
			waiting++
			continue
		}
		return false // somebody is inside the locked region and may release the lock
	}
	return waiting > 0
}

// settle waits until every clearance request the harness knows of was answered and every
// microtask concluded. When the conclusions are complete but answers are missing for two
// seconds, unclearedCheck looks for microtasks that ran without a clearance.
func (h *c15H) settle(where string) bool {
	checked, stuckChecked, logChecked := false, false, false
	t0 := time.Now()
	for h.granted.Load() != h.submitted.Load() || h.concluded.Load() != h.expConcl.Load() {
		if c, e := h.concluded.Load(), h.expConcl.Load(); c > e {
			h.b.Violation("C15:M3:concluded-more-than-once:"+where, fmt.Sprintf("%d microtask conclusions observed for %d microtasks: a microtask was concluded (counters decremented) more than once", c, e),
				map[string]any{"spec": h.specNoTasks(), "counts": h.counts()})
			return false
		}
		if g, sb := h.granted.Load(), h.submitted.Load(); g > sb {
			h.b.Violation("C15:M3:more-grants-than-requests:"+where, fmt.Sprintf("%d clearances granted for %d requests", g, sb), map[string]any{"spec": h.specNoTasks()})
			return false
		}
		if !checked && time.Since(t0) > 2*time.Second && h.concluded.Load() == h.expConcl.Load() {
			checked = true
			if !h.unclearedCheck(where) {
				return false
			}
		}
		if time.Since(t0) > 3*time.Second && h.concluded.Load() < h.expConcl.Load() && !logChecked {
			logChecked = true
			if bl, lw := blockedInLog(); bl >= h.sp.Limit && bl == int(modules.VerifMicroTasks()) {
				h.b.Violation("C15:M2:run-never-returned:blocked-in:"+lw+":all-slots-blocked-in-log", fmt.Sprintf("%d panicking microtasks are never concluded: their recovery handlers are blocked in %s writing an error line, they are the only microtasks still counted (limit %d)", bl, lw, h.sp.Limit),
					map[string]any{"spec": h.specNoTasks(), "where": where, "blocked": bl})
				h.b.Finish(h.dir)
				os.Exit(0)
			}
		}
		if time.Since(t0) > 15*time.Second && h.concluded.Load() < h.expConcl.Load() && !stuckChecked {
			stuckChecked = true
			if where := stuckInRecovery(); where != "" {
				h.b.Violation("C15:M2:run-never-returned:blocked-in:"+where, fmt.Sprintf("a microtask was never concluded: 15 s after everything else had finished a goroutine is still blocked in modules.%s below runMicroTask's recovery handler (global count %d)", where, modules.VerifMicroTasks()),
					map[string]any{"spec": h.specNoTasks(), "where": where, "counts": h.counts()})
				h.b.Finish(h.dir)
				os.Exit(0)
			}
		}
		if time.Since(t0) > 60*time.Second {
			h.b.Inconclusive("case %d (%s): after 60s of quiescence %d clearances granted for %d medium/low submissions, %d conclusions for %d microtasks", h.sp.Case, where,
				h.granted.Load(), h.submitted.Load(), h.concluded.Load(), h.expConcl.Load())
			return false
		}
		time.Sleep(200 * time.Microsecond)
	}
	return true
}

// unclearedCheck: all microtasks have concluded, yet fewer clearances were granted than
// medium/low microtasks were submitted (outside the overflow classes every submission
// queues a request and the scheduler answers each request exactly once, also the stale
// ones of functions that started through their max delay). The two queues are drained
// with a low- and then a medium-priority microtask; inside the function of the second
// one every earlier request has been answered and counted by the grant hook. If the
// grants still do not cover the earlier submissions, some function ran without a
// clearance (and, since no request of it is left, without waiting for one).
func (h *c15H) unclearedCheck(where string) bool {
	subPrev := h.submitted.Load()
	big := c15BigDelayMs * time.Millisecond
	h.submitted.Add(2)
	h.expConcl.Add(2)
	_ = h.prb.RunLowPriorityMicroTask("drain", big, func(context.Context) error { return nil })
	var gObs int64
	_ = h.prb.RunMicroTask("drain", big, func(context.Context) error { gObs = h.granted.Load(); return nil })
	if subPrev+1 > gObs {
		h.b.Violation("C15:M1:started-without-clearance", fmt.Sprintf("%d medium/low-priority microtasks were submitted and have run, but only %d clearance requests were answered (%d max-delay expiries): at least %d started without a clearance",
			subPrev, gObs-1, h.maxdelay.Load(), subPrev+1-gObs), map[string]any{"spec": h.specNoTasks(), "where": where})
		return false
	}
	return true
}

// preStart submits limit+3 medium/low microtasks before modules.Start() is called, i.e.
// before the microtask scheduler runs; they stay for a few milliseconds each. They have
// to wait for the scheduler and then obey the limit like all others.
func (h *c15H) preStart() {
	sp := h.sp
	k := sp.Limit + 3
	if k > 12 {
		k = 12
	}
	h.preN = k
	big := c15BigDelayMs * time.Millisecond
	var begun atomic.Int32
	allIn := make(chan struct{})
	body := func(id int) {
		h.rec("begin", "ml", -id)
		b := int64(begun.Add(1))
		if g, d := h.granted.Load(), h.maxdelay.Load(); b > g+d+1 {
			// at most one grant can be ahead of its hook event
			h.preUncleared.Store(b - g - d - 1)
		}
		if int(b) == k {
			close(allIn)
		}
		select {
		case <-allIn:
		case <-time.After(5 * time.Millisecond):
		}
		h.rec("end", "ml", -id)
	}
	for i := 1; i <= k; i++ {
		i := i
		m := h.mods[i%len(h.mods)]
		h.submitted.Add(1)
		h.expConcl.Add(1)
		h.preWg.Add(1)
		fn := func(context.Context) error { defer h.preWg.Done(); body(i); return nil }
		switch i % 5 {
		case 0:
			m.StartMicroTask("prestart", big, fn)
		case 1:
			m.StartLowPriorityMicroTask("prestart", big, fn)
		case 2:
			go func() { _ = m.RunMicroTask("prestart", big, fn) }()
		case 3:
			go func() { _ = m.RunLowPriorityMicroTask("prestart", big, fn) }()
		default:
			go func() {
				done := m.SignalMicroTask(big)
				_ = fn(nil)
				done()
			}()
		}
	}
	time.Sleep(2 * time.Millisecond) // (let them reach the clearance queues; nothing depends on it)
}

// judgePreStart: the microtasks submitted before Start have all run; none may have started
// without a clearance, and never more than the limit at a time.
func (h *c15H) judgePreStart() bool {
	h.preWg.Wait()
	h.b.Count("microtasks_submitted_before_start", int64(h.preN))
	h.emu.Lock()
	evs := append([]c15Ev(nil), h.evs...)
	h.emu.Unlock()
	ml, maxMl := 0, 0
	for _, e := range evs {
		if e.Kind == "begin" {
			ml++
		} else {
			ml--
		}
		if ml > maxMl {
			maxMl = ml
		}
	}
	if n := h.preUncleared.Load(); n > 0 {
		h.b.Violation("C15:M1:started-without-clearance", fmt.Sprintf("microtasks submitted before modules.Start(): %d more medium/low-priority functions had begun than clearances were granted or max delays had expired", n),
			map[string]any{"spec": h.specNoTasks(), "where": "before-start"})
		return false
	}
	if maxMl > h.sp.Limit && h.maxdelay.Load() == 0 {
		h.b.Violation("C15:M1:limit-exceeded:before-scheduler-start", fmt.Sprintf("%d medium/low-priority microtasks submitted before modules.Start() executed at the same time with limit %d (no high-priority microtask, no max delay expired)", maxMl, h.sp.Limit),
			map[string]any{"spec": h.specNoTasks(), "limit": h.sp.Limit, "observed": maxMl, "events": firstEvs(evs, 30)})
		return false
	}
	return true
}

// probe runs one medium-priority microtask on the probe module and returns the counters
// sampled inside its grant hook. M4: it must be admitted by the scheduler, not by its
// max-delay fallback.
func (h *c15H) probe(hi int) (probeSample, bool) {
	sp := h.sp
	ch := make(chan probeSample, 1)
	md0 := h.maxdelay.Load()
	h.submitted.Add(1)
	h.expConcl.Add(1)
	h.probeArmed.Store(&ch)
	var smp probeSample
	got := false
	var mdAtBegin, rcAtBegin int64
	rc0 := h.rechecks.Load()
	err := h.prb.RunMicroTask("probe", c15BigDelayMs*time.Millisecond, func(context.Context) error {
		mdAtBegin = h.maxdelay.Load()
		rcAtBegin = h.rechecks.Load()
		select {
		case smp = <-ch:
			got = true
		case <-time.After(20 * time.Second):
		}
		return nil
	})
	h.b.Count("probes", 1)
	if err != nil {
		h.b.Violation("C15:M2:spurious-error:probe", fmt.Sprintf("probe RunMicroTask returned %v", err), nil)
	}
	if mdAtBegin != md0 {
		h.b.Violation("C15:M4:not-admitted-immediately", "after all microtasks had finished a fresh medium-priority microtask was only started by its max-delay fallback, not admitted by the scheduler",
			map[string]any{"spec": h.specNoTasks(), "history": hi, "counts": h.counts()})
		h.probeArmed.Store(nil)
		return smp, false
	}
	if !got {
		h.b.Inconclusive("case %d history %d: probe ran but the grant hook never sampled the counters", sp.Case, hi)
		h.probeArmed.Store(nil)
		return smp, false
	}
	smp.recheckBetween = rcAtBegin != rc0
	return smp, true
}

// repeatedPanicCheck: the same named microtask panics with the same value twice in a row,
// then another one panics. Each Run* call has to return the panic as an error. A call
// that does not return is judged structurally: 15 s after its function has panicked, with
// nothing else running in the child, the goroutine dump must show the calling goroutine
// blocked inside portbase (it is the call path of the recovery handler that is reported);
// otherwise the case is inconclusive.
func (h *c15H) repeatedPanicCheck(dir string) bool {
	m := h.mods[0]
	big := c15BigDelayMs * time.Millisecond
	for i, val := range []string{"harness repeated panic", "harness repeated panic", "harness other panic"} {
		val := val
		res := make(chan error, 1)
		h.submitted.Add(1)
		h.expConcl.Add(1)
		go func() {
			defer func() {
				if r := recover(); r != nil {
					res <- fmt.Errorf("escaped: %v", r)
				}
			}()
			res <- m.RunMicroTask("repeated", big, func(context.Context) error { panic(val) })
		}()
		select {
		case err := <-res:
			if isP, me := modules.IsPanic(err); !isP || me.PanicValue != val {
				h.b.Violation("C15:M2:panic-not-returned:repeated", fmt.Sprintf("Run* of a function that panics with the same value as the previous run of the same name returned %v", err), map[string]any{"spec": h.specNoTasks(), "round": i})
				return false
			}
		case <-func() <-chan time.Time {
			// a deadlock proven from the goroutine dump ends the wait early
			c := make(chan time.Time, 1)
			go func() {
				for t0 := time.Now(); time.Since(t0) < 15*time.Second; {
					time.Sleep(300 * time.Millisecond)
					if len(res) > 0 {
						return
					}
					if time.Since(t0) > time.Second && reportDeadlocked() {
						break
					}
				}
				c <- time.Now()
			}()
			return c
		}():
			buf := make([]byte, 1<<20)
			buf = buf[:runtime.Stack(buf, true)]
			where := ""
			for _, g := range strings.Split(string(buf), "\n\n") {
				if strings.Contains(g, "repeatedPanicCheck") && strings.Contains(g, "safing/portbase/modules.") {
					for _, ln := range strings.Split(g, "\n") {
						if strings.HasPrefix(ln, "github.com/safing/portbase/modules.") {
							where = strings.TrimPrefix(ln[:strings.LastIndex(ln, "(")], "github.com/safing/portbase/modules.")
							break
						}
					}
				}
			}
			if where == "" {
				h.b.Inconclusive("case %d: repeated-panic check: Run* did not return within 15s, no portbase frame found on its goroutine", h.sp.Case)
			} else {
				h.b.Violation("C15:M2:run-never-returned:blocked-in:"+where, fmt.Sprintf("Run*MicroTask of a panicking function (round %d: same name and panic value as the run before) has not returned after the function panicked, with nothing else running; its goroutine is blocked in modules.%s and nothing can unblock it; the microtask stays counted (global %d)", i, where, modules.VerifMicroTasks()),
					map[string]any{"spec": h.specNoTasks(), "round": i, "blocked_in": where, "counts": h.counts()})
			}
			// every later report would block as well (Shutdown's included): end the child here
			h.b.Finish(dir)
			os.Exit(0)
		}
	}
	h.b.Count("repeated_panic_checks", 1)
	return true
}

// parkCheck (M4, "later microtasks are admitted immediately" for the interleaving in which
// all running microtasks finish at the same moment): `limit` gated medium-priority Run*
// microtasks take all slots - the scheduler then waits in its "all slots taken" branch -,
// are released together and each stays 2 ms at modules.mt.conclude, i.e. between the
// module-side and the global-side of its conclusion. When all Run* calls have returned,
// every conclusion is complete. A fresh microtask submitted now must be admitted because
// the scheduler was told about the free slots, not because its 1 s recheck ticker fired:
// no modules.mt.recheck event may lie between the submission and the begin of the
// function. On the unchanged code each wake-up of the scheduler follows the global
// decrement of the concluding microtask, so after the last return the scheduler has either
// re-read a count below the limit or has a wake-up pending, and a scheduler that is blocked
// in its select is completed by that wake-up, not by a later tick. The one remaining
// coincidence (the scheduler goroutine descheduled between reading the count and entering
// the select, with a stale tick buffered) would have to happen in both rounds: a violation
// is only reported when both rounds needed the ticker.
func (h *c15H) parkCheck() bool {
	sp := h.sp
	needed := 0
	const rounds = 2
	for round := 0; round < rounds; round++ {
		gate := make(chan struct{})
		var begun atomic.Int32
		var wg sync.WaitGroup
		h.forceConclDelay.Store(true)
		for i := 0; i < sp.Limit; i++ {
			wg.Add(1)
			h.submitted.Add(1)
			h.expConcl.Add(1)
			go func() {
				defer wg.Done()
				_ = h.mods[0].RunMicroTask("park", c15BigDelayMs*time.Millisecond, func(context.Context) error {
					begun.Add(1)
					<-gate
					return nil
				})
			}()
		}
		for dl := time.Now().Add(20 * time.Second); int(begun.Load()) < sp.Limit; {
			if time.Now().After(dl) {
				close(gate)
				wg.Wait()
				h.forceConclDelay.Store(false)
				h.b.Inconclusive("case %d: park check: only %d of %d slot holders admitted within 20s", sp.Case, begun.Load(), sp.Limit)
				return false
			}
			time.Sleep(100 * time.Microsecond)
		}
		time.Sleep(300 * time.Microsecond) // let the scheduler count the last grant and park
		close(gate)
		wg.Wait()
		h.forceConclDelay.Store(false)
		if !h.settle("parkcheck") {
			return false
		}
		smp, ok := h.probe(-1)
		if !ok {
			return false
		}
		h.b.Count("park_check_rounds", 1)
		if smp.recheckBetween {
			needed++
		}
		if smp.global != 0 {
			h.b.Violation("C15:M3:global-count-nonzero:"+sign(smp.global)+":parkcheck", fmt.Sprintf("global microtask count is %d after %d slot-holding Run* microtasks had returned", smp.global, sp.Limit),
				map[string]any{"spec": h.specNoTasks(), "global": smp.global})
			return false
		}
	}
	switch {
	case needed == rounds:
		h.b.Violation("C15:M4:admitted-only-by-recheck-tick", fmt.Sprintf("with all %d slots free again (every Run* call of the slot holders had returned) a fresh medium-priority microtask was admitted only after the scheduler's 1 s recheck ticker fired, in %d of %d rounds", sp.Limit, needed, rounds),
			map[string]any{"spec": h.specNoTasks(), "limit": sp.Limit, "rounds_that_needed_the_ticker": needed})
	case needed > 0:
		h.b.Count("park_check_single_tick_coincidences", 1)
	}
	return true
}

// prbStop is the stop routine of the probe module. Shutdown has begun when it runs: it
// submits medium/low-priority microtasks of every variant (modules do that while they
// stop) and waits for them. Their accounting is checked after Shutdown returned.
func (h *c15H) prbStop() error {
	var wg sync.WaitGroup
	big := c15BigDelayMs * time.Millisecond
	fn := func(context.Context) error { h.afterShutdown.Add(1); wg.Done(); return nil }
	for i := 0; i < 24; i++ {
		wg.Add(1)
		switch i % 6 {
		case 0:
			_ = h.prb.RunMicroTask("sd", big, fn)
		case 1:
			_ = h.prb.RunLowPriorityMicroTask("sd", big, fn)
		case 2:
			h.prb.StartMicroTask("sd", big, fn)
		case 3:
			h.prb.StartLowPriorityMicroTask("sd", big, fn)
		case 4:
			done := h.prb.SignalMicroTask(big)
			_ = fn(nil)
			done()
			done()
		default:
			done := h.prb.SignalLowPriorityMicroTask(big)
			_ = fn(nil)
			done()
		}
	}
	wg.Wait()
	return nil
}

// afterShutdownAccounting (M3 has no "before shutdown" restriction): the microtasks the
// probe module's stop routine submitted were admitted by the shutdown scheduler. Two
// further microtasks are run one after the other; inside the function of the second one
// every earlier admission has been counted (the scheduler handles one request at a
// time), so the global count can only be too high there (a Start* goroutine that has not
// reached its global decrement yet, the second microtask itself) - never negative.
func (h *c15H) afterShutdownAccounting() {
	if n := h.afterShutdown.Load(); n != 24 {
		h.b.Violation("C15:M2:after-shutdown-executed-"+fmt.Sprint(n), fmt.Sprintf("%d of 24 microtask functions submitted by a stop routine ran", n), map[string]any{"spec": h.specNoTasks()})
		return
	}
	big := c15BigDelayMs * time.Millisecond
	_ = h.prb.RunMicroTask("post", big, func(context.Context) error { return nil })
	var inFn int32
	_ = h.prb.RunLowPriorityMicroTask("post", big, func(context.Context) error { inFn = modules.VerifMicroTasks(); return nil })
	h.b.Count("after_shutdown_accounting_checks", 1)
	h.b.Count("microtasks_admitted_after_shutdown_began", 26)
	if inFn < 0 {
		h.b.Violation("C15:M3:global-count-negative-after-shutdown", fmt.Sprintf("global microtask count is %d after 24 medium/low-priority microtasks submitted by a stop routine (after Shutdown had begun) had finished", inFn),
			map[string]any{"spec": h.specNoTasks(), "global_inside_following_microtask": inFn, "counts": h.counts()})
		return
	}
	for dl := time.Now().Add(10 * time.Second); ; {
		v := modules.VerifMicroTasks()
		_, _, pm := h.prb.VerifModuleCounts()
		if v == 0 && pm == 0 {
			return
		}
		if time.Now().After(dl) {
			if v > 0 || pm != 0 {
				h.b.Violation("C15:M3:count-nonzero-after-shutdown", fmt.Sprintf("10 s after Shutdown returned and every microtask had finished the global count is %d, the probe module's %d", v, pm),
					map[string]any{"spec": h.specNoTasks(), "counts": h.counts()})
			}
			return
		}
		time.Sleep(time.Millisecond)
	}
}

func sign(n int32) string {
	if n < 0 {
		return "negative"
	}
	return "positive"
}

// ---------------------------------------------------------------------------------
// parent

var c15RaceScope = []string{"microTaskScheduler", "microTaskShutdownScheduler", "concludeMicroTask", "signalMicroTask", "runMicroTask",
	"getMediumPriorityClearance", "getLowPriorityClearance", "MicroTask"}

const c15Rule = "case = one started module system (1-3 workload modules + a probe module), limit in {2,3,4,8,32}, three histories of 10-400 microtasks each: " +
	"Run*/Start*/Signal* x high/medium/low, run times 0-5 ms, 0-10% panicking, 20% returning an error, 1-16 submitting goroutines, done() called 1-3 times (also concurrently); " +
	"class m1: max delays of 30 s (never expire), a saturation phase in which `limit` functions stay until all of them run; class tiny: max delays of 0-5 ms (only M2-M4 asserted); " +
	"class overflow-low/-med (child run with GOMAXPROCS=2, i.e. clearance queues of 200): limit 2, both slots held, 220 requests queued, 260 further submissions with a 1 ms max delay that find the queue full (M2-M4 only, followed by an m1 history); " +
	"every child ends with Shutdown while one microtask per module (Run/Start/Signal x priority, also panicking) is still running and is the last item of its module to return; " +
	"hooks idle or PRNG delays at modules.mt.granted / modules.mt.conclude. distinct = class x limit x submitters x size x priority/variant mix x observed maximum concurrency; " +
	"non-trivial = every history (all run >= 10 microtasks through the scheduler and end with the quiescence fence)"

func c15Parent(cfg vlib.Cfg) {
	rep := vlib.NewReport(cfg)
	rep.Rule(c15Rule)
	var cases []*c15Spec
	repeat := 1
	if cfg.Replay != "" {
		sp, err := c15ReplaySpec(cfg)
		if err != nil {
			fmt.Println("h_work: cannot replay:", err)
			rep.Note("replay file not usable: %v", err)
			_ = rep.Finish()
			return
		}
		cases, repeat = []*c15Spec{sp}, 10
	} else {
		cases = c15Cases(cfg)
	}
	if oc := os.Getenv("VERIF_ONLY_CASE"); oc != "" { // development aid
		var keep []*c15Spec
		for _, sp := range cases {
			if fmt.Sprint(sp.Case) == oc {
				keep = append(keep, sp)
			}
		}
		cases = keep
	}
	type job struct {
		sp      *c15Spec
		race    bool
		attempt int
	}
	var jobs []job
	for _, sp := range cases {
		for k := 0; k < repeat; k++ {
			jobs = append(jobs, job{sp, cfg.BinRace != "" && (sp.Case+k)%3 == 2, 0})
		}
	}
	for round := 0; round < 3 && len(jobs) > 0; round++ {
		var specs []vlib.ChildSpec
		for i, j := range jobs {
			bin := cfg.BinPlain
			if j.race {
				bin = cfg.BinRace
			}
			specs = append(specs, vlib.ChildSpec{Name: fmt.Sprintf("c15-r%d-%04d-%d", round, j.sp.Case, i), Bin: bin, Spec: j.sp, Timeout: 200 * time.Second, Race: j.race, Env: c15Env(j.sp), Keep: os.Getenv("VERIF_ONLY_CASE") != ""})
		}
		var retry []job
		vlib.RunChildren(cfg, specs, func(i int, c *vlib.ChildResult) {
			j := jobs[i]
			for _, rr := range c.Races {
				switch {
				case rr.HarnessOnly():
					rep.FloorMissed("race report with harness-only frames (the monitor itself is racy): %s", firstLines(rr.Text, 12))
				case c15RaceInScope(&rr):
					rep.Violation("C15:race:"+rr.Signature(), "data race on the microtask accounting state", map[string]any{"case": j.sp.Case, "report": rr.Text})
				default:
					rep.Seen("race_diagnostics", rr.Signature())
				}
			}
			if !c.Done || len(c.Out) == 0 {
				tail := c.StderrTail(6000)
				if crashInPortbase(tail) {
					rep.Violation("C15:crash:"+fatalSite(tail), fmt.Sprintf("child of case %d died inside portbase/modules (exit=%d signal=%q)", j.sp.Case, c.Exit, c.Signal),
						map[string]any{"case_spec_summary": map[string]any{"case": j.sp.Case, "limit": j.sp.Limit}, "stderr_tail": tail})
					return
				}
				if j.attempt < 2 {
					j.attempt++
					retry = append(retry, j)
					return
				}
				rep.Inconclusive("case %d: child did not complete (exit=%d signal=%q timeout=%v); stderr: %s", j.sp.Case, c.Exit, c.Signal, c.TimedOut, lastLines(tail, 6))
				return
			}
			if j.race {
				rep.Count("children_race_build", 1)
				rep.MergeChild(c)
			} else {
				rep.Count("children_plain_build", 1)
				rep.MergeChild(c)
			}
			rep.Seen("limits_driven", fmt.Sprint(j.sp.Limit))
			rep.Max("slowest_child_ms", c.Wall.Milliseconds())
			if c.Wall > 8*time.Second {
				rep.Note("case %d took %s (limit %d, race build %v)", j.sp.Case, c.Wall.Round(time.Millisecond), j.sp.Limit, j.race)
			}
		})
		jobs = retry
	}
	if cfg.Replay == "" {
		m1 := rep.Counter("m1_histories_checked")
		m1nh := rep.Counter("m1_histories_without_high")
		rep.Floor(rep.Counter("microtasks_run") >= int64(cfg.N(30000, 1000000)), "only %d microtasks run", rep.Counter("microtasks_run"))
		rep.Floor(m1 >= int64(cfg.N(200, 6000)), "only %d m1 histories checked", m1)
		rep.Floor(m1nh > 0 && rep.Counter("m1_histories_without_high_that_reached_limit")*2 >= m1nh,
			"the concurrency limit was reached in only %d of %d m1 histories without high-priority microtasks", rep.Counter("m1_histories_without_high_that_reached_limit"), m1nh)
		rep.Floor(rep.Counter("quiescence_fences") >= int64(cfg.N(300, 10000)), "only %d quiescence fences", rep.Counter("quiescence_fences"))
		rep.Floor(rep.Counter("histories_tiny") > 0 && rep.Counter("maxdelay_expiries_observed") > 0, "no max-delay expiry observed in the tiny class")
		rep.Floor(rep.Counter("run_errors_checked") > 0 && rep.Counter("run_panics_checked") > 0, "no error/panic hand-back checked")
		rep.Floor(rep.Counter("park_check_rounds") >= int64(cfg.N(40, 1000)), "only %d park-check rounds", rep.Counter("park_check_rounds"))
		rep.Floor(rep.Counter("restart_checks") >= int64(cfg.N(10, 300)), "only %d restart checks", rep.Counter("restart_checks"))
		rep.Floor(rep.Counter("repeated_panic_checks") >= int64(cfg.N(100, 3000)), "only %d repeated-panic checks", rep.Counter("repeated_panic_checks"))
		rep.Floor(rep.Counter("run_panics_with_panicking_value_checked") > 0, "no panic value with a panicking Error()/String() method driven")
		rep.Floor(rep.Counter("run_errors_checked_at_module_stop") >= int64(cfg.N(30, 1000)), "only %d Run* errors checked at a module stop", rep.Counter("run_errors_checked_at_module_stop"))
		rep.Floor(rep.Counter("microtasks_running_across_a_module_start") >= int64(cfg.N(400, 10000)), "only %d microtasks running across a module start", rep.Counter("microtasks_running_across_a_module_start"))
		rep.Floor(rep.Counter("after_shutdown_accounting_checks") >= int64(cfg.N(100, 3000)), "only %d after-shutdown accounting checks", rep.Counter("after_shutdown_accounting_checks"))
		rep.Floor(rep.Counter("histories_overflow-low") > 0 && rep.Counter("histories_overflow-med") > 0 && rep.Counter("overflow_histories_with_queue_full_expiries") > 0,
			"overflow classes not exercised (low=%d med=%d with queue-full expiries=%d)", rep.Counter("histories_overflow-low"), rep.Counter("histories_overflow-med"), rep.Counter("overflow_histories_with_queue_full_expiries"))
	}
	rep.Assume("M1 is asserted at instants at which no harness high-priority function is between its begin and end, in histories without any modules.mt.maxdelay event, all before Shutdown")
	rep.Assume("the gauge of a function lies inside the interval during which portbase counts the microtask, except for the grant window (request answered, not yet counted), during which the single scheduler goroutine cannot admit another one")
	rep.Assume("quiescence is logical: number of modules.mt.granted hits == number of medium/low submissions, then the counters are sampled inside the grant hook of a probe microtask; at most 400 requests are outstanding, far below the clearance queue capacity (100*GOMAXPROCS)")
	if err := rep.Finish(); err != nil {
		fmt.Println("h_work: cannot write result:", err)
		os.Exit(2)
	}
}

func c15Env(sp *c15Spec) []string {
	if sp.GoMaxProcs > 0 {
		return []string{fmt.Sprintf("GOMAXPROCS=%d", sp.GoMaxProcs)}
	}
	return nil
}

func c15RaceInScope(rr *vlib.RaceReport) bool {
	if !rr.InScope(c15RaceScope...) {
		return false
	}
	for i := 0; i < 2; i++ {
		// unlocked read of Module.Ctx against start(): see c05RaceInScope
		if strings.HasSuffix(rr.TopFrame(i, "safing/portbase"), "modules.(*Module).start") {
			return false
		}
	}
	return true
}

func c15ReplaySpec(cfg vlib.Cfg) (*c15Spec, error) {
	b, err := os.ReadFile(cfg.Replay)
	if err != nil {
		return nil, err
	}
	var doc struct {
		Seed   uint64 `json:"seed"`
		Detail struct {
			Spec struct {
				Case int    `json:"case"`
				Seed uint64 `json:"seed"`
			} `json:"spec"`
		} `json:"detail"`
	}
	if err := json.Unmarshal(b, &doc); err != nil {
		return nil, err
	}
	// a C15 case is regenerated from (seed, case number); the witness stores both
	c := cfg
	c.Seed = doc.Detail.Spec.Seed
	if c.Seed == 0 {
		c.Seed = doc.Seed
	}
	for _, sp := range c15Cases(c) {
		if sp.Case == doc.Detail.Spec.Case {
			return sp, nil
		}
	}
	// thorough-tier case numbers
	c.Tier = "thorough"
	for _, sp := range c15Cases(c) {
		if sp.Case == doc.Detail.Spec.Case {
			return sp, nil
		}
	}
	return nil, fmt.Errorf("case %d not found for seed %d", doc.Detail.Spec.Case, c.Seed)
}
