package main

import (
	"encoding/json"
	"fmt"
	"os"
	"sort"
	"strings"
	"time"

	"verifharness/internal/vlib"
)

// functions whose races are about the state the stop protocol is made of (DESIGN 3.3)
var c05RaceScope = []string{"checkIfStopComplete", "stopAllTasks", "modules.(*Module).stop", "modules.(*Module).RunWorker",
	"runServiceWorker", "runMicroTask", "signalMicroTask", "concludeMicroTask", "startCtrlFn"}

// c05RaceInScope applies the scope filter. Narrowing recorded after the first silence
// runs: a report whose other side is (*Module).start is the unlocked read of Module.Ctx
// in a run path (runWorker / runMicroTask) against start() replacing the context. With
// module management enabled portbase itself produces it (the "notify of change" worker
// started by prep() reads Ctx while start() writes it). Whichever of the two contexts the
// worker gets is cancelled by the time the stop routine is invoked, so the report does
// not bear on this property: it is kept as a diagnostic, not raised.
func c05RaceInScope(rr *vlib.RaceReport) bool {
	if !rr.InScope(c05RaceScope...) {
		return false
	}
	for i := 0; i < 2; i++ {
		if strings.HasSuffix(rr.TopFrame(i, "safing/portbase"), "modules.(*Module).start") {
			return false
		}
	}
	return true
}

const c05Rule = "case = one module-system life in its own process: 1-4 modules (single/chain/fan/diamond), 0-12 managed work items per module " +
	"(worker, RunWorker, service worker with restarts, task via Queue/QueuePrioritized/StartASAP/Schedule/overdue path, Run*/Start*/Signal* microtask of each priority, event hook), " +
	"each waiting for its context, a harness latch (stop routine began/ended) or finishing on its own, linger 0-100 ms, stop routine delay 0-100 ms or nil; " +
	"stop by Shutdown or by Disable+ManageModules (optionally re-enabled and stopped again); hooks idle, PRNG delays at every hook point, or an explicit pairwise ordering plan " +
	"(finishing item parked at its decrement point until a chosen step of the stopper, and the reverse). " +
	"distinct = class x per-module multiset of (kind, wait mode, settled) x observed interleaving signatures; non-trivial = at least one item had begun before and returned after the invocation of its module's stop routine"

func c05Parent(cfg vlib.Cfg) {
	rep := vlib.NewReport(cfg)
	rep.Rule(c05Rule)
	var cases []*c05Spec
	repeat := 1
	if cfg.Replay != "" {
		sp, err := c05ReplaySpec(cfg.Replay)
		if err != nil {
			fmt.Println("h_work: cannot replay:", err)
			rep.Note("replay file not usable: %v", err)
			_ = rep.Finish()
			return
		}
		cases = []*c05Spec{sp}
		repeat = 20
	} else {
		cases = c05Cases(cfg)
	}
	if oc := os.Getenv("VERIF_ONLY_CASE"); oc != "" { // development aid: run one case of the list and keep its directory
		var keep []*c05Spec
		for _, sp := range cases {
			if fmt.Sprint(sp.Case) == oc {
				keep = append(keep, sp)
			}
		}
		cases = keep
	}
	type job struct {
		sp      *c05Spec
		race    bool
		attempt int
	}
	var jobs []job
	for _, sp := range cases {
		for k := 0; k < repeat; k++ {
			race := cfg.BinRace != "" && (sp.Case+k)%3 == 2
			jobs = append(jobs, job{sp, race, 0})
		}
	}
	conclusive, withRunning3, randomCases := 0, 0, 0
	pairPlans, pairRealised := 0, 0
	for round := 0; round < 3 && len(jobs) > 0; round++ {
		var specs []vlib.ChildSpec
		for i, j := range jobs {
			bin := cfg.BinPlain
			if j.race {
				bin = cfg.BinRace
			}
			specs = append(specs, vlib.ChildSpec{Name: fmt.Sprintf("c05-r%d-%04d-%d", round, j.sp.Case, i), Bin: bin, Spec: j.sp, Timeout: 150 * time.Second, Race: j.race, Keep: os.Getenv("VERIF_ONLY_CASE") != "", Env: c05Env(j.sp)})
		}
		var retry []job
		vlib.RunChildren(cfg, specs, func(i int, c *vlib.ChildResult) {
			j := jobs[i]
			sp := j.sp
			for _, rr := range c.Races {
				switch {
				case rr.HarnessOnly():
					rep.FloorMissed("race report with harness-only frames (the monitor itself is racy): %s", firstLines(rr.Text, 12))
				case c05RaceInScope(&rr):
					rep.Violation("C05:race:"+rr.Signature(), "data race on state of the stop-completion protocol", map[string]any{"spec": sp, "report": rr.Text})
				default:
					rep.Seen("race_diagnostics", rr.Signature())
				}
			}
			var out c05Out
			if len(c.Out) > 0 {
				_ = json.Unmarshal(c.Out, &out)
			}
			if !c.Done || len(c.Out) == 0 {
				tail := c.StderrTail(6000)
				if crashInPortbase(tail) {
					rep.Violation("C05:crash:"+fatalSite(tail), fmt.Sprintf("child of case %d (%s) died inside portbase/modules (exit=%d signal=%q)", sp.Case, sp.Class, c.Exit, c.Signal),
						map[string]any{"spec": sp, "stderr_tail": tail})
					return
				}
				if j.attempt < 2 {
					j.attempt++
					retry = append(retry, j)
					return
				}
				rep.Inconclusive("case %d (%s): child did not complete (exit=%d signal=%q timeout=%v wedged=%q phase=%q); stderr: %s", sp.Case, sp.Class, c.Exit, c.Signal, c.TimedOut, out.Hung, out.Phase, lastLines(tail, 8))
				return
			}
			v := c05Oracle(sp, &out)
			rep.Eval(1)
			if j.race {
				rep.Count("cases_race_build", 1)
			} else {
				rep.Count("cases_plain_build", 1)
			}
			rep.Count("events", int64(v.Events))
			rep.Count("module_stops_observed", int64(v.Stops))
			rep.Count("p4_probes", int64(v.P4Probes))
			rep.Count("items_begun_after_stop_with_ctx_check", int64(v.LateItems))
			rep.Count("restarting_service_worker_invocations_while_stopping", int64(v.LoopInvocationsWhileStopping))
			rep.Max("max_items_running_at_a_stop", int64(v.RunningAtStop))
			rep.Seen("case_classes", strings.SplitN(sp.Class, ":", 3)[0]+":"+second(sp.Class))
			for k, n := range v.KindsRunning {
				rep.Seen("kinds_running_at_a_stop", k)
				rep.Count("running_at_stop:"+k, int64(n))
			}
			for _, s := range v.Signatures {
				rep.Seen("interleaving_signatures", s)
			}
			for _, n := range v.Notes {
				rep.Note("case %d: %s", sp.Case, n)
			}
			for _, n := range out.Notes {
				rep.Note("case %d (%s): %s", sp.Case, sp.Class, n)
			}
			if sp.NeverReturn {
				// timeout path: only observed
				rep.Set("timeout_path_shutdown_returned", v.TimeoutsSeen > 0 && hasRet(&out, "Shutdown"))
				return
			}
			if len(v.Inconcl) > 0 && len(v.Viol) == 0 {
				if j.attempt < 2 {
					j.attempt++
					retry = append(retry, j)
					return
				}
				for _, s := range v.Inconcl {
					rep.Inconclusive("%s", s)
				}
				return
			}
			conclusive++
			if strings.HasPrefix(sp.Class, "random:") {
				randomCases++
				if v.RunningAtStop >= 3 {
					withRunning3++
				}
			}
			if strings.HasPrefix(sp.Class, "pair:") {
				pairPlans++
				if v.PlanRealised {
					pairRealised++
					rep.Seen("pair_plans_realised", strings.TrimPrefix(sp.Class, "pair:"))
				} else {
					rep.Count("pair_plans_not_realised", 1)
				}
			}
			for _, vi := range v.Viol {
				rep.Violation(vi.Sig, vi.What, vi.Detail)
			}
			if v.RunningAtStop >= 1 {
				rep.Distinct(sp.Class + "|" + c05Shape(sp) + "|" + strings.Join(v.Signatures, ","))
				if len(v.SigText) > 0 {
					rep.Sample(map[string]any{"case": sp.Case, "class": sp.Class, "modules": len(sp.Mods), "stop_via": sp.StopVia, "items_running_at_stop": v.RunningAtStop,
						"events": v.Events, "interleaving_of_first_stop": v.SigText[0]})
				}
			}
		})
		jobs = retry
	}
	if cfg.Replay == "" {
		rep.Set("cases_conclusive", conclusive)
		rep.Set("random_class_cases", randomCases)
		rep.Set("random_class_cases_with_3_or_more_items_running_at_stop", withRunning3)
		rep.Set("pair_plan_cases", pairPlans)
		rep.Set("pair_plan_cases_realised", pairRealised)
		rep.Floor(conclusive >= len(cases)*8/10, "only %d of %d cases conclusive", conclusive, len(cases))
		rep.Floor(withRunning3*2 >= randomCases, "only %d of %d random-class cases had >= 3 items still running when the stop routine was invoked", withRunning3, randomCases)
		want := []string{"worker", "service worker", "task", "event hook", "microtask high", "microtask medium", "microtask low", "signalled microtask"}
		for _, k := range want {
			rep.Floor(rep.Counter("running_at_stop:"+k) > 0, "item kind %q never seen running at a stop", k)
		}
		rep.Floor(rep.SeenCount("interleaving_signatures") >= 20, "only %d distinct interleaving signatures", rep.SeenCount("interleaving_signatures"))
		rep.Floor(pairRealised*2 >= pairPlans, "only %d of %d pairwise plans realised", pairRealised, pairPlans)
	}
	rep.Assume("an item counts as 'running' at a stop iff its begin event (recorded inside the function handed to portbase) precedes the begin event of the module's stop routine (nil stop routine: the modules.stop.cancelled hook event)")
	rep.Assume("stop timeout set to 8 s via VerifSetStopTimeout; items linger <= 100 ms after cancellation; the timeout is only observed through the modules.stop.timeout hook event")
	rep.Assume("P3 witness: the timeout hook fired although every begun item and the stop routine had returned at least half the stop timeout earlier (an idle wait of >= 4 s cannot be scheduling noise)")
	if err := rep.Finish(); err != nil {
		fmt.Println("h_work: cannot write result:", err)
		os.Exit(2)
	}
}

func c05Env(sp *c05Spec) []string {
	if sp.GoMaxProcs > 0 {
		return []string{fmt.Sprintf("GOMAXPROCS=%d", sp.GoMaxProcs)}
	}
	return nil
}

func second(class string) string {
	p := strings.Split(class, ":")
	if len(p) > 1 {
		return p[1]
	}
	return ""
}

func hasRet(out *c05Out, op string) bool {
	for i := range out.Events {
		if out.Events[i].Kind == "ret" && out.Events[i].Op == op {
			return true
		}
	}
	return false
}

// c05Shape is the structural part of a case's identity.
func c05Shape(sp *c05Spec) string {
	var parts []string
	for _, m := range sp.Mods {
		var ks []string
		for _, it := range m.Items {
			ks = append(ks, fmt.Sprintf("%s/%s/%v", it.Kind, it.Wait, it.Settled))
		}
		sort.Strings(ks)
		parts = append(parts, fmt.Sprintf("%s<%s>nil=%v:%s", m.Name, strings.Join(m.Deps, "+"), m.StopNil, strings.Join(ks, ",")))
	}
	return fmt.Sprintf("%s/%v/%v|%s", sp.StopVia, sp.Mgmt, sp.Restart, strings.Join(parts, ";"))
}

func c05ReplaySpec(path string) (*c05Spec, error) {
	b, err := os.ReadFile(path)
	if err != nil {
		return nil, err
	}
	var doc struct {
		Detail struct {
			Spec *c05Spec `json:"spec"`
		} `json:"detail"`
	}
	if err := json.Unmarshal(b, &doc); err != nil {
		return nil, err
	}
	if doc.Detail.Spec == nil || len(doc.Detail.Spec.Mods) == 0 {
		return nil, fmt.Errorf("no scenario spec in %s", path)
	}
	return doc.Detail.Spec, nil
}

func firstLines(s string, n int) string {
	l := strings.Split(s, "\n")
	if len(l) > n {
		l = l[:n]
	}
	return strings.Join(l, "\n")
}

func lastLines(s string, n int) string {
	l := strings.Split(strings.TrimSpace(s), "\n")
	if len(l) > n {
		l = l[len(l)-n:]
	}
	return strings.Join(l, " | ")
}
