// h_work — engine for the managed-work properties of portbase/modules:
//
//	C05  stopping a module waits for its managed work
//	C15  microtask concurrency limit, exactly-once, accounting
//
// Parent mode (no VERIF_CHILD): derives the PRNG-determined case list, runs each case
// in a child process of itself (plain or -race build), decides every case with the
// oracles and writes the report. Child mode: one module-system life (Register ...
// Start ... work ... Shutdown) against the real portbase code; the harness-supplied
// work items, lifecycle callbacks and hook handlers record what happened.
package main

import (
	"encoding/json"
	"fmt"
	"os"
	"path/filepath"
	"strings"

	"verifharness/internal/vlib"
)

func main() {
	if dir, ok := vlib.IsChild(); ok {
		childMain(dir)
		return
	}
	cfg := vlib.Load()
	switch cfg.Prop {
	case "C05":
		c05Parent(cfg)
	case "C15":
		c15Parent(cfg)
	default:
		fmt.Println("h_work: unknown property", cfg.Prop)
		os.Exit(2)
	}
}

func childMain(dir string) {
	raw, err := os.ReadFile(filepath.Join(dir, "spec.json"))
	if err != nil {
		fmt.Println("h_work child: no spec:", err)
		os.Exit(3)
	}
	var env struct {
		Prop string `json:"prop"`
	}
	_ = json.Unmarshal(raw, &env)
	switch env.Prop {
	case "C05":
		c05Child(dir, raw)
	case "C15":
		c15Child(dir, raw)
	default:
		fmt.Println("h_work child: unknown property in spec:", env.Prop)
		os.Exit(3)
	}
}

// fatalSite extracts the first "fatal error:" / "panic:" line of a dead child's stderr
// (part of a crash signature; no addresses or values).
func fatalSite(tail string) string {
	for _, ln := range strings.Split(tail, "\n") {
		if strings.HasPrefix(ln, "fatal error:") || strings.HasPrefix(ln, "panic:") {
			s := strings.TrimSpace(ln)
			// strip values after the message kind
			if i := strings.Index(s, " [recovered]"); i > 0 {
				s = s[:i]
			}
			if len(s) > 70 {
				s = s[:70]
			}
			return s
		}
	}
	return "unknown"
}

// crashInPortbase reports whether the dying goroutine's stack (first goroutine block
// after the panic line) runs through portbase/modules code.
func crashInPortbase(tail string) bool {
	i := strings.Index(tail, "panic:")
	if j := strings.Index(tail, "fatal error:"); j >= 0 && (i < 0 || j < i) {
		i = j
	}
	if i < 0 {
		return false
	}
	rest := tail[i:]
	if k := strings.Index(rest, "\n\ngoroutine "); k > 0 {
		// first goroutine block only
		blk := rest[k+2:]
		if e := strings.Index(blk, "\n\n"); e > 0 {
			blk = blk[:e]
		}
		return strings.Contains(blk, "safing/portbase/modules.")
	}
	return strings.Contains(rest, "safing/portbase/modules.")
}
