package main

import (
	"context"
	"encoding/json"
	"errors"
	"fmt"
	"os"
	"path/filepath"
	"runtime"
	"strings"
	"sync"
	"sync/atomic"
	"time"

	"github.com/safing/portbase/modules"

	"verifharness/internal/vlib"
)

// ---------------------------------------------------------------------------------
// scenario description (this is what a replay file stores)

type c05Spec struct {
	Prop          string      `json:"prop"`
	Case          int         `json:"case"`
	Class         string      `json:"class"` // random | pair:<plan> | timeout
	Seed          uint64      `json:"seed"`
	Limit         int         `json:"limit"` // microtask limit (kept above the number of microtask items)
	StopTimeoutMs int         `json:"stop_timeout_ms"`
	Mgmt          bool        `json:"mgmt"`
	StopVia       string      `json:"stop_via"` // shutdown | manage
	Disable       []string    `json:"disable,omitempty"`
	Restart       bool        `json:"restart,omitempty"`
	Mods          []*c05Mod   `json:"mods"`
	Hooks         []*hookRule `json:"hooks,omitempty"`
	WaitHit       string      `json:"wait_hit,omitempty"` // pair plans: latch the driver waits for before it triggers the stop
	DoneStorm     *doneStorm  `json:"done_storm,omitempty"`
	// NotifyManages: the change-notify function of module management does what the
	// example in EnableModuleManagement's documentation does: it calls ManageModules()
	// (not once the global shutdown has begun). The driver lets all pending notifications
	// finish before it begins a pass, so that none of them is a worker of an online
	// module that waits for the management lock when the next pass takes it.
	NotifyManages bool `json:"notify_manages,omitempty"`
	// ReportChan: an error reporting channel is installed (SetErrorReportingChannel) that
	// nobody reads from
	ReportChan bool `json:"report_chan,omitempty"`
	// FailureFn: see c05FailureFnCase
	FailureFn  bool `json:"failure_fn,omitempty"`
	GoMaxProcs int  `json:"gomaxprocs,omitempty"` // the child runs with GOMAXPROCS=<n>
	// FailStart: modules (module management on) that are not enabled at Start. Afterwards
	// they are enabled; the first ManageModules pass runs their start routine, which
	// launches its cycle-1 items and then fails; a second pass starts them successfully.
	FailStart   []string `json:"fail_start,omitempty"`
	NeverReturn bool     `json:"never_return,omitempty"`
	// SlowStop: the first (management) stop is meant to run into the small stop timeout,
	// because items named slow* only return when the modules.stop.timeout hook fired;
	// afterwards the stop timeout is set to StopTimeoutMs2 and the driver waits for the
	// slow items to return before it restarts the module.
	SlowStop       bool `json:"slow_stop,omitempty"`
	StopTimeoutMs2 int  `json:"stop_timeout_ms2,omitempty"`
}

// doneStorm: before any work item is launched, N signalled microtasks of a module are
// each concluded by Callers goroutines that call the same done() at the same moment
// (spinning on a barrier). done() must take effect once; if it takes effect twice the
// module's microtask counter goes negative and work running at the next stop is not
// waited for - which P2 observes on the items of the scenario.
type doneStorm struct {
	Mod     string `json:"mod"`
	N       int    `json:"n"`
	Callers int    `json:"callers"`
	// Mode "" : N signalled microtasks, each concluded by Callers goroutines calling the
	//           same done() at the same moment.
	// Mode "conclude": N rounds; in each, Callers different microtasks of the module
	//           (signalled ones, or Start* functions that return) conclude at the same
	//           instant (spinning on a barrier). Afterwards every item of the module with
	//           by_storm set is started (signalled high-priority microtask) at the same
	//           instant at which Callers other microtasks conclude: an increment of the
	//           module's counter racing decrements.
	Mode string `json:"mode,omitempty"`
}

type c05Mod struct {
	Name        string   `json:"name"`
	Deps        []string `json:"deps,omitempty"`
	StopNil     bool     `json:"stop_nil,omitempty"`
	StopDelayMs int      `json:"stop_delay_ms"`
	StopErr     bool     `json:"stop_err,omitempty"`
	StopPanic   bool     `json:"stop_panic,omitempty"` // the stop routine panics (after its end event)
	// TriggerOnStopped: the stop routine waits until the named (independent) module is
	// offline and then triggers that module's p4ev event - while modules that hook it and
	// are stopped after this one are still online
	TriggerOnStopped string     `json:"trigger_on_stopped,omitempty"`
	Items            []*c05Item `json:"items"`
}

// item kinds
const (
	kWorker    = "worker"     // StartWorker
	kWorkerRun = "worker_run" // RunWorker (blocking variant, called from a harness goroutine)
	kSvc       = "svcworker"  // StartServiceWorker
	kTaskQ     = "task_queue"
	kTaskP     = "task_prio"
	kTaskA     = "task_asap"
	kTaskS     = "task_sched"   // Schedule(now+2ms)
	kTaskO     = "task_overdue" // MaxDelay(3ms).Queue(): started by the schedule handler when the queue is busy
	kHook      = "hook"         // event hook of this module, triggered on SrcMod
)

// microtask kinds are "mt_<run|start|sig>_<high|med|low>"

type c05Item struct {
	ID         string `json:"id"`
	Kind       string `json:"kind"`
	Settled    bool   `json:"settled"`         // the driver waits for its begin before it triggers the stop
	Wait       string `json:"wait"`            // ctx | self | latch
	Latch      string `json:"latch,omitempty"` // for wait=latch
	RunMs      int    `json:"run_ms,omitempty"`
	LingerMs   int    `json:"linger_ms"`
	FromStart  bool   `json:"from_start,omitempty"` // launched from inside the module's start function
	SrcMod     string `json:"src_mod,omitempty"`
	DoneCalls  int    `json:"done_calls,omitempty"`
	Restarts   int    `json:"restarts,omitempty"`     // service worker: leading invocations that return an error
	Cycle      int    `json:"cycle"`                  // start cycle of the module that launches the item (1 or 2)
	Never      bool   `json:"never,omitempty"`        // never returns (stop-timeout path)
	AtStop     bool   `json:"at_stop,omitempty"`      // submitted by a harness goroutine the moment the module's context was cancelled
	FromPrep   bool   `json:"from_prep,omitempty"`    // launched from inside the module's prep function (gets the module's initial context)
	ByStorm    bool   `json:"by_storm,omitempty"`     // started by the done storm (see doneStorm)
	PanicAtEnd bool   `json:"panic_at_end,omitempty"` // the function panics right after its end event
	BackoffMs  int    `json:"backoff_ms,omitempty"`   // service worker: back-off duration handed to StartServiceWorker (default 1 ms)
	mod        *c05Mod
}

type c05Out struct {
	Events           []vlib.Event       `json:"events"`
	Notes            []string           `json:"notes,omitempty"`
	SettleIncomplete []string           `json:"settle_incomplete,omitempty"`
	Unrealised       []string           `json:"unrealised,omitempty"`
	Hung             string             `json:"hung,omitempty"`
	Counts           map[string][]int32 `json:"counts,omitempty"`
	Phase            string             `json:"phase"`
}

// ---------------------------------------------------------------------------------

type handed struct {
	id  string
	ctx context.Context
}

type c05H struct {
	spec  *c05Spec
	dir   string
	log   *vlib.Log
	lat   *latches
	hs    *hookSet
	mods  map[string]*modules.Module
	mspec map[string]*c05Mod
	items map[string]*c05Item

	mu     sync.Mutex
	cycle  map[string]int
	reg    map[string][]handed // module -> contexts handed to its items so far
	begun  map[string]bool
	notes  []string
	phase  string
	preTsk map[string]*modules.Task // P4: tasks created while the module was online

	failBlock   atomic.Bool // the failure-update function blocks from now on
	failRelease chan struct{}

	notifyOpen     atomic.Int32 // change notifications that are being handled
	notifyDone     atomic.Int32 // ... that have been handled
	notifyExpected atomic.Int32 // ... that the passes so far have issued (at least)
}

func (h *c05H) note(f string, a ...any) {
	h.mu.Lock()
	if len(h.notes) < 30 {
		h.notes = append(h.notes, fmt.Sprintf(f, a...))
	}
	h.mu.Unlock()
}

func (h *c05H) setPhase(p string) { h.mu.Lock(); h.phase = p; h.mu.Unlock() }

func c05Child(dir string, raw []byte) {
	var spec c05Spec
	if err := json.Unmarshal(raw, &spec); err != nil {
		fmt.Println("bad spec:", err)
		os.Exit(3)
	}
	h := &c05H{spec: &spec, dir: dir, log: vlib.NewLog(), lat: newLatches(), mods: map[string]*modules.Module{},
		mspec: map[string]*c05Mod{}, items: map[string]*c05Item{}, cycle: map[string]int{}, reg: map[string][]handed{},
		begun: map[string]bool{}, preTsk: map[string]*modules.Task{}}
	h.hs = &hookSet{log: h.log, lat: h.lat, rules: spec.Hooks, rnd: vlib.NewRand(spec.Seed, "c05/hookdelay", uint64(spec.Case))}
	h.hs.install("modules.stop.ctrlset", "modules.stop.flagged", "modules.stop.cancelled", "modules.stop.timeout",
		"modules.task.defer", "modules.task.prelock", "modules.mt.conclude", "modules.ctrlfn.done", "modules.ctrlfn.sent", "modules.task.cleared")
	if spec.Class != "svcloop" {
		// (not with service workers that restart all the time: a per-run decrement, should
		// portbase ever do one, would pass these points millions of times)
		h.hs.install("modules.stop.check", "modules.worker.dec")
	}

	// internal watchdog: keep the event log if the scenario wedges
	go func() {
		time.Sleep(100 * time.Second)
		buf := make([]byte, 1<<20)
		buf = buf[:runtime.Stack(buf, true)]
		_ = os.WriteFile(filepath.Join(dir, "hang-goroutines.txt"), buf, 0o644)
		h.mu.Lock()
		ph := h.phase
		h.mu.Unlock()
		h.write("wedged in phase " + ph)
		os.Exit(4)
	}()

	h.run()
	h.write("")
	fmt.Println(vlib.DoneMarker)
}

func (h *c05H) write(hung string) {
	out := c05Out{Events: h.log.Events(), Unrealised: h.hs.unrealisedList(), Hung: hung, Counts: map[string][]int32{}}
	h.mu.Lock()
	out.Notes = append(out.Notes, h.notes...)
	out.Phase = h.phase
	for id, it := range h.items {
		if it.Settled && !h.begun[id] && it.Cycle <= h.cycle[it.mod.Name] {
			out.SettleIncomplete = append(out.SettleIncomplete, id)
		}
	}
	h.mu.Unlock()
	for n, m := range h.mods {
		w, t, mt := m.VerifModuleCounts()
		out.Counts[n] = []int32{w, t, mt}
	}
	b, _ := json.Marshal(out)
	_ = os.WriteFile(filepath.Join(h.dir, "out.json"), b, 0o644)
}

// waitNotifications: every notification the passes so far have issued has been handled.
// Otherwise a notification about a module that is online could still be pending as a
// worker of that module; its ManageModules() call would wait for the management lock and
// - if the next pass stops that very module - the stop for that worker: a deadlock of the
// documented usage itself that only the stop timeout resolves (reported as a diagnostic,
// not part of this property: that worker does not return within the stop timeout).
// shutdownWithBlockedFailureFn: every started module gets a warning; then the failure-update
// function starts to block and Shutdown is called. If Shutdown has not returned two
// seconds after the stop routine and all items of the first module to stop had returned,
// the goroutine dump is searched for the stopper sitting in Resolve -> RunWorker -> the
// failure-update function: only the harness could unblock it. That is recorded as a
// "stuck" event; then the function is released so that the child can finish.
func (h *c05H) shutdownWithBlockedFailureFn() {
	for _, ms := range h.spec.Mods {
		h.mods[ms.Name].Warning("harness:warning", "harness warning", "set before the stop")
	}
	h.failBlock.Store(true)
	ret := make(chan struct{})
	go func() { _ = h.driver("Shutdown", modules.Shutdown); close(ret) }()
	released := false
	for t0 := time.Now(); ; {
		select {
		case <-ret:
			if !released {
				close(h.failRelease)
			}
			return
		case <-time.After(200 * time.Millisecond):
		}
		if released || time.Since(t0) < 2*time.Second {
			if time.Since(t0) > 60*time.Second {
				h.note("Shutdown did not return within 60s")
				return
			}
			continue
		}
		buf := make([]byte, 4<<20)
		buf = buf[:runtime.Stack(buf, true)]
		for _, g := range strings.Split(string(buf), "\n\n") {
			if strings.Contains(g, "modules.(*Module).stopAllTasks") && strings.Contains(g, "modules.(*Module).Resolve") && strings.Contains(g, "shutdownWithBlockedFailureFn") == false && strings.Contains(g, "c05Child.func") == false {
				mod := ""
				for _, ms := range h.spec.Mods {
					if h.mods[ms.Name].Status() == modules.StatusOffline && h.lat.fired("stopfn.end|"+ms.Name) {
						mod = ms.Name
					}
				}
				h.log.Rec("stuck", mod, "stopAllTasks>Resolve>failure-update function", nil)
				break
			}
		}
		close(h.failRelease)
		released = true
	}
}

func (h *c05H) waitNotifications() {
	for dl := time.Now().Add(10 * time.Second); time.Now().Before(dl); {
		if h.notifyDone.Load() >= h.notifyExpected.Load() && h.notifyOpen.Load() == 0 {
			return
		}
		time.Sleep(200 * time.Microsecond)
	}
	h.note("notifications did not settle: %d handled, %d expected, %d open", h.notifyDone.Load(), h.notifyExpected.Load(), h.notifyOpen.Load())
}

func (h *c05H) driver(op string, fn func() error) error {
	if h.spec.NotifyManages {
		h.waitNotifications()
	}
	before := map[string]uint8{}
	if h.spec.NotifyManages {
		for n, m := range h.mods {
			before[n] = m.Status()
		}
	}
	h.log.Rec("call", "driver", op, nil)
	err := fn()
	if h.spec.NotifyManages {
		// notifications the pass has issued (unchanged portbase): "offline" after prep,
		// "online" after a start, "offline" plus the resolved failure state after a stop
		for n, m := range h.mods {
			switch st := m.Status(); {
			case op == "Start" && st == modules.StatusOnline:
				h.notifyExpected.Add(2)
			case op == "Start" && st == modules.StatusOffline:
				h.notifyExpected.Add(1)
			case before[n] == modules.StatusOnline && st == modules.StatusOffline:
				h.notifyExpected.Add(2)
			case before[n] == modules.StatusOffline && st == modules.StatusOnline && op != "Start":
				h.notifyExpected.Add(1)
			}
		}
	}
	f := map[string]any{}
	if err != nil {
		f["err"] = err.Error()
	}
	h.log.Rec("ret", "driver", op, f)
	return err
}

func (h *c05H) run() {
	sp := h.spec
	h.setPhase("register")
	modules.VerifSetStopTimeout(time.Duration(sp.StopTimeoutMs) * time.Millisecond)
	modules.SetMaxConcurrentMicroTasks(sp.Limit)
	modules.SetStdErrReporting(false)
	if sp.ReportChan {
		modules.SetErrorReportingChannel(make(chan *modules.ModuleError))
	}
	if sp.FailureFn {
		h.failRelease = make(chan struct{})
		modules.SetFailureUpdateNotifyFunc(func(uint8, string, string, string) {
			if h.failBlock.Load() {
				<-h.failRelease
			}
		})
	}

	for _, ms := range sp.Mods {
		ms := ms
		h.mspec[ms.Name] = ms
		for _, it := range ms.Items {
			it.mod = ms
			h.items[it.ID] = it
		}
		var stop func() error
		if !ms.StopNil {
			stop = func() error { return h.stopFn(ms) }
		}
		m := modules.Register(ms.Name, func() error { return h.prepFn(ms) }, func() error { return h.startFn(ms) }, stop, ms.Deps...)
		h.mods[ms.Name] = m
	}
	if sp.Mgmt {
		modules.EnableModuleManagement(func(m *modules.Module) {
			// pre = last sequence number issued before the status was sampled: the sample lies
			// between event pre and this event
			h.notifyOpen.Add(1)
			defer func() { h.notifyDone.Add(1); h.notifyOpen.Add(-1) }()
			pre := h.log.Now()
			st := m.Status()
			h.log.Rec("notify", m.Name, "", map[string]any{"status": int(st), "pre": pre})
			if sp.NotifyManages && !modules.IsShuttingDown() {
				_ = modules.ManageModules()
			}
		})
		for n, m := range h.mods {
			if !contains(sp.FailStart, n) {
				m.Enable()
			}
		}
	}

	h.setPhase("start")
	if err := h.driver("Start", modules.Start); err != nil {
		h.note("Start failed: %v", err)
		return
	}

	// cycle 1 work
	h.setPhase("launch-1")
	if sp.DoneStorm != nil {
		h.doneStorm(sp.DoneStorm)
	}
	h.launchCycle(1)
	if len(sp.FailStart) > 0 {
		h.setPhase("failstart")
		for _, n := range sp.FailStart {
			n := n
			_ = h.driver("Enable:"+n, func() error { h.mods[n].Enable(); return nil })
		}
		_ = h.driver("ManageModules", modules.ManageModules) // start routine fails
		_ = h.driver("ManageModules", modules.ManageModules) // started again, successfully
		h.launchCycle(2)
		for _, n := range sp.FailStart {
			for _, it := range h.mspec[n].Items {
				if it.Settled && (it.FromStart || it.FromPrep) && !h.lat.wait("item.begin|"+it.ID, 10*time.Second) {
					h.note("item %s of the failed start attempt had not begun after 10s", it.ID)
				}
			}
		}
	}

	if sp.WaitHit != "" {
		if !h.lat.wait(sp.WaitHit, 5*time.Second) {
			h.note("plan not realised: %s never hit before the stop", sp.WaitHit)
		}
	}

	switch sp.StopVia {
	case "manage":
		h.setPhase("manage-stop")
		for _, n := range sp.Disable {
			n := n
			_ = h.driver("Disable:"+n, func() error { h.mods[n].Disable(); return nil })
		}
		_ = h.driver("ManageModules", modules.ManageModules)
		if sp.SlowStop {
			modules.VerifSetStopTimeout(time.Duration(sp.StopTimeoutMs2) * time.Millisecond)
			for id := range h.items {
				if strings.HasPrefix(id, "slow") && !h.lat.wait("item.end|"+id, 10*time.Second) {
					h.note("slow item %s had not returned 10s after the stop timeout", id)
				}
			}
			time.Sleep(2 * time.Millisecond) // (non-blocking variants: let the decrement follow the end event)
			for id, it := range h.items {
				if strings.HasPrefix(id, "slow") && (it.Kind == kWorkerRun || it.Kind == "mt_run_med") {
					h.lat.wait("item.ret|"+id, 5*time.Second)
				}
			}
		}
		h.setPhase("p4")
		h.p4Probes("mid")
		if sp.Restart {
			h.setPhase("restart")
			for _, n := range sp.Disable {
				n := n
				_ = h.driver("Enable:"+n, func() error { h.mods[n].Enable(); return nil })
			}
			_ = h.driver("ManageModules", modules.ManageModules)
			h.setPhase("launch-2")
			h.launchCycle(2)
		}
	}
	h.setPhase("shutdown")
	if sp.FailureFn {
		h.shutdownWithBlockedFailureFn()
	} else {
		_ = h.driver("Shutdown", modules.Shutdown)
	}
	for _, ms := range sp.Mods {
		h.log.Rec("status-after-shutdown", ms.Name, "", map[string]any{"status": int(h.mods[ms.Name].Status())})
	}
	h.setPhase("post")
	h.p4Probes("post")
	time.Sleep(10 * time.Millisecond)
	if sp.Class == "svcloop" {
		time.Sleep(40 * time.Millisecond) // let goroutines that were parked in a restart loop run on
	}
	h.log.Rec("fin", "driver", "", nil)
}

// ---------------------------------------------------------------------------------
// lifecycle callbacks

func (h *c05H) prepFn(ms *c05Mod) error {
	m := h.mods[ms.Name]
	// every hook item gets its own event on its source module; registered at prep time
	// of the source module (all modules are registered by then)
	for _, it := range h.items {
		if it.Kind == kHook && it.SrcMod == ms.Name {
			m.RegisterEvent("ev-"+it.ID, true)
		}
	}
	m.RegisterEvent("p4ev", true)
	for _, it := range ms.Items {
		if it.FromPrep {
			h.launch(it)
		}
	}
	return nil
}

func (h *c05H) startFn(ms *c05Mod) error {
	m := h.mods[ms.Name]
	h.mu.Lock()
	h.cycle[ms.Name]++
	cyc := h.cycle[ms.Name]
	h.mu.Unlock()
	h.log.Rec("begin", ms.Name, "start", map[string]any{"cycle": cyc})
	if cyc == 1 {
		// hooks are registered once; the source's event exists since all preps are done
		for _, it := range ms.Items {
			if it.Kind == kHook {
				it := it
				if err := m.RegisterEventHook(it.SrcMod, "ev-"+it.ID, it.ID, func(ctx context.Context, _ interface{}) error {
					h.body(it, 0, ctx)
					return nil
				}); err != nil {
					h.note("RegisterEventHook %s: %v", it.ID, err)
				}
			}
		}
		// P4 probe hook: owned by this module, on every module's p4ev
		for _, src := range h.spec.Mods {
			src := src
			_ = m.RegisterEventHook(src.Name, "p4ev", "p4hook-"+ms.Name, func(ctx context.Context, data interface{}) error {
				h.log.Rec("begin", fmt.Sprintf("p4hook:%s<-%s:%v", ms.Name, src.Name, data), "p4hook", map[string]any{"mod": src.Name, "owner": ms.Name})
				return nil
			})
		}
		// a task created while the module is online, queued only after it was stopped
		h.mu.Lock()
		h.preTsk[ms.Name] = m.NewTask("p4pretask-"+ms.Name, func(ctx context.Context, _ *modules.Task) error {
			h.log.Rec("begin", "p4pretask:"+ms.Name, "p4pretask", map[string]any{"mod": ms.Name})
			return nil
		})
		h.mu.Unlock()
	}
	for _, it := range ms.Items {
		if it.FromStart && it.Cycle == cyc {
			h.launch(it)
		}
	}
	if cyc == 1 && contains(h.spec.FailStart, ms.Name) {
		h.log.Rec("end", ms.Name, "start", map[string]any{"cycle": cyc, "fail": true})
		return errors.New("harness start error (first attempt)")
	}
	h.log.Rec("end", ms.Name, "start", map[string]any{"cycle": cyc})
	return nil
}

func contains(l []string, x string) bool {
	for _, y := range l {
		if y == x {
			return true
		}
	}
	return false
}

func (h *c05H) stopFn(ms *c05Mod) error {
	m := h.mods[ms.Name]
	h.mu.Lock()
	cyc := h.cycle[ms.Name]
	h.mu.Unlock()
	h.log.Rec("begin", ms.Name, "stop", map[string]any{"cycle": cyc})
	// P1: every context handed to this module's items so far must be cancelled by now
	h.mu.Lock()
	reg := append([]handed(nil), h.reg[ms.Name]...)
	h.mu.Unlock()
	var live []string
	for _, hd := range reg {
		if hd.ctx.Err() == nil {
			live = append(live, hd.id)
		}
	}
	h.log.Rec("scan", ms.Name, "stop", map[string]any{"handed": len(reg), "live": live, "modctx_done": m.Ctx.Err() != nil})
	h.lat.fire("stopfn.begin|" + ms.Name)
	if src := h.mods[ms.TriggerOnStopped]; src != nil {
		for dl := time.Now().Add(3 * time.Second); src.Status() != modules.StatusOffline && time.Now().Before(dl); {
			time.Sleep(100 * time.Microsecond)
		}
		if src.Status() == modules.StatusOffline {
			h.log.Rec("p4", src.Name, "window", nil)
			for k := 0; k < 4; k++ { // (a wrongly spawned hook runner still picks at random between "source started" and "source stopping")
				src.TriggerEvent("p4ev", fmt.Sprintf("window%d", k))
			}
			time.Sleep(5 * time.Millisecond)
		} else {
			h.note("%s was not offline while %s was stopping", src.Name, ms.Name)
		}
	}
	if ms.StopDelayMs > 0 {
		time.Sleep(time.Duration(ms.StopDelayMs) * time.Millisecond)
	}
	h.log.Rec("end", ms.Name, "stop", map[string]any{"cycle": cyc})
	h.lat.fire("stopfn.end|" + ms.Name)
	if ms.StopPanic {
		panic("harness stop routine panic")
	}
	if ms.StopErr {
		return errors.New("harness stop error")
	}
	return nil
}

// ---------------------------------------------------------------------------------
// work items

// body is what every work item executes (inside the function handed to portbase).
func (h *c05H) body(it *c05Item, inv int, ctx context.Context) {
	who := it.ID
	if inv > 0 {
		who = fmt.Sprintf("%s#%d", it.ID, inv)
	}
	m := h.mods[it.mod.Name]
	h.log.Rec("begin", who, it.Kind, map[string]any{"mod": it.mod.Name})
	if ctx != nil {
		done := ctx.Err() != nil
		h.mu.Lock()
		h.reg[it.mod.Name] = append(h.reg[it.mod.Name], handed{who, ctx})
		h.mu.Unlock()
		h.log.Rec("ctx", who, it.Kind, map[string]any{"done": done})
	}
	h.mu.Lock()
	h.begun[it.ID] = true
	h.mu.Unlock()
	h.lat.fire("item.begin|" + it.ID)
	if it.Never {
		select {}
	}
	switch it.Wait {
	case "ctx":
		if ctx != nil {
			<-ctx.Done()
		} else {
			<-m.Stopping()
		}
	case "self":
		if it.RunMs > 0 {
			time.Sleep(time.Duration(it.RunMs) * time.Millisecond)
		}
	case "latch":
		if !h.lat.wait(it.Latch, 3*time.Second) {
			h.hs.unrealised.Store("item "+it.ID+" latch "+it.Latch, struct{}{})
		}
	}
	if it.LingerMs > 0 {
		time.Sleep(time.Duration(it.LingerMs) * time.Millisecond)
	}
	pre := h.log.Now()
	st := m.Status()
	h.log.Rec("end", who, it.Kind, map[string]any{"status": int(st), "mod": it.mod.Name, "pre": pre})
	h.lat.fire("item.end|" + it.ID)
	if it.PanicAtEnd {
		panic("harness work item panic " + it.ID)
	}
}

const mtMaxDelay = 20 * time.Second // never legitimately expires here (limit > number of microtask items)

func (h *c05H) launch(it *c05Item) {
	m := h.mods[it.mod.Name]
	wfn := func(ctx context.Context) error { h.body(it, 0, ctx); return nil }
	tfn := func(ctx context.Context, _ *modules.Task) error { h.body(it, 0, ctx); return nil }
	blocking := func(op string, call func() error) {
		go func() {
			h.log.Rec("call", it.ID, op, nil)
			err := call()
			f := map[string]any{}
			if err != nil {
				f["err"] = err.Error()
			}
			h.log.Rec("ret", it.ID, op, f)
			h.lat.fire("item.ret|" + it.ID)
		}()
	}
	switch it.Kind {
	case kWorker:
		m.StartWorker(it.ID, wfn)
	case kWorkerRun:
		blocking("RunWorker", func() error { return m.RunWorker(it.ID, wfn) })
	case "svc_loop":
		var first atomic.Bool
		var late atomic.Int32
		m.StartServiceWorker(it.ID, time.Millisecond, func(ctx context.Context) error {
			if ctx.Err() == nil {
				// before the stop: not recorded (except the first invocation), just restart
				if first.CompareAndSwap(false, true) {
					h.log.Rec("loopfirst", it.ID, "svc_loop", map[string]any{"mod": it.mod.Name})
					h.mu.Lock()
					h.begun[it.ID] = true
					h.mu.Unlock()
					h.lat.fire("item.begin|" + it.ID)
				}
				if it.RunMs > 0 {
					return errors.New("harness svc error")
				}
				return modules.ErrRestartNow
			}
			// invoked with a cancelled context: recorded as a piece of work of its own
			who := fmt.Sprintf("%s#c%d", it.ID, late.Add(1))
			h.log.Rec("begin", who, "svc_loop", map[string]any{"mod": it.mod.Name})
			h.log.Rec("ctx", who, "svc_loop", map[string]any{"done": true})
			pre := h.log.Now()
			st := m.Status()
			h.log.Rec("end", who, "svc_loop", map[string]any{"status": int(st), "mod": it.mod.Name, "pre": pre})
			return modules.ErrRestartNow // portbase itself has to end the loop
		})
	case kSvc:
		var inv int
		backoff := time.Millisecond
		if it.BackoffMs > 0 {
			backoff = time.Duration(it.BackoffMs) * time.Millisecond
		}
		m.StartServiceWorker(it.ID, backoff, func(ctx context.Context) error {
			i := inv
			inv++
			if i < it.Restarts {
				h.log.Rec("begin", fmt.Sprintf("%s#pre%d", it.ID, i), "svc_pre", map[string]any{"mod": it.mod.Name})
				h.log.Rec("end", fmt.Sprintf("%s#pre%d", it.ID, i), "svc_pre", map[string]any{"mod": it.mod.Name, "status": int(m.Status())})
				h.lat.fire(fmt.Sprintf("item.pre|%s#%d", it.ID, i))
				if i%2 == 0 {
					return modules.ErrRestartNow
				}
				return errors.New("harness svc error")
			}
			h.body(it, i-it.Restarts, ctx)
			return nil
		})
	case kTaskQ:
		m.NewTask(it.ID, tfn).Queue()
	case kTaskP:
		m.NewTask(it.ID, tfn).QueuePrioritized()
	case kTaskA:
		m.NewTask(it.ID, tfn).StartASAP()
	case kTaskS:
		m.NewTask(it.ID, tfn).Schedule(time.Now().Add(2 * time.Millisecond))
	case kTaskO:
		m.NewTask(it.ID, tfn).MaxDelay(3 * time.Millisecond).Queue()
	case kHook:
		h.mods[it.SrcMod].TriggerEvent("ev-"+it.ID, it.ID)
	case "mt_run_high":
		blocking("RunHighPriorityMicroTask", func() error { return m.RunHighPriorityMicroTask(it.ID, wfn) })
	case "mt_run_med":
		blocking("RunMicroTask", func() error { return m.RunMicroTask(it.ID, mtMaxDelay, wfn) })
	case "mt_run_low":
		blocking("RunLowPriorityMicroTask", func() error { return m.RunLowPriorityMicroTask(it.ID, mtMaxDelay, wfn) })
	case "mt_start_high":
		m.StartHighPriorityMicroTask(it.ID, wfn)
	case "mt_start_med":
		m.StartMicroTask(it.ID, mtMaxDelay, wfn)
	case "mt_start_low":
		m.StartLowPriorityMicroTask(it.ID, mtMaxDelay, wfn)
	case "mt_sig_high", "mt_sig_med", "mt_sig_low":
		go func() {
			var done func()
			switch it.Kind {
			case "mt_sig_high":
				done = m.SignalHighPriorityMicroTask()
			case "mt_sig_med":
				done = m.SignalMicroTask(mtMaxDelay)
			default:
				done = m.SignalLowPriorityMicroTask(mtMaxDelay)
			}
			h.body(it, 0, nil)
			n := it.DoneCalls
			if n < 1 {
				n = 1
			}
			for i := 0; i < n; i++ {
				done()
			}
			h.lat.fire("item.ret|" + it.ID)
		}()
	default:
		h.note("unknown item kind %s", it.Kind)
	}
}

// syncPoint lets n goroutines pass a point at (nearly) the same instant without burning
// CPU while they wait for each other to be scheduled: they first block until all have
// arrived, are woken together and then spin only for the short stagger of those wake-ups
// (at most 200 us).
type syncPoint struct {
	n       int32
	arrived atomic.Int32
	awake   atomic.Int32
	arm     chan struct{}
	once    sync.Once
}

func newSyncPoint(n int) *syncPoint { return &syncPoint{n: int32(n), arm: make(chan struct{})} }

func (sp *syncPoint) pass() {
	if sp.arrived.Add(1) == sp.n {
		sp.once.Do(func() { close(sp.arm) })
	}
	<-sp.arm
	sp.awake.Add(1)
	for t0 := time.Now(); sp.awake.Load() < sp.n; {
		if time.Since(t0) > 200*time.Microsecond {
			break
		}
	}
}

// barrier runs the functions at the same instant.
func barrier(fns ...func()) {
	sp := newSyncPoint(len(fns))
	var wg sync.WaitGroup
	for _, fn := range fns {
		fn := fn
		wg.Add(1)
		go func() {
			defer wg.Done()
			sp.pass()
			fn()
		}()
	}
	wg.Wait()
}

func (h *c05H) concludeStorm(ds *doneStorm) {
	m := h.mods[ds.Mod]
	signalled := func(i int) func() {
		switch i % 3 {
		case 0:
			return m.SignalHighPriorityMicroTask()
		case 1:
			return m.SignalMicroTask(mtMaxDelay)
		}
		return m.SignalLowPriorityMicroTask(mtMaxDelay)
	}
	for r := 0; r < ds.N; r++ {
		if r%2 == 0 {
			var fns []func()
			for c := 0; c < ds.Callers; c++ {
				fns = append(fns, signalled(r+c))
			}
			barrier(fns...)
		} else {
			// functions of Start* microtasks that return at the same instant
			sp := newSyncPoint(ds.Callers)
			var wg sync.WaitGroup
			for c := 0; c < ds.Callers; c++ {
				wg.Add(1)
				m.StartHighPriorityMicroTask("storm", func(context.Context) error {
					defer wg.Done()
					sp.pass()
					return nil
				})
			}
			wg.Wait()
		}
	}
	// increments racing decrements: the by_storm items are started while others conclude
	started := 0
	for _, it := range h.mspec[ds.Mod].Items {
		if !it.ByStorm {
			continue
		}
		it := it
		var fns []func()
		for c := 0; c < ds.Callers; c++ {
			fns = append(fns, signalled(c))
		}
		fns = append(fns, func() {
			done := m.SignalHighPriorityMicroTask()
			go func() {
				h.body(it, 0, nil)
				done()
				h.lat.fire("item.ret|" + it.ID)
			}()
		})
		barrier(fns...)
		started++
	}
	_, _, mt := m.VerifModuleCounts()
	h.log.Rec("donestorm", ds.Mod, "conclude", map[string]any{"rounds": ds.N, "together": ds.Callers, "items_started_by_storm": started, "module_microtask_count_after": int(mt)})
}

func (h *c05H) doneStorm(ds *doneStorm) {
	m := h.mods[ds.Mod]
	if m == nil {
		return
	}
	if ds.Mode == "conclude" {
		h.concludeStorm(ds)
		return
	}
	for i := 0; i < ds.N; i++ {
		var done func()
		switch i % 3 {
		case 0:
			done = m.SignalHighPriorityMicroTask()
		case 1:
			done = m.SignalMicroTask(mtMaxDelay)
		default:
			done = m.SignalLowPriorityMicroTask(mtMaxDelay)
		}
		fns := make([]func(), ds.Callers)
		for c := range fns {
			fns[c] = done
		}
		barrier(fns...)
	}
	_, _, mt := m.VerifModuleCounts()
	h.log.Rec("donestorm", ds.Mod, "", map[string]any{"n": ds.N, "callers": ds.Callers, "module_microtask_count_after": int(mt)})
}

func isQueueTask(k string) bool { return k == kTaskQ || k == kTaskP || k == kTaskA || k == kTaskS }

// launchCycle launches the items of a start cycle that are not launched from the start
// function: first the settled ones (waiting until each has begun, which the property's
// "was running" refers to), then the just-submitted ones, immediately followed by the stop.
func (h *c05H) launchCycle(cyc int) {
	var settled, unsettled, first []*c05Item
	online := func(it *c05Item) bool {
		m := h.mods[it.mod.Name]
		return m.Status() == modules.StatusOnline
	}
	for _, ms := range h.spec.Mods {
		for _, it := range ms.Items {
			h.mu.Lock()
			modCycle := h.cycle[ms.Name]
			h.mu.Unlock()
			if it.Cycle != cyc || !online(it) || modCycle != cyc {
				continue // (a disabled module that is still needed as a dependency is not restarted)
			}
			switch {
			case it.AtStop:
				it := it
				go func() {
					if h.lat.wait("modules.stop.cancelled|"+it.mod.Name, 60*time.Second) {
						h.launch(it)
					}
				}()
			case it.FromStart || it.FromPrep || it.ByStorm:
				if it.Settled {
					settled = append(settled, it) // only waited for
				}
			case (isQueueTask(it.Kind) || it.Kind == kTaskO) && it.Settled && len(first) == 0:
				first = append(first, it) // takes the (empty) queue first
			case it.Settled:
				settled = append(settled, it)
			default:
				unsettled = append(unsettled, it)
			}
		}
	}
	for _, it := range first {
		h.launch(it)
		// it has to own the queue before anything else is queued behind it
		if !h.lat.wait("item.begin|"+it.ID, 10*time.Second) {
			h.note("queue task %s had not begun after 10s", it.ID)
		}
	}
	for _, it := range settled {
		if !it.FromStart && !it.FromPrep && !it.ByStorm {
			h.launch(it)
		}
	}
	settled = append(settled, first...)
	deadline := time.Now().Add(10 * time.Second)
	for _, it := range settled {
		d := time.Until(deadline)
		if d < 0 {
			d = 0
		}
		if !h.lat.wait("item.begin|"+it.ID, d) {
			h.note("settled item %s (%s) had not begun after 10s", it.ID, it.Kind)
		}
	}
	h.log.Rec("settled", "driver", "", map[string]any{"cycle": cyc})
	for _, it := range unsettled {
		h.launch(it)
	}
}

// ---------------------------------------------------------------------------------
// P4: work submitted to a stopped module

func (h *c05H) p4Probes(when string) {
	var stopped, online []*modules.Module
	for _, ms := range h.spec.Mods {
		m := h.mods[ms.Name]
		switch m.Status() {
		case modules.StatusOffline:
			h.mu.Lock()
			was := h.cycle[ms.Name] > 0
			h.mu.Unlock()
			if was {
				stopped = append(stopped, m)
			}
		case modules.StatusOnline:
			online = append(online, m)
		}
	}
	var wg sync.WaitGroup
	for _, m := range stopped {
		m := m
		h.log.Rec("p4", m.Name, when, nil)
		probeTask := func(how string, sub func(t *modules.Task)) {
			t := m.NewTask("p4task-"+how, func(ctx context.Context, _ *modules.Task) error {
				h.log.Rec("begin", "p4task:"+m.Name+":"+how+":"+when, "p4task", map[string]any{"mod": m.Name, "how": how})
				return nil
			})
			sub(t)
		}
		probeTask("Queue", func(t *modules.Task) { t.Queue() })
		probeTask("QueuePrioritized", func(t *modules.Task) { t.QueuePrioritized() })
		probeTask("StartASAP", func(t *modules.Task) { t.StartASAP() })
		probeTask("Schedule", func(t *modules.Task) { t.Schedule(time.Now().Add(time.Millisecond)) })
		probeTask("MaxDelayQueue", func(t *modules.Task) { t.MaxDelay(time.Millisecond).Queue() })
		if when == "mid" {
			h.mu.Lock()
			pt := h.preTsk[m.Name]
			h.mu.Unlock()
			if pt != nil {
				pt.Queue()
				pt.StartASAP()
			}
		}
		m.TriggerEvent("p4ev", when)
		ctxProbe := func(kind string, run func(fn func(context.Context) error) error) {
			wg.Add(1)
			go func() {
				defer wg.Done()
				who := "p4ctx:" + m.Name + ":" + kind + ":" + when
				ran := false
				_ = run(func(ctx context.Context) error {
					ran = true
					h.log.Rec("begin", who, "p4ctx", map[string]any{"mod": m.Name, "kind": kind})
					h.log.Rec("ctx", who, "p4ctx", map[string]any{"done": ctx.Err() != nil, "kind": kind, "mod": m.Name})
					return nil
				})
				_ = ran
			}()
		}
		ctxProbe("RunWorker", func(fn func(context.Context) error) error { return m.RunWorker("p4", fn) })
		ctxProbe("RunHighPriorityMicroTask", func(fn func(context.Context) error) error { return m.RunHighPriorityMicroTask("p4", fn) })
		ctxProbe("RunMicroTask", func(fn func(context.Context) error) error { return m.RunMicroTask("p4", mtMaxDelay, fn) })
		ctxProbe("RunLowPriorityMicroTask", func(fn func(context.Context) error) error {
			return m.RunLowPriorityMicroTask("p4", mtMaxDelay, fn)
		})
		wg.Add(2)
		done1, done2 := make(chan struct{}), make(chan struct{})
		m.StartWorker("p4", func(ctx context.Context) error {
			who := "p4ctx:" + m.Name + ":StartWorker:" + when
			h.log.Rec("begin", who, "p4ctx", map[string]any{"mod": m.Name})
			h.log.Rec("ctx", who, "p4ctx", map[string]any{"done": ctx.Err() != nil, "kind": "StartWorker", "mod": m.Name})
			close(done1)
			return nil
		})
		m.StartServiceWorker("p4", time.Millisecond, func(ctx context.Context) error {
			who := "p4ctx:" + m.Name + ":StartServiceWorker:" + when
			h.log.Rec("begin", who, "p4ctx", map[string]any{"mod": m.Name})
			h.log.Rec("ctx", who, "p4ctx", map[string]any{"done": ctx.Err() != nil, "kind": "StartServiceWorker", "mod": m.Name})
			close(done2)
			return nil
		})
		go func() {
			defer wg.Done()
			select {
			case <-done1:
			case <-time.After(5 * time.Second):
			}
		}()
		go func() {
			defer wg.Done()
			// a service worker on a stopping module legitimately does not run at all
			select {
			case <-done2:
			case <-time.After(50 * time.Millisecond):
			}
		}()
	}
	// fence: give the queue and schedule handlers the opportunity to (wrongly) run the
	// probe tasks: a task queued afterwards on an online module has to come out first
	if when == "mid" && len(stopped) > 0 {
		if len(online) > 0 {
			o := online[0]
			for _, how := range []string{"Queue", "Schedule"} {
				fence := make(chan struct{})
				t := o.NewTask("p4fence", func(ctx context.Context, _ *modules.Task) error { close(fence); return nil })
				if how == "Queue" {
					t.Queue()
				} else {
					t.Schedule(time.Now().Add(3 * time.Millisecond))
				}
				select {
				case <-fence:
					h.log.Rec("p4fence", o.Name, how, nil)
				case <-time.After(150 * time.Millisecond):
					// the queue may legitimately be occupied by a task item that stays until its module stops
				}
			}
		} else {
			time.Sleep(20 * time.Millisecond)
		}
	}
	wdone := make(chan struct{})
	go func() { wg.Wait(); close(wdone) }()
	select {
	case <-wdone:
	case <-time.After(30 * time.Second):
		h.note("p4 ctx probes did not all return within 30s (%s)", when)
	}
	if len(stopped) > 0 {
		h.log.Rec("p4done", "driver", when, nil)
	}
}
