// h_updater — engine for C19 (the updater selects the prescribed version and never
// purges what is needed; versioned file names convert without loss).
//
// Parent mode: derives a fixed list of histories from VERIF_SEED, splits it over child
// processes, merges what they observed. Child mode: for every history builds a real
// updater.ResourceRegistry on a scratch storage dir (Online downloads are served by a
// loopback HTTP server inside the child), executes the generated operations and
// compares, after every step, what the registry shows with an independent reference
// model of the documented selection order; after every Purge the directory listing is
// checked against the retention clauses of the property statement.
package main

import (
	"encoding/json"
	"fmt"
	"net"
	"net/http"
	"os"
	"path/filepath"
	"strings"
	"time"

	"github.com/safing/portbase/log"

	"verifharness/internal/vlib"
)

type shardSpec struct {
	Seed       uint64    `json:"seed"`
	Tier       string    `json:"tier"`
	Shard      int       `json:"shard"`
	First      uint64    `json:"first"`
	Count      uint64    `json:"count"`
	NameFirst  uint64    `json:"name_first"`
	NameCount  uint64    `json:"name_count"`
	Replay     *caseSpec `json:"replay,omitempty"`
	ReplayName *nameCase `json:"replay_name,omitempty"`
	RaceFirst  uint64    `json:"race_first"`
	RaceCount  uint64    `json:"race_count"`
	RaceCalls  int       `json:"race_calls"`
	ReplayRace *raceSpec `json:"replay_race,omitempty"`
}

const rule = "a case is one history: 1-3 resources (identifiers with/without directories and extensions), 0-2 indexes (AutoDownload, PreRelease), " +
	"registry flags Online/DevMode/UsePreReleases, 1-13 versions per resource drawn from a small pool (stable, pre-release tags, dev 0.0.0, re-added with other flags, unordered; " +
	"1 in 12 histories also uses non-canonical spellings; in 1 of 4 multi-resource histories two resources are an identifier pair (x, x.zip) / (x.tar, x.tar.gz) / (x, x.gz) / (x.mmdb, x.mmdb.gz) with overlapping version sets), then 8-40 operations from {AddResource, SelectVersions, GetFile, Blacklist(any listed / the selected version), " +
	"flag changes, Index.AutoDownload changes, Purge(keep -1..5), ScanStorage(full / a sub-directory as root), AddResources (an index announcing the current release of several identifiers; repeated by other indexes), GetSelectedVersions, AddResource with an invalid version}; after every operation the exported registry " +
	"state (versions+flags, selected, active), GetVersion, the results of GetFile/Blacklist and the storage directory listing are compared with the reference model. " +
	"distinct = distinct operation scripts; every history is non-trivial (at least one selection is compared). " +
	"Plus concurrent rounds: one resource with 6-10 available versions, one goroutine calling GetFile 10000 (quick) or 20000 (thorough) times while 1-3 goroutines move the selection between the oldest and newest version (AddResource(currentRelease)+SelectVersions), then settle on the newest, Purge(keep -1..3) and check the file of the version handed out last. Plus file-name cases: generated (identifier, version) pairs / versioned paths of the documented format (marker in the file name; directory components free, including version-like text equal to, extending or differing from the file's marker), both round-trip directions"

func main() {
	if dir, ok := vlib.IsChild(); ok {
		childMain(dir)
		return
	}
	cfg := vlib.Load()
	rep := vlib.NewReport(cfg)
	rep.Rule(rule)
	nsh := cfg.N(16, 64)
	per := uint64(cfg.N(250, 800)) // the driver runs two seed-derived rounds in thorough
	namesPer := uint64(cfg.N(4000, 20000))
	racesPer := uint64(cfg.N(8, 10))
	var specs []vlib.ChildSpec
	if cfg.Replay != "" {
		specs = replaySpecs(cfg)
	} else {
		for s := 0; s < nsh; s++ {
			sp := shardSpec{Seed: cfg.Seed, Tier: cfg.Tier, Shard: s, First: uint64(s) * per, Count: per, NameFirst: uint64(s) * namesPer, NameCount: namesPer,
				RaceFirst: uint64(s) * racesPer, RaceCount: racesPer, RaceCalls: cfg.N(10000, 20000)}
			specs = append(specs, vlib.ChildSpec{Name: fmt.Sprintf("shard-%03d", s), Bin: cfg.BinPlain, Spec: sp, Timeout: 15 * time.Minute})
		}
	}
	vlib.RunChildren(cfg, specs, func(i int, c *vlib.ChildResult) {
		rep.MergeChild(c)
		if c.TimedOut {
			rep.Inconclusive("child %s hit the watchdog (%s); stderr tail: %s", c.Name, specs[i].Timeout, c.StderrTail(1500))
			return
		}
		if !c.Done {
			tail := c.StderrTail(3000)
			rep.Violation("C19:fatal:"+fatalSite(tail), fmt.Sprintf("child %s died (exit=%d signal=%q) while running updater histories", c.Name, c.Exit, c.Signal),
				map[string]any{"kind": "fatal", "shard": specs[i].Spec, "last_case": strings.TrimSpace(c.StdoutTail(200)), "stderr_tail": tail})
		}
	})
	if cfg.Replay == "" {
		q := func(quick, thorough int64) int64 {
			if cfg.Thorough() {
				return thorough
			}
			return quick
		}
		for _, st := range []string{"dev", "current", "newest-any", "newest-stable", "fallback-newest"} {
			rep.Floor(rep.Counter("select_step_"+st) >= q(200, 4000), "selection step %s prescribed only %d times", st, rep.Counter("select_step_"+st))
		}
		rep.Floor(rep.Counter("selected_blacklisted_fallback-newest") >= q(100, 2000), "blacklisted version prescribed as last resort only %d times", rep.Counter("selected_blacklisted_fallback-newest"))
		rep.Floor(rep.Counter("op_purge") >= q(1500, 30000), "purges=%d", rep.Counter("op_purge"))
		rep.Floor(rep.Counter("purge_resources_with_removals") >= q(300, 6000), "purges that removed files=%d", rep.Counter("purge_resources_with_removals"))
		rep.Floor(rep.Counter("purge_unpacked_path_is_file_of_sibling_resource") >= q(30, 400),
			"purges whose unpacked path is the file of a sibling resource (x / x.zip)=%d", rep.Counter("purge_unpacked_path_is_file_of_sibling_resource"))
		rep.Floor(rep.Counter("scan_partial_files_registered") >= q(300, 3000), "files registered by partial rescans=%d", rep.Counter("scan_partial_files_registered"))
		rep.Floor(rep.Counter("announce_same_current_release_by_index_with_other_autodownload") >= q(100, 1000),
			"same current release announced by an index with another AutoDownload=%d", rep.Counter("announce_same_current_release_by_index_with_other_autodownload"))
		rep.Floor(rep.Counter("blacklist_accepted") >= q(500, 10000) && rep.Counter("blacklist_refused_last_version") >= q(100, 2000),
			"blacklist accepted=%d refused-last=%d", rep.Counter("blacklist_accepted"), rep.Counter("blacklist_refused_last_version"))
		rep.Floor(rep.Counter("getfile_local") >= q(2000, 40000) && rep.Counter("getfile_not_available") >= q(40, 800) && rep.Counter("getfile_downloaded") >= q(50, 1000),
			"getfile local=%d not-available=%d downloaded=%d", rep.Counter("getfile_local"), rep.Counter("getfile_not_available"), rep.Counter("getfile_downloaded"))
		rep.Floor(rep.Counter("name_dir_contains_file_version_marker") >= q(2000, 20000) && rep.Counter("name_dir_contains_other_version_marker") >= q(2000, 20000),
			"identifiers whose directory holds the file's version marker=%d, another marker=%d", rep.Counter("name_dir_contains_file_version_marker"), rep.Counter("name_dir_contains_other_version_marker"))
		if rep.Counter("race_reselection_overtook_a_getfile_call") == 0 && rep.Counter("race_hook_plans_executed") == 0 {
			rep.Inconclusive("concurrent part: no re-selection ever overtook a GetFile call in %d calls (schedule-dependent); the sequential part is unaffected", rep.Counter("race_getfile_calls"))
		}
		rep.Floor(rep.Counter("race_purges") >= q(100, 300), "concurrent rounds that reached their purge=%d", rep.Counter("race_purges"))
		rep.Floor(rep.Counter("name_roundtrips") >= q(20000, 200000), "name round trips=%d", rep.Counter("name_roundtrips"))
	}
	rep.Assume("reference model = the selection order, the definition of 'selectable', the additive flag semantics of AddVersion and the blacklist guard as documented in updater/resource.go and registry.go and in the property statement; own version parser/comparator (numeric segments, release > pre-release, tags lexical)")
	rep.Assume("purge retention is judged as 'the files a version had before Purge are still there afterwards' for the active, selected and newest non-pre-release version and for min(keep, #further) further versions (a version without local files counts as untouched)")
	rep.Assume("single-threaded histories; purges are registry-level (ResourceRegistry.Purge): a registry-attached *Resource is not reachable through the exported API")
	if err := rep.Finish(); err != nil {
		fmt.Println("h_updater: cannot write result:", err)
		os.Exit(2)
	}
}

func fatalSite(tail string) string {
	for _, ln := range strings.Split(tail, "\n") {
		if strings.HasPrefix(ln, "fatal error:") || strings.HasPrefix(ln, "panic:") {
			s := strings.TrimSpace(ln)
			if len(s) > 80 {
				s = s[:80]
			}
			return s
		}
	}
	return "unknown"
}

func replaySpecs(cfg vlib.Cfg) []vlib.ChildSpec {
	var doc struct {
		Detail struct {
			Kind     string    `json:"kind"`
			Case     *caseSpec `json:"case"`
			NameCase *nameCase `json:"name_case"`
			Race     *raceSpec `json:"race"`
		} `json:"detail"`
	}
	b, err := os.ReadFile(cfg.Replay)
	if err == nil {
		err = json.Unmarshal(b, &doc)
	}
	if err != nil || (doc.Detail.Case == nil && doc.Detail.NameCase == nil && doc.Detail.Race == nil) {
		fmt.Println("h_updater: replay file holds no history / name case:", err)
		os.Exit(2)
	}
	sp := shardSpec{Seed: cfg.Seed, Tier: cfg.Tier, Replay: doc.Detail.Case, ReplayName: doc.Detail.NameCase, ReplayRace: doc.Detail.Race}
	return []vlib.ChildSpec{{Name: "replay", Bin: cfg.BinPlain, Spec: sp, Timeout: 5 * time.Minute}}
}

// ---------------------------------------------------------------------------------
// child

func startServer() (string, error) {
	ln, err := net.Listen("tcp", "127.0.0.1:0")
	if err != nil {
		return "", err
	}
	srv := &http.Server{Handler: http.HandlerFunc(func(w http.ResponseWriter, r *http.Request) {
		body := []byte("downloaded " + r.URL.Path)
		w.Header().Set("Content-Length", fmt.Sprint(len(body)))
		w.WriteHeader(http.StatusOK)
		_, _ = w.Write(body)
	})}
	go func() { _ = srv.Serve(ln) }()
	return "http://" + ln.Addr().String() + "/", nil
}

func childMain(dir string) {
	var sp shardSpec
	if err := vlib.ChildSpecInto(dir, &sp); err != nil {
		fmt.Println("bad spec:", err)
		os.Exit(3)
	}
	// the logger is never started in this process: keep the updater's log calls from
	// parking one goroutine per line
	log.SetLogLevel(log.CriticalLevel)
	b := vlib.NewBatch()
	base, err := startServer()
	if err != nil {
		b.Inconclusive("cannot start loopback server: %v", err)
		b.Finish(dir)
		return
	}
	runCase := func(c caseSpec, sample bool) {
		storage := filepath.Join(dir, fmt.Sprintf("c%d", c.No))
		x := &runner{b: b, c: c, storage: storage, baseURL: base}
		x.run()
		_ = os.RemoveAll(storage)
		b.Eval(1)
		js, _ := json.Marshal(c.Ops)
		b.Distinct([]byte(strings.Join(c.Res, ",")), js)
		b.Max("max_resources", int64(len(c.Res)))
		if sample {
			b.Sample(map[string]any{"kind": "history", "case": c, "trace": x.trace})
		}
	}
	switch {
	case sp.Replay != nil:
		runCase(*sp.Replay, true)
		b.DistinctS("replay-extra")
	case sp.ReplayRace != nil:
		// a schedule cannot be replayed; re-run the same scenario a number of times
		for k := 0; k < 10 && b.NViolations() == 0; k++ {
			runRace(b, dir, *sp.ReplayRace)
		}
		b.Sample(sp.ReplayRace)
		b.DistinctS("replay-race-extra")
	case sp.ReplayName != nil:
		b.Eval(1)
		checkName(b, *sp.ReplayName)
		b.Sample(sp.ReplayName)
		b.DistinctS("replay-a")
		b.DistinctS("replay-b")
	default:
		for k := uint64(0); k < sp.Count; k++ {
			no := sp.First + k
			fmt.Printf("case %d\n", no)
			runCase(genCase(sp.Seed, no), sp.Shard == 0 && k < 2)
		}
		for k := uint64(0); k < sp.NameCount; k++ {
			n := genNameCase(sp.Seed, sp.NameFirst+k)
			b.Eval(1)
			b.Distinct([]byte("name"), []byte(n.Identifier), []byte(n.Version))
			checkName(b, n)
			if sp.Shard == 0 && k < 2 {
				b.Sample(n)
			}
		}
		for k := uint64(0); k < sp.RaceCount; k++ {
			rs := genRace(sp.Seed, sp.RaceFirst+k, sp.RaceCalls)
			rs.Hooked = k == 0
			fmt.Printf("race %d\n", rs.No)
			runRace(b, dir, rs)
			if sp.Shard == 0 && k == 1 {
				b.Sample(rs)
			}
		}
	}
	b.Finish(dir)
}
