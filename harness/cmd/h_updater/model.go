package main

// Reference model for C19: an independent implementation of what the updater
// documents — the version order, "selectable", the selection cascade, the additive
// flag semantics of AddVersion, the blacklist guard — written from the doc comments in
// updater/resource.go + registry.go and the property statement, not from the code
// paths. It shares no code with portbase (own version parser and comparator).

import (
	"fmt"
	"regexp"
	"sort"
	"strconv"
	"strings"
)

// mver is one version of a resource as the caller defined it.
type mver struct {
	Key   string // normalised "M.m.p[-tag]"
	seg   [3]int64
	tag   string
	Avail bool
	Cur   bool
	Pre   bool
	Black bool
}

func (v *mver) isDev() bool { return v.seg == [3]int64{0, 0, 0} && v.tag == "" }

func (v *mver) String() string {
	if v == nil {
		return "<none>"
	}
	s := v.Key + "["
	for _, f := range []struct {
		on bool
		c  string
	}{{v.Avail, "A"}, {v.Cur, "C"}, {v.Pre, "P"}, {v.Black, "B"}} {
		if f.on {
			s += f.c
		}
	}
	return s + "]"
}

// cmpVer orders by semantic version: numeric segments, then release > pre-release,
// then the pre-release tags lexically (all tags here are [a-z]+).
func cmpVer(a, b *mver) int {
	for i := 0; i < 3; i++ {
		if a.seg[i] != b.seg[i] {
			if a.seg[i] > b.seg[i] {
				return 1
			}
			return -1
		}
	}
	switch {
	case a.tag == b.tag:
		return 0
	case a.tag == "":
		return 1
	case b.tag == "":
		return -1
	default:
		return strings.Compare(a.tag, b.tag)
	}
}

// refVerRe: the version strings the generator produces (canonical "1.2.3[-tag]" and a
// few non-canonical renderings of the same versions: "1.2", "v1.2.3", "01.2.3", "1.2.3beta", "0").
var refVerRe = regexp.MustCompile(`^v?([0-9]+)(?:\.([0-9]+))?(?:\.([0-9]+))?(?:-?([a-z]+))?$`)

func parseRefVersion(raw string) (*mver, bool) {
	m := refVerRe.FindStringSubmatch(raw)
	if m == nil {
		return nil, false
	}
	v := &mver{tag: m[4]}
	for i := 0; i < 3; i++ {
		if m[i+1] != "" {
			n, err := strconv.ParseInt(m[i+1], 10, 64)
			if err != nil {
				return nil, false
			}
			v.seg[i] = n
		}
	}
	v.Key = fmt.Sprintf("%d.%d.%d", v.seg[0], v.seg[1], v.seg[2])
	if v.tag != "" {
		v.Key += "-" + v.tag
	}
	return v, true
}

type mindex struct {
	Auto bool
	Pre  bool
}

type mres struct {
	ID       string
	Vers     []*mver
	Index    *mindex // index the resource was last defined in; nil = found on disk only
	Active   *mver   // version handed out last
	Selected *mver   // version to hand out next
	lastStep string  // cascade step that produced Selected (for signatures/coverage)
}

func (r *mres) find(key string) *mver {
	for _, v := range r.Vers {
		if v.Key == key {
			return v
		}
	}
	return nil
}

// sorted returns the versions newest first.
func (r *mres) sorted() []*mver {
	s := append([]*mver(nil), r.Vers...)
	sort.SliceStable(s, func(i, j int) bool { return cmpVer(s[i], s[j]) > 0 })
	return s
}

// newestStable is the newest version that is not a pre-release.
func (r *mres) newestStable() *mver {
	for _, v := range r.sorted() {
		if !v.Pre {
			return v
		}
	}
	return nil
}

type mreg struct {
	Online, Dev, UsePre bool
	Res                 map[string]*mres
	Order               []string
}

func newModel() *mreg { return &mreg{Res: map[string]*mres{}} }

// selectable: "not blacklisted and either already locally available or ready to be
// downloaded" (registry online, resource part of an index, index may auto-download).
func (m *mreg) selectable(r *mres, v *mver) bool {
	if v.Black {
		return false
	}
	if v.Avail {
		return true
	}
	return m.Online && r.Index != nil && r.Index.Auto
}

// prescribe is the documented order: dev version in dev mode (ignores blacklisting) >
// current release if selectable > newest selectable (pre-releases enabled) > newest
// selectable stable > newest.
func (m *mreg) prescribe(r *mres) (*mver, string) {
	s := r.sorted()
	if len(s) == 0 {
		return nil, "empty"
	}
	if m.Dev {
		for _, v := range s {
			if v.isDev() && v.Avail {
				return v, "dev"
			}
		}
	}
	for _, v := range s {
		if v.Cur {
			if m.selectable(r, v) {
				return v, "current"
			}
			break
		}
	}
	if m.UsePre {
		for _, v := range s {
			if m.selectable(r, v) {
				return v, "newest-any"
			}
		}
	}
	for _, v := range s {
		if !v.Pre && m.selectable(r, v) {
			return v, "newest-stable"
		}
	}
	return s[0], "fallback-newest"
}

func (m *mreg) doSelect(r *mres) {
	r.Selected, r.lastStep = m.prescribe(r)
}

// add mirrors the documented AddResource/AddVersion contract: flags are additive,
// currentRelease moves the (single) current-release mark, a version carrying a
// pre-release tag is a pre-release, the resource remembers the index it was last
// defined in. Selection is not touched.
func (m *mreg) add(id, raw string, idx *mindex, avail, cur, pre bool) bool {
	r := m.Res[id]
	if r == nil {
		r = &mres{ID: id}
		m.Res[id] = r
		m.Order = append(m.Order, id)
	}
	r.Index = idx
	p, ok := parseRefVersion(raw)
	if !ok {
		return false
	}
	if cur {
		for _, v := range r.Vers {
			v.Cur = false
		}
	}
	v := r.find(p.Key)
	if v == nil {
		v = p
		r.Vers = append(r.Vers, v)
	}
	if avail {
		v.Avail = true
	}
	if cur {
		v.Cur = true
	}
	if pre || v.tag != "" {
		v.Pre = true
	}
	return true
}

// ---------------------------------------------------------------------------------
// file-name format (reference): <dir/><name>_v<M>-<m>-<p>[-tag][.ext]

func refVersionedPath(identifier, version string) string {
	dir, file := "", identifier
	if i := strings.LastIndex(identifier, "/"); i >= 0 {
		dir, file = identifier[:i+1], identifier[i+1:]
	}
	name, ext := file, ""
	if i := strings.Index(file, "."); i >= 0 {
		name, ext = file[:i], file[i:]
	}
	// the first two dots of the version become dashes
	v := version
	for k := 0; k < 2; k++ {
		if i := strings.Index(v, "."); i >= 0 {
			v = v[:i] + "-" + v[i+1:]
		}
	}
	return dir + name + "_v" + v + ext
}

var refMarkerRe = regexp.MustCompile(`_v([0-9]+)-([0-9]+)-([0-9]+)(-[a-z]+)?`)

func refParsePath(p string) (identifier, version string, ok bool) {
	dir, file := "", p
	if i := strings.LastIndex(p, "/"); i >= 0 {
		dir, file = p[:i+1], p[i+1:]
	}
	loc := refMarkerRe.FindStringSubmatchIndex(file)
	if loc == nil {
		return "", "", false
	}
	m := refMarkerRe.FindStringSubmatch(file)
	version = m[1] + "." + m[2] + "." + m[3] + m[4]
	return dir + file[:loc[0]] + file[loc[1]:], version, true
}
