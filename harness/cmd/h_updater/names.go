package main

import (
	"fmt"
	"strings"

	"github.com/safing/portbase/updater"

	"verifharness/internal/vlib"
)

// File-name conversion: (identifier, version) -> versioned path -> (identifier, version)
// and versioned path -> pair -> versioned path, for strings of the documented format
// (<dir/><name>_v<M>-<m>-<p>[-tag][.ext], version ^[0-9]+\.[0-9]+\.[0-9]+(-[a-z]+)?$).

type nameCase struct {
	Kind       string `json:"kind"` // "name"
	Dir        string `json:"dir"`
	Name       string `json:"name"`
	Ext        string `json:"ext"`
	Version    string `json:"version"`
	Identifier string `json:"identifier"`
	Path       string `json:"path"`
}

func genNameCase(seed, no uint64) nameCase {
	r := vlib.NewRand(seed, "C19/name", no)
	ver := genFmtVersion(r)
	n := nameCase{Kind: "name", Dir: genFmtDir(r, ver), Name: genFmtName(r), Ext: genFmtExt(r), Version: ver}
	if n.Name == "" && n.Ext == "" {
		n.Name = "f"
	}
	n.Identifier = n.Dir + n.Name + n.Ext
	n.Path = refVersionedPath(n.Identifier, n.Version)
	return n
}

func checkName(b *vlib.Batch, n nameCase) {
	viol := func(sig, what string, info map[string]any) {
		info["kind"] = "name"
		info["name_case"] = n
		b.Violation(sig, what, info)
	}
	defer func() {
		if r := recover(); r != nil {
			viol("C19:panic:filename", fmt.Sprintf("file-name conversion panicked: %v", r), map[string]any{})
		}
	}()
	b.Count("name_roundtrips", 1)
	// pair -> path -> pair
	p := updater.GetVersionedPath(n.Identifier, n.Version)
	if p != n.Path {
		viol("C19:filename:format:GetVersionedPath", fmt.Sprintf("GetVersionedPath(%q, %q) = %q, documented format gives %q", n.Identifier, n.Version, p, n.Path),
			map[string]any{"observed": p})
	}
	id, ver, ok := updater.GetIdentifierAndVersion(p)
	if !ok || id != n.Identifier || ver != n.Version {
		viol("C19:filename:roundtrip:pair-path-pair", fmt.Sprintf("GetIdentifierAndVersion(GetVersionedPath(%q, %q) = %q) = (%q, %q, %v)", n.Identifier, n.Version, p, id, ver, ok),
			map[string]any{"observed": []any{id, ver, ok}})
	}
	// path -> pair -> path (the path is of the documented format by construction)
	id2, ver2, ok2 := updater.GetIdentifierAndVersion(n.Path)
	rid, rver, _ := refParsePath(n.Path)
	if !ok2 || id2 != rid || ver2 != rver {
		viol("C19:filename:parse:GetIdentifierAndVersion", fmt.Sprintf("GetIdentifierAndVersion(%q) = (%q, %q, %v), reference (%q, %q)", n.Path, id2, ver2, ok2, rid, rver),
			map[string]any{"observed": []any{id2, ver2, ok2}})
	} else if back := updater.GetVersionedPath(id2, ver2); back != n.Path {
		viol("C19:filename:roundtrip:path-pair-path", fmt.Sprintf("GetVersionedPath(GetIdentifierAndVersion(%q) = (%q, %q)) = %q", n.Path, id2, ver2, back),
			map[string]any{"observed": back})
	}
	if n.Ext != "" {
		b.Count("name_with_extension", 1)
	}
	if strings.Contains(n.Dir, verMarker(n.Version)) {
		b.Count("name_dir_contains_file_version_marker", 1) // equal to it or extending it
	} else if refMarkerRe.MatchString(n.Dir) {
		b.Count("name_dir_contains_other_version_marker", 1)
	}
	if len(n.Version) > 0 && refMarkerRe.MatchString(n.Path) && n.Version[len(n.Version)-1] >= 'a' {
		b.Count("name_with_prerelease_tag", 1)
	}
}
