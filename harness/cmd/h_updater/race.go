package main

// Concurrent part of C19: "after a purge, the files of the active version ... are still
// on disk", the active version being the version handed out last. A File that
// ResourceRegistry.GetFile RETURNED is handed out, whatever re-selection raced with the
// call. One getter goroutine calls GetFile in a loop while mover goroutines move the
// selection (AddResource(currentRelease) + SelectVersions between the oldest and the
// newest version). Oracles (logical, no clocks):
//   - only the getter calls GetFile, so right after a call returned the resource's
//     ActiveVersion must be the version that call handed out;
//   - when the round is over (movers joined), the selection is settled on the newest
//     version and the registry is purged: the file of the version handed out by the
//     last GetFile that returned before the purge began must still exist.
// If /repo has the instrumentation point "updater.getfile.premark" (between
// res.GetFile() and markActiveWithLocking in ResourceRegistry.GetFile), the first round
// of every child is a deterministic plan: the re-selection is performed inside the hook.

import (
	"fmt"
	"os"
	"path/filepath"
	"sync"
	"sync/atomic"

	"github.com/safing/portbase/updater"
	"github.com/safing/portbase/utils"
	"github.com/safing/portbase/utils/vhook"

	"verifharness/internal/vlib"
)

const premarkPoint = "updater.getfile.premark"

type raceSpec struct {
	Kind     string `json:"kind"` // "race"
	No       uint64 `json:"no"`
	ID       string `json:"identifier"`
	Versions int    `json:"versions"` // 1.0.0 .. <Versions>.0.0, all locally available
	Keep     int    `json:"keep"`
	Movers   int    `json:"movers"`
	Calls    int    `json:"getfile_calls"`
	Hooked   bool   `json:"hooked"` // deterministic plan through the premark hook (if it exists)
}

func genRace(seed, no uint64, calls int) raceSpec {
	r := vlib.NewRand(seed, "C19/race", no)
	return raceSpec{Kind: "race", No: no, ID: vlib.Pick(r, "a/tool.bin", "all/ui/modules/base.zip", "linux_amd64/core/portmaster-core", "x.dat"),
		Versions: r.Range(6, 10), Keep: r.Range(-1, 3), Movers: r.Range(1, 3), Calls: calls}
}

func runRace(b *vlib.Batch, dir string, sp raceSpec) {
	storage := filepath.Join(dir, fmt.Sprintf("race%d", sp.No))
	defer os.RemoveAll(storage)
	reg := &updater.ResourceRegistry{Name: "c19race"}
	if err := reg.Initialize(utils.NewDirStructure(storage, 0o755)); err != nil {
		b.Inconclusive("race %d: Initialize: %v", sp.No, err)
		return
	}
	ver := func(i int) string { return fmt.Sprintf("%d.0.0", i) }
	oldest, newest := ver(1), ver(sp.Versions)
	pathOf := map[string]string{}
	for i := 1; i <= sp.Versions; i++ {
		p := filepath.Join(storage, filepath.FromSlash(refVersionedPath(sp.ID, ver(i))))
		_ = os.MkdirAll(filepath.Dir(p), 0o755)
		_ = os.WriteFile(p, []byte("v"), 0o644)
		pathOf[ver(i)] = p
		if err := reg.AddResource(sp.ID, ver(i), nil, true, i == 1, false); err != nil {
			b.Inconclusive("race %d: AddResource: %v", sp.No, err)
			return
		}
	}
	reg.SelectVersions()
	b.Eval(1)
	b.Distinct([]byte("race"), []byte(fmt.Sprintf("%+v", sp)))
	b.Count("race_rounds", 1)

	activeOf := func() string {
		if res := reg.Export()[sp.ID]; res != nil && res.ActiveVersion != nil {
			return res.ActiveVersion.VersionNumber
		}
		return ""
	}
	moveTo := func(v string) {
		_ = reg.AddResource(sp.ID, v, nil, true, true, false)
		reg.SelectVersions()
	}

	var trace []string
	note := func(s string) {
		trace = append(trace, s)
		if len(trace) > 30 {
			trace = trace[1:]
		}
	}
	viol := func(sig, what string) {
		b.Violation(sig, what, map[string]any{"kind": "race", "race": sp, "last_events": append([]string(nil), trace...)})
	}

	var stop atomic.Bool
	var wg sync.WaitGroup
	var hookHits atomic.Int64
	if sp.Hooked {
		var armed atomic.Bool
		armed.Store(true)
		vhook.Set(premarkPoint, func(_, _ string) {
			if armed.CompareAndSwap(true, false) {
				hookHits.Add(1)
				moveTo(newest) // the re-selection lands between res.GetFile() and markActive
			}
		})
		defer vhook.Set(premarkPoint, nil)
	} else {
		for m := 0; m < sp.Movers; m++ {
			wg.Add(1)
			go func() {
				defer wg.Done()
				cur := newest
				for !stop.Load() {
					moveTo(cur)
					if cur == newest {
						cur = oldest
					} else {
						cur = newest
					}
				}
			}()
		}
	}

	last, prev := "", ""
	calls := sp.Calls
	if sp.Hooked {
		calls = 1
	}
	for i := 0; i < calls; i++ {
		f, err := reg.GetFile(sp.ID)
		if err != nil || f == nil {
			stop.Store(true)
			wg.Wait()
			viol("C19:getfile:unexpected-error:concurrent-reselection", fmt.Sprintf("GetFile(%s) failed while all versions are locally available: %v", sp.ID, err))
			return
		}
		last = f.Version()
		b.Count("race_getfile_calls", 1)
		if last != prev && prev != "" {
			b.Count("race_consecutive_calls_handed_out_different_versions", 1)
		}
		prev = last
		act := activeOf()
		if sel, _ := reg.GetVersion(sp.ID); sel != nil && sel.VersionNumber != last {
			// a re-selection landed after res.GetFile() picked the version and before we looked
			b.Count("race_reselection_overtook_a_getfile_call", 1)
		}
		if act != last {
			note(fmt.Sprintf("call %d: GetFile returned v%s, ActiveVersion is %q", i, last, act))
			viol("C19:active:GetFile:concurrent-reselection",
				fmt.Sprintf("GetFile(%s) handed out v%s but the resource's active version is %q (only this goroutine calls GetFile; a re-selection raced with the call)", sp.ID, last, act))
			if last == oldest {
				break // go on to the purge: the handed-out version is the one a purge would drop
			}
		}
	}
	stop.Store(true)
	wg.Wait()
	if sp.Hooked {
		if hookHits.Load() == 0 {
			b.Count("race_hook_point_absent", 1)
		} else {
			b.Count("race_hook_plans_executed", 1)
		}
	}

	// settle on the newest version, purge, look at the disk
	moveTo(newest)
	note(fmt.Sprintf("quiescent: handed out last v%s, active %q, selected %s; Purge(%d)", last, activeOf(), newest, sp.Keep))
	reg.Purge(sp.Keep)
	b.Count("race_purges", 1)
	if last != newest {
		b.Count("race_purge_with_old_version_handed_out_last", 1)
	}
	if _, err := os.Stat(pathOf[last]); err != nil {
		viol("C19:purge:removed-needed:handed-out-last:concurrent-reselection",
			fmt.Sprintf("Purge(%d) removed the file of v%s of %s, the version GetFile handed out last (selected %s): %v", sp.Keep, last, sp.ID, newest, err))
	}
	if _, err := os.Stat(pathOf[newest]); err != nil {
		viol("C19:purge:removed-needed:selected:concurrent-reselection", fmt.Sprintf("Purge(%d) removed the file of the selected version %s: %v", sp.Keep, newest, err))
	}
}
