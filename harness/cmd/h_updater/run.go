package main

import (
	"errors"
	"fmt"
	"io/fs"
	"os"
	"path"
	"path/filepath"
	"runtime/debug"
	"sort"
	"strings"

	"github.com/safing/portbase/updater"
	"github.com/safing/portbase/utils"

	"verifharness/internal/vlib"
)

// runner executes one history against a real updater.ResourceRegistry on a scratch
// storage dir and compares what it observes (Export(), GetVersion, GetFile results,
// Blacklist errors, the directory listing) with the reference model after every step.
type runner struct {
	b       *vlib.Batch
	c       caseSpec
	storage string
	baseURL string

	reg  *updater.ResourceRegistry
	idx  []*updater.Index
	m    *mreg
	midx []*mindex
	disk map[string]bool // files (slash paths relative to storage) that must be on disk

	step          int
	curOp         string
	trace         []string
	aborted       bool
	nviol         int
	diskUnchecked string
	unexpected    map[string]bool
	dups          bool // some resource lists the same version number more than once
}

type oentry struct {
	Ver                    string
	Avail, Cur, Pre, Black bool
}

func (e oentry) String() string {
	return (&mver{Key: e.Ver, Avail: e.Avail, Cur: e.Cur, Pre: e.Pre, Black: e.Black}).String()
}

type osnap struct {
	list     []oentry
	selected string // "" = none
	active   string
	selBlack bool
}

func (x *runner) violate(sig, what string, info any) {
	x.nviol++
	if x.dups {
		// everything observed after a resource started to list one version twice is a
		// consequence of that; keep those witnesses apart from the others
		if parts := strings.SplitN(sig, ":", 3); len(parts) >= 2 && parts[1] != "panic" {
			sig = "C19:duplicate-entries:" + parts[1]
		}
	}
	tr := x.trace
	if len(tr) > 80 {
		tr = tr[len(tr)-80:]
	}
	x.b.Violation(sig, what, map[string]any{
		"kind": "history", "case": x.c, "step": x.step, "op": x.curOp, "info": info,
		"registry_flags": map[string]bool{"online": x.m.Online, "dev_mode": x.m.Dev, "use_pre_releases": x.m.UsePre},
		"trace":          append([]string(nil), tr...),
	})
}

// guard runs a call into portbase; a panic is a violation and ends the history (the
// registry may be left with a locked resource).
func (x *runner) guard(op string, fn func()) (ok bool) {
	defer func() {
		if r := recover(); r != nil {
			st := string(debug.Stack())
			x.violate("C19:panic:"+op+":"+panicSite(st), fmt.Sprintf("%s panicked: %v", op, r),
				map[string]any{"panic": fmt.Sprint(r), "stack": trimTo(st, 3000)})
			x.aborted = true
			ok = false
		}
	}()
	fn()
	return true
}

func trimTo(s string, n int) string {
	if len(s) > n {
		return s[:n]
	}
	return s
}

// panicSite names the innermost non-runtime function below the panic.
func panicSite(st string) string {
	seen := false
	for _, ln := range strings.Split(st, "\n") {
		if strings.HasPrefix(ln, "panic(") {
			seen = true
			continue
		}
		if !seen || strings.HasPrefix(ln, "\t") || ln == "" || strings.HasPrefix(ln, "runtime.") || strings.HasPrefix(ln, "runtime/") {
			continue
		}
		fn := ln
		if i := strings.LastIndex(fn, "("); i > 0 {
			fn = fn[:i]
		}
		return strings.TrimPrefix(fn, "github.com/safing/portbase/")
	}
	return "unknown"
}

func (x *runner) abs(rel string) string { return filepath.Join(x.storage, filepath.FromSlash(rel)) }

func (x *runner) touch(rel string) {
	p := x.abs(rel)
	_ = os.MkdirAll(filepath.Dir(p), 0o755)
	_ = os.WriteFile(p, []byte("content of "+rel), 0o644)
	x.disk[rel] = true
}

// walk lists the regular files below the storage dir (the registry's tmp dir excluded).
func (x *runner) walk() map[string]bool {
	out := map[string]bool{}
	_ = filepath.WalkDir(x.storage, func(p string, d fs.DirEntry, err error) error {
		if err != nil {
			return nil
		}
		rel, _ := filepath.Rel(x.storage, p)
		rel = filepath.ToSlash(rel)
		if d.IsDir() {
			if rel == "tmp" {
				return filepath.SkipDir
			}
			return nil
		}
		out[rel] = true
		return nil
	})
	return out
}

func (x *runner) observe() map[string]*osnap {
	out := map[string]*osnap{}
	for id, res := range x.reg.Export() {
		s := &osnap{}
		for _, rv := range res.Versions {
			s.list = append(s.list, oentry{rv.VersionNumber, rv.Available, rv.CurrentRelease, rv.PreRelease, rv.Blacklisted})
		}
		if res.SelectedVersion != nil {
			s.selected = res.SelectedVersion.VersionNumber
			s.selBlack = res.SelectedVersion.Blacklisted
		}
		if res.ActiveVersion != nil {
			s.active = res.ActiveVersion.VersionNumber
		}
		out[id] = s
	}
	return out
}

// collapse merges list entries with the same version string (flags OR-ed) and says
// whether there were any.
func collapse(list []oentry) (map[string]oentry, bool) {
	out := map[string]oentry{}
	dups := false
	for _, e := range list {
		if o, ok := out[e.Ver]; ok {
			dups = true
			e = oentry{e.Ver, e.Avail || o.Avail, e.Cur || o.Cur, e.Pre || o.Pre, e.Black || o.Black}
		}
		out[e.Ver] = e
	}
	return out, dups
}

func key(v *mver) string {
	if v == nil {
		return ""
	}
	return v.Key
}

func listStr(vs []*mver) string {
	var s []string
	for _, v := range vs {
		s = append(s, v.String())
	}
	return strings.Join(s, " ")
}

func olistStr(vs []oentry) string {
	var s []string
	for _, v := range vs {
		s = append(s, v.String())
	}
	return strings.Join(s, " ")
}

// adopt makes the model's listing equal to the observed one (keeping the identity of
// entries that persist), so that one divergence is reported once.
func adopt(mr *mres, obs map[string]oentry, order []oentry) {
	var nl []*mver
	done := map[string]bool{}
	for _, e := range order {
		if done[e.Ver] {
			continue
		}
		done[e.Ver] = true
		o := obs[e.Ver]
		v := mr.find(e.Ver)
		if v == nil {
			p, ok := parseRefVersion(e.Ver)
			if !ok {
				continue
			}
			v = p
		}
		v.Avail, v.Cur, v.Pre, v.Black = o.Avail, o.Cur, o.Pre, o.Black
		nl = append(nl, v)
	}
	mr.Vers = nl
}

func (mr *mres) entryFor(k string) *mver {
	if k == "" {
		return nil
	}
	if v := mr.find(k); v != nil {
		return v
	}
	if mr.Selected != nil && mr.Selected.Key == k {
		return mr.Selected
	}
	if mr.Active != nil && mr.Active.Key == k {
		return mr.Active
	}
	p, _ := parseRefVersion(k)
	return p
}

func hasDevPre(mr *mres) bool {
	for _, v := range mr.Vers {
		if v.seg == [3]int64{0, 0, 0} && v.tag != "" {
			return true
		}
	}
	return false
}

// checkListing compares the versions and flags the resource lists with the model.
func (x *runner) checkListing(op string, mr *mres, s *osnap) (dups bool) {
	obs, dups := collapse(s.list)
	if dups && !x.dups {
		x.dups = true
		x.b.Count("histories_with_duplicate_entries", 1)
	}
	var diffs []string
	for _, v := range mr.Vers {
		o, ok := obs[v.Key]
		if !ok {
			diffs = append(diffs, "missing "+v.String())
		} else if (o != oentry{v.Key, v.Avail, v.Cur, v.Pre, v.Black}) {
			diffs = append(diffs, fmt.Sprintf("%s listed as %s", v, o))
		}
	}
	for k, o := range obs {
		if mr.find(k) == nil {
			diffs = append(diffs, "unexpected "+o.String())
		}
	}
	if len(diffs) > 0 {
		sort.Strings(diffs)
		x.violate("C19:listing:"+op, fmt.Sprintf("after %s resource %s lists versions/flags that differ from what was defined: %s", op, mr.ID, strings.Join(diffs, "; ")),
			map[string]any{"resource": mr.ID, "expected": listStr(mr.Vers), "observed": olistStr(s.list)})
		adopt(mr, obs, s.list)
	}
	return dups
}

func (x *runner) checkSelection(op string, mr *mres, s *osnap, dups bool) {
	if key(mr.Selected) == s.selected {
		return
	}
	sig := "C19:selection:" + op + ":expected-" + mr.lastStep
	if s.selBlack && (mr.Selected == nil || !mr.Selected.Black) {
		sig += ":got-blacklisted"
	}
	if !dups && x.m.Dev && hasDevPre(mr) {
		sig += ":dev-prerelease-present"
	}
	x.violate(sig, fmt.Sprintf("after %s resource %s has selected version %q, the documented order prescribes %q (step %s)", op, mr.ID, s.selected, key(mr.Selected), mr.lastStep),
		map[string]any{"resource": mr.ID, "versions_newest_first": listStr(mr.sorted()), "index": fmt.Sprintf("%+v", mr.Index),
			"expected": mr.Selected.String(), "observed": s.selected, "observed_listing": olistStr(s.list)})
	mr.Selected = mr.entryFor(s.selected)
}

func (x *runner) checkActive(op string, mr *mres, s *osnap) {
	if key(mr.Active) == s.active {
		return
	}
	x.violate("C19:active:"+op, fmt.Sprintf("after %s resource %s has active version %q, expected %q (the version handed out last)", op, mr.ID, s.active, key(mr.Active)),
		map[string]any{"resource": mr.ID})
	mr.Active = mr.entryFor(s.active)
}

func (x *runner) checkDisk(op string) {
	if x.diskUnchecked != "" && x.diskUnchecked != op {
		op = x.diskUnchecked + "+" + op
	}
	x.diskUnchecked = ""
	got := x.walk()
	var diffs []string
	for f := range x.disk {
		if !got[f] {
			diffs = append(diffs, "missing "+f)
		}
	}
	for f := range got {
		if !x.disk[f] {
			diffs = append(diffs, "unexpected "+f)
		}
	}
	if len(diffs) > 0 {
		sort.Strings(diffs)
		x.violate("C19:disk:"+op, fmt.Sprintf("%s changed the storage dir: %s", op, strings.Join(diffs, "; ")), nil)
		x.disk = got
	}
}

// checkState compares everything observable with the model.
func (x *runner) checkState(op string) {
	snaps := x.observe()
	var st []string
	for i, id := range x.c.Res {
		mr := x.m.Res[id]
		if mr == nil {
			continue
		}
		s := snaps[id]
		if s == nil {
			x.violate("C19:listing:"+op+":resource-missing", "resource "+id+" is not in the registry", nil)
			continue
		}
		dups := x.checkListing(op, mr, s)
		x.checkSelection(op, mr, s, dups)
		x.checkActive(op, mr, s)
		if rv, err := x.reg.GetVersion(id); err != nil || (rv == nil) != (s.selected == "") || (rv != nil && rv.VersionNumber != s.selected) {
			x.violate("C19:getversion:mismatch", "GetVersion disagrees with the exported resource", map[string]any{"resource": id})
		}
		st = append(st, fmt.Sprintf("r%d{sel=%s act=%s n=%d}", i, orDash(s.selected), orDash(s.active), len(s.list)))
		x.b.Max("max_versions_listed", int64(len(s.list)))
	}
	for id := range snaps {
		if x.m.Res[id] == nil && !x.unexpected[id] {
			if x.unexpected == nil {
				x.unexpected = map[string]bool{}
			}
			x.unexpected[id] = true // reported once, where it appeared
			var ghosts []string
			for _, e := range snaps[id].list {
				if _, err := os.Stat(x.abs(refVersionedPath(id, e.Ver))); e.Avail && err != nil {
					ghosts = append(ghosts, e.Ver)
				}
			}
			x.violate("C19:listing:"+op+":unexpected-resource", fmt.Sprintf("after %s the registry holds resource %q, which was never defined and matches no file path relative to the storage dir; versions listed as available without a file: %v", op, id, ghosts), nil)
		}
	}
	switch op {
	case "Purge": // judged by opPurge itself
	case "AddResource", "SetFlag", "GetSelectedVersions":
		x.diskUnchecked = op // pure bookkeeping operations: the listing is compared at the next step that could touch files (and at the end)
	default:
		x.checkDisk(op)
	}
	x.trace = append(x.trace, fmt.Sprintf("#%d %s => %s", x.step, x.curOp, strings.Join(st, " ")))
}

func orDash(s string) string {
	if s == "" {
		return "-"
	}
	return s
}

func (x *runner) modelSelect(mr *mres) {
	x.m.doSelect(mr)
	x.b.Count("select_step_"+mr.lastStep, 1)
	if mr.Selected != nil && mr.Selected.Black {
		x.b.Count("selected_blacklisted_"+mr.lastStep, 1)
	}
	if mr.Selected != nil && !mr.Selected.Avail {
		x.b.Count("selected_not_local", 1)
	}
}

func mainFile(id string, v *mver) string { return refVersionedPath(id, v.Key) }

// run executes the history. It returns the trace (for samples).
func (x *runner) run() {
	x.m = newModel()
	x.m.Online, x.m.Dev, x.m.UsePre = x.c.Online, x.c.Dev, x.c.UsePre
	x.disk = map[string]bool{}
	x.reg = &updater.ResourceRegistry{Name: "c19", Online: x.c.Online, DevMode: x.c.Dev, UsePreReleases: x.c.UsePre,
		UpdateURLs: []string{x.baseURL}}
	if err := x.reg.Initialize(utils.NewDirStructure(x.storage, 0o755)); err != nil {
		x.b.Inconclusive("case %d: Initialize: %v", x.c.No, err)
		return
	}
	for i, is := range x.c.Idx {
		x.idx = append(x.idx, &updater.Index{Path: fmt.Sprintf("chan%d.json", i), AutoDownload: is.Auto, PreRelease: is.Pre})
		x.midx = append(x.midx, &mindex{Auto: is.Auto, Pre: is.Pre})
	}
	// bystanders that no purge may touch
	x.touch("stable.json")
	if i := strings.LastIndex(x.c.Res[0], "/"); i >= 0 {
		x.touch(x.c.Res[0][:i+1] + "notes.txt")
	}
	for i, o := range x.c.Ops {
		if x.aborted || x.nviol >= 6 {
			break
		}
		x.step, x.curOp = i, o.String()
		x.b.Count("op_"+o.Op, 1)
		switch o.Op {
		case "add":
			x.opAdd(o)
		case "select":
			if x.guard("SelectVersions", x.reg.SelectVersions) {
				for _, id := range x.m.Order {
					x.modelSelect(x.m.Res[id])
				}
				x.checkState("SelectVersions")
			}
		case "getfile":
			x.opGetFile(o)
		case "blacklist", "blacklist_selected":
			x.opBlacklist(o)
		case "flag":
			switch o.Flag {
			case "online":
				x.reg.Online, x.m.Online = o.Val, o.Val
			case "dev":
				x.reg.SetDevMode(o.Val)
				x.m.Dev = o.Val
			case "usepre":
				x.reg.SetUsePreReleases(o.Val)
				x.m.UsePre = o.Val
			}
			x.checkState("SetFlag")
		case "autodl":
			x.idx[o.Idx-1].AutoDownload, x.midx[o.Idx-1].Auto = o.Val, o.Val
			x.checkState("SetFlag")
		case "purge":
			x.opPurge(o)
		case "announce":
			x.opAnnounce(o)
		case "scan":
			x.opScan(o)
		case "getselected":
			x.opGetSelected()
		}
	}
	if x.diskUnchecked != "" && !x.aborted {
		x.checkDisk(x.diskUnchecked)
	}
	x.b.Max("max_history_len", int64(len(x.c.Ops)))
}

func (x *runner) opAdd(o opSpec) {
	id := x.c.Res[o.R]
	var ridx *updater.Index
	var midx *mindex
	if o.Idx > 0 {
		ridx, midx = x.idx[o.Idx-1], x.midx[o.Idx-1]
	}
	p, valid := parseRefVersion(o.Ver)
	if valid && o.Avail {
		rel := refVersionedPath(id, p.Key)
		x.touch(rel)
		if o.Sig {
			x.touch(rel + ".sig")
		}
	}
	if valid && p.Key != o.Ver {
		x.b.Count("add_noncanonical_version_string", 1)
	}
	var err error
	if !x.guard("AddResource", func() { err = x.reg.AddResource(id, o.Ver, ridx, o.Avail, o.Cur, o.Pre) }) {
		return
	}
	mok := x.m.add(id, o.Ver, midx, o.Avail, o.Cur, o.Pre)
	if mok != (err == nil) {
		// the generator and the version parser disagree on what a version is: not a
		// question of the property; do not judge this history
		x.b.Note("case %d: version string %q: reference accepts=%v, AddResource error=%v — history dropped", x.c.No, o.Ver, mok, err)
		x.aborted = true
		return
	}
	if !mok {
		x.b.Count("add_invalid_rejected", 1)
	}
	x.checkState("AddResource")
}

func (x *runner) opGetFile(o opSpec) {
	id := x.c.Res[o.R]
	mr := x.m.Res[id]
	if mr.Selected == nil {
		x.modelSelect(mr) // GetFile selects a version if none is selected yet
	}
	var f *updater.File
	var err error
	if !x.guard("GetFile", func() { f, err = x.reg.GetFile(id) }) {
		return
	}
	// first settle what the resource has selected, then judge what was handed out
	snaps := x.observe()
	if s := snaps[id]; s != nil {
		dups := x.checkListing("GetFile", mr, s)
		x.checkSelection("GetFile", mr, s, dups)
	}
	sel := mr.Selected
	switch {
	case sel == nil:
		x.aborted = true
		return
	case sel.Avail, x.m.Online:
		if err != nil || f == nil {
			if !sel.Avail {
				x.b.Inconclusive("case %d: download through the loopback server failed: %v", x.c.No, err)
				x.aborted = true
				return
			}
			x.violate("C19:getfile:unexpected-error", fmt.Sprintf("GetFile(%s) failed for a locally available selected version %s: %v", id, sel, err), nil)
			break
		}
		if f.Version() != sel.Key || f.Identifier() != id {
			x.violate("C19:getfile:wrong-version", fmt.Sprintf("GetFile(%s) returned %s v%s, selected is %s", id, f.Identifier(), f.Version(), sel), nil)
		}
		if want := x.abs(refVersionedPath(id, sel.Key)); f.Path() != want {
			x.violate("C19:getfile:wrong-path", fmt.Sprintf("GetFile(%s) v%s has path %q, expected %q", id, f.Version(), f.Path(), want), nil)
		}
		mr.Active = sel
		if sel.Avail {
			x.b.Count("getfile_local", 1)
		} else {
			x.disk[refVersionedPath(id, sel.Key)] = true
			x.b.Count("getfile_downloaded", 1)
		}
	default:
		if !errors.Is(err, updater.ErrNotAvailableLocally) {
			x.violate("C19:getfile:unexpected-result", fmt.Sprintf("GetFile(%s) offline with unavailable selected version %s: file=%v err=%v", id, sel, f != nil, err), nil)
		}
		x.b.Count("getfile_not_available", 1)
	}
	x.checkState("GetFile")
}

func (x *runner) opBlacklist(o opSpec) {
	id := x.c.Res[o.R]
	mr := x.m.Res[id]
	var tv *mver
	if o.Op == "blacklist_selected" {
		if mr.Selected != nil {
			tv = mr.find(mr.Selected.Key)
		}
	} else if p, ok := parseRefVersion(o.Ver); ok {
		tv = mr.find(p.Key)
	}
	if tv == nil {
		x.b.Count("blacklist_skipped_not_listed", 1)
		return
	}
	var rv *updater.ResourceVersion
	if res := x.reg.Export()[id]; res != nil {
		for _, v := range res.Versions {
			if v.VersionNumber == tv.Key {
				rv = v
				break
			}
		}
	}
	if rv == nil {
		x.b.Count("blacklist_skipped_not_listed", 1)
		return
	}
	nonBlack, nonBlackNonDev := 0, 0
	for _, v := range mr.Vers {
		if !v.Black {
			nonBlack++
			if !v.isDev() {
				nonBlackNonDev++
			}
		}
	}
	mustRefuse := !tv.Black && nonBlack == 1 // tv is the last non-blacklisted version
	mustAccept := nonBlackNonDev >= 2        // other valid versions remain
	var err error
	if !x.guard("Blacklist", func() { err = rv.GetFile().Blacklist() }) {
		return
	}
	if err == nil {
		x.b.Count("blacklist_accepted", 1)
		if mustRefuse {
			x.violate("C19:blacklist:accepted-last-version", fmt.Sprintf("Blacklist(%s) of resource %s succeeded although it is the last non-blacklisted version", tv.Key, id),
				map[string]any{"versions": listStr(mr.Vers)})
		}
		tv.Black = true
		x.modelSelect(mr) // blacklisting selects a new version
	} else {
		x.b.Count("blacklist_refused", 1)
		if mustRefuse {
			x.b.Count("blacklist_refused_last_version", 1)
		}
		if mustAccept {
			x.violate("C19:blacklist:refused-nonlast", fmt.Sprintf("Blacklist(%s) of resource %s refused (%v) although %d other non-blacklisted release versions remain", tv.Key, id, err, nonBlackNonDev-1),
				map[string]any{"versions": listStr(mr.Vers)})
		}
	}
	x.checkState("Blacklist")
}

func isSortedDesc(list []oentry) bool {
	var prev *mver
	for _, e := range list {
		p, ok := parseRefVersion(e.Ver)
		if !ok {
			return true
		}
		if prev != nil && cmpVer(prev, p) < 0 {
			return false
		}
		prev = p
	}
	return true
}

// opPurge: the statement's retention clauses are checked directly on the disk listing
// (not by comparing with a re-implementation of the boundary search).
func (x *runner) opPurge(o opSpec) {
	preSnap := x.observe()
	before := x.walk()
	if !x.guard("Purge", func() { x.reg.Purge(o.Keep) }) {
		return
	}
	after := x.walk()
	post := x.observe()
	removed := map[string]bool{}
	for f := range before {
		if !after[f] {
			removed[f] = true
		}
	}
	for f := range after {
		if !before[f] {
			x.violate("C19:disk:Purge", "Purge created file "+f, nil)
		}
	}
	intact := func(id string, v *mver) bool { // none of the version's files was removed
		f := mainFile(id, v)
		return !removed[f] && !removed[f+".sig"]
	}
	owned := map[string]bool{} // removed files that belong to some version
	// files that are the "unpacked path" (storage path minus last extension) of a version
	// of some resource whose file this purge removed
	sibling := map[string]string{}
	for _, id := range x.m.Order {
		for _, v := range x.m.Res[id].Vers {
			f := mainFile(id, v)
			if ext := path.Ext(f); ext != "" && removed[f] {
				sibling[strings.TrimSuffix(f, ext)] = id + " v" + v.Key
			}
		}
	}
	if x.c.Sibling {
		x.b.Count("purge_in_registry_with_sibling_identifiers", 1)
	}
	for f := range sibling {
		if before[f] {
			// the unpacked path of a version that was just purged is the file of a version of another resource
			x.b.Count("purge_unpacked_path_is_file_of_sibling_resource", 1)
		}
	}
	want := o.Keep
	if want < 0 {
		want = 0
	}
	for _, id := range x.m.Order {
		mr := x.m.Res[id]
		ps := post[id]
		unsorted := ""
		if s := preSnap[id]; s != nil && !isSortedDesc(s.list) {
			unsorted = ":unsorted-list"
			x.b.Count("purge_on_unsorted_list", 1)
		}
		anyBlack := false
		for _, v := range mr.Vers {
			anyBlack = anyBlack || v.Black
		}
		if anyBlack {
			x.b.Count("purge_resource_with_blacklisted", 1)
		}
		// (1) needed versions keep their files
		needed := map[*mver]string{}
		for _, nv := range []struct {
			v    *mver
			role string
		}{{mr.Active, "active"}, {mr.Selected, "selected"}, {mr.newestStable(), "newest-stable"}} {
			if nv.v == nil {
				continue
			}
			if _, dup := needed[nv.v]; !dup {
				needed[nv.v] = nv.role
			}
			if !intact(id, nv.v) {
				cls, why := unsorted, ""
				if by := sibling[mainFile(id, nv.v)]; by != "" {
					cls, why = ":sibling-unpacked-path", " (as the unpacked path of the purged "+by+")"
				}
				x.violate("C19:purge:removed-needed:"+nv.role+cls,
					fmt.Sprintf("Purge(%d) removed the file of the %s version %s of resource %s%s", o.Keep, nv.role, nv.v, id, why),
					map[string]any{"resource": id, "versions_before_in_list_order": olistStr(preSnap[id].list), "active": key(mr.Active), "selected": key(mr.Selected),
						"newest_stable": key(mr.newestStable()), "removed": keys(removed)})
			}
		}
		// (2) at least `keep` further versions keep their files
		further, keptFurther, furtherWithFile, keptWithFile := 0, 0, 0, 0
		nremoved := 0
		viaSibling := ""
		for _, v := range mr.Vers {
			f := mainFile(id, v)
			if removed[f] {
				owned[f] = true
				nremoved++
				if sibling[f] != "" {
					viaSibling = ":sibling-unpacked-path"
				}
			}
			if removed[f+".sig"] {
				owned[f+".sig"] = true
			}
			if _, isNeeded := needed[v]; isNeeded {
				continue
			}
			further++
			if before[f] {
				furtherWithFile++
			}
			if intact(id, v) {
				keptFurther++
				if before[f] {
					keptWithFile++
				}
			}
		}
		for v := range needed { // needed versions that are no longer listed still own their files
			owned[mainFile(id, v)] = true
			owned[mainFile(id, v)+".sig"] = true
		}
		if nremoved > 0 {
			x.b.Count("purge_resources_with_removals", 1)
			x.b.Count("purge_version_files_removed", int64(nremoved))
			x.b.Seen("purge_keep_values_with_removals", fmt.Sprint(o.Keep))
		} else {
			x.b.Count("purge_resources_untouched", 1)
		}
		if min(want, further) > keptFurther {
			if viaSibling != "" {
				unsorted = viaSibling
			}
			x.violate("C19:purge:kept-too-few"+unsorted, fmt.Sprintf("Purge(%d) left only %d of %d further versions of resource %s untouched", o.Keep, keptFurther, further, id),
				map[string]any{"resource": id, "versions_before_in_list_order": olistStr(preSnap[id].list), "removed": keys(removed)})
		}
		if min(want, furtherWithFile) > keptWithFile {
			// stricter reading (count only versions that have files); recorded, not judged
			x.b.Count("purge_fewer_than_keep_further_files_left(diagnostic)", 1)
		}
		// (3) what is listed as available has its file
		if ps != nil {
			obs, _ := collapse(ps.list)
			var ghosts []string
			gcls := ":sibling-unpacked-path"
			for _, e := range ps.list {
				p, ok := parseRefVersion(e.Ver)
				if ok && e.Avail && removed[mainFile(id, p)] {
					ghosts = append(ghosts, e.Ver)
					if sibling[mainFile(id, p)] == "" {
						gcls = ""
					}
				}
			}
			if len(ghosts) > 0 {
				x.violate("C19:purge:listed-available-without-file"+gcls,
					fmt.Sprintf("after Purge(%d) resource %s lists %v as available, their files were just removed", o.Keep, id, ghosts),
					map[string]any{"resource": id, "versions_before_in_list_order": olistStr(preSnap[id].list), "versions_after": olistStr(ps.list),
						"selected": key(mr.Selected), "active": key(mr.Active), "removed": keys(removed)})
			}
			// listing after purge: entries may disappear or lose Available, nothing else
			var bad []string
			for k, e := range obs {
				v := mr.find(k)
				switch {
				case v == nil:
					bad = append(bad, "new entry "+e.String())
				case e.Cur != v.Cur || e.Pre != v.Pre || e.Black != v.Black || (e.Avail && !v.Avail):
					bad = append(bad, fmt.Sprintf("%s became %s", v, e))
				}
			}
			if len(bad) > 0 {
				sort.Strings(bad)
				x.violate("C19:purge:listing-corrupted", fmt.Sprintf("Purge(%d) changed the flags of listed versions of %s: %s", o.Keep, id, strings.Join(bad, "; ")), nil)
			}
			delisted := 0
			for _, v := range mr.Vers {
				if _, ok := obs[v.Key]; !ok {
					delisted++
					if intact(id, v) && before[mainFile(id, v)] {
						x.b.Count("purge_delisted_version_whose_file_was_kept(diagnostic)", 1)
					}
				}
			}
			x.b.Count("purge_versions_delisted", int64(delisted))
			adopt(mr, obs, ps.list)
		}
	}
	for f := range removed {
		if !owned[f] {
			x.violate("C19:purge:removed-foreign-file", fmt.Sprintf("Purge(%d) removed %s, which belongs to no listed version", o.Keep, f), nil)
		}
	}
	x.disk = after
	x.checkState("Purge")
}

func keys(m map[string]bool) []string {
	var s []string
	for k := range m {
		s = append(s, k)
	}
	sort.Strings(s)
	return s
}

func (x *runner) opScan(o opSpec) {
	root, prefix := "", ""
	if o.Root != "" {
		if st, err := os.Stat(x.abs(o.Root)); err == nil && st.IsDir() {
			root, prefix = x.abs(o.Root), o.Root+"/"
			x.b.Count("scan_partial_with_subdirectory_root", 1)
		}
	}
	var files []string
	for f := range x.disk {
		if !strings.HasSuffix(f, ".sig") && strings.HasPrefix(f, prefix) {
			files = append(files, f)
		}
	}
	sort.Strings(files)
	var err error
	if !x.guard("ScanStorage", func() { err = x.reg.ScanStorage(root) }) {
		return
	}
	if err != nil {
		x.b.Inconclusive("case %d: ScanStorage: %v", x.c.No, err)
		x.aborted = true
		return
	}
	// identifiers are paths relative to the storage dir, whatever the scan root was
	for _, f := range files {
		if id, ver, ok := refParsePath(f); ok {
			x.m.add(id, ver, nil, true, false, false)
			x.b.Count("scan_files_registered", 1)
			if prefix != "" {
				x.b.Count("scan_partial_files_registered", 1)
			}
		}
	}
	x.checkState("ScanStorage")
}

// opAnnounce: an index announces releases for several identifiers in one AddResources call.
func (x *runner) opAnnounce(o opSpec) {
	ridx, midx := x.idx[o.Idx-1], x.midx[o.Idx-1]
	versions := map[string]string{}
	for i, v := range o.Rel {
		if v == "" || i >= len(x.c.Res) {
			continue
		}
		versions[x.c.Res[i]] = v
		if p, ok := parseRefVersion(v); ok && o.Avail {
			x.touch(refVersionedPath(x.c.Res[i], p.Key))
		}
	}
	if len(versions) == 0 {
		return
	}
	var err error
	if !x.guard("AddResources", func() { err = x.reg.AddResources(versions, ridx, o.Avail, o.Cur, o.Pre) }) {
		return
	}
	if err != nil {
		x.b.Note("case %d: AddResources(%v): %v - history dropped", x.c.No, versions, err)
		x.aborted = true
		return
	}
	for id, v := range versions {
		mr := x.m.Res[id]
		if mr != nil && o.Cur && !o.Avail {
			if p, ok := parseRefVersion(v); ok {
				if cur := mr.find(p.Key); cur != nil && cur.Cur && mr.Index != midx {
					x.b.Count("announce_same_current_release_by_another_index", 1)
					if mr.Index != nil && mr.Index.Auto != midx.Auto {
						x.b.Count("announce_same_current_release_by_index_with_other_autodownload", 1)
					}
				}
			}
		}
		x.m.add(id, v, midx, o.Avail, o.Cur, o.Pre) // the resource belongs to the index that announced it last
	}
	x.b.Count("announce_resources", int64(len(versions)))
	x.checkState("AddResources")
}

func (x *runner) opGetSelected() {
	for _, id := range x.m.Order {
		if x.m.Res[id].Selected == nil {
			x.b.Count("getselected_skipped_nothing_selected", 1)
			return
		}
	}
	var got map[string]string
	if !x.guard("GetSelectedVersions", func() { got = x.reg.GetSelectedVersions() }) {
		return
	}
	x.b.Count("getselected_compared", 1)
	ok := len(got) == len(x.m.Order)
	for _, id := range x.m.Order {
		ok = ok && got[id] == key(x.m.Res[id].Selected)
	}
	if !ok {
		exp := map[string]string{}
		for _, id := range x.m.Order {
			exp[id] = key(x.m.Res[id].Selected)
		}
		x.violate("C19:getselectedversions:mismatch", "GetSelectedVersions disagrees with the per-resource selected versions", map[string]any{"expected": exp, "observed": got})
	}
	x.checkState("GetSelectedVersions")
}
