package main

import (
	"fmt"
	"strings"

	"verifharness/internal/vlib"
)

// caseSpec is one generated history; it is self-contained (replayable without the seed).
type caseSpec struct {
	No     uint64    `json:"no"`
	Res    []string  `json:"resources"`
	Idx    []idxSpec `json:"indexes"`
	Online bool      `json:"online"`
	Dev    bool      `json:"dev_mode"`
	UsePre bool      `json:"use_pre_releases"`
	Ops    []opSpec  `json:"ops"`
	// Sibling: resources 0 and 1 are an identifier pair like (x, x.zip)
	Sibling bool `json:"sibling,omitempty"`
}

type idxSpec struct {
	Auto bool `json:"auto_download"`
	Pre  bool `json:"pre_release"`
}

type opSpec struct {
	Op    string `json:"op"` // add select getfile blacklist blacklist_selected flag autodl purge scan getselected
	R     int    `json:"r,omitempty"`
	Ver   string `json:"ver,omitempty"`
	Idx   int    `json:"idx,omitempty"` // 0 = none, k = index k-1
	Avail bool   `json:"avail,omitempty"`
	Cur   bool   `json:"cur,omitempty"`
	Pre   bool   `json:"pre,omitempty"`
	Sig   bool   `json:"sig,omitempty"`
	Keep  int    `json:"keep,omitempty"`
	Flag  string `json:"flag,omitempty"`
	Val   bool   `json:"val,omitempty"`
	// scan: directory (relative to the storage dir) used as scan root, "" = full scan
	Root string `json:"root,omitempty"`
	// announce: AddResources({resource i: Rel[i]} for non-empty Rel[i], index Idx, Avail, Cur, Pre)
	Rel []string `json:"rel,omitempty"`
}

func (o opSpec) String() string {
	switch o.Op {
	case "add":
		return fmt.Sprintf("AddResource(r%d, %q, idx=%d, avail=%v, current=%v, pre=%v)", o.R, o.Ver, o.Idx, o.Avail, o.Cur, o.Pre)
	case "getfile", "blacklist_selected":
		return fmt.Sprintf("%s(r%d)", o.Op, o.R)
	case "blacklist":
		return fmt.Sprintf("Blacklist(r%d, %q)", o.R, o.Ver)
	case "flag":
		return fmt.Sprintf("set %s=%v", o.Flag, o.Val)
	case "autodl":
		return fmt.Sprintf("index%d.AutoDownload=%v", o.Idx-1, o.Val)
	case "purge":
		return fmt.Sprintf("Purge(%d)", o.Keep)
	case "scan":
		return fmt.Sprintf("ScanStorage(%q)", o.Root)
	case "announce":
		return fmt.Sprintf("AddResources(%q, idx=%d, avail=%v, current=%v, pre=%v)", o.Rel, o.Idx, o.Avail, o.Cur, o.Pre)
	}
	return o.Op
}

// Identifiers of registry histories keep version-like text out of their directories:
// ScanStorage deliberately skips every directory whose name carries a version marker
// ("these will be unpacked resources"). The pure file-name conversion has no such rule
// and is exercised with versioned directories by the name cases (genFmtDir).
var (
	idDirs  = []string{"", "all/", "all/ui/modules/", "linux_amd64/core/", "windows_amd64/start/", "all/intel/geoip/"}
	idNames = []string{"portmaster-core", "assets", "base", "geoipv4", "my_tool", "notifier", "x", "app2", "index-data", "ui-kit"}
	idExts  = []string{"", "", ".exe", ".zip", ".tar.gz", ".dat", ".mmdb.gz", ".json"}
	preTags = []string{"beta", "staging", "rc", "alpha", "b"}
)

// idExtOf returns the extension part (from the first dot of the file name) of an identifier.
func idExtOf(id string) string {
	file := id[strings.LastIndex(id, "/")+1:]
	if i := strings.Index(file, "."); i >= 0 {
		return file[i:]
	}
	return ""
}

func genVersion(r *vlib.Rand) string {
	v := fmt.Sprintf("%d.%d.%d", r.Intn(3), r.Intn(3), r.Intn(4))
	if v == "0.0.0" {
		v = "0.0.1"
	}
	if r.Chance(3, 10) {
		v += "-" + vlib.Pick(r, preTags...)
	}
	return v
}

// nonCanonical renders a canonical version in another spelling the version parser
// accepts and normalises to the same version.
func nonCanonical(r *vlib.Rand, v string) string {
	base, tag, _ := strings.Cut(v, "-")
	switch r.Intn(4) {
	case 0:
		if strings.HasSuffix(base, ".0") && tag == "" {
			return strings.TrimSuffix(base, ".0")
		}
		return "v" + v
	case 1:
		return "v" + v
	case 2:
		return "0" + v
	default:
		if tag != "" {
			return base + tag
		}
		return "0" + v
	}
}

func genCase(seed uint64, no uint64) caseSpec {
	r := vlib.NewRand(seed, "C19/history", no)
	c := caseSpec{No: no, Online: r.Bool(), Dev: r.Chance(1, 3), UsePre: r.Bool()}
	// resources: distinct base names (no two identifiers that differ only by extension)
	nres := 1 + r.Intn(3)
	names := append([]string(nil), idNames...)
	vlib.Shuffle(r, names)
	for i := 0; i < nres; i++ {
		c.Res = append(c.Res, vlib.Pick(r, idDirs...)+names[i]+vlib.Pick(r, idExts...))
	}
	for i, n := 0, r.Intn(3); i < n; i++ {
		c.Idx = append(c.Idx, idxSpec{Auto: r.Chance(2, 3), Pre: r.Chance(1, 5)})
	}
	// version pools
	pools := make([][]string, nres)
	for i := range pools {
		n := 1 + r.Intn(12)
		for k := 0; k < n; k++ {
			pools[i] = append(pools[i], genVersion(r))
		}
		if r.Chance(3, 10) {
			pools[i] = append(pools[i], "0.0.0")
			if r.Chance(1, 8) {
				pools[i] = append(pools[i], "0.0.0-"+vlib.Pick(r, preTags...))
			}
		}
	}
	// sibling identifiers: the unpacked path of one resource's versions (storage path minus
	// its last extension) is the storage path of the same version of the other. Decided on
	// a stream of its own so that the other histories stay what they were.
	if rs := vlib.NewRand(seed, "C19/sibling", no); nres >= 2 && rs.Chance(1, 4) {
		base := vlib.Pick(rs, idDirs...) + vlib.Pick(rs, idNames...)
		pair := vlib.Pick(rs, [2]string{"", ".zip"}, [2]string{".tar", ".tar.gz"}, [2]string{"", ".gz"}, [2]string{".mmdb", ".mmdb.gz"})
		a, b := 0, 1
		if rs.Bool() {
			a, b = 1, 0
		}
		c.Res[a], c.Res[b] = base+pair[0], base+pair[1]
		if nres == 3 && strings.HasSuffix(strings.TrimSuffix(c.Res[2], idExtOf(c.Res[2])), base[strings.LastIndex(base, "/")+1:]) {
			c.Res[2] = "other/" + c.Res[2]
		}
		// overlapping version sets
		pools[b] = append(append([]string(nil), pools[a]...), pools[b][:len(pools[b])/2]...)
		c.Sibling = true
	}
	weird := r.Chance(1, 12)     // this history uses non-canonical version spellings
	purgeHeavy := r.Chance(1, 4) // many locally available versions, frequent purges, few blacklists
	if purgeHeavy {
		for i := range pools {
			for k, n := 0, 6+r.Intn(8); k < n; k++ {
				pools[i] = append(pools[i], genVersion(r))
			}
		}
	}
	addOp := func(ri int) opSpec {
		o := opSpec{Op: "add", R: ri, Ver: vlib.Pick(r, pools[ri]...), Avail: r.Chance(13, 20), Cur: r.Chance(1, 5), Pre: r.Chance(1, 10), Sig: r.Chance(1, 4)}
		if purgeHeavy {
			o.Avail = r.Chance(9, 10)
		}
		if len(c.Idx) > 0 && r.Chance(1, 2) {
			o.Idx = 1 + r.Intn(len(c.Idx))
			if c.Idx[o.Idx-1].Pre {
				o.Pre = true
			}
		} else {
			o.Cur = o.Cur && r.Chance(1, 3) // current releases normally come from an index
		}
		if weird && r.Chance(1, 2) {
			if o.Ver == "0.0.0" {
				o.Ver = "0"
			} else {
				o.Ver = nonCanonical(r, o.Ver)
			}
		}
		return o
	}
	// initial population, unordered
	for ri := range c.Res {
		n := 1 + r.Intn(8)
		if purgeHeavy {
			n = 8 + r.Intn(10)
		}
		for k := 0; k < n; k++ {
			c.Ops = append(c.Ops, addOp(ri))
		}
	}
	vlib.Shuffle(r, c.Ops)
	// (every resource has at least one valid version before anything else happens)
	nops := 8 + r.Intn(33)
	for k := 0; k < nops; k++ {
		ri := r.Intn(nres)
		x := r.Intn(100)
		if purgeHeavy && x >= 58 && x < 72 && r.Chance(3, 4) {
			x = 85 // purge instead of blacklist
		}
		switch {
		case x < 22:
			c.Ops = append(c.Ops, addOp(ri))
		case x < 40:
			c.Ops = append(c.Ops, opSpec{Op: "select"})
		case x < 58:
			c.Ops = append(c.Ops, opSpec{Op: "getfile", R: ri})
		case x < 68:
			c.Ops = append(c.Ops, opSpec{Op: "blacklist", R: ri, Ver: vlib.Pick(r, pools[ri]...)})
		case x < 72:
			c.Ops = append(c.Ops, opSpec{Op: "blacklist_selected", R: ri})
		case x < 80:
			c.Ops = append(c.Ops, opSpec{Op: "flag", Flag: vlib.Pick(r, "online", "dev", "usepre"), Val: r.Bool()})
		case x < 83:
			if len(c.Idx) > 0 {
				c.Ops = append(c.Ops, opSpec{Op: "autodl", Idx: 1 + r.Intn(len(c.Idx)), Val: r.Bool()})
			} else {
				c.Ops = append(c.Ops, opSpec{Op: "select"})
			}
		case x < 93:
			c.Ops = append(c.Ops, opSpec{Op: "purge", Keep: r.Range(-1, 5)})
		case x < 96:
			c.Ops = append(c.Ops, opSpec{Op: "scan"})
		case x < 99:
			c.Ops = append(c.Ops, opSpec{Op: "getselected"})
		default:
			c.Ops = append(c.Ops, opSpec{Op: "add", R: ri, Ver: vlib.Pick(r, "", "not-a-version", "1..2", "x.y.z"), Avail: false})
		}
	}
	genExtras(seed, no, &c, pools)
	return c
}

// genExtras adds, on a stream of its own (the histories above stay what they were):
// partial rescans (ScanStorage with a sub-directory of the storage dir as root) and
// index announcements through AddResources - the same release announced as current
// release for several identifiers by different indexes (differing AutoDownload /
// PreRelease), usually not on disk.
func genExtras(seed, no uint64, c *caseSpec, pools [][]string) {
	r := vlib.NewRand(seed, "C19/extras", no)
	for i := range c.Ops {
		if c.Ops[i].Op == "scan" && r.Chance(3, 5) {
			id := vlib.Pick(r, c.Res...)
			if parts := strings.Split(id, "/"); len(parts) > 1 {
				c.Ops[i].Root = strings.Join(parts[:1+r.Intn(len(parts)-1)], "/")
			}
		}
	}
	if !r.Chance(1, 2) {
		return
	}
	for len(c.Idx) < 2 {
		c.Idx = append(c.Idx, idxSpec{Auto: r.Bool(), Pre: r.Chance(1, 4)})
	}
	if c.Idx[0].Auto == c.Idx[1].Auto && r.Chance(2, 3) {
		c.Idx[1].Auto = !c.Idx[0].Auto
	}
	rel := make([]string, len(c.Res))
	for i := range rel {
		rel[i] = vlib.Pick(r, pools[i]...)
	}
	first := 0
	for first < len(c.Ops) && c.Ops[first].Op == "add" {
		first++
	}
	for k, n := 0, 2+r.Intn(5); k < n; k++ {
		o := opSpec{Op: "announce", Idx: 1 + r.Intn(len(c.Idx)), Cur: true, Rel: make([]string, len(rel))}
		if r.Chance(1, 6) {
			o.Avail, o.Cur = r.Bool(), r.Bool()
		}
		if r.Chance(1, 5) { // a new release
			i := r.Intn(len(rel))
			rel[i] = vlib.Pick(r, pools[i]...)
		}
		for i := range rel {
			if r.Chance(4, 5) {
				o.Rel[i] = rel[i]
			}
		}
		o.Pre = c.Idx[o.Idx-1].Pre
		at := first + r.Intn(len(c.Ops)-first+1)
		c.Ops = append(c.Ops[:at], append([]opSpec{o}, c.Ops[at:]...)...)
		if r.Chance(1, 2) { // usually followed by a selection, as an update check does
			c.Ops = append(c.Ops[:at+1], append([]opSpec{{Op: "select"}}, c.Ops[at+1:]...)...)
		}
	}
}

// ---------------------------------------------------------------------------------
// file-name format generators

const lower = "abcdefghijklmnopqrstuvwxyz"

func genWord(r *vlib.Rand, alphabet string, lo, hi int) string {
	n := r.Range(lo, hi)
	b := make([]byte, n)
	for i := range b {
		b[i] = alphabet[r.Intn(len(alphabet))]
	}
	return string(b)
}

func genFmtVersion(r *vlib.Rand) string {
	num := func() string {
		switch r.Intn(6) {
		case 0:
			return "0"
		case 1:
			return fmt.Sprint(r.Intn(100000))
		case 2:
			return "0" + fmt.Sprint(r.Intn(10)) // leading zero is inside the documented pattern [0-9]+
		default:
			return fmt.Sprint(r.Intn(30))
		}
	}
	v := num() + "." + num() + "." + num()
	if r.Chance(2, 5) {
		v += "-" + genWord(r, lower, 1, 8)
	}
	return v
}

// genFmtName produces the part of the file name before the version marker: no dot,
// no embedded version marker, but with the characters that could confuse the
// splitter (underscores, dashes, 'v', digits).
func genFmtName(r *vlib.Rand) string {
	for {
		var s string
		switch r.Intn(8) {
		case 0:
			s = ""
		case 1:
			s = genWord(r, "v_-0123456789", 1, 6)
		case 2:
			s = genWord(r, lower, 1, 6) + "_v" + genWord(r, "0123456789-", 0, 4)
		default:
			s = genWord(r, lower+"0123456789_-", 1, 12)
		}
		if !refMarkerRe.MatchString(s) {
			return s
		}
	}
}

// verMarker is the text a version takes inside a versioned file name ("_v1-2-3[-tag]").
func verMarker(version string) string {
	return "_v" + strings.Replace(version, ".", "-", 2)
}

// genFmtDir generates the directory part of an identifier. The version marker is
// defined for the file name only (the regex is applied to the last path element),
// directory components are free: they may contain dots and version-like text - in
// particular text equal to the marker of the file's own version, a marker the file's
// marker is a prefix of (tag-less file version, tagged directory), the tag-less part
// of a tagged file version, or an unrelated version (unpacked-bundle style directories).
func genFmtDir(r *vlib.Rand, version string) string {
	base, tag, _ := strings.Cut(version, "-")
	var d string
	for i, n := 0, r.Intn(4); i < n; i++ {
		switch r.Intn(8) {
		case 0:
			d += genWord(r, lower, 1, 5) + "_v1-2-3/" // markers in directories are not file versions
		case 1:
			d += genWord(r, lower, 1, 5) + "." + genWord(r, lower, 1, 3) + "/"
		case 2: // same marker as the file
			d += genWord(r, lower, 0, 5) + verMarker(version) + vlib.Pick(r, "", "", ".d", "x") + "/"
		case 3: // related marker
			switch {
			case tag == "" && r.Bool():
				d += genWord(r, lower, 1, 5) + verMarker(base) + "-" + genWord(r, lower, 1, 6) + "/" // file marker is a prefix
			case tag != "":
				d += genWord(r, lower, 1, 5) + verMarker(base) + "/" // tag-less part of the file's version
			default:
				d += genWord(r, lower, 1, 5) + verMarker(genFmtVersion(r)) + "/" // another version
			}
		default:
			d += genWord(r, lower+"0123456789_-", 1, 8) + "/"
		}
	}
	if r.Chance(1, 10) {
		d = "/" + d
	}
	return d
}

func genFmtExt(r *vlib.Rand) string {
	switch r.Intn(6) {
	case 0, 1:
		return ""
	case 2:
		return "." + genWord(r, lower, 1, 4) + "." + genWord(r, lower+"0123456789", 1, 3)
	case 3:
		return ".v2.json"
	default:
		return "." + genWord(r, lower+"0123456789_-", 1, 5)
	}
}
