package main

import (
	"fmt"
	"sort"
	"strings"
	"sync"
	"time"

	"github.com/safing/portbase/database"
	"github.com/safing/portbase/database/query"
	"github.com/safing/portbase/database/record"

	"verifharness/internal/vlib"
)

// ---------------------------------------------------------------------------------
// what is recorded

// opRec is one writer operation: call/ret sequence numbers, the result, and the
// attributes of the record a delivery of this operation carries (reference model:
// the writer owns its keys and works sequentially, so the record an operation puts,
// re-puts or deletes is known).
type opRec struct {
	W      int    `json:"w"`
	Idx    int    `json:"i"`
	Kind   string `json:"k"`
	Key    string `json:"key"`
	Call   uint64 `json:"call"`
	Ret    uint64 `json:"ret"`
	Err    string `json:"err,omitempty"`
	OK     bool   `json:"ok"`
	Panic  string `json:"panic,omitempty"`
	Stack  string `json:"stack,omitempty"`
	Token  string `json:"token,omitempty"`
	Score  int    `json:"score"`
	Tag    string `json:"tag,omitempty"`
	Secret bool   `json:"secret,omitempty"`
	Crown  bool   `json:"crown,omitempty"`
	Model  bool   `json:"model"` // the reference model knows the record of this op
	// NoAcc: the written record has no accessor (a Wrapper that is not JSON or has no
	// data): prefix-only queries match it, queries with a condition cannot be evaluated
	NoAcc bool `json:"no_accessor,omitempty"`
}

type feedEl struct {
	Seq   uint64 `json:"seq"`
	Key   string `json:"key"`
	Token string `json:"token"`
	Kind  string `json:"kind"`
}

type keyState struct {
	token         string
	score         int
	tag           string
	secret, crown bool
}

type writerRun struct {
	spec    *WriterSpec
	iface   *database.Interface
	keys    map[string]*keyState
	ops     []*opRec
	counter int
	// tainted: key|token pairs whose deliveries cannot be attributed any more because
	// an operation on the key panicked half-way (storage written, not all subscribers
	// notified, model state unknown). The panic itself is the reported violation.
	tainted map[string]bool
}

type subRun struct {
	spec SubSpec
	q    *query.Query
	sub  *database.Subscription

	SubCall, SubRet       uint64
	CancelCall, CancelRet uint64
	Cancel2Call           uint64
	Cancel2Ret            uint64
	SubErr, CancelErr     string
	CancelPanic           string
	Cancel2Panic          string
	CancelStack           string

	feed            []feedEl
	closedSeen      bool
	openAfterCancel bool
	readerStarted   bool
	readerDone      chan struct{}
	cancelReturned  chan struct{}
	stop            chan struct{}
	maxBacklog      int
}

type run struct {
	w       *world
	sc      *Scenario
	writers []*writerRun
	subs    []*subRun
	gate    *gate
	inconcl []string
	mu      sync.Mutex
	// bypassed: a pair plan whose parked write never passed the yield point
	bypassed bool
}

func (r *run) inconclusive(format string, a ...any) {
	r.mu.Lock()
	r.inconcl = append(r.inconcl, fmt.Sprintf(format, a...))
	r.mu.Unlock()
}

// ---------------------------------------------------------------------------------
// writers

func (wr *writerRun) do(r *run, op *OpSpec) *opRec {
	key := keyOf(wr.spec.ID, op)
	full := r.w.db + ":" + key
	rec := &opRec{W: wr.spec.ID, Idx: len(wr.ops), Kind: op.Kind, Key: key}
	wr.ops = append(wr.ops, rec)
	st := wr.keys[key]
	setAttrs := func(s *keyState) {
		if s == nil {
			return
		}
		rec.Model = true
		rec.Token, rec.Score, rec.Tag, rec.Secret, rec.Crown = s.token, s.score, s.tag, s.secret, s.crown
	}
	var fn func() error
	after := func() {}
	var echo, echoOf *Rec
	switch op.Kind {
	case "put", "putnew", "push", "putdel", "pushdel", "pushexp":
		wr.counter++
		token := fmt.Sprintf("w%d-%d", wr.spec.ID, wr.counter)
		nr := newRec(r.w.db, key, token, op.Score, op.Tag)
		ns := &keyState{token: token, score: op.Score, tag: op.Tag, secret: op.PreSecret, crown: op.PreCrown}
		isPush := op.Kind == "push" || op.Kind == "pushdel" || op.Kind == "pushexp"
		if op.PreSecret || op.PreCrown || isPush || op.Kind == "putdel" {
			nr.UpdateMeta()
			if op.PreSecret {
				nr.Meta().MakeSecret()
			}
			if op.PreCrown {
				nr.Meta().MakeCrownJewel()
			}
		}
		if !isPush {
			ns.secret = ns.secret || wr.spec.Iface.Secret
			ns.crown = ns.crown || wr.spec.Iface.Crown
		}
		setAttrs(ns)
		if r.w.echoFor != nil && (op.Kind == "put" || op.Kind == "putnew") {
			echo = newRec(r.w.db, fmt.Sprintf("c/echo/k%d-%d", wr.spec.ID, wr.counter), token+"e", op.Score, op.Tag)
			echo.UpdateMeta()
			r.w.echoFor.Store(record.Record(nr), echo)
			echoOf = nr
		}
		switch op.Kind {
		case "put":
			fn = func() error { return wr.iface.Put(nr) }
		case "putnew":
			fn = func() error { return wr.iface.PutNew(nr) }
		case "putdel":
			// a delete expressed as Put of a record that is marked deleted; the record
			// is a fresh object, so this delete has its own token
			nr.Meta().Delete()
			fn = func() error { return wr.iface.Put(nr) }
		case "push", "pushdel", "pushexp":
			// an injected database also pushes the removal of a value (a record whose
			// meta is marked deleted) and values that have expired meanwhile; like a
			// delete through the controller they are updates subscribers must see
			if op.Kind == "pushdel" {
				nr.Meta().Delete()
			}
			if op.Kind == "pushexp" {
				nr.Meta().SetAbsoluteExpiry(time.Now().Unix() - 100000)
			}
			// the provider of an injected database updates its value and pushes it
			fn = func() error {
				r.w.store(nr)
				nr.Lock()
				defer nr.Unlock()
				r.w.push(nr)
				return nil
			}
		}
		after = func() { wr.keys[key] = ns }
	case "putwrap":
		wr.counter++
		token := fmt.Sprintf("w%d-%d", wr.spec.ID, wr.counter)
		ns := &keyState{token: token, score: op.Score, tag: op.Tag, secret: op.PreSecret || wr.spec.Iface.Secret, crown: op.PreCrown || wr.spec.Iface.Crown}
		nw, err := newWrapper(r.w.db, key, token, op.Score, op.Tag, op.Format)
		if err != nil {
			panic(err)
		}
		if op.PreSecret {
			nw.Meta().MakeSecret()
		}
		if op.PreCrown {
			nw.Meta().MakeCrownJewel()
		}
		setAttrs(ns)
		rec.NoAcc = op.Format != "json"
		fn = func() error { return wr.iface.Put(nw) }
		after = func() { wr.keys[key] = ns }
	case "del", "secret", "crown", "insert", "expiry":
		// operations on the stored record: load it, Options.Apply (adds the interface's
		// AlwaysMake* flags), change it, put it again
		var c *keyState
		if st != nil {
			cc := *st
			c = &cc
			c.secret = c.secret || wr.spec.Iface.Secret || op.Kind == "secret"
			c.crown = c.crown || wr.spec.Iface.Crown || op.Kind == "crown"
			setAttrs(c)
			after = func() { st.secret, st.crown = c.secret, c.crown }
		}
		switch op.Kind {
		case "del":
			fn = func() error { return wr.iface.Delete(full) }
		case "secret":
			fn = func() error { return wr.iface.MakeSecret(full) }
		case "crown":
			fn = func() error { return wr.iface.MakeCrownJewel(full) }
		case "insert":
			note := fmt.Sprintf("n%d", rec.Idx)
			fn = func() error { return wr.iface.InsertValue(full, "Note", note) }
		case "expiry":
			exp := time.Now().Unix() + 1000000
			fn = func() error { return wr.iface.SetAbsoluteExpiry(full, exp) }
		}
	default:
		panic("unknown op kind " + op.Kind)
	}
	rec.Call = tick()
	err, pnc, stack := guarded(fn)
	rec.Ret = tick()
	rec.Err, rec.Panic, rec.Stack = errString(err), pnc, stack
	rec.OK = err == nil && pnc == ""
	if rec.OK {
		after()
	}
	if echo != nil {
		// the update the storage pushed from inside this Put: a write of its own,
		// somewhere between this operation's call and return
		_, pending := r.w.echoFor.LoadAndDelete(record.Record(echoOf))
		wr.ops = append(wr.ops, &opRec{W: wr.spec.ID, Idx: len(wr.ops), Kind: "echo", Key: echo.DatabaseKey(), Call: rec.Call, Ret: rec.Ret,
			OK: !pending, Token: echo.Token, Score: echo.Score, Tag: echo.Tag, Model: true})
	}
	if pnc != "" {
		if wr.tainted == nil {
			wr.tainted = map[string]bool{}
		}
		if st != nil {
			wr.tainted[key+"|"+st.token] = true
		}
		if rec.Token != "" {
			wr.tainted[key+"|"+rec.Token] = true
		}
		delete(wr.keys, key) // unknown until the next successful put
	}
	r.gate.add()
	return rec
}

func (r *run) waitProgress(n int) { r.gate.wait(n) }

// ---------------------------------------------------------------------------------
// subscriptions

func (s *subRun) subscribe(r *run) bool {
	iface := database.NewInterface(&database.Options{Local: s.spec.Local, Internal: s.spec.Internal})
	s.SubCall = tick()
	var sub *database.Subscription
	err, pnc, _ := guarded(func() error {
		var e error
		sub, e = iface.Subscribe(s.q)
		return e
	})
	s.SubRet = tick()
	if err != nil || pnc != "" || sub == nil {
		s.SubErr = errString(err) + pnc
		if s.SubErr == "" {
			s.SubErr = "nil subscription"
		}
		return false
	}
	s.sub = sub
	return true
}

func (s *subRun) take(el feedEl) {
	s.feed = append(s.feed, el)
}

// reader receives from the feed until it is closed. Once Cancel has returned the
// feed must be closed already, so from then on the reader only drains without
// blocking; finding the channel open and empty at that point is an observation.
func (s *subRun) reader() {
	defer close(s.readerDone)
	recv := func() {
		for {
			if n := len(s.sub.Feed); n > s.maxBacklog {
				s.maxBacklog = n
			}
			select {
			case rr, ok := <-s.sub.Feed:
				if !ok {
					s.closedSeen = true
					return
				}
				k, t, kind, _, _ := ident(rr)
				s.take(feedEl{Seq: tick(), Key: k, Token: t, Kind: kind})
			default:
				return
			}
		}
	}
	for {
		select {
		case rr, ok := <-s.sub.Feed:
			if !ok {
				s.closedSeen = true
				return
			}
			k, t, kind, _, _ := ident(rr)
			s.take(feedEl{Seq: tick(), Key: k, Token: t, Kind: kind})
		case <-s.cancelReturned:
			recv()
			if !s.closedSeen {
				s.openAfterCancel = true
			}
			return
		case <-s.stop:
			recv()
			return
		}
	}
}

func (s *subRun) startReader() {
	s.readerStarted = true
	go s.reader()
}

func (s *subRun) cancel() {
	s.CancelCall = tick()
	err, pnc, stack := guarded(s.sub.Cancel)
	s.CancelRet = tick()
	s.CancelErr, s.CancelPanic, s.CancelStack = errString(err), pnc, stack
	close(s.cancelReturned)
}

func (s *subRun) cancelAgain() {
	s.Cancel2Call = tick()
	_, pnc, stack := guarded(s.sub.Cancel)
	s.Cancel2Ret = tick()
	s.Cancel2Panic = pnc
	if pnc != "" && s.CancelStack == "" {
		s.CancelStack = stack
	}
}

func (r *run) subControl(s *subRun, wg *sync.WaitGroup) {
	defer wg.Done()
	r.waitProgress(s.spec.SubAt)
	if !s.subscribe(r) {
		return
	}
	if !s.spec.DrainAtEnd {
		s.startReader()
	}
	if s.spec.CancelAt >= 0 {
		r.waitProgress(s.spec.CancelAt)
		s.cancel()
		if s.spec.DoubleCancel {
			s.cancelAgain()
		}
	}
}

func newRun(w *world, sc *Scenario) *run {
	r := &run{w: w, sc: sc, gate: newGate()}
	for i := range sc.Writers {
		ws := &sc.Writers[i]
		r.writers = append(r.writers, &writerRun{spec: ws, iface: ws.Iface.open(), keys: map[string]*keyState{}})
	}
	for i := range sc.Subs {
		ss := sc.Subs[i]
		s := &subRun{spec: ss, readerDone: make(chan struct{}), cancelReturned: make(chan struct{}), stop: make(chan struct{})}
		if ss.ShareWith >= 0 && ss.ShareWith < i {
			s.q = r.subs[ss.ShareWith].q
		} else {
			s.q = buildQuery(w.db, ss.Prefix, ss.Cond)
		}
		r.subs = append(r.subs, s)
	}
	return r
}

// finishSubs ends the history: subscriptions to be cancelled at the end are cancelled
// (all writers are done: every matching write is mandatory), the others stay active;
// then every feed is drained.
func (r *run) finishSubs() {
	for _, s := range r.subs {
		if s.sub == nil {
			continue
		}
		if s.CancelCall == 0 && s.spec.CancelAt != -2 {
			s.cancel()
			if s.spec.DoubleCancel {
				s.cancelAgain()
			}
		}
	}
	for _, s := range r.subs {
		if s.sub == nil {
			continue
		}
		if !s.readerStarted {
			s.startReader()
		}
		if s.CancelCall == 0 {
			close(s.stop)
		}
		select {
		case <-s.readerDone:
		case <-time.After(watchdog):
			r.inconclusive("feed reader of subscription %d did not finish", s.spec.ID)
		}
	}
}

// runSubs executes a scenario of class "subs".
func runSubs(w *world, sc *Scenario) *run {
	r := newRun(w, sc)
	if sc.Delay.Mode == "jitter" {
		w.jitter = &jitter{d: sc.Delay}
	}
	installHooks(w)
	var cwg, wwg sync.WaitGroup
	// subscriptions with SubAt == 0 are in place before the first write is called
	for _, s := range r.subs {
		if s.spec.SubAt == 0 {
			if s.subscribe(r) && !s.spec.DrainAtEnd {
				s.startReader()
			}
		}
	}
	for _, s := range r.subs {
		s := s
		cwg.Add(1)
		if s.spec.SubAt == 0 {
			go func() {
				defer cwg.Done()
				if s.sub != nil && s.spec.CancelAt >= 0 {
					r.waitProgress(s.spec.CancelAt)
					s.cancel()
					if s.spec.DoubleCancel {
						s.cancelAgain()
					}
				}
			}()
		} else {
			go r.subControl(s, &cwg)
		}
	}
	for _, wr := range r.writers {
		wr := wr
		wwg.Add(1)
		go func() {
			defer wwg.Done()
			for i := range wr.spec.Ops {
				wr.do(r, &wr.spec.Ops[i])
			}
		}()
	}
	wwg.Wait()
	r.gate.finish()
	cwg.Wait()
	r.finishSubs()
	return r
}

// ---------------------------------------------------------------------------------
// oracle

type cand struct {
	op     *opRec
	status int // 0 optional, 1 mandatory, 2 forbidden-after-cancel, 3 forbidden-before-subscribe
	side   int // for optional: 0 overlaps subscribe, 1 overlaps cancel, 2 panicked op
}

const (
	stOptional = iota
	stMandatory
	stAfterCancel
	stBeforeSub
)

type groupKey struct {
	w     int
	key   string
	token string
}

func (s *subRun) shareClass(r *run) string {
	if r.sc.Class == "firstuse" {
		return "concurrent-first-use"
	}
	for _, o := range r.subs {
		if o != s && o.q == s.q {
			return "shared-query"
		}
	}
	return "own-query"
}

func (r *run) anyShared() string {
	if r.sc.Class == "firstuse" {
		return "concurrent-first-use"
	}
	for _, s := range r.subs {
		if s.shareClass(r) == "shared-query" {
			return "shared-query"
		}
	}
	return "own-query"
}

func tokenWriter(tok string) int {
	var w, n int
	if _, err := fmt.Sscanf(tok, "w%d-%d", &w, &n); err != nil {
		return -1
	}
	return w
}

// matchReason says whether a record with the op's attributes is to be delivered to
// the subscription ("" = yes) or why not.
func (s *subRun) matchReason(op *opRec) string {
	switch {
	case !strings.HasPrefix(op.Key, s.spec.Prefix):
		return "prefix"
	case op.NoAcc && s.spec.Cond != nil:
		if (op.Crown && !s.spec.Local) || (op.Secret && !s.spec.Internal) {
			return "privilege"
		}
		return "noaccessor"
	case !s.spec.Cond.eval(op.Score, op.Tag):
		return "condition"
	case (op.Crown && !s.spec.Local) || (op.Secret && !s.spec.Internal):
		return "privilege"
	}
	return ""
}

func (r *run) witness(s *subRun, extra map[string]any) map[string]any {
	d := map[string]any{"scenario": r.sc, "db": r.w.db}
	if s != nil {
		feed := s.feed
		if len(feed) > 400 {
			feed = feed[:400]
		}
		d["subscription"] = map[string]any{"spec": s.spec, "query": s.q.Print(), "subscribe_call": s.SubCall, "subscribe_ret": s.SubRet,
			"cancel_call": s.CancelCall, "cancel_ret": s.CancelRet, "cancel2_call": s.Cancel2Call, "cancel2_ret": s.Cancel2Ret,
			"cancel_err": s.CancelErr, "cancel_panic": s.CancelPanic + s.Cancel2Panic, "feed_closed_seen": s.closedSeen,
			"feed_open_after_cancel": s.openAfterCancel, "feed_len": len(s.feed), "feed": feed, "share_class": s.shareClass(r)}
		var others []map[string]any
		for _, o := range r.subs {
			if o != s {
				others = append(others, map[string]any{"id": o.spec.ID, "same_query_object": o.q == s.q, "subscribe_ret": o.SubRet,
					"cancel_call": o.CancelCall, "cancel_ret": o.CancelRet, "feed_len": len(o.feed)})
			}
		}
		d["other_subscriptions"] = others
	}
	if r.w.parks != nil {
		d["interleaving"] = r.w.parks.signature()
	}
	for k, v := range extra {
		d[k] = v
	}
	return d
}

// judge decides the subscription clauses of C14 on what was recorded.
func (r *run) judge(b *vlib.Batch) {
	sc := r.sc
	for _, m := range r.inconcl {
		b.Inconclusive("scenario %d (%s): %s", sc.ID, sc.Class, m)
	}
	if len(r.inconcl) > 0 {
		return
	}
	// --- writers: panics, bookkeeping
	byWriter := map[int]*writerRun{}
	shared := r.anyShared()
	var nOK, nFail int
	for _, wr := range r.writers {
		byWriter[wr.spec.ID] = wr
		for _, op := range wr.ops {
			b.Count("op_"+op.Kind, 1)
			if op.Panic != "" {
				b.Violation("C14:panic:"+panicClass(op.Panic)+":"+op.Kind+":"+shared,
					fmt.Sprintf("%s of a record panicked inside portbase: %s", op.Kind, op.Panic),
					r.witness(nil, map[string]any{"op": op, "subscriptions": r.subSummaries()}))
				continue
			}
			if op.OK {
				nOK++
				if !op.Model {
					b.Note("scenario %d: successful %s on key %s without model state (backend %s)", sc.ID, op.Kind, op.Key, sc.Backend)
				}
			} else {
				nFail++
				b.Count("write_failed_"+op.Kind, 1)
			}
		}
	}
	b.Count("writes_ok", int64(nOK))
	b.Count("writes_failed", int64(nFail))

	// --- per subscription
	for _, s := range r.subs {
		share := s.shareClass(r)
		if s.sub == nil {
			if s.SubErr != "" {
				b.Violation("C14:subscribe-failed:"+share, "Subscribe with a valid query failed: "+s.SubErr, r.witness(s, nil))
			}
			continue
		}
		b.Count("subscriptions", 1)
		b.Seen("sub_privilege", fmt.Sprintf("local=%v,internal=%v", s.spec.Local, s.spec.Internal))
		b.Max("max_feed_backlog", int64(s.maxBacklog))
		if s.spec.DrainAtEnd {
			b.Max("max_feed_backlog", int64(len(s.feed)))
		}
		// cancel observations
		if s.CancelCall != 0 {
			b.Count("cancels", 1)
			overl := false
			for _, wr := range r.writers {
				for _, op := range wr.ops {
					if op.Call < s.CancelRet && op.Ret > s.CancelCall {
						overl = true
					}
				}
			}
			if overl {
				b.Count("cancels_overlapping_writer", 1)
			}
			if s.CancelPanic != "" || s.Cancel2Panic != "" {
				which := "cancel"
				p := s.CancelPanic
				if p == "" {
					which, p = "second-cancel", s.Cancel2Panic
				}
				b.Violation("C14:panic:"+panicClass(p)+":"+which+":"+share, "Subscription.Cancel panicked: "+p,
					r.witness(s, map[string]any{"stack": s.CancelStack}))
			}
			if s.CancelErr != "" {
				b.Violation("C14:cancel-error:"+share, "Subscription.Cancel returned an error: "+s.CancelErr, r.witness(s, nil))
			}
			if s.CancelPanic == "" && s.CancelErr == "" && !s.closedSeen {
				b.Violation("C14:feed-open-after-cancel:"+share,
					"Cancel returned but the feed is not closed (a non-blocking receive found it open and empty)", r.witness(s, nil))
			}
			if s.closedSeen {
				b.Count("feeds_closed_observed", 1)
			}
		} else if s.closedSeen {
			b.Violation("C14:feed-closed-while-active:"+share, "the feed of a subscription that was never cancelled is closed", r.witness(s, nil))
		}

		// candidates per (writer,key,token)
		groups := map[groupKey][]*cand{}
		for _, wr := range r.writers {
			for _, op := range wr.ops {
				if !op.Model || (!op.OK && op.Panic == "") {
					continue
				}
				reason := s.matchReason(op)
				if reason != "" && reason != "noaccessor" {
					if op.OK {
						b.Count("nondelivery_expected_"+reason, 1)
					}
					continue
				}
				c := &cand{op: op}
				switch {
				case reason == "noaccessor":
					// a condition cannot be evaluated on a record without accessor: the
					// statement does not say which way this goes (the code does not
					// deliver); neither demanded nor forbidden
					c.status, c.side = stOptional, 2
					b.Count("condition_not_evaluable_no_accessor", 1)
				case op.Panic != "":
					c.status, c.side = stOptional, 2
				case op.Ret < s.SubCall:
					c.status = stBeforeSub
				case s.CancelRet != 0 && s.CancelPanic == "" && op.Call > s.CancelRet:
					c.status = stAfterCancel
				case op.Call < s.SubRet:
					c.status, c.side = stOptional, 0
				case s.CancelCall != 0 && op.Ret > s.CancelCall:
					c.status, c.side = stOptional, 1
				default:
					c.status = stMandatory
				}
				g := groupKey{op.W, op.Key, op.Token}
				groups[g] = append(groups[g], c)
			}
		}
		occ := map[groupKey][]int{}
		var gorder []groupKey
		for i, el := range s.feed {
			g := groupKey{tokenWriter(el.Token), el.Key, el.Token}
			if _, ok := occ[g]; !ok {
				gorder = append(gorder, g)
			}
			occ[g] = append(occ[g], i)
		}
		b.Count("deliveries", int64(len(s.feed)))

		type bound struct{ lo, hi uint64 }
		mapped := make([]*bound, len(s.feed))
		mappedOp := make([]*opRec, len(s.feed))

		for _, g := range gorder {
			idxs := occ[g]
			cands := groups[g]
			tainted := false
			if wr := byWriter[g.w]; wr != nil && wr.tainted[g.key+"|"+g.token] {
				tainted = true
				b.Count("deliveries_unattributable_after_panic", int64(len(idxs)))
			}
			if tainted && len(cands) == 0 {
				continue
			}
			if len(cands) == 0 {
				// which write is this?
				reason, kind := "unknown-record", "none"
				if wr := byWriter[g.w]; wr != nil {
					for _, op := range wr.ops {
						if op.Model && op.Key == g.key && op.Token == g.token {
							kind = op.Kind
							if !op.OK {
								reason = "failed-write"
							} else {
								reason = s.matchReason(op)
							}
							if op.OK {
								break
							}
						}
					}
				}
				b.Violation("C14:delivered-nonmatching:"+reason+":"+kind+":"+share,
					fmt.Sprintf("the feed delivered record %s (token %s) which must not be delivered to this subscription (%s)", g.key, g.token, reason),
					r.witness(s, map[string]any{"feed_index": idxs[0], "record_key": g.key, "record_token": g.token}))
				continue
			}
			var nonforb, forb []*cand
			mand := 0
			for _, c := range cands {
				switch c.status {
				case stAfterCancel, stBeforeSub:
					forb = append(forb, c)
				case stMandatory:
					mand++
					nonforb = append(nonforb, c)
				default:
					nonforb = append(nonforb, c)
				}
			}
			k := len(idxs)
			if k > len(nonforb) && tainted {
				k = len(nonforb)
			}
			if k > len(nonforb) {
				if k <= len(cands) {
					f := forb[0]
					what := "delivered-after-cancel"
					if f.status == stBeforeSub {
						what = "delivered-before-subscribe"
					}
					b.Violation("C14:"+what+":"+f.op.Kind+":"+share,
						fmt.Sprintf("record %s (token %s) was delivered %d time(s) but only %d write(s) of it happened while the subscription could receive it (%s)", g.key, g.token, k, len(nonforb), what),
						r.witness(s, map[string]any{"feed_indices": idxs, "writes": candOps(cands)}))
				} else {
					b.Violation("C14:duplicate:"+cands[len(cands)-1].op.Kind+":"+share,
						fmt.Sprintf("record %s (token %s) was delivered %d times for %d write(s)", g.key, g.token, k, len(cands)),
						r.witness(s, map[string]any{"feed_indices": idxs, "writes": candOps(cands)}))
				}
				k = len(nonforb)
			}
			if k < mand {
				// reported below as missing
				continue
			}
			// choose which writes the k deliveries stem from: every mandatory one and the
			// optional ones closest to the active period
			chosen := map[*cand]bool{}
			need := k - mand
			for _, c := range nonforb {
				if c.status == stMandatory {
					chosen[c] = true
				}
			}
			for i := 0; i < len(nonforb) && need > 0; i++ { // cancel side: earliest first
				if c := nonforb[i]; c.status == stOptional && c.side == 1 {
					chosen[c] = true
					need--
				}
			}
			for i := len(nonforb) - 1; i >= 0 && need > 0; i-- { // subscribe side: latest first
				if c := nonforb[i]; c.status == stOptional && !chosen[c] {
					chosen[c] = true
					need--
				}
			}
			ambiguous := k < len(nonforb)
			var glo, ghi uint64
			for i, c := range nonforb {
				if i == 0 || c.op.Call < glo {
					glo = c.op.Call
				}
				if c.op.Ret > ghi {
					ghi = c.op.Ret
				}
			}
			j := 0
			for _, c := range nonforb {
				if !chosen[c] || j >= k {
					continue
				}
				bd := &bound{c.op.Call, c.op.Ret}
				if ambiguous {
					bd = &bound{glo, ghi}
				}
				mapped[idxs[j]] = bd
				mappedOp[idxs[j]] = c.op
				j++
			}
		}
		// missing deliveries
		var gkeys []groupKey
		for g := range groups {
			gkeys = append(gkeys, g)
		}
		sort.Slice(gkeys, func(i, j int) bool {
			a, c := groups[gkeys[i]][0].op, groups[gkeys[j]][0].op
			return a.Call < c.Call
		})
		for _, g := range gkeys {
			cands := groups[g]
			mand := 0
			var firstMand *opRec
			for _, c := range cands {
				if c.status == stMandatory {
					// assuming in-order delivery the first len(occ) mandatory writes are
					// the delivered ones: name the first one beyond them
					if mand == len(occ[g]) || firstMand == nil {
						firstMand = c.op
					}
					mand++
				}
			}
			b.Count("mandatory_deliveries", int64(mand))
			if len(occ[g]) < mand {
				b.Violation("C14:missing:"+firstMand.Kind+":"+share,
					fmt.Sprintf("%d successful matching write(s) of record %s (token %s) happened while the subscription was active, but the feed delivered it %d time(s)", mand, g.key, g.token, len(occ[g])),
					r.witness(s, map[string]any{"writes": candOps(cands), "feed_indices": occ[g]}))
			}
		}
		// order: two writes that do not overlap in time appear in their order
		var minHi uint64
		minAt := -1
		for i := len(s.feed) - 1; i >= 0; i-- {
			if mapped[i] == nil {
				continue
			}
			if minAt >= 0 && minHi < mapped[i].lo {
				a, c := mappedOp[i], mappedOp[minAt]
				cls := "cross-writer"
				if a.W == c.W {
					cls = "same-writer"
				}
				b.Violation("C14:order:"+cls+":"+share,
					fmt.Sprintf("write %s/%s returned (seq %d) before write %s/%s was called (seq %d), but the feed delivered them in the opposite order (positions %d and %d)",
						c.Key, c.Token, c.Ret, a.Key, a.Token, a.Call, minAt, i),
					r.witness(s, map[string]any{"earlier_write": c, "later_write": a, "feed_positions": []int{i, minAt}}))
				break
			}
			if minAt < 0 || mapped[i].hi < minHi {
				minHi, minAt = mapped[i].hi, i
			}
		}
	}
}

func candOps(cs []*cand) []map[string]any {
	var out []map[string]any
	names := []string{"optional(overlaps subscribe/cancel)", "mandatory", "forbidden(after cancel returned)", "forbidden(before subscribe)"}
	for _, c := range cs {
		out = append(out, map[string]any{"op": c.op, "status": names[c.status]})
	}
	return out
}

func (r *run) subSummaries() []map[string]any {
	var out []map[string]any
	for _, s := range r.subs {
		out = append(out, map[string]any{"id": s.spec.ID, "prefix": s.spec.Prefix, "share_with": s.spec.ShareWith, "subscribe_ret": s.SubRet,
			"cancel_call": s.CancelCall, "cancel_ret": s.CancelRet, "cancel2_ret": s.Cancel2Ret, "feed_len": len(s.feed), "share_class": s.shareClass(r)})
	}
	return out
}

// signature of a scenario for the distinct-case count
func (r *run) structSig() string {
	var sb strings.Builder
	sc := r.sc
	fmt.Fprintf(&sb, "%s/%s/%v/%s/w%d", sc.Class, sc.Backend, sc.Shadow, sc.Delay.Mode, len(sc.Writers))
	for _, s := range r.subs {
		fmt.Fprintf(&sb, "|%s;%s;%v%v;%d;%d;%d;%v", s.spec.Prefix, s.spec.Cond.String(), s.spec.Local, s.spec.Internal, s.spec.ShareWith,
			sign(s.spec.SubAt), sign(s.spec.CancelAt), s.spec.DrainAtEnd)
	}
	for _, wr := range r.writers {
		fmt.Fprintf(&sb, "|%v%v%v%v%d:%d", wr.spec.Iface.Local, wr.spec.Iface.Internal, wr.spec.Iface.Secret, wr.spec.Iface.Crown, wr.spec.Iface.Cache, len(wr.spec.Ops))
	}
	if sc.Plan != nil {
		fmt.Fprintf(&sb, "|%+v", *sc.Plan)
	}
	return sb.String()
}

func sign(x int) int {
	switch {
	case x > 0:
		return 1
	case x < 0:
		return x
	}
	return 0
}
