// h_c14 — engine for property C14: subscriptions deliver every matching write in
// order; hooks fire as registered.
//
// Parent mode: derives the scenario list (classes subs, pair, shared, hooks) from
// VERIF_SEED, runs batches of scenarios in child processes of the plain and the -race
// build, merges what the children observed, applies the race-report scope filter and
// turns dead children into witnesses.
// Child mode: initialises the portbase database system on a scratch directory, runs
// each scenario of its batch against fresh databases (hashmap, bbolt, an injected
// runtime.Registry), records the events at the harness/portbase boundary and decides
// them with the oracles in subs.go / hooks.go.
package main

import (
	"encoding/json"
	"fmt"
	"os"
	"path/filepath"
	"strings"
	"time"

	"github.com/safing/portbase/modules"

	"verifharness/internal/vlib"
)

type batchSpec struct {
	Kind      string     `json:"kind"` // plain | race
	Scenarios []Scenario `json:"scenarios"`
	Repeat    int        `json:"repeat,omitempty"` // replay: run every scenario this often
}

const rule = "a case is one history: class subs = 1-4 concurrent writers (Put/PutNew/Delete/MakeSecret/MakeCrownJewel/InsertValue/SetAbsoluteExpiry through interfaces " +
	"with every option combination, PushUpdate of an injected runtime.Registry database) on keys inside and outside the subscribed prefixes against 1-6 subscriptions " +
	"(prefix x condition x privilege, subscribe/cancel/double-cancel during the history, live or buffered feeds, shared *query.Query objects) on hashmap, bbolt " +
	"(with and without shadow delete) and injected backends, with idle or PRNG-jittered yield points; class pair = one of five forced interleavings at " +
	"db.put.prenotify / db.sub.cancel; class burst = rounds of 2-8 barrier-released concurrent Subscribe calls and 2-8 concurrent Cancels of different subscriptions " +
	"(parked at db.sub.cancel, released together) on one database with writes in between; class shared = two subscriptions created from one query object; class hooks = 1-3 workers Get/Put/Delete against 1-4 hooks " +
	"(phase set x query x veto x replacement, register/cancel during the history). distinct = structural signature of the scenario (plus the observed " +
	"interleaving signature for pair); non-trivial = at least one delivery or hook call was both demanded and observed"

func scenarioList(cfg vlib.Cfg) []Scenario {
	var out []Scenario
	id := 0
	add := func(n int, label string, gen func(*vlib.Rand, int) Scenario) {
		for i := 0; i < n; i++ {
			rng := vlib.NewRand(cfg.Seed, "C14/"+label, uint64(i))
			out = append(out, gen(rng, id))
			id++
		}
	}
	add(cfg.N(400, 4000), "subs", genSubs)
	add(cfg.N(300, 3000), "pair", genPair)
	add(cfg.N(32, 200), "shared", genShared)
	add(cfg.N(120, 1200), "burst", genBurst)
	add(cfg.N(40, 400), "firstuse", genFirstUse)
	add(cfg.N(40, 400), "inburst", genInBurst)
	add(cfg.N(6, 40), "cfgdb", genCfgDB)
	add(cfg.N(200, 2400), "hooks", genHooks)
	return out
}

func batchSize(class string) int {
	switch class {
	case "subs":
		return 4
	case "pair":
		return 28
	case "shared":
		return 12
	case "burst", "firstuse", "inburst":
		return 10
	case "cfgdb":
		return 1 // the module system is started once per process
	}
	return 7
}

// in-scope functions of the race filter: the state the property's mechanism is made
// of (Controller.subscriptions, Controller.hooks, Subscription.Feed close/send).
var raceScope = []string{"notifySubscribers", "addSubscription", "Subscription).Cancel", "RegisteredHook).Cancel", "RegisterHook",
	"runPreGetHooks", "runPostGetHooks", "runPrePutHooks", "Interface).Subscribe", "PushUpdate",
	// the query object a subscription/hook was created from is shared by all writers
	// (evaluated under read locks only)
	"portbase/database/query."}

func main() {
	if dir, ok := vlib.IsChild(); ok {
		childMain(dir)
		return
	}
	cfg := vlib.Load()
	rep := vlib.NewReport(cfg)
	rep.Rule(rule)

	var scs []Scenario
	repeat := 0
	if cfg.Replay != "" {
		var doc struct {
			Detail struct {
				Scenario *Scenario `json:"scenario"`
			} `json:"detail"`
		}
		b, err := os.ReadFile(cfg.Replay)
		if err == nil {
			err = json.Unmarshal(b, &doc)
		}
		if err != nil || doc.Detail.Scenario == nil {
			fmt.Println("h_c14: replay file holds no scenario:", err)
			rep.Inconclusive("replay file %s holds no scenario", cfg.Replay)
			_ = rep.Finish()
			return
		}
		scs = []Scenario{*doc.Detail.Scenario}
		repeat = 25
	} else {
		scs = scenarioList(cfg)
	}

	// batches
	var specs []vlib.ChildSpec
	var bspecs []batchSpec
	nb := 0
	for i := 0; i < len(scs); {
		j := i
		for j < len(scs) && scs[j].Class == scs[i].Class && j-i < batchSize(scs[i].Class) {
			j++
		}
		bs := batchSpec{Kind: "plain", Scenarios: scs[i:j], Repeat: repeat}
		specs = append(specs, vlib.ChildSpec{Name: fmt.Sprintf("plain-%03d-%s", nb, scs[i].Class), Bin: cfg.BinPlain, Spec: bs, Timeout: 5 * time.Minute})
		bspecs = append(bspecs, bs)
		// the race build repeats every second batch in the quick tier, all in thorough
		if cfg.BinRace != "" && (cfg.Thorough() || nb%2 == 0 || cfg.Replay != "") {
			rs := bs
			rs.Kind = "race"
			specs = append(specs, vlib.ChildSpec{Name: fmt.Sprintf("race-%03d-%s", nb, scs[i].Class), Bin: cfg.BinRace, Spec: rs, Timeout: 10 * time.Minute, Race: true})
			bspecs = append(bspecs, rs)
		}
		nb++
		i = j
	}

	vlib.RunChildren(cfg, specs, func(i int, c *vlib.ChildResult) {
		bs := bspecs[i]
		rep.Seen("builds_run", bs.Kind)
		if bs.Kind == "plain" {
			rep.MergeChild(c)
		} else {
			// same scenario list as a plain batch (other schedules): executions count,
			// the distinct-case set does not grow
			if b := rep.MergeChildNoDistinct(c); b != nil {
				rep.Count("race_build_scenarios", int64(b.Evals))
			}
		}
		for _, rr := range c.Races {
			switch {
			case rr.HarnessOnly():
				rep.Note("race report in harness-only frames: %s", firstLines(rr.Text, 12))
				rep.Count("race_reports_harness_only", 1)
			case rr.InScope(raceScope...):
				rep.Count("race_reports_in_scope", 1)
				rep.Violation("C14:race:"+rr.Signature(), "data race on the subscription/hook state of a Controller", map[string]any{"report": rr.Text, "batch": c.Name})
			default:
				rep.Count("race_diagnostics", 1)
				rep.Seen("race_diagnostic_signatures", rr.Signature())
			}
		}
		if c.TimedOut {
			rep.Inconclusive("batch %s hit the watchdog (%s); current scenario: %s; stderr tail: %s", c.Name, specs[i].Timeout, progressOf(c.Dir), c.StderrTail(1200))
			return
		}
		if !c.Done {
			tail := c.StderrTail(3000)
			// the reason of a runtime abort is the first line of stderr, the tail is
			// the end of the goroutine dump
			head := ""
			if hb, err := os.ReadFile(filepath.Join(c.Dir, "stderr")); err == nil {
				if len(hb) > 4000 {
					hb = hb[:4000]
				}
				head = string(hb)
			}
			site := fatalSite(head)
			if site == "unknown" {
				site = fatalSite(tail)
			}
			cur := progressOf(c.Dir)
			var sc *Scenario
			for k := range bs.Scenarios {
				if fmt.Sprint(bs.Scenarios[k].ID) == cur {
					sc = &bs.Scenarios[k]
				}
			}
			share := "own-query"
			if sc != nil && scenarioShares(sc) {
				share = "shared-query"
			}
			rep.Violation("C14:child-died:"+site+":"+share, fmt.Sprintf("child %s died (exit=%d signal=%q) while running scenario %s", c.Name, c.Exit, c.Signal, cur),
				map[string]any{"scenario": sc, "stderr_head": head, "stderr_tail": tail, "build": bs.Kind})
		}
	})

	if cfg.Replay == "" {
		floor := func(key string, q, t int64) {
			want := q
			if cfg.Thorough() {
				want = t
			}
			rep.Floor(rep.Counter(key) >= want, "%s=%d (< %d)", key, rep.Counter(key), want)
		}
		floor("deliveries", 10000, 100000)
		floor("mandatory_deliveries", 8000, 80000)
		floor("cancels_overlapping_writer", 100, 800)
		floor("pair_plans_completed", 150, 1000)
		floor("hook_park_rounds", 50, 500)
		floor("burst_concurrent_cancel_rounds", 300, 3000)
		floor("burst_concurrent_subscribe_rounds", 200, 2000)
		floor("hook_calls_mandatory", 2000, 20000)
		floor("vetoed_ops", 50, 500)
		floor("replacements_postget", 10, 100)
		floor("replacements_preput", 10, 100)
	}
	rep.Assume("a write is 'successful' iff the interface call returned nil; the record a re-put (Delete, MakeSecret, InsertValue, ...) delivers is the one the same writer last put on that key (writers own their keys and use one interface each)")
	rep.Assume("Interface.PutMany and interfaces with DelayCachedWrites are documented to bypass subscriptions and are not part of the workload")
	rep.Assume("the reference condition evaluator covers int comparisons on Score and SameAs/StartsWith/Contains on Tag combined with and/or/not")
	if err := rep.Finish(); err != nil {
		fmt.Println("h_c14: cannot write result:", err)
		os.Exit(2)
	}
}

func scenarioShares(sc *Scenario) bool {
	for _, s := range sc.Subs {
		if s.ShareWith >= 0 {
			return true
		}
	}
	for _, h := range sc.Hooks {
		if h.ShareWith >= 0 {
			return true
		}
	}
	return false
}

func firstLines(s string, n int) string {
	ls := strings.Split(s, "\n")
	if len(ls) > n {
		ls = ls[:n]
	}
	return strings.Join(ls, " | ")
}

func progressOf(dir string) string {
	b, err := os.ReadFile(filepath.Join(dir, "progress"))
	if err != nil {
		return "?"
	}
	return strings.TrimSpace(string(b))
}

func fatalSite(tail string) string {
	for _, ln := range strings.Split(tail, "\n") {
		if strings.HasPrefix(ln, "fatal error:") || strings.HasPrefix(ln, "panic:") {
			s := strings.TrimSpace(ln)
			s = strings.NewReplacer(" ", "-", ":", "").Replace(s)
			if len(s) > 60 {
				s = s[:60]
			}
			return s
		}
	}
	return "unknown"
}

// ---------------------------------------------------------------------------------
// child

func childMain(dir string) {
	var bs batchSpec
	if err := vlib.ChildSpecInto(dir, &bs); err != nil {
		fmt.Println("bad spec:", err)
		os.Exit(3)
	}
	b := vlib.NewBatch()
	if len(bs.Scenarios) > 0 && bs.Scenarios[0].Class == "cfgdb" {
		// the database system is initialised by the database module
		if err := startModulesForConfig(dir); err != nil {
			b.Inconclusive("cfgdb: cannot start the module system: %v", err)
			b.Finish(dir)
			return
		}
		n := bs.Repeat
		if n < 1 {
			n = 1
		}
		for ; n > 0; n-- {
			for i := range bs.Scenarios {
				_ = os.WriteFile(filepath.Join(dir, "progress"), []byte(fmt.Sprint(bs.Scenarios[i].ID)), 0o644)
				runCfgDB(b, &bs.Scenarios[i])
			}
		}
		_ = modules.Shutdown()
		b.Finish(dir)
		return
	}
	if err := initDatabaseSystem(filepath.Join(dir, "dbroot")); err != nil {
		fmt.Println("cannot initialise database system:", err)
		os.Exit(3)
	}
	rounds := bs.Repeat
	if rounds < 1 {
		rounds = 1
	}
	for round := 0; round < rounds; round++ {
		for i := range bs.Scenarios {
			sc := &bs.Scenarios[i]
			_ = os.WriteFile(filepath.Join(dir, "progress"), []byte(fmt.Sprint(sc.ID)), 0o644)
			runScenario(b, sc)
		}
	}
	b.Finish(dir)
}

func runScenario(b *vlib.Batch, sc *Scenario) {
	w, err := newWorld(sc)
	if err != nil {
		b.Inconclusive("scenario %d: cannot set up databases: %v", sc.ID, err)
		return
	}
	b.Eval(1)
	b.Seen("backends", fmt.Sprintf("%s/shadow=%v", sc.Backend, sc.Shadow))
	b.Count("scenarios_"+sc.Class, 1)
	nv := b.NViolations()
	switch sc.Class {
	case "subs":
		r := runSubs(w, sc)
		r.judge(b)
		b.Seen("delay_modes", sc.Delay.Mode)
		if w.jitter != nil {
			b.Count("yield_point_hits", int64(w.jitter.hits.Load()))
		}
		finishSubCase(b, r, nv)
	case "pair", "shared":
		r := runPlan(w, sc)
		r.judge(b)
		if sc.Class == "pair" && r.bypassed {
			b.Count("pair_plans_yield_point_bypassed", 1)
		}
		if sc.Class == "pair" && len(r.inconcl) == 0 && !r.bypassed {
			b.Count("pair_plans_completed", 1)
			b.Seen("pair_templates", sc.Plan.Template+"/"+sc.Plan.ParkedOp)
			b.Seen("interleavings", w.parks.signature())
		}
		finishSubCase(b, r, nv)
	case "inburst":
		r := runInBurst(w, sc)
		r.judge(b)
		b.Count("inburst_rounds", int64(len(sc.Burst.Rounds)))
		b.Max("inburst_max_writers", int64(len(sc.Writers)))
		finishSubCase(b, r, nv)
	case "burst", "firstuse":
		r := runBurst(w, sc)
		r.judge(b)
		if len(r.inconcl) == 0 {
			b.Count("burst_scenarios_completed", 1)
			for _, rd := range sc.Burst.Rounds {
				b.Count("burst_rounds", 1)
				if len(rd.Cancel) >= 2 {
					b.Count("burst_concurrent_cancel_rounds", 1)
					b.Max("burst_max_concurrent_cancels", int64(len(rd.Cancel)))
				}
				if len(rd.Subscribe) >= 2 {
					b.Count("burst_concurrent_subscribe_rounds", 1)
					b.Max("burst_max_concurrent_subscribes", int64(len(rd.Subscribe)))
				}
			}
		}
		finishSubCase(b, r, nv)
	case "hooks":
		hr := runHooks(w, sc)
		hr.judge(b)
		b.Count("hook_park_rounds", int64(hr.parkRounds))
		b.Count("hook_cancel_completed_while_operation_parked", int64(hr.cancelWhileParked))
		if len(hr.calls) > 0 {
			b.DistinctS(hr.structSig())
		}
		if b.NViolations() == nv {
			var ops []*hopRec
			if len(hr.workers) > 0 {
				ops = hr.workers[0].ops
				if len(ops) > 12 {
					ops = ops[:12]
				}
			}
			calls := hr.calls
			if len(calls) > 20 {
				calls = calls[:20]
			}
			if len(calls) > 0 {
				b.Sample(map[string]any{"class": "hooks", "backend": sc.Backend, "hooks": sc.Hooks, "first_ops_of_worker_0": ops, "first_hook_calls": calls})
			}
		}
	default:
		b.Inconclusive("scenario %d: unknown class %q", sc.ID, sc.Class)
	}
}

func finishSubCase(b *vlib.Batch, r *run, nvBefore int) {
	deliveries := 0
	for _, s := range r.subs {
		deliveries += len(s.feed)
	}
	if deliveries > 0 {
		sig := r.structSig()
		if r.w.parks != nil {
			sig += "#" + r.w.parks.signature()
		}
		b.DistinctS(sig)
	}
	if b.NViolations() == nvBefore && deliveries > 0 && (r.sc.Class != "subs" || len(r.sc.Writers) <= 2) {
		var subs []map[string]any
		for _, s := range r.subs {
			feed := s.feed
			if len(feed) > 8 {
				feed = feed[:8]
			}
			subs = append(subs, map[string]any{"spec": s.spec, "subscribe_ret": s.SubRet, "cancel_call": s.CancelCall, "cancel_ret": s.CancelRet,
				"feed_len": len(s.feed), "feed_head": feed, "closed_seen": s.closedSeen})
		}
		var ops []*opRec
		if len(r.writers) > 0 {
			ops = r.writers[0].ops
			if len(ops) > 8 {
				ops = ops[:8]
			}
		}
		smp := map[string]any{"class": r.sc.Class, "backend": r.sc.Backend, "plan": r.sc.Plan, "subscriptions": subs, "first_ops_of_writer_0": ops}
		if r.w.parks != nil {
			smp["interleaving"] = r.w.parks.signature()
		}
		b.Sample(smp)
	}
}
