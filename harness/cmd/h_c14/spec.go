package main

import (
	"fmt"
	"regexp"
	"strings"

	"github.com/safing/portbase/database/query"
)

// ---------------------------------------------------------------------------------
// Scenario specification. A scenario is fully described by this JSON-serialisable
// value: it is what the parent generates from the PRNG, what the child executes and
// what a witness / replay file stores.

// Scenario is one history executed in a fresh set of databases inside a child.
type Scenario struct {
	ID      int    `json:"id"`
	Class   string `json:"class"`   // subs | pair | shared | hooks
	Backend string `json:"backend"` // hashmap | bbolt | injected (runtime.Registry) | injmap (InjectDatabase of a map storage that supports Delete)
	Shadow  bool   `json:"shadow"`  // ShadowDelete of the database (not for injected)
	Delay   Delay  `json:"delay"`   // yield-hook amplifier
	// InjectLate (backend injected): the value providers are registered first and the
	// registry is injected as database afterwards (the order modules use: providers
	// are registered in prep, the runtime module injects in start); pushes go through
	// the PushFunc obtained before the injection.
	InjectLate bool `json:"inject_late,omitempty"`

	Writers []WriterSpec `json:"writers,omitempty"`
	Subs    []SubSpec    `json:"subs,omitempty"`
	Hooks   []HookSpec   `json:"hooks,omitempty"`

	// class pair / shared: a fixed template with parameters
	Plan *PlanSpec `json:"plan,omitempty"`
	// class burst: barrier-released concurrent Subscribe / Cancel rounds
	Burst *BurstSpec `json:"burst,omitempty"`
	// class cfgdb: script against the real config module's injected database
	Cfg []CfgOp `json:"cfg,omitempty"`
	// Reentrant (backend injmap): the injected storage pushes an update of a companion
	// record from inside its own Put (a provider that calls PushUpdate re-entrantly)
	Reentrant bool `json:"reentrant,omitempty"`
}

// Delay configures the handlers installed at db.put.prenotify / db.sub.cancel.
type Delay struct {
	Mode string `json:"mode"` // idle | jitter
	Seed uint64 `json:"seed"`
	Prob int    `json:"prob"` // per cent of hook hits that are delayed
	MaxU int    `json:"max_us"`
}

// IfaceSpec are the database.Options of the interface a writer uses.
type IfaceSpec struct {
	Local    bool  `json:"local"`
	Internal bool  `json:"internal"`
	Secret   bool  `json:"always_secret"`
	Crown    bool  `json:"always_crown"`
	Cache    int   `json:"cache"`
	AbsExp   int64 `json:"always_abs_expiry,omitempty"` // AlwaysSetAbsoluteExpiry = now + AbsExp
	RelExp   int64 `json:"always_rel_expiry,omitempty"` // AlwaysSetRelativateExpiry
}

// WriterSpec is one writer goroutine: it owns its keys (no other writer touches them).
type WriterSpec struct {
	ID    int       `json:"id"`
	Iface IfaceSpec `json:"iface"`
	Ops   []OpSpec  `json:"ops"`
}

// OpSpec is one operation of a writer (or of a hook-class worker).
type OpSpec struct {
	Kind      string `json:"k"`            // put putnew del secret crown insert expiry push | get
	Dir       string `json:"d"`            // key directory, e.g. "a/b/"
	N         int    `json:"n"`            // key number; the key is <dir>k<writer>-<n>
	Score     int    `json:"s,omitempty"`  // for put/putnew/push
	Tag       string `json:"t,omitempty"`  // for put/putnew/push
	PreSecret bool   `json:"ps,omitempty"` // record flagged secret before the write
	PreCrown  bool   `json:"pc,omitempty"` // record flagged crown jewel before the write
	// putwrap: the written record is a record.Wrapper in this format:
	// json cbor msgpack yaml raw gencode empty (JSON format, no data)
	Format string `json:"fmt,omitempty"`
}

// Cond is the small condition language the reference model can evaluate.
type Cond struct {
	Op   string `json:"op"` // gt lt ge le eq (Score) | tag pre con (Tag) | and or not
	N    int    `json:"n,omitempty"`
	S    string `json:"s,omitempty"`
	Kids []Cond `json:"kids,omitempty"`
}

// SubSpec is one subscription.
type SubSpec struct {
	ID       int    `json:"id"`
	Prefix   string `json:"prefix"`
	Cond     *Cond  `json:"cond,omitempty"`
	Local    bool   `json:"local"`
	Internal bool   `json:"internal"`
	// ShareWith >= 0: created from the *same* *query.Query object as that subscription.
	ShareWith int `json:"share_with"`
	// SubAt / CancelAt: number of completed writer operations after which the control
	// goroutine subscribes / cancels. CancelAt -1: cancel after all writers finished,
	// -2: never cancelled.
	SubAt        int  `json:"sub_at"`
	CancelAt     int  `json:"cancel_at"`
	DoubleCancel bool `json:"double_cancel,omitempty"`
	// DrainAtEnd: nobody reads the feed until the history is over (buffered path).
	DrainAtEnd bool `json:"drain_at_end,omitempty"`
}

// HookSpec is one registered hook.
type HookSpec struct {
	ID      int    `json:"id"`
	Prefix  string `json:"prefix"`
	Cond    *Cond  `json:"cond,omitempty"`
	PreGet  bool   `json:"preget"`
	PostGet bool   `json:"postget"`
	PrePut  bool   `json:"preput"`
	// behaviour: a pure function of the phase and the key number n
	VetoPhase string `json:"veto_phase,omitempty"` // "" preget postget preput
	VetoMod   int    `json:"veto_mod,omitempty"`   // veto when n % VetoMod == VetoRem
	VetoRem   int    `json:"veto_rem,omitempty"`
	ReplPhase string `json:"repl_phase,omitempty"` // "" postget preput
	ReplMod   int    `json:"repl_mod,omitempty"`
	ReplRem   int    `json:"repl_rem,omitempty"`
	// what a replacement looks like (default: same Score/Tag, copy of the meta)
	ReplSetTag    string `json:"repl_set_tag,omitempty"`
	ReplAddScore  int    `json:"repl_add_score,omitempty"`
	ReplFreshMeta bool   `json:"repl_fresh_meta,omitempty"` // new, valid metadata (also replaces deleted/expired records in PostGet)
	ReplSecret    bool   `json:"repl_secret,omitempty"`     // replacement is flagged secret
	ShareWith     int    `json:"share_with"`
	// SameObjAs k > 0: this registration hands RegisterHook the *same Hook value* as
	// hook k-1 (one hook object registered under several queries); phases and
	// behaviour are then those of that object, the query is this entry's own
	SameObjAs    int  `json:"same_obj_as,omitempty"`
	RegAt        int  `json:"reg_at"`
	CancelAt     int  `json:"cancel_at"` // -1 after all workers finished, -2 never
	DoubleCancel bool `json:"double_cancel,omitempty"`
}

// PlanSpec parameterises the fixed templates of the classes pair and shared.
type PlanSpec struct {
	Template string `json:"template"`
	// pair templates:
	//  A cancel completes while a writer is parked before notifying
	//  B writer completes while Cancel is parked before taking the lock
	//  C both parked, canceller released first
	//  D both parked, writer released first
	//  E Subscribe completes while a writer is parked before notifying
	// shared templates (two subscriptions created from one *query.Query):
	//  S1 cancel second, write, cancel first   S2 cancel first, write, cancel second
	//  S3 cancel one twice                     S4 cancel second, write, never cancel first
	ParkedOp   string `json:"parked_op"`   // put del secret
	Warm       int    `json:"warm"`        // writes before the plan starts
	During     int    `json:"during"`      // complete writes of a second writer while parked
	After      int    `json:"after"`       // writes after everything was released
	OtherSubs  int    `json:"other_subs"`  // bystander subscriptions that stay active
	Double     bool   `json:"double"`      // cancel a second time at the end
	MatchOther bool   `json:"match_other"` // parked write also matches the bystanders
	TargetPriv int    `json:"target_priv"` // privilege bits of the target subscription (1 local, 2 internal)
	TargetCond bool   `json:"target_cond"` // target subscription has a condition
	// hooks template HP: Hooks[0] parks inside its own callback (the operation is in
	// the middle of its hook chain) while another hook is cancelled
	HPRounds []HPRound `json:"hp_rounds,omitempty"`
	// hooks template HC: a sequential script over dependent hooks (a replacing hook
	// followed in registration order by hooks whose condition is on the replaced
	// field), with subscriptions that distinguish the input from the stored record
	HCSteps []HCStep `json:"hc_steps,omitempty"`
}

// ---------------------------------------------------------------------------------

func (c *Cond) build() query.Condition {
	switch c.Op {
	case "gt":
		return query.Where("Score", query.GreaterThan, c.N)
	case "lt":
		return query.Where("Score", query.LessThan, c.N)
	case "ge":
		return query.Where("Score", query.GreaterThanOrEqual, c.N)
	case "le":
		return query.Where("Score", query.LessThanOrEqual, c.N)
	case "eq":
		return query.Where("Score", query.Equals, c.N)
	case "tag":
		return query.Where("Tag", query.SameAs, c.S)
	case "pre":
		return query.Where("Tag", query.StartsWith, c.S)
	case "con":
		return query.Where("Tag", query.Contains, c.S)
	case "state":
		return query.Where("State", query.SameAs, "s-"+c.S)
	case "flag":
		return query.Where("Flag", query.Is, c.N != 0)
	case "level":
		return query.Where("Level", query.GreaterThan, c.N)
	case "ratio":
		return query.Where("Ratio", query.FloatGreaterThan, float64(c.N)/4)
	case "in":
		return query.Where("Tag", query.In, c.inList())
	case "re":
		return query.Where("Tag", query.Matches, c.S)
	case "not":
		return query.Not(c.Kids[0].build())
	case "and", "or":
		var ks []query.Condition
		for i := range c.Kids {
			ks = append(ks, c.Kids[i].build())
		}
		if c.Op == "and" {
			return query.And(ks...)
		}
		return query.Or(ks...)
	}
	panic("bad cond op " + c.Op)
}

// eval is the reference evaluation of the condition.
func (c *Cond) eval(score int, tag string) bool {
	if c == nil {
		return true
	}
	switch c.Op {
	case "gt":
		return score > c.N
	case "lt":
		return score < c.N
	case "ge":
		return score >= c.N
	case "le":
		return score <= c.N
	case "eq":
		return score == c.N
	case "tag":
		return tag == c.S
	case "pre":
		return strings.HasPrefix(tag, c.S)
	case "con":
		return strings.Contains(tag, c.S)
	case "state":
		return tag == c.S
	case "flag":
		return (score%2 == 0) == (c.N != 0)
	case "level":
		return score/10 > c.N
	case "ratio":
		return float64(score)/4 > float64(c.N)/4
	case "re":
		// reference: Go regexp, unanchored search unless the expression anchors itself
		return regexp.MustCompile(c.S).MatchString(tag)
	case "in":
		for _, t := range strings.Split(c.S, ",") {
			if t == tag {
				return true
			}
		}
		return false
	case "not":
		return !c.Kids[0].eval(score, tag)
	case "and":
		for i := range c.Kids {
			if !c.Kids[i].eval(score, tag) {
				return false
			}
		}
		return true
	case "or":
		for i := range c.Kids {
			if c.Kids[i].eval(score, tag) {
				return true
			}
		}
		return false
	}
	panic("bad cond op " + c.Op)
}

// inList is the value list of an "in" condition: the tags named in S plus fillers up
// to N entries.
func (c *Cond) inList() []string {
	l := strings.Split(c.S, ",")
	for i := 0; len(l) < c.N; i++ {
		l = append(l, fmt.Sprintf("filler-%d", i))
	}
	return l
}

func (c *Cond) String() string {
	if c == nil {
		return "-"
	}
	switch c.Op {
	case "not", "and", "or":
		var ks []string
		for i := range c.Kids {
			ks = append(ks, c.Kids[i].String())
		}
		return c.Op + "(" + strings.Join(ks, ",") + ")"
	case "in":
		return fmt.Sprintf("in:%s/%d", c.S, c.N)
	case "tag", "pre", "con", "state", "re":
		return c.Op + ":" + c.S
	}
	return fmt.Sprintf("%s:%d", c.Op, c.N)
}

func buildQuery(db, prefix string, c *Cond) *query.Query {
	q := query.New(db + ":" + prefix)
	if c != nil {
		q = q.Where(c.build())
	}
	return q.MustBeValid()
}

func keyOf(writer int, op *OpSpec) string { return fmt.Sprintf("%sk%d-%d", op.Dir, writer, op.N) }

// HPRound is one round of the hooks template HP.
type HPRound struct {
	Phase  string `json:"phase"`  // phase in which Hooks[0] parks: preget postget preput
	Target int    `json:"target"` // hook cancelled while the operation is parked
	N      int    `json:"n"`      // key number of the operation
}

// HCStep is one step of the hooks template HC.
type HCStep struct {
	Kind string  `json:"kind"` // op | cancel | register
	Op   *OpSpec `json:"op,omitempty"`
	Hook int     `json:"hook,omitempty"`
}
