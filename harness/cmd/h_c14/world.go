package main

import (
	"errors"
	"fmt"
	"runtime"
	"runtime/debug"
	"strings"
	"sync"
	"sync/atomic"
	"time"

	"github.com/safing/portbase/database"
	"github.com/safing/portbase/database/record"
	"github.com/safing/portbase/database/storage"
	_ "github.com/safing/portbase/database/storage/bbolt"
	_ "github.com/safing/portbase/database/storage/hashmap"
	"github.com/safing/portbase/formats/dsd"
	pbruntime "github.com/safing/portbase/runtime"
	"github.com/safing/portbase/utils/vhook"
)

// ---------------------------------------------------------------------------------
// logical clock: one process-wide atomic counter; the harness takes a number before
// calling into portbase and after the call returned (client side), and inside the
// callbacks it handed to portbase (feed readers, hooks, vhook handlers).

var clock atomic.Uint64

func tick() uint64 { return clock.Add(1) }

// Rec is the record type of all workloads. Token is unique per write (writer id +
// counter) and never changes after the record was created, so a feed element or a
// hook argument identifies the write it stems from. Note is what InsertValue edits.
type Rec struct {
	record.Base
	sync.Mutex

	Token string
	Score int
	Tag   string
	Note  string

	// fields of named types, derived from Score and Tag (so the reference model needs
	// nothing else): conditions on them go through the accessors' Kind-based getters
	State RState // "s-" + Tag
	Flag  RFlag  // Score is even
	Level RLevel // Score / 10
	Ratio RRatio // Score / 4
}

// Named field types, as application records have them (type State string ...).
type (
	RState string
	RFlag  bool
	RLevel int
	RRatio float64
)

func derive(score int, tag string) (RState, RFlag, RLevel, RRatio) {
	return RState("s-" + tag), RFlag(score%2 == 0), RLevel(score / 10), RRatio(float64(score) / 4)
}

func newRec(db, key, token string, score int, tag string) *Rec {
	r := &Rec{Token: token, Score: score, Tag: tag}
	r.State, r.Flag, r.Level, r.Ratio = derive(score, tag)
	r.SetKey(db + ":" + key)
	return r
}

// ident reads key and token of a record handed out by portbase (a *Rec or, for
// records loaded from bbolt, a *record.Wrapper holding the JSON of a Rec). Only
// fields that are immutable after the write are read, so no lock is needed (and
// none may be taken: a writer parked at a yield point holds the record lock).
func ident(r record.Record) (key, token, kind string, score int, tag string) {
	switch v := r.(type) {
	case *Rec:
		return v.DatabaseKey(), v.Token, "rec", v.Score, v.Tag
	case *record.Wrapper:
		if wi, ok := wrapTokens.Load(v); ok {
			// a wrapper the harness wrote itself (any dsd format, possibly no data)
			w := wi.(*wrapInfo)
			return v.DatabaseKey(), w.token, "wrap-" + w.format, w.score, w.tag
		}
		var t struct {
			Token string
			Score int
			Tag   string
		}
		if len(v.Data) > 0 {
			_ = dsd.LoadAsFormat(v.Data, v.Format, &t)
		}
		return v.DatabaseKey(), t.Token, "wrap", t.Score, t.Tag
	case nil:
		return "", "", "nil", 0, ""
	}
	return r.DatabaseKey(), "", fmt.Sprintf("%T", r), 0, ""
}

// ---------------------------------------------------------------------------------
// databases

var dbCounter atomic.Uint64

// world is the set of portbase objects one scenario runs against.
type world struct {
	sc      *Scenario
	db      string
	push    pbruntime.PushFunc    // injected backends only
	store   func(r record.Record) // injected backends: the provider/storage takes over a value it is about to push
	prov    *mapProvider
	parks   *parkSet
	burst   *burstPoint
	echoFor *sync.Map // reentrant injmap: written record -> companion the storage pushes from inside Put
	jitter  *jitter
}

func initDatabaseSystem(dir string) error {
	return database.InitializeWithPath(dir)
}

func newWorld(sc *Scenario) (*world, error) {
	w := &world{sc: sc}
	w.db = fmt.Sprintf("c14-%d-%d", sc.ID, dbCounter.Add(1))
	switch sc.Backend {
	case "hashmap", "bbolt":
		_, err := database.Register(&database.Database{Name: w.db, Description: "C14 " + sc.Class,
			StorageType: sc.Backend, ShadowDelete: sc.Shadow})
		if err != nil {
			return nil, err
		}
		if sc.Class != "firstuse" {
			// start the database (create its controller) before anything runs
			// concurrently: getController does not re-check its map after taking the
			// write lock, so concurrent *first* uses of a database create several
			// controllers and all but the last are orphaned together with their
			// subscriptions. That defect is exercised, under its own signature class,
			// by the class "firstuse" only; everywhere else it would show up as a
			// rare, unattributable missing delivery.
			_, _ = database.NewInterface(&database.Options{Local: true, Internal: true}).Exists(w.db + ":warm-up")
		}
	case "injected":
		_, err := database.Register(&database.Database{Name: w.db, Description: "C14 injected", StorageType: database.StorageTypeInjected})
		if err != nil {
			return nil, err
		}
		reg := pbruntime.NewRegistry()
		if !sc.InjectLate {
			if err := reg.InjectAsDatabase(w.db); err != nil {
				return nil, err
			}
		}
		w.prov = &mapProvider{m: map[string]record.Record{}}
		// "a/" (covers a/b/) and "c/" are managed; "d/" is not: writes there fail.
		pushA, err2 := reg.Register("a/", w.prov)
		if err2 != nil {
			return nil, err2
		}
		pushC, err2 := reg.Register("c/", w.prov)
		if err2 != nil {
			return nil, err2
		}
		if sc.InjectLate {
			if err := reg.InjectAsDatabase(w.db); err != nil {
				return nil, err
			}
		}
		w.store = func(r record.Record) { _, _ = w.prov.Set(r) }
		w.push = func(rs ...record.Record) {
			// every provider pushes through its own PushFunc
			for _, r := range rs {
				if strings.HasPrefix(r.DatabaseKey(), "c/") {
					pushC(r)
				} else {
					pushA(r)
				}
			}
		}
	case "injmap":
		_, err := database.Register(&database.Database{Name: w.db, Description: "C14 injected map", StorageType: database.StorageTypeInjected})
		if err != nil {
			return nil, err
		}
		ms := &mapStorage{m: map[string]record.Record{}}
		ctrl, err := database.InjectDatabase(w.db, ms)
		if err != nil {
			return nil, err
		}
		w.store = func(r record.Record) {
			ms.mu.Lock()
			ms.m[r.DatabaseKey()] = r
			ms.mu.Unlock()
		}
		w.push = func(rs ...record.Record) {
			for _, r := range rs {
				ctrl.PushUpdate(r)
			}
		}
		if sc.Reentrant {
			// the storage derives a companion value from what it is given and pushes
			// it from inside its own Put (as a config-like provider does)
			w.echoFor = &sync.Map{}
			ms.afterPut = func(r record.Record) {
				if c, ok := w.echoFor.LoadAndDelete(r); ok {
					comp := c.(*Rec) //nolint:forcetypeassert
					w.store(comp)
					comp.Lock()
					ctrl.PushUpdate(comp)
					comp.Unlock()
				}
			}
		}
	default:
		return nil, fmt.Errorf("unknown backend %q", sc.Backend)
	}
	return w, nil
}

func (sp IfaceSpec) open() *database.Interface {
	o := &database.Options{Local: sp.Local, Internal: sp.Internal,
		AlwaysMakeSecret: sp.Secret, AlwaysMakeCrownjewel: sp.Crown, CacheSize: sp.Cache, AlwaysSetRelativateExpiry: sp.RelExp}
	if sp.AbsExp > 0 {
		o.AlwaysSetAbsoluteExpiry = time.Now().Unix() + sp.AbsExp
	}
	return database.NewInterface(o)
}

// mapStorage is a minimal injected storage (database.InjectDatabase) that, unlike
// the runtime registry, supports Delete: deletes on an injected database (always
// ShadowDelete=false) can succeed and must be delivered. Like hashmap it hands out
// the stored object itself.
type mapStorage struct {
	storage.InjectBase
	mu sync.RWMutex
	m  map[string]record.Record
	// afterPut is called (outside the storage lock, still inside Put) with the record
	// that was just stored
	afterPut func(r record.Record)
}

func (s *mapStorage) Get(key string) (record.Record, error) {
	s.mu.RLock()
	defer s.mu.RUnlock()
	r, ok := s.m[key]
	if !ok {
		return nil, storage.ErrNotFound
	}
	return r, nil
}

func (s *mapStorage) Put(r record.Record) (record.Record, error) {
	s.mu.Lock()
	s.m[r.DatabaseKey()] = r
	s.mu.Unlock()
	if s.afterPut != nil {
		s.afterPut(r)
	}
	return r, nil
}

func (s *mapStorage) Delete(key string) error {
	s.mu.Lock()
	defer s.mu.Unlock()
	delete(s.m, key)
	return nil
}

func (s *mapStorage) ReadOnly() bool { return false }

// mapProvider is the value provider behind the injected runtime database.
type mapProvider struct {
	mu sync.Mutex
	m  map[string]record.Record
}

func (p *mapProvider) Set(r record.Record) (record.Record, error) {
	p.mu.Lock()
	defer p.mu.Unlock()
	p.m[r.DatabaseKey()] = r
	return r, nil
}

func (p *mapProvider) Get(keyOrPrefix string) ([]record.Record, error) {
	p.mu.Lock()
	defer p.mu.Unlock()
	var out []record.Record
	for k, r := range p.m {
		if strings.HasPrefix(k, keyOrPrefix) {
			out = append(out, r)
		}
	}
	return out, nil
}

// ---------------------------------------------------------------------------------
// guarded calls: a panic inside a portbase call made by a harness goroutine is an
// observation, not the end of the scenario.

func guarded(fn func() error) (err error, pnc string, stack string) {
	defer func() {
		if p := recover(); p != nil {
			pnc = fmt.Sprint(p)
			stack = string(debug.Stack())
			if len(stack) > 2500 {
				stack = stack[:2500]
			}
		}
	}()
	return fn(), "", ""
}

func panicClass(p string) string {
	switch {
	case strings.Contains(p, "send on closed channel"):
		return "send-on-closed-channel"
	case strings.Contains(p, "close of closed channel"):
		return "close-of-closed-channel"
	case strings.Contains(p, "nil pointer"):
		return "nil-pointer"
	case strings.Contains(p, "index out of range"), strings.Contains(p, "slice bounds"):
		return "index-out-of-range"
	}
	return "other"
}

func errString(err error) string {
	if err == nil {
		return ""
	}
	s := err.Error()
	if len(s) > 120 {
		s = s[:120]
	}
	return s
}

func errClass(err error) string {
	switch {
	case err == nil:
		return "ok"
	case errors.Is(err, database.ErrNotFound):
		return "notfound"
	case errors.Is(err, database.ErrPermissionDenied):
		return "denied"
	case errors.Is(err, errHookVeto):
		return "veto"
	}
	return "error"
}

// ---------------------------------------------------------------------------------
// yield-hook handlers

// jitter delays a PRNG-chosen fraction of the hook hits by a few scheduler yields or
// microseconds (mode (b) of DESIGN §3.5).
type jitter struct {
	d    Delay
	hits atomic.Uint64
}

func mix(x uint64) uint64 {
	x += 0x9e3779b97f4a7c15
	x = (x ^ (x >> 30)) * 0xbf58476d1ce4e5b9
	x = (x ^ (x >> 27)) * 0x94d049bb133111eb
	return x ^ (x >> 31)
}

func (j *jitter) at(point, subject string) {
	n := j.hits.Add(1)
	h := mix(j.d.Seed ^ n*0x9e3779b97f4a7c15)
	if int(h%100) >= j.d.Prob {
		return
	}
	h = mix(h)
	if h&1 == 0 {
		for i := 0; i < int(h>>8)%4+1; i++ {
			runtime.Gosched()
		}
		return
	}
	us := 1
	if j.d.MaxU > 1 {
		us = int(h>>8)%j.d.MaxU + 1
	}
	time.Sleep(time.Duration(us) * time.Microsecond)
}

// parkSet implements pause-until: a goroutine reaching a point for which a park is
// armed announces itself and blocks until the director releases it.
type parkSet struct {
	mu    sync.Mutex
	armed map[string]*park // key: point + "|" + subject ("" = any subject)
	trace []string         // order of hook events (the interleaving signature)
}

type park struct {
	role     string
	reached  chan struct{}
	release  chan struct{}
	hit      bool
	HitSeq   uint64
	LeaveSeq uint64
}

func newParkSet() *parkSet { return &parkSet{armed: map[string]*park{}} }

func (ps *parkSet) arm(point, subject, role string) *park {
	p := &park{role: role, reached: make(chan struct{}), release: make(chan struct{})}
	ps.mu.Lock()
	ps.armed[point+"|"+subject] = p
	ps.mu.Unlock()
	return p
}

func (ps *parkSet) note(ev string) {
	ps.mu.Lock()
	ps.trace = append(ps.trace, ev)
	ps.mu.Unlock()
}

func (ps *parkSet) at(point, subject string) {
	ps.mu.Lock()
	p := ps.armed[point+"|"+subject]
	if p == nil {
		p = ps.armed[point+"|"]
	}
	if p == nil || p.hit {
		ps.mu.Unlock()
		return
	}
	p.hit = true
	p.HitSeq = tick()
	ps.trace = append(ps.trace, "park:"+point+":"+p.role)
	ps.mu.Unlock()
	close(p.reached)
	<-p.release
	p.LeaveSeq = tick()
	ps.note("leave:" + point + ":" + p.role)
}

func (ps *parkSet) signature() string {
	ps.mu.Lock()
	defer ps.mu.Unlock()
	return strings.Join(ps.trace, ">")
}

// waitReached waits until the park was reached; a very generous watchdog turns a
// point that is never reached into "inconclusive", never into a verdict.
func (p *park) waitReached(d time.Duration) bool {
	select {
	case <-p.reached:
		return true
	case <-time.After(d):
		return false
	}
}

// waitReachedOr additionally returns (false, true) as soon as the operation that was
// expected to pass the point has finished without passing it.
func (p *park) waitReachedOr(done <-chan struct{}, d time.Duration) (reached, bypassed bool) {
	select {
	case <-p.reached:
		return true, false
	default:
	}
	select {
	case <-p.reached:
		return true, false
	case <-done:
		select {
		case <-p.reached:
			return true, false
		default:
		}
		return false, true
	case <-time.After(d):
		return false, false
	}
}

func installHooks(w *world) {
	vhook.Clear()
	switch {
	case w.parks != nil:
		vhook.Set("db.put.prenotify", w.parks.at)
		vhook.Set("db.sub.cancel", w.parks.at)
	case w.jitter != nil:
		vhook.Set("db.put.prenotify", w.jitter.at)
		vhook.Set("db.sub.cancel", w.jitter.at)
	case w.burst != nil:
		vhook.Set("db.sub.cancel", w.burst.at)
	}
}

const watchdog = 60 * time.Second

// gate counts completed operations; control goroutines block on it (no spinning: the
// machine is shared with other stress jobs) until a threshold is reached or the
// workers are done.
type gate struct {
	mu   sync.Mutex
	c    *sync.Cond
	n    int
	done bool
}

func newGate() *gate { g := &gate{}; g.c = sync.NewCond(&g.mu); return g }

func (g *gate) add() {
	g.mu.Lock()
	g.n++
	g.mu.Unlock()
	g.c.Broadcast()
}

func (g *gate) finish() {
	g.mu.Lock()
	g.done = true
	g.mu.Unlock()
	g.c.Broadcast()
}

func (g *gate) wait(n int) {
	g.mu.Lock()
	for g.n < n && !g.done {
		g.c.Wait()
	}
	g.mu.Unlock()
}

// wrapTokens identifies the record.Wrapper objects the harness writes (putwrap):
// their data may be in a format without accessor, raw bytes or empty, so the token
// cannot be read back from the data. Keyed by the wrapper pointer (storages and
// feeds hand the written object through).
var wrapTokens sync.Map

type wrapInfo struct {
	token, format, tag string
	score              int
}

// newWrapper builds a wrapped record whose payload carries token/score/tag in the
// given dsd format.
func newWrapper(db, key, token string, score int, tag, format string) (*record.Wrapper, error) {
	payload := struct {
		Token string
		Score int
		Tag   string
		State RState
		Flag  RFlag
		Level RLevel
		Ratio RRatio
	}{Token: token, Score: score, Tag: tag}
	payload.State, payload.Flag, payload.Level, payload.Ratio = derive(score, tag)
	var f uint8
	var data []byte
	switch format {
	case "json":
		f = dsd.JSON
	case "cbor":
		f = dsd.CBOR
	case "msgpack":
		f = dsd.MsgPack
	case "yaml":
		f = dsd.YAML
	case "raw":
		f, data = dsd.RAW, []byte("raw:"+token)
	case "gencode":
		f, data = dsd.GenCode, []byte{1, 2, 3, 4, byte(len(token))}
	case "empty":
		f = dsd.JSON
	default:
		return nil, fmt.Errorf("unknown wrapper format %q", format)
	}
	if data == nil && format != "empty" {
		d, err := dsd.Dump(&payload, f)
		if err != nil {
			return nil, err
		}
		data = d[1:] // without the one-byte format identifier
	}
	w, err := record.NewWrapper(db+":"+key, &record.Meta{}, f, data)
	if err != nil {
		return nil, err
	}
	wrapTokens.Store(w, &wrapInfo{token: token, format: format, score: score, tag: tag})
	return w, nil
}
