package main

import (
	"fmt"
	"os"
	"path/filepath"
	"strings"
	"sync"

	"github.com/safing/portbase/config"
	"github.com/safing/portbase/database"
	_ "github.com/safing/portbase/database/dbmodule" // the config module depends on the database module
	"github.com/safing/portbase/database/query"
	"github.com/safing/portbase/database/record"
	"github.com/safing/portbase/dataroot"
	"github.com/safing/portbase/log"
	"github.com/safing/portbase/modules"

	"verifharness/internal/vlib"
)

// ---------------------------------------------------------------------------------
// Class "inburst": subscriptions whose (fresh) query object has an In condition with
// 9-5000 values; right after Subscribe 2-8 writers are released together, so the
// first evaluations of the shared condition overlap (notifySubscribers only holds a
// read lock). Several rounds, each with a new subscription. Usual oracles; a runtime
// abort ("concurrent map read and map write") is seen as the child's exit status.
// The spec reuses BurstSpec: Rounds[i].Subscribe are subscribed one after the other,
// then every writer performs Rounds[i].Writes1 operations.

func runInBurst(w *world, sc *Scenario) *run {
	r := newRun(w, sc)
	installHooks(w)
	next := make([]int, len(r.writers))
	for _, rd := range sc.Burst.Rounds {
		for _, id := range rd.Subscribe {
			if s := r.subs[id]; s.subscribe(r) {
				s.startReader()
			}
		}
		b := newBarrier(len(r.writers))
		var wg sync.WaitGroup
		for i, wr := range r.writers {
			i, wr := i, wr
			wg.Add(1)
			go func() {
				defer wg.Done()
				b.at()
				for n := 0; n < rd.Writes1 && next[i] < len(wr.spec.Ops); n++ {
					wr.do(r, &wr.spec.Ops[next[i]])
					next[i]++
				}
			}()
		}
		<-b.all
		close(b.release)
		wg.Wait()
	}
	r.gate.finish()
	r.finishSubs()
	return r
}

func genInBurst(rng *vlib.Rand, id int) Scenario {
	sc := Scenario{ID: id, Class: "inburst", Delay: Delay{Mode: "barrier"}}
	if rng.Chance(70, 100) {
		sc.Backend, sc.Shadow = "hashmap", rng.Bool()
	} else {
		sc.Backend = "injmap"
	}
	nw := rng.Range(2, 8)
	rounds := rng.Range(3, 5)
	per := rng.Range(2, 4)
	for w := 0; w < nw; w++ {
		ws := WriterSpec{ID: w, Iface: allPriv()}
		for i := 0; i < rounds*per; i++ {
			ws.Ops = append(ws.Ops, OpSpec{Kind: "put", Dir: vlib.Pick(rng, "a/", "a/b/"), N: rng.Intn(3), Score: genScore(rng), Tag: vlib.Pick(rng, tags...)})
		}
		sc.Writers = append(sc.Writers, ws)
	}
	bs := &BurstSpec{}
	sc.Subs = append(sc.Subs, SubSpec{ID: 0, Prefix: "", Local: true, Internal: true, ShareWith: -1, CancelAt: -1})
	first := []int{0}
	for rd := 0; rd < rounds; rd++ {
		var ids []int
		for i, n := 0, rng.Range(1, 2); i < n; i++ {
			size := vlib.Pick(rng, rng.Range(9, 40), rng.Range(100, 1000), rng.Range(2000, 5000))
			c := genInCond(rng, size)
			// mostly all tags are in the list: every write of the burst matches
			if rng.Chance(60, 100) {
				c.S = strings.Join(tags, ",")
			}
			if rng.Chance(25, 100) {
				c = &Cond{Op: "and", Kids: []Cond{*c, {Op: "ge", N: 0}}}
			}
			ss := SubSpec{ID: len(sc.Subs), Prefix: vlib.Pick(rng, "", "a/"), Cond: c, Local: true, Internal: true, ShareWith: -1, CancelAt: vlib.Pick(rng, -1, -2)}
			sc.Subs = append(sc.Subs, ss)
			ids = append(ids, ss.ID)
		}
		if rd == 0 {
			ids = append(first, ids...)
		}
		bs.Rounds = append(bs.Rounds, BurstRound{Subscribe: ids, Writes1: per})
	}
	sc.Burst = bs
	return sc
}

// ---------------------------------------------------------------------------------
// Class "cfgdb": the real config module's injected database. The child starts the
// module system (database, config, runtime modules) on a scratch data root, registers
// a few string options and runs a sequential script of writes through the config API
// (SetConfigOption: pushes an update) and through a database interface (Put with a
// Value, Put without Value = reset, Delete) while subscriptions on "config:" are
// active. After every write the feeds are drained without blocking: a successful
// write is delivered exactly once to every subscription whose prefix matches the
// option's key, and to nobody else.

type cfgRec struct {
	record.Base
	sync.Mutex
	Value string
}

// CfgOp is one step of a cfgdb script.
type CfgOp struct {
	Kind  string `json:"k"` // set (config API) | put | putnil | del (database interface) | replace | replacedef (config API, all options at once)
	Opt   int    `json:"o"`
	Value string `json:"v,omitempty"`
	// replace / replacedef: option number -> new value; options not named are reset;
	// a value that does not fit the option's validation expression is rejected
	Vals map[int]string `json:"vals,omitempty"`
}

func startModulesForConfig(dir string) error {
	root := filepath.Join(dir, "dataroot")
	if err := os.MkdirAll(root, 0o755); err != nil {
		return err
	}
	if err := dataroot.Initialize(root, 0o755); err != nil {
		return err
	}
	modules.SetStdErrReporting(false)
	log.SetLogLevel(log.CriticalLevel)
	return modules.Start()
}

func cfgKey(i int) string { return fmt.Sprintf("c14/opt%d", i) }

func runCfgDB(b *vlib.Batch, sc *Scenario) {
	b.Eval(1)
	b.Count("scenarios_cfgdb", 1)
	nopt := 0
	for _, op := range sc.Cfg {
		if op.Opt+1 > nopt {
			nopt = op.Opt + 1
		}
	}
	for i := 0; i < nopt; i++ {
		key := cfgKey(i)
		if _, err := config.GetOption(key); err == nil {
			continue // replay rounds: already registered
		}
		err := config.Register(&config.Option{Name: "C14 option " + fmt.Sprint(i), Key: key, Description: "verification option",
			OptType: config.OptTypeString, DefaultValue: fmt.Sprintf("default%d", i), ValidationRegex: "^[a-z0-9]+$"})
		if err != nil {
			b.Inconclusive("cfgdb: cannot register option: %v", err)
			return
		}
	}
	iface := database.NewInterface(&database.Options{Local: true, Internal: true})
	type csub struct {
		prefix string
		sub    *database.Subscription
	}
	var subs []*csub
	for _, p := range []string{"", "c14/", "c14/opt1", "other/", "c14/opt"} {
		s, err := iface.Subscribe(query.New("config:" + p).MustBeValid())
		if err != nil {
			b.Violation("C14:subscribe-failed:config-db", "Subscribe on the config database failed: "+err.Error(), map[string]any{"scenario": sc})
			return
		}
		subs = append(subs, &csub{p, s})
	}
	defer func() {
		for _, s := range subs {
			_ = s.sub.Cancel()
		}
	}()
	drain := func() map[string][]string {
		out := map[string][]string{}
		for _, s := range subs {
			for more := true; more; {
				select {
				case rr, ok := <-s.sub.Feed:
					if !ok {
						more = false
						break
					}
					out[s.prefix] = append(out[s.prefix], rr.DatabaseKey())
				default:
					more = false
				}
			}
		}
		return out
	}
	drain()
	// what the config database reports for an option (the exported record)
	report := func(i int) string {
		r, err := iface.Get("config:" + cfgKey(i))
		if err != nil {
			return "error: " + errString(err)
		}
		if w, ok := r.(*record.Wrapper); ok {
			return string(w.Data)
		}
		return fmt.Sprintf("%T", r)
	}
	var history []map[string]any
	for i, op := range sc.Cfg {
		key := cfgKey(op.Opt)
		if op.Kind == "replace" || op.Kind == "replacedef" {
			// all options at once: every option whose reported record changed must be
			// delivered exactly once (an unchanged one at most once)
			before := make([]string, nopt)
			for o := 0; o < nopt; o++ {
				before[o] = report(o)
			}
			vals := map[string]interface{}{}
			for o, v := range op.Vals {
				vals[cfgKey(o)] = v
			}
			var nerr int
			_, pnc, _ := guarded(func() error {
				if op.Kind == "replace" {
					errs, _ := config.ReplaceConfig(vals)
					nerr = len(errs)
				} else {
					errs, _ := config.ReplaceDefaultConfig(vals)
					nerr = len(errs)
				}
				return nil
			})
			got := drain()
			changed := map[string]bool{}
			for o := 0; o < nopt; o++ {
				if report(o) != before[o] {
					changed[cfgKey(o)] = true
				}
			}
			step := map[string]any{"i": i, "op": op, "validation_errors": nerr, "panic": pnc, "feeds": got, "changed_options": changed}
			history = append(history, step)
			if len(history) > 12 {
				history = history[1:]
			}
			b.Count("cfgop_"+op.Kind, 1)
			b.Count("cfgdb_replace_validation_errors", int64(nerr))
			wit := func() map[string]any { return map[string]any{"scenario": sc, "step": step, "last_steps": history} }
			if pnc != "" {
				b.Violation("C14:panic:"+panicClass(pnc)+":"+op.Kind+":config-db", "config replace panicked: "+pnc, wit())
				return
			}
			for _, s := range subs {
				cnt := map[string]int{}
				for _, k := range got[s.prefix] {
					cnt[k]++
				}
				for o := 0; o < nopt; o++ {
					k := cfgKey(o)
					match := strings.HasPrefix(k, s.prefix)
					switch {
					case !match && cnt[k] > 0:
						b.Violation("C14:delivered-nonmatching:prefix:"+op.Kind+":config-db",
							fmt.Sprintf("%s delivered config:%s to subscription config:%s", op.Kind, k, s.prefix), wit())
						return
					case match && cnt[k] > 1:
						b.Violation("C14:duplicate:"+op.Kind+":config-db",
							fmt.Sprintf("%s delivered config:%s %d times to subscription config:%s", op.Kind, k, cnt[k], s.prefix), wit())
						return
					case match && changed[k] && cnt[k] == 0:
						b.Violation("C14:missing:"+op.Kind+":config-db",
							fmt.Sprintf("%s changed what the config database reports for config:%s, but subscription config:%s received no update", op.Kind, k, s.prefix), wit())
						return
					}
					if match && changed[k] {
						b.Count("mandatory_deliveries", 1)
						b.Count("cfgdb_replace_changes_delivered", 1)
					}
					b.Count("deliveries", int64(cnt[k]))
				}
			}
			continue
		}
		var fn func() error
		switch op.Kind {
		case "set":
			fn = func() error { return config.SetConfigOption(key, op.Value) }
		case "put":
			r := &cfgRec{Value: op.Value}
			r.SetKey("config:" + key)
			fn = func() error { return iface.Put(r) }
		case "putnil":
			// a record without Value resets the option
			r := &Rec{Token: "reset"}
			r.SetKey("config:" + key)
			fn = func() error { return iface.Put(r) }
		case "del":
			fn = func() error { return iface.Delete("config:" + key) }
		default:
			b.Inconclusive("cfgdb: unknown op %q", op.Kind)
			return
		}
		err, pnc, _ := guarded(fn)
		got := drain()
		step := map[string]any{"i": i, "op": op, "key": key, "err": errString(err), "panic": pnc, "feeds": got}
		history = append(history, step)
		if len(history) > 12 {
			history = history[1:]
		}
		b.Count("cfgop_"+op.Kind, 1)
		wit := func() map[string]any { return map[string]any{"scenario": sc, "step": step, "last_steps": history} }
		if pnc != "" {
			b.Violation("C14:panic:"+panicClass(pnc)+":"+op.Kind+":config-db", "write on the config database panicked: "+pnc, wit())
			return
		}
		ok := err == nil
		for _, s := range subs {
			want := 0
			if ok && strings.HasPrefix(key, s.prefix) {
				want = 1
			}
			keys := got[s.prefix]
			n := 0
			for _, k := range keys {
				if k == key {
					n++
				}
			}
			switch {
			case len(keys) != n:
				b.Violation("C14:delivered-nonmatching:other-key:"+op.Kind+":config-db",
					fmt.Sprintf("%s of config:%s delivered other records %v to subscription config:%s", op.Kind, key, keys, s.prefix), wit())
				return
			case n > want && want == 0:
				b.Violation("C14:delivered-nonmatching:"+map[bool]string{true: "prefix", false: "failed-write"}[ok]+":"+op.Kind+":config-db",
					fmt.Sprintf("%s of config:%s (error %q) was delivered %d time(s) to subscription config:%s", op.Kind, key, errString(err), n, s.prefix), wit())
				return
			case n > want:
				b.Violation("C14:duplicate:"+op.Kind+":config-db",
					fmt.Sprintf("one %s of config:%s was delivered %d times to subscription config:%s", op.Kind, key, n, s.prefix), wit())
				return
			case n < want:
				b.Violation("C14:missing:"+op.Kind+":config-db",
					fmt.Sprintf("successful %s of config:%s was not delivered to subscription config:%s", op.Kind, key, s.prefix), wit())
				return
			}
			b.Count("deliveries", int64(n))
			b.Count("mandatory_deliveries", int64(want))
			b.Count("cfgdb_deliveries", int64(n))
		}
	}
	b.Count("cfgdb_scenarios_completed", 1)
	b.DistinctS(fmt.Sprintf("cfgdb/%v", sc.Cfg))
	b.Sample(map[string]any{"class": "cfgdb", "last_steps": history})
}

func genCfgDB(rng *vlib.Rand, id int) Scenario {
	sc := Scenario{ID: id, Class: "cfgdb", Backend: "config", Delay: Delay{Mode: "idle"}}
	nopt := rng.Range(2, 4)
	n := rng.Range(25, 50)
	for i := 0; i < n; i++ {
		op := CfgOp{Kind: pickKind(rng, []string{"set", "put", "putnil", "del", "replace", "replacedef"}, []int{28, 25, 7, 20, 12, 8}), Opt: rng.Intn(nopt)}
		if op.Kind == "set" || op.Kind == "put" {
			op.Value = fmt.Sprintf("v%d", rng.Intn(1000))
		}
		if op.Kind == "replace" || op.Kind == "replacedef" {
			op.Vals = map[int]string{}
			for o := 0; o < nopt; o++ {
				switch x := rng.Intn(100); {
				case x < 35: // not named: reset
				case x < 70:
					op.Vals[o] = fmt.Sprintf("r%d", rng.Intn(1000))
				default:
					op.Vals[o] = "NOT VALID!" // rejected by the validation expression
				}
			}
		}
		sc.Cfg = append(sc.Cfg, op)
	}
	return sc
}
