package main

import (
	"fmt"
	"sort"
	"strings"

	"verifharness/internal/vlib"
)

// Hooks template HC ("hook chain"): one goroutine runs a script of operations, hook
// cancels and late registrations. Hooks depend on each other: a replacing hook sets
// a field (Tag, Score, the secret flag) and hooks registered after it have a Where
// condition on that field. The reference model applies the active hooks in
// registration order to the successively replaced record ("hooks fire as
// registered") and predicts, per operation, the set of (hook, phase, record token)
// calls, the veto, the record stored / returned, and - for subscriptions whose
// condition or privilege distinguishes the record handed to Put from the record that
// was stored - what each feed receives. Everything is sequential, so the prediction
// is exact; the feeds are drained without blocking right after each operation
// (notification happens inside Put).

type crec struct {
	token   string
	score   int
	tag     string
	secret  bool
	deleted bool // shadow-deleted
	expired bool
}

func (c crec) valid() bool { return !c.deleted && !c.expired }

type ccall struct {
	hook  int
	phase string
	token string
}

func (c ccall) String() string { return fmt.Sprintf("hook%d/%s/%s", c.hook, c.phase, c.token) }

type chainOp struct {
	op      *hopRec
	active  []int // hook ids in registration order when the op ran
	feeds   map[int][]feedEl
	subsAct []int
}

func (hr *hrun) runChain() {
	sc := hr.sc
	wk := hr.workers[0]
	// subscriptions
	for i := range sc.Subs {
		ss := sc.Subs[i]
		s := &subRun{spec: ss, q: buildQuery(hr.w.db, ss.Prefix, ss.Cond), readerDone: make(chan struct{}), cancelReturned: make(chan struct{}), stop: make(chan struct{})}
		if s.subscribe(nil) {
			hr.chainSubs = append(hr.chainSubs, s)
		}
	}
	var active []int
	for _, h := range hr.hooks {
		if h.spec.RegAt == 0 && h.reg != nil {
			active = append(active, h.spec.ID)
		}
	}
	drain := func() map[int][]feedEl {
		out := map[int][]feedEl{}
		for _, s := range hr.chainSubs {
			for more := true; more; {
				select {
				case rr, ok := <-s.sub.Feed:
					if !ok {
						more = false
						break
					}
					k, t, kind, _, _ := ident(rr)
					out[s.spec.ID] = append(out[s.spec.ID], feedEl{Seq: tick(), Key: k, Token: t, Kind: kind})
				default:
					more = false
				}
			}
		}
		return out
	}
	for i := range sc.Plan.HCSteps {
		st := &sc.Plan.HCSteps[i]
		switch st.Kind {
		case "op":
			n0 := len(wk.ops)
			wk.do(hr, st.Op)
			co := &chainOp{op: wk.ops[n0], active: append([]int(nil), active...), feeds: drain()}
			hr.chainOps = append(hr.chainOps, co)
		case "cancel":
			h := hr.hooks[st.Hook]
			if h.reg != nil && h.CancelCall == 0 {
				h.cancel()
				keep := active[:0]
				for _, id := range active {
					if id != st.Hook {
						keep = append(keep, id)
					}
				}
				active = keep
			}
		case "register":
			h := hr.hooks[st.Hook]
			if h.reg == nil {
				h.register()
				if h.reg != nil {
					active = append(active, st.Hook)
				}
			}
		}
	}
	hr.gate.finish()
	for _, s := range hr.chainSubs {
		s.cancel()
	}
	for _, h := range hr.hooks {
		if h.reg != nil && h.CancelCall == 0 {
			h.cancel()
		}
	}
}

func (h *hookRun) matchesRec(key string, c crec) bool {
	return strings.HasPrefix(key, h.spec.Prefix) && h.spec.Cond.eval(c.score, c.tag)
}

func (h *hookRun) replaced(c crec) crec {
	n := c
	n.token = fmt.Sprintf("R%d.%s", h.spec.ID, c.token)
	if h.spec.ReplSetTag != "" {
		n.tag = h.spec.ReplSetTag
	}
	n.score += h.spec.ReplAddScore
	if h.spec.ReplFreshMeta {
		n.secret, n.deleted, n.expired = false, false, false
	}
	if h.spec.ReplSecret {
		n.secret = true
	}
	return n
}

// chain applies the hooks in registration order to the record, for one phase.
func (hr *hrun) chain(active []int, phase, key string, n int, cur crec, calls *[]ccall) (out crec, vetoBy int) {
	for _, id := range active {
		// the registration supplies the query, the hook object phases and behaviour
		reg, h := hr.hooks[id], hr.hooks[id].obj()
		declared := (phase == "postget" && h.spec.PostGet) || (phase == "preput" && h.spec.PrePut)
		if !declared || !reg.matchesRec(key, cur) {
			continue
		}
		*calls = append(*calls, ccall{h.spec.ID, phase, cur.token})
		if h.vetoes(phase, n) {
			return cur, h.spec.ID
		}
		if h.replaces(phase, n) && (!cur.deleted || (phase == "postget" && h.spec.ReplFreshMeta)) {
			cur = h.replaced(cur)
		}
	}
	return cur, -1
}

func (hr *hrun) judgeChain(b *vlib.Batch) {
	sc := hr.sc
	for _, m := range hr.inconcl {
		b.Inconclusive("scenario %d (hook chain): %s", sc.ID, m)
	}
	for _, h := range hr.hooks {
		if h.RegErr != "" || h.CancelPanic != "" || h.CancelErr != "" {
			b.Violation("C14:hook-register-or-cancel-failed:chain", "RegisterHook/Cancel failed: "+h.RegErr+h.CancelPanic+h.CancelErr, hr.witness(nil))
			return
		}
	}
	stored := map[string]crec{}
	ci := 0
	b.Count("hook_calls", int64(len(hr.calls)))
	for _, co := range hr.chainOps {
		op := co.op
		b.Count("chainop_"+op.Kind, 1)
		var obs []ccall
		var obsCalls []hookCall
		for ci < len(hr.calls) && hr.calls[ci].Seq < op.Ret {
			c := hr.calls[ci]
			if c.Seq > op.Call {
				obs = append(obs, ccall{c.Hook, c.Phase, c.Token})
				obsCalls = append(obsCalls, c)
			}
			ci++
		}
		// ---- reference model
		var exp []ccall
		vetoBy, vetoPhase := -1, ""
		var final crec      // record stored (put) / returned (get)
		expectOK := true    // operation returns nil
		notFound := false   // operation returns ErrNotFound
		var delivered *crec // record the subscriptions are notified with
		getPart := func() (crec, bool) {
			for _, id := range co.active {
				reg, h := hr.hooks[id], hr.hooks[id].obj()
				if h.spec.PreGet && strings.HasPrefix(op.Key, reg.spec.Prefix) {
					exp = append(exp, ccall{h.spec.ID, "preget", ""})
					if h.vetoes("preget", op.N) {
						vetoBy, vetoPhase = h.spec.ID, "preget"
						return crec{}, false
					}
				}
			}
			cur, ok := stored[op.Key]
			if !ok {
				notFound = true
				return crec{}, false
			}
			var v int
			cur, v = hr.chain(co.active, "postget", op.Key, op.N, cur, &exp)
			if v >= 0 {
				vetoBy, vetoPhase = v, "postget"
				return crec{}, false
			}
			if !cur.valid() {
				notFound = true
				return crec{}, false
			}
			return cur, true
		}
		switch op.Kind {
		case "put", "putexp":
			cur := crec{token: op.Token, score: op.Score, tag: op.Tag, expired: op.Kind == "putexp"}
			var v int
			cur, v = hr.chain(co.active, "preput", op.Key, op.N, cur, &exp)
			if v >= 0 {
				vetoBy, vetoPhase = v, "preput"
			} else {
				final = cur
				stored[op.Key] = cur
				delivered = &cur
			}
		case "get":
			if cur, ok := getPart(); ok {
				final = cur
			}
		case "del":
			if cur, ok := getPart(); ok {
				cur.deleted = true
				var v int
				cur, v = hr.chain(co.active, "preput", op.Key, op.N, cur, &exp)
				if v >= 0 {
					vetoBy, vetoPhase = v, "preput"
				} else {
					if sc.Shadow {
						stored[op.Key] = cur
					} else {
						delete(stored, op.Key)
					}
					delivered = &cur
				}
			}
		}
		if vetoBy >= 0 || notFound {
			expectOK = false
		}
		wit := func(extra map[string]any) map[string]any {
			m := map[string]any{"op": op, "hooks_active_in_registration_order": co.active, "expected_calls": fmt.Sprint(exp),
				"observed_calls": obsCalls, "expected_veto_by": vetoBy, "feeds_after_op": co.feeds}
			for k, v := range extra {
				m[k] = v
			}
			return hr.witness(m)
		}
		// ---- calls: compare as multisets of (hook, phase[, token])
		key := func(c ccall) string {
			if c.phase == "preget" {
				return fmt.Sprintf("%d/%s", c.hook, c.phase)
			}
			return c.String()
		}
		em, om := map[string]int{}, map[string]int{}
		hookOf := map[string]int{}
		for _, c := range exp {
			em[key(c)]++
			hookOf[key(c)] = c.hook
		}
		for _, c := range obs {
			om[key(c)]++
			hookOf[key(c)] = c.hook
		}
		// precondition class of a call difference: the hook object is registered under
		// several queries, or an ordinary chain
		class := func(k string) string {
			n := 0
			for _, h := range hr.hooks {
				if h.obj().spec.ID == hookOf[k] {
					n++
				}
			}
			if n > 1 {
				return "same-hook-object"
			}
			return "chain"
		}
		bad := false
		var ks []string
		for k := range em {
			ks = append(ks, k)
		}
		for k := range om {
			if em[k] == 0 {
				ks = append(ks, k)
			}
		}
		sort.Strings(ks)
		for _, k := range ks {
			phase := strings.Split(k, "/")[1]
			switch {
			case om[k] < em[k]:
				// after a veto the model stops; the observed run may not (that is the
				// veto-lost case below), so a missing call is always a finding
				b.Violation("C14:hook-missed:"+phase+":"+class(k),
					fmt.Sprintf("%s of key %s: call %s is prescribed (hooks applied in registration order to the successively replaced record) but did not happen", op.Kind, op.Key, k), wit(nil))
				bad = true
			case om[k] > em[k]:
				b.Violation("C14:hook-unexpected-call:"+phase+":record-mismatch:"+class(k),
					fmt.Sprintf("%s of key %s: call %s happened but the hook's query does not match the record at that point of the chain", op.Kind, op.Key, k), wit(nil))
				bad = true
			}
			if bad {
				break
			}
		}
		b.Count("hook_calls_mandatory", int64(len(exp)))
		// ---- veto / result
		if !bad && vetoBy >= 0 && op.VetoBy != vetoBy {
			b.Violation("C14:hook-veto-lost:"+vetoPhase+":chain",
				fmt.Sprintf("%s of key %s must be vetoed by hook %d in %s, but it returned %q", op.Kind, op.Key, vetoBy, vetoPhase, op.Err), wit(nil))
			bad = true
		}
		if !bad && vetoBy < 0 && op.VetoBy >= 0 {
			b.Violation("C14:hook-veto-unexplained:"+op.Kind+":chain", "the operation returned a veto no hook is prescribed to raise", wit(nil))
			bad = true
		}
		if vetoBy >= 0 {
			b.Count("vetoed_ops", 1)
			if !bad && op.Kind != "get" && op.Before.Err == "" && op.After.Err == "" && op.Before != op.After {
				b.Violation("C14:hook-veto-storage-changed:"+op.Kind+":"+sc.Backend, "a vetoed operation changed the stored record", wit(nil))
				bad = true
			}
		}
		if !bad && expectOK != op.OK && op.Panic == "" {
			b.Violation("C14:hook-chain-result:"+op.Kind+":chain",
				fmt.Sprintf("%s of key %s: expected success=%v (not-found=%v), got %q", op.Kind, op.Key, expectOK, notFound, op.Err), wit(nil))
			bad = true
		}
		if !bad && op.OK && op.Kind == "get" && op.Got != final.token {
			b.Violation("C14:hook-chain-result:get:chain",
				fmt.Sprintf("Get of key %s returned record %q, the PostGet chain prescribes %q", op.Key, op.Got, final.token), wit(nil))
			bad = true
		}
		if !bad && op.OK && op.Kind == "put" && op.After.Err == "" && final.valid() && op.After.Token != final.token {
			b.Violation("C14:hook-chain-result:put:chain",
				fmt.Sprintf("Put of key %s stored record %q, the PrePut chain prescribes %q", op.Key, op.After.Token, final.token), wit(nil))
			bad = true
		}
		if final.token != op.Token && final.token != "" && strings.HasPrefix(final.token, "R") {
			b.Count("replacements_"+map[bool]string{true: "postget", false: "preput"}[op.Kind == "get"], 1)
		}
		// ---- subscriptions: the feeds carry the record that was written
		if !bad && op.Panic == "" {
			for _, s := range hr.chainSubs {
				got := co.feeds[s.spec.ID]
				want := false
				if delivered != nil && op.OK {
					o := opRec{Key: op.Key, Score: delivered.score, Tag: delivered.tag, Secret: delivered.secret}
					want = s.matchReason(&o) == ""
				}
				switch {
				case want && len(got) == 0:
					b.Violation("C14:missing:"+op.Kind+":hook-replaced",
						fmt.Sprintf("%s of key %s wrote record %q (Tag %q, secret=%v), which matches subscription %d, but its feed received nothing", op.Kind, op.Key, delivered.token, delivered.tag, delivered.secret, s.spec.ID),
						wit(map[string]any{"subscription": s.spec}))
					bad = true
				case !want && len(got) > 0:
					b.Violation("C14:delivered-nonmatching:"+op.Kind+":hook-replaced",
						fmt.Sprintf("subscription %d received record %q for %s of key %s, but the record that was written does not match its query/privileges (or nothing was written)", s.spec.ID, got[0].Token, op.Kind, op.Key),
						wit(map[string]any{"subscription": s.spec}))
					bad = true
				case want && (len(got) != 1 || got[0].Token != delivered.token || got[0].Key != op.Key):
					b.Violation("C14:delivered-wrong-record:"+op.Kind+":hook-replaced",
						fmt.Sprintf("subscription %d received %v for %s of key %s, the record that was written is %q", s.spec.ID, got, op.Kind, op.Key, delivered.token),
						wit(map[string]any{"subscription": s.spec}))
					bad = true
				case want:
					b.Count("deliveries", 1)
					b.Count("mandatory_deliveries", 1)
					b.Count("chain_deliveries_of_replaced_records", int64(map[bool]int{true: 1}[delivered.token != op.Token]))
				default:
					b.Count("chain_nondeliveries", 1)
				}
				if bad {
					break
				}
			}
		}
		if bad {
			return // the model and the run have diverged; the first difference is the finding
		}
	}
	b.Count("hook_chain_scenarios_completed", 1)
}

// ---------------------------------------------------------------------------------

func genHookChain(rng *vlib.Rand, id int) Scenario {
	sc := Scenario{ID: id, Class: "hooks", Delay: Delay{Mode: "idle"}}
	if rng.Chance(70, 100) {
		sc.Backend, sc.Shadow = "hashmap", rng.Bool()
	} else {
		sc.Backend = "bbolt"
	}
	phase := vlib.Pick(rng, "preput", "preput", "postget")
	nh := rng.Range(4, 6)
	ri := rng.Range(1, nh-2) // replacer; at least one hook in front of it and one behind
	di := nh - 1             // dependent hook: mostly the last one
	if rng.Chance(30, 100) {
		di = rng.Range(ri+1, nh-1)
	}
	mark := "m" + fmt.Sprint(rng.Intn(9))
	for i := 0; i < nh; i++ {
		hs := HookSpec{ID: i, Prefix: vlib.Pick(rng, "", "a/"), PreGet: rng.Bool(), PostGet: true, PrePut: true, ShareWith: -1, CancelAt: -2}
		switch {
		case i == ri:
			hs.ReplPhase, hs.ReplMod, hs.ReplSetTag = phase, 1, mark
			hs.ReplAddScore = rng.Intn(3) * 100
			hs.ReplSecret = rng.Chance(40, 100)
			hs.ReplFreshMeta = phase == "postget" && rng.Bool()
		case i == di:
			hs.Cond = &Cond{Op: "tag", S: mark}
			if rng.Chance(60, 100) {
				hs.VetoPhase, hs.VetoMod, hs.VetoRem = phase, 2, rng.Intn(2)
			}
		default:
			// bystanders: recorders, some with a condition on the input tags, some
			// replacing without touching the fields
			switch rng.Intn(4) {
			case 0:
				hs.Cond = &Cond{Op: "tag", S: vlib.Pick(rng, tags...)}
			case 1:
				hs.Cond = &Cond{Op: "not", Kids: []Cond{{Op: "tag", S: mark}}}
			case 2:
				hs.ReplPhase, hs.ReplMod = vlib.Pick(rng, "preput", "postget"), 1
			}
		}
		sc.Hooks = append(sc.Hooks, hs)
	}
	// one hook is registered late (appended behind everything)
	late := -1
	if rng.Chance(40, 100) {
		late = nh
		hs := HookSpec{ID: nh, Prefix: "", PostGet: true, PrePut: true, ShareWith: -1, CancelAt: -2, RegAt: -1, Cond: &Cond{Op: "tag", S: mark}}
		sc.Hooks = append(sc.Hooks, hs)
	}
	// one hook object registered under two (or three) queries: a recorder for "c/",
	// registered again for "a/" with a condition on an input tag (and again for "c/"
	// with a Score condition); cancelling one handle must leave the others in place
	sameObj := -1
	var sameRegs []int
	if rng.Chance(60, 100) {
		sameObj = len(sc.Hooks)
		sc.Hooks = append(sc.Hooks, HookSpec{ID: sameObj, Prefix: "c/", PreGet: true, PostGet: true, PrePut: true, ShareWith: -1, CancelAt: -2})
		second := HookSpec{ID: sameObj + 1, Prefix: "a/", Cond: &Cond{Op: "tag", S: vlib.Pick(rng, tags...)}, SameObjAs: sameObj + 1, ShareWith: -1, CancelAt: -2}
		if rng.Bool() {
			second.RegAt = -1 // registered later in the script
		}
		sc.Hooks = append(sc.Hooks, second)
		sameRegs = []int{sameObj, sameObj + 1}
		if rng.Chance(40, 100) {
			sc.Hooks = append(sc.Hooks, HookSpec{ID: sameObj + 2, Prefix: "c/", Cond: &Cond{Op: "ge", N: 50}, SameObjAs: sameObj + 1, ShareWith: -1, CancelAt: -2})
			sameRegs = append(sameRegs, sameObj+2)
		}
	}
	// subscriptions that tell the input from the stored record
	sc.Subs = []SubSpec{
		{ID: 0, Prefix: "", Local: true, Internal: true, ShareWith: -1, CancelAt: -1},
		{ID: 1, Prefix: "a/", Cond: &Cond{Op: "tag", S: mark}, Local: true, Internal: true, ShareWith: -1, CancelAt: -1},
		{ID: 2, Prefix: "", Cond: &Cond{Op: "not", Kids: []Cond{{Op: "tag", S: mark}}}, Local: true, Internal: true, ShareWith: -1, CancelAt: -1},
		{ID: 3, Prefix: "", Local: true, Internal: false, ShareWith: -1, CancelAt: -1},
		{ID: 4, Prefix: "", Cond: &Cond{Op: "ge", N: 100}, Local: true, Internal: true, ShareWith: -1, CancelAt: -1},
	}
	const nk = 4
	p := &PlanSpec{Template: "HC"}
	op := func(kind string, n int) {
		o := &OpSpec{Kind: kind, Dir: "a/", N: n}
		if kind == "put" || kind == "putexp" {
			o.Score, o.Tag = rng.Intn(100), vlib.Pick(rng, tags...)
		}
		p.HCSteps = append(p.HCSteps, HCStep{Kind: "op", Op: o})
	}
	block := func() {
		for n := 0; n < nk; n++ {
			op("put", n)
			op("get", n)
		}
		n := rng.Intn(nk)
		op("putexp", n)
		op("get", n)
		n = rng.Intn(nk)
		op("put", n)
		op("del", n)
		op("get", n)
		op("put", n)
		if sameObj >= 0 {
			for n := 0; n < 2; n++ {
				p.HCSteps = append(p.HCSteps, HCStep{Kind: "op", Op: &OpSpec{Kind: "put", Dir: "c/", N: n, Score: rng.Intn(100), Tag: vlib.Pick(rng, tags...)}})
				p.HCSteps = append(p.HCSteps, HCStep{Kind: "op", Op: &OpSpec{Kind: "get", Dir: "c/", N: n}})
			}
		}
	}
	block()
	// cancel a hook in front of the replacer, run everything again, then cancel more
	p.HCSteps = append(p.HCSteps, HCStep{Kind: "cancel", Hook: rng.Intn(ri)})
	block()
	if late >= 0 {
		p.HCSteps = append(p.HCSteps, HCStep{Kind: "register", Hook: late})
		block()
	}
	if sameObj >= 0 {
		if sc.Hooks[sameObj+1].RegAt == -1 {
			p.HCSteps = append(p.HCSteps, HCStep{Kind: "register", Hook: sameObj + 1})
			block()
		}
		// cancel the handles of the shared object one after the other, in PRNG order
		vlib.Shuffle(rng, sameRegs)
		for _, h := range sameRegs[:len(sameRegs)-1] {
			p.HCSteps = append(p.HCSteps, HCStep{Kind: "cancel", Hook: h})
			block()
		}
	}
	var rest []int
	for i := 0; i < nh; i++ {
		if i != ri && i != di {
			rest = append(rest, i)
		}
	}
	vlib.Shuffle(rng, rest)
	for _, h := range rest {
		if rng.Bool() {
			p.HCSteps = append(p.HCSteps, HCStep{Kind: "cancel", Hook: h})
			block()
			break
		}
	}
	sc.Plan = p
	sc.Writers = []WriterSpec{{ID: 0, Iface: allPriv()}}
	return sc
}
