package main

import (
	"strings"

	"verifharness/internal/vlib"
)

// Scenario generators. Everything is drawn from the per-case PRNG stream.

var (
	dirsAll   = []string{"a/", "a/b/", "c/", "d/"}
	prefixes  = []string{"", "", "a/", "a/", "a/b/", "c/", "a/b", "zz/", "d/", "a/", "c/", ""}
	tags      = []string{"red", "green", "blue", "grey", "black"}
	tagPieces = []string{"re", "g", "bl", "e", "ack", "red", "blue"}
)

func genCond(rng *vlib.Rand, depth int) *Cond {
	if depth > 0 && rng.Chance(35, 100) {
		switch rng.Intn(3) {
		case 0:
			return &Cond{Op: "not", Kids: []Cond{*genCond(rng, depth-1)}}
		case 1:
			return &Cond{Op: "and", Kids: []Cond{*genCond(rng, depth-1), *genCond(rng, depth-1)}}
		default:
			return &Cond{Op: "or", Kids: []Cond{*genCond(rng, depth-1), *genCond(rng, depth-1)}}
		}
	}
	switch rng.Intn(16) {
	case 13, 14, 15:
		// matches: literal-only, with metacharacters, anchored and not; several match
		// a tag (red green blue grey black) only in the middle
		return &Cond{Op: "re", S: vlib.Pick(rng, "re", "ee", "lack", "ue", "r[e]", "e[ey]", "l[ua]", "re[de]", "ack$", "^bl", "^gr(e|a)", "r.e", "^red$", "lu", "gre", "la(c|x)k", "ey")}
	case 8:
		return &Cond{Op: "state", S: vlib.Pick(rng, tags...)}
	case 9:
		return &Cond{Op: "flag", N: rng.Intn(2)}
	case 10:
		return &Cond{Op: "level", N: rng.Intn(9)}
	case 11:
		return &Cond{Op: "ratio", N: rng.Intn(100)}
	case 12:
		return genInCond(rng, rng.Range(2, 30))
	case 0:
		return &Cond{Op: "gt", N: rng.Intn(100)}
	case 1:
		return &Cond{Op: "lt", N: rng.Intn(100)}
	case 2:
		return &Cond{Op: "ge", N: rng.Intn(100)}
	case 3:
		return &Cond{Op: "le", N: rng.Intn(100)}
	case 4:
		return &Cond{Op: "eq", N: rng.Intn(10) * 10}
	case 5:
		return &Cond{Op: "tag", S: vlib.Pick(rng, tags...)}
	case 6:
		return &Cond{Op: "pre", S: vlib.Pick(rng, tagPieces...)}
	default:
		return &Cond{Op: "con", S: vlib.Pick(rng, tagPieces...)}
	}
}

func genScore(rng *vlib.Rand) int {
	if rng.Chance(1, 4) {
		return rng.Intn(10) * 10
	}
	return rng.Intn(100)
}

func genIface(rng *vlib.Rand) IfaceSpec {
	sp := IfaceSpec{Local: true, Internal: true}
	if rng.Chance(40, 100) {
		sp.Local, sp.Internal = rng.Bool(), rng.Bool()
	}
	sp.Secret = rng.Chance(10, 100)
	sp.Crown = rng.Chance(10, 100)
	if rng.Chance(20, 100) {
		sp.Cache = 64
	}
	return sp
}

func genBackend(rng *vlib.Rand, sc *Scenario) {
	switch x := rng.Intn(100); {
	case x < 35:
		sc.Backend, sc.Shadow = "hashmap", rng.Bool()
	case x < 65:
		sc.Backend, sc.Shadow = "bbolt", rng.Bool()
	case x < 85:
		sc.Backend = "injected"
		sc.InjectLate = rng.Bool()
	default:
		sc.Backend = "injmap"
		sc.Reentrant = rng.Bool()
	}
}

func pickKind(rng *vlib.Rand, kinds []string, weights []int) string {
	tot := 0
	for _, w := range weights {
		tot += w
	}
	x := rng.Intn(tot)
	for i, w := range weights {
		if x < w {
			return kinds[i]
		}
		x -= w
	}
	return kinds[0]
}

func genWriteOp(rng *vlib.Rand, backend string, dirs []string, nkeys int) OpSpec {
	var kind string
	switch backend {
	case "injected":
		kind = pickKind(rng, []string{"push", "put", "secret", "insert", "del", "crown", "expiry", "putdel", "pushdel", "pushexp"}, []int{40, 25, 5, 8, 3, 4, 4, 1, 8, 4})
	case "injmap":
		kind = pickKind(rng, []string{"push", "put", "putnew", "del", "putdel", "secret", "crown", "insert", "expiry", "pushdel", "pushexp"}, []int{20, 30, 5, 12, 8, 5, 4, 6, 5, 7, 3})
	default:
		kind = pickKind(rng, []string{"put", "putnew", "del", "putdel", "secret", "crown", "insert", "expiry"}, []int{46, 8, 12, 8, 6, 5, 8, 7})
	}
	op := OpSpec{Kind: kind, Dir: vlib.Pick(rng, dirs...), N: rng.Intn(nkeys)}
	if rng.Chance(7, 100) {
		// a wrapped record (what API clients write) in one of the dsd formats, on keys
		// of its own (a re-put would load a record whose token cannot be read back)
		kind = "putwrap"
		op.Kind, op.N = kind, 50+rng.Intn(4)
		op.Format = vlib.Pick(rng, "json", "cbor", "msgpack", "yaml", "raw", "gencode", "empty")
	}
	switch kind {
	case "put", "putnew", "push", "putdel", "putwrap", "pushdel", "pushexp":
		op.Score, op.Tag = genScore(rng), vlib.Pick(rng, tags...)
		op.PreSecret = rng.Chance(8, 100)
		op.PreCrown = rng.Chance(8, 100)
	}
	return op
}

func genSubs(rng *vlib.Rand, id int) Scenario {
	sc := Scenario{ID: id, Class: "subs"}
	genBackend(rng, &sc)
	nw := rng.Range(1, 4)
	maxOps := 700 / nw
	if maxOps > 200 {
		maxOps = 200
	}
	if sc.Backend == "bbolt" && maxOps > 70 {
		maxOps = 70
	}
	total := 0
	for w := 0; w < nw; w++ {
		ws := WriterSpec{ID: w, Iface: genIface(rng)}
		if sc.Backend == "injected" || sc.Backend == "injmap" {
			// PushUpdate bypasses the interface: a cache would serve records the
			// provider has replaced since (documented cache caveat), and the model's
			// "one interface per key" assumption would not hold
			ws.Iface.Cache = 0
		}
		n := rng.Range(40, maxOps)
		nkeys := rng.Range(2, 6)
		for i := 0; i < n; i++ {
			ws.Ops = append(ws.Ops, genWriteOp(rng, sc.Backend, dirsAll, nkeys))
		}
		total += n
		sc.Writers = append(sc.Writers, ws)
	}
	ns := rng.Range(1, 6)
	for i := 0; i < ns; i++ {
		ss := SubSpec{ID: i, Prefix: vlib.Pick(rng, prefixes...), Local: true, Internal: true, ShareWith: -1, CancelAt: -1}
		if rng.Chance(50, 100) {
			ss.Cond = genCond(rng, 2)
		}
		if rng.Chance(60, 100) {
			ss.Local, ss.Internal = rng.Bool(), rng.Bool()
		}
		if i > 0 && rng.Chance(15, 100) {
			o := sc.Subs[rng.Intn(i)]
			for o.ShareWith >= 0 {
				o = sc.Subs[o.ShareWith]
			}
			ss.ShareWith, ss.Prefix, ss.Cond = o.ID, o.Prefix, o.Cond
		}
		if rng.Chance(40, 100) {
			ss.SubAt = rng.Range(1, total-1)
		}
		switch x := rng.Intn(100); {
		case x < 35:
			ss.CancelAt = rng.Range(ss.SubAt+1, total)
			ss.DoubleCancel = rng.Chance(25, 100)
		case x < 70:
			ss.CancelAt = -1
			ss.DoubleCancel = rng.Chance(25, 100)
		default:
			ss.CancelAt = -2
		}
		ss.DrainAtEnd = rng.Chance(25, 100)
		sc.Subs = append(sc.Subs, ss)
	}
	if rng.Chance(60, 100) {
		sc.Delay = Delay{Mode: "jitter", Seed: rng.Uint64(), Prob: rng.Range(10, 60), MaxU: rng.Range(1, 200)}
	} else {
		sc.Delay = Delay{Mode: "idle"}
	}
	return sc
}

func allPriv() IfaceSpec { return IfaceSpec{Local: true, Internal: true} }

func genPair(rng *vlib.Rand, id int) Scenario {
	sc := Scenario{ID: id, Class: "pair", Delay: Delay{Mode: "park"}}
	genBackend(rng, &sc)
	p := &PlanSpec{Template: vlib.Pick(rng, "A", "B", "C", "D", "E"), Warm: rng.Range(1, 4), During: rng.Range(0, 3), After: rng.Range(1, 3),
		OtherSubs: rng.Range(0, 2), TargetPriv: 3, MatchOther: rng.Bool()}
	if sc.Backend == "injected" {
		// (a delete fails on the runtime registry before it reaches the yield point)
		p.ParkedOp = vlib.Pick(rng, "put", "put", "secret")
	} else {
		p.ParkedOp = vlib.Pick(rng, "put", "put", "put", "del", "secret", "insert")
	}
	if p.Template != "E" {
		p.Double = rng.Chance(30, 100)
	}
	if rng.Chance(30, 100) {
		p.TargetPriv = rng.Intn(4)
	}
	p.TargetCond = rng.Chance(30, 100)
	sc.Plan = p
	const parkedN = 100
	w0 := WriterSpec{ID: 0, Iface: allPriv()}
	w0.Ops = append(w0.Ops, OpSpec{Kind: "put", Dir: "a/", N: parkedN, Score: genScore(rng), Tag: vlib.Pick(rng, tags...)})
	for i := 1; i < p.Warm; i++ {
		w0.Ops = append(w0.Ops, OpSpec{Kind: "put", Dir: vlib.Pick(rng, "a/", "a/b/"), N: rng.Intn(4), Score: genScore(rng), Tag: vlib.Pick(rng, tags...)})
	}
	parked := OpSpec{Kind: p.ParkedOp, Dir: "a/", N: parkedN}
	if p.ParkedOp == "put" {
		parked.Score, parked.Tag = genScore(rng), vlib.Pick(rng, tags...)
	}
	w0.Ops = append(w0.Ops, parked)
	for i := 0; i < p.After; i++ {
		w0.Ops = append(w0.Ops, OpSpec{Kind: "put", Dir: vlib.Pick(rng, "a/", "a/b/"), N: rng.Intn(4), Score: genScore(rng), Tag: vlib.Pick(rng, tags...)})
	}
	w1 := WriterSpec{ID: 1, Iface: allPriv()}
	for i := 0; i < p.During; i++ {
		w1.Ops = append(w1.Ops, OpSpec{Kind: "put", Dir: vlib.Pick(rng, "a/", "a/b/"), N: rng.Intn(4), Score: genScore(rng), Tag: vlib.Pick(rng, tags...)})
	}
	sc.Writers = []WriterSpec{w0, w1}
	t := SubSpec{ID: 0, Prefix: vlib.Pick(rng, "a/", "a/", ""), Local: p.TargetPriv&1 != 0, Internal: p.TargetPriv&2 != 0, ShareWith: -1, CancelAt: -1}
	if p.TargetCond {
		t.Cond = genCond(rng, 1)
	}
	t.DrainAtEnd = rng.Chance(25, 100)
	sc.Subs = append(sc.Subs, t)
	for i := 0; i < p.OtherSubs; i++ {
		o := SubSpec{ID: i + 1, Prefix: vlib.Pick(rng, "", "a/", "a/b/"), Local: true, Internal: true, ShareWith: -1, CancelAt: vlib.Pick(rng, -1, -2)}
		if !p.MatchOther {
			o.Prefix = "a/b/"
		}
		sc.Subs = append(sc.Subs, o)
	}
	return sc
}

func genShared(rng *vlib.Rand, id int) Scenario {
	sc := Scenario{ID: id, Class: "shared", Delay: Delay{Mode: "idle"}}
	genBackend(rng, &sc)
	p := &PlanSpec{Template: vlib.Pick(rng, "S1", "S2", "S3", "S4"), Warm: rng.Range(1, 3), During: rng.Range(1, 3), After: rng.Range(0, 2), OtherSubs: rng.Range(0, 1)}
	sc.Plan = p
	w0 := WriterSpec{ID: 0, Iface: allPriv()}
	kind := "put"
	if (sc.Backend == "injected" || sc.Backend == "injmap") && rng.Bool() {
		kind = "push"
	}
	for i := 0; i < p.Warm+p.During+p.After; i++ {
		w0.Ops = append(w0.Ops, OpSpec{Kind: kind, Dir: vlib.Pick(rng, "a/", "a/b/"), N: rng.Intn(4), Score: genScore(rng), Tag: vlib.Pick(rng, tags...)})
	}
	sc.Writers = []WriterSpec{w0}
	a := SubSpec{ID: 0, Prefix: vlib.Pick(rng, "a/", ""), Local: true, Internal: true, ShareWith: -1, CancelAt: -1}
	if rng.Chance(30, 100) {
		a.Cond = genCond(rng, 1)
	}
	b := a
	b.ID, b.ShareWith = 1, 0
	if rng.Chance(30, 100) {
		b.Local = false
	}
	if p.Template == "S4" {
		a.CancelAt = -2
	}
	sc.Subs = []SubSpec{a, b}
	for i := 0; i < p.OtherSubs; i++ {
		sc.Subs = append(sc.Subs, SubSpec{ID: 2 + i, Prefix: a.Prefix, Cond: a.Cond, Local: true, Internal: true, ShareWith: -1, CancelAt: vlib.Pick(rng, -1, -2)})
	}
	return sc
}

// genHooksDirected: records are stored first, then a hook that vetoes in PrePut is
// registered, then the stored records are deleted / modified / re-put: the
// load-modify-put operations meet a veto by construction.
// genModIface: options of the interface the load-modify-put operations of a hooks-class
// worker use (always local+internal, no cache).
func genModIface(rng *vlib.Rand, pct int) IfaceSpec {
	sp := allPriv()
	if !rng.Chance(pct, 100) {
		return sp
	}
	for n := rng.Range(1, 2); n > 0; n-- {
		switch rng.Intn(4) {
		case 0:
			sp.Secret = true
		case 1:
			sp.Crown = true
		case 2:
			sp.AbsExp = 2000000
		default:
			sp.RelExp = 3000000
		}
	}
	return sp
}

func genHooksDirected(rng *vlib.Rand, id int) Scenario {
	sc := Scenario{ID: id, Class: "hooks", Delay: Delay{Mode: "idle"}}
	switch x := rng.Intn(100); {
	case x < 55:
		sc.Backend, sc.Shadow = "hashmap", rng.Bool()
	case x < 85:
		// runtime registry: like hashmap its provider hands out the stored object
		sc.Backend, sc.InjectLate = "injected", rng.Bool()
	default:
		sc.Backend = "bbolt"
	}
	ws := WriterSpec{ID: 0, Iface: genModIface(rng, 85)}
	const nk = 6
	for n := 0; n < nk; n++ {
		ws.Ops = append(ws.Ops, OpSpec{Kind: "put", Dir: "a/", N: n, Score: genScore(rng), Tag: vlib.Pick(rng, tags...)})
	}
	m := rng.Range(20, 40)
	for i := 0; i < m; i++ {
		op := OpSpec{Kind: pickKind(rng, []string{"del", "secret", "crown", "expiry", "relexpiry", "insert", "get", "put"}, []int{22, 12, 12, 10, 10, 14, 8, 12}), Dir: "a/", N: rng.Intn(nk)}
		if op.Kind == "insert" && sc.Backend == "injected" {
			// a vetoed InsertValue changes a live stored object: the known finding
			// C14-insertvalue-veto-hashmap, same cause; not repeated per backend
			op.Kind = "secret"
		}
		if op.Kind == "put" {
			op.Score, op.Tag = genScore(rng), vlib.Pick(rng, tags...)
		}
		ws.Ops = append(ws.Ops, op)
	}
	sc.Writers = []WriterSpec{ws}
	h0 := HookSpec{ID: 0, Prefix: vlib.Pick(rng, "", "a/"), PrePut: true, PreGet: rng.Bool(), PostGet: rng.Bool(), VetoPhase: "preput", VetoMod: 2, VetoRem: rng.Intn(2),
		ShareWith: -1, RegAt: nk, CancelAt: vlib.Pick(rng, -1, -2)}
	sc.Hooks = append(sc.Hooks, h0)
	if rng.Bool() {
		h1 := HookSpec{ID: 1, Prefix: "a/", PreGet: rng.Bool(), PostGet: true, PrePut: rng.Bool(), ShareWith: -1, RegAt: rng.Range(nk, nk+m-1), CancelAt: -1}
		if rng.Bool() {
			h1.Cond = genCond(rng, 1)
		}
		sc.Hooks = append(sc.Hooks, h1)
	}
	return sc
}

// genHookPark: template HP (see hrun.runPark).
func genHookPark(rng *vlib.Rand, id int) Scenario {
	sc := Scenario{ID: id, Class: "hooks", Delay: Delay{Mode: "hook-park"}}
	switch x := rng.Intn(100); {
	case x < 60:
		sc.Backend, sc.Shadow = "hashmap", rng.Bool()
	case x < 80:
		sc.Backend = "injected"
	default:
		sc.Backend = "bbolt"
	}
	const nk = 4
	ws := WriterSpec{ID: 0, Iface: allPriv()}
	for n := 0; n < nk; n++ {
		ws.Ops = append(ws.Ops, OpSpec{Kind: "put", Dir: "a/", N: n, Score: genScore(rng), Tag: vlib.Pick(rng, tags...)})
	}
	sc.Writers = []WriterSpec{ws}
	sc.Hooks = append(sc.Hooks, HookSpec{ID: 0, Prefix: "", PreGet: true, PostGet: true, PrePut: true, ShareWith: -1, CancelAt: -2})
	nt := rng.Range(2, 5)
	for i := 1; i <= nt; i++ {
		hs := HookSpec{ID: i, Prefix: vlib.Pick(rng, "", "a/"), PreGet: true, PostGet: true, PrePut: true, ShareWith: -1, CancelAt: -2}
		if rng.Chance(20, 100) {
			hs.PreGet, hs.PostGet, hs.PrePut = rng.Bool(), true, rng.Bool()
		}
		sc.Hooks = append(sc.Hooks, hs)
	}
	p := &PlanSpec{Template: "HP"}
	targets := make([]int, nt)
	for i := range targets {
		targets[i] = i + 1
	}
	vlib.Shuffle(rng, targets)
	for _, t := range targets {
		p.HPRounds = append(p.HPRounds, HPRound{Phase: vlib.Pick(rng, "preget", "postget", "preput", "preput"), Target: t, N: rng.Intn(nk)})
	}
	sc.Plan = p
	return sc
}

func genHooks(rng *vlib.Rand, id int) Scenario {
	switch x := rng.Intn(100); {
	case x < 25:
		return genHooksDirected(rng, id)
	case x < 45:
		return genHookPark(rng, id)
	case x < 65:
		return genHookChain(rng, id)
	}
	sc := Scenario{ID: id, Class: "hooks", Delay: Delay{Mode: "idle"}}
	if rng.Chance(60, 100) {
		sc.Backend, sc.Shadow = "hashmap", rng.Bool()
	} else {
		sc.Backend = "bbolt"
	}
	nw := rng.Range(1, 3)
	total := 0
	dirs := []string{"a/", "a/b/", "c/"}
	for w := 0; w < nw; w++ {
		ws := WriterSpec{ID: w, Iface: genModIface(rng, 30)}
		n := rng.Range(30, 80)
		if sc.Backend == "bbolt" {
			n = rng.Range(20, 40)
		}
		for i := 0; i < n; i++ {
			op := OpSpec{Kind: pickKind(rng, []string{"get", "put", "del", "secret", "crown", "insert", "expiry", "relexpiry", "putexp"}, []int{35, 32, 13, 4, 3, 6, 2, 2, 3}), Dir: vlib.Pick(rng, dirs...), N: rng.Intn(8)}
			if op.Kind == "put" || op.Kind == "putexp" {
				op.Score, op.Tag = genScore(rng), vlib.Pick(rng, tags...)
			}
			ws.Ops = append(ws.Ops, op)
		}
		total += n
		sc.Writers = append(sc.Writers, ws)
	}
	nh := rng.Range(1, 4)
	for i := 0; i < nh; i++ {
		hs := HookSpec{ID: i, Prefix: vlib.Pick(rng, "", "a/", "a/b/", "c/", "zz/", "a/"), ShareWith: -1, CancelAt: -1}
		if rng.Chance(40, 100) {
			hs.Cond = genCond(rng, 1)
		}
		if !rng.Chance(10, 100) {
			for !hs.PreGet && !hs.PostGet && !hs.PrePut {
				hs.PreGet, hs.PostGet, hs.PrePut = rng.Bool(), rng.Bool(), rng.Bool()
			}
		}
		var declared, declaredRec []string
		if hs.PreGet {
			declared = append(declared, "preget")
		}
		if hs.PostGet {
			declared, declaredRec = append(declared, "postget"), append(declaredRec, "postget")
		}
		if hs.PrePut {
			declared, declaredRec = append(declared, "preput"), append(declaredRec, "preput")
		}
		if rng.Chance(35, 100) {
			// mostly a phase the hook declares (a veto in an undeclared phase is never consulted)
			if len(declared) > 0 && rng.Chance(85, 100) {
				hs.VetoPhase = vlib.Pick(rng, declared...)
			} else {
				hs.VetoPhase = vlib.Pick(rng, "preget", "postget", "preput")
			}
			hs.VetoMod = rng.Range(2, 4)
			hs.VetoRem = rng.Intn(hs.VetoMod)
		}
		if rng.Chance(40, 100) {
			if len(declaredRec) > 0 && rng.Chance(85, 100) {
				hs.ReplPhase = vlib.Pick(rng, declaredRec...)
			} else {
				hs.ReplPhase = vlib.Pick(rng, "postget", "preput")
			}
			hs.ReplMod = rng.Range(2, 3)
			hs.ReplRem = rng.Intn(hs.ReplMod)
		}
		if i > 0 && rng.Chance(15, 100) {
			o := sc.Hooks[rng.Intn(i)]
			for o.ShareWith >= 0 {
				o = sc.Hooks[o.ShareWith]
			}
			hs.ShareWith, hs.Prefix, hs.Cond = o.ID, o.Prefix, o.Cond
		}
		if rng.Chance(30, 100) {
			hs.RegAt = rng.Range(1, total-1)
		}
		switch x := rng.Intn(100); {
		case x < 40:
			hs.CancelAt = rng.Range(hs.RegAt+1, total)
			hs.DoubleCancel = rng.Chance(25, 100)
		case x < 80:
			hs.CancelAt = -1
			hs.DoubleCancel = rng.Chance(25, 100)
		default:
			hs.CancelAt = -2
		}
		sc.Hooks = append(sc.Hooks, hs)
	}
	return sc
}

// genInCond: Tag in (<1-3 real tags>, fillers...) with n values in total.
func genInCond(rng *vlib.Rand, n int) *Cond {
	ts := append([]string(nil), tags...)
	vlib.Shuffle(rng, ts)
	k := rng.Range(1, 3)
	if n < k {
		n = k
	}
	return &Cond{Op: "in", S: strings.Join(ts[:k], ","), N: n}
}
