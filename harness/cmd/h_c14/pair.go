package main

import (
	"sync"
)

// Classes "pair" and "shared": fixed templates executed by a director goroutine.
//
// pair — the pairwise ordering plans of DESIGN §3.5 at the two yield points
// db.put.prenotify (Controller.Put, between the storage write and notifySubscribers)
// and db.sub.cancel (Subscription.Cancel, before it takes subscriptionLock): one
// goroutine is parked at a point while another one completes the conflicting
// operation. Layout of the spec: Writers[0].Ops = warm-up writes, the parked write,
// the writes after the plan; Writers[1].Ops = complete writes performed while the
// other goroutine is parked; Subs[0] = the target subscription, the rest bystanders.
//
// shared — Subs[0] and Subs[1] are created from the same *query.Query object.

func runPlan(w *world, sc *Scenario) *run {
	r := newRun(w, sc)
	w.parks = newParkSet()
	installHooks(w)
	p := sc.Plan
	w0 := r.writers[0]
	var w1 *writerRun
	if len(r.writers) > 1 {
		w1 = r.writers[1]
	}
	next := 0
	doW0 := func(n int) {
		for i := 0; i < n && next < len(w0.spec.Ops); i++ {
			w0.do(r, &w0.spec.Ops[next])
			next++
		}
	}
	during := func() {
		if w1 == nil {
			return
		}
		for i := range w1.spec.Ops {
			w1.do(r, &w1.spec.Ops[i])
		}
	}
	subscribeAll := func(from int) {
		for i := from; i < len(r.subs); i++ {
			if r.subs[i].subscribe(r) && !r.subs[i].spec.DrainAtEnd {
				r.subs[i].startReader()
			}
		}
	}
	target := r.subs[0]

	switch sc.Class {
	case "pair":
		parkedKey := ""
		if p.Warm < len(w0.spec.Ops) {
			parkedKey = w.db + ":" + keyOf(0, &w0.spec.Ops[p.Warm])
		}
		var wg sync.WaitGroup
		var writeDone chan struct{}
		parkedWrite := func() {
			wg.Add(1)
			op := &w0.spec.Ops[next]
			next++
			done := make(chan struct{})
			writeDone = done
			go func() { defer wg.Done(); defer close(done); w0.do(r, op) }()
		}
		asyncCancel := func() {
			wg.Add(1)
			go func() { defer wg.Done(); target.cancel() }()
		}
		bail := func(pk ...*park) {
			for _, x := range pk {
				close(x.release)
			}
			wg.Wait()
		}
		// degenerate: the write finished without passing db.put.prenotify (an operation
		// that succeeded without notifying, or one that failed early). The plan cannot
		// be forced; the rest of the history is executed unparked and judged as usual.
		bypassed := false
		degenerate := func() {
			bypassed = true
			w.parks.note("bypassed")
			if p.Template == "E" {
				if target.subscribe(r) {
					target.startReader()
				}
			} else if target.CancelCall == 0 {
				target.cancel()
			}
			during()
			doW0(p.After)
		}
		switch p.Template {
		case "A": // Cancel completes while a writer is parked before notifying
			subscribeAll(0)
			doW0(p.Warm)
			pw := w.parks.arm("db.put.prenotify", parkedKey, "writer")
			parkedWrite()
			if ok, skipped := pw.waitReachedOr(writeDone, watchdog); !ok {
				bail(pw)
				if skipped {
					degenerate()
				} else {
					r.inconclusive("yield point db.put.prenotify was not reached")
				}
				break
			}
			target.cancel()
			w.parks.note("cancel-done")
			during()
			close(pw.release)
			wg.Wait()
			doW0(p.After)
		case "B": // a writer completes while Cancel is parked before taking the lock
			subscribeAll(0)
			doW0(p.Warm)
			pc := w.parks.arm("db.sub.cancel", "", "canceller")
			asyncCancel()
			if !pc.waitReached(watchdog) {
				r.inconclusive("yield point db.sub.cancel was not reached")
				bail(pc)
				break
			}
			doW0(1)
			w.parks.note("write-done")
			during()
			close(pc.release)
			wg.Wait()
			doW0(p.After)
		case "C", "D": // both parked; C releases the canceller first, D the writer
			subscribeAll(0)
			doW0(p.Warm)
			pw := w.parks.arm("db.put.prenotify", parkedKey, "writer")
			pc := w.parks.arm("db.sub.cancel", "", "canceller")
			parkedWrite()
			if ok, skipped := pw.waitReachedOr(writeDone, watchdog); !ok {
				bail(pw, pc)
				if skipped {
					degenerate()
				} else {
					r.inconclusive("yield point db.put.prenotify was not reached")
				}
				break
			}
			asyncCancel()
			if !pc.waitReached(watchdog) {
				r.inconclusive("yield point db.sub.cancel was not reached")
				bail(pw, pc)
				break
			}
			first, second := pc, pw
			if p.Template == "D" {
				first, second = pw, pc
			}
			close(first.release)
			// wait until the released side has finished its operation
			if p.Template == "C" {
				<-target.cancelReturned
			} else {
				<-writeDone
			}
			w.parks.note("first-done")
			during()
			close(second.release)
			wg.Wait()
			doW0(p.After)
		case "E": // Subscribe completes while a writer is parked before notifying
			subscribeAll(1)
			doW0(p.Warm)
			pw := w.parks.arm("db.put.prenotify", parkedKey, "writer")
			parkedWrite()
			if ok, skipped := pw.waitReachedOr(writeDone, watchdog); !ok {
				bail(pw)
				if skipped {
					degenerate()
				} else {
					r.inconclusive("yield point db.put.prenotify was not reached")
				}
				break
			}
			if target.subscribe(r) {
				target.startReader()
			}
			w.parks.note("subscribe-done")
			during()
			close(pw.release)
			wg.Wait()
			doW0(p.After)
		}
		r.bypassed = bypassed
		if p.Double && target.CancelCall != 0 && target.Cancel2Call == 0 {
			target.cancelAgain()
		}
	case "shared":
		a, bb := r.subs[0], r.subs[1]
		subscribeAll(0)
		doW0(p.Warm)
		switch p.Template {
		case "S1": // cancel the second, write, cancel the first, write
			bb.cancel()
			doW0(p.During)
			a.cancel()
			doW0(p.After)
		case "S2": // cancel the first, write, cancel the second, write
			a.cancel()
			doW0(p.During)
			bb.cancel()
			doW0(p.After)
		case "S3": // cancel one of them twice, write
			a.cancel()
			a.cancelAgain()
			doW0(p.During)
			doW0(p.After)
		case "S4": // cancel the second, write; the first stays active
			bb.cancel()
			doW0(p.During)
			doW0(p.After)
		}
	}
	r.gate.finish()
	r.finishSubs()
	return r
}
