package main

import (
	"errors"
	"fmt"
	"strings"
	"sync"
	"sync/atomic"
	"time"

	"github.com/safing/portbase/database"
	"github.com/safing/portbase/database/query"
	"github.com/safing/portbase/database/record"
	"github.com/safing/portbase/formats/dsd"

	"verifharness/internal/vlib"
)

// Class "hooks": harness Hook implementations record every call portbase makes to
// them; workers Get/Put/Delete records on keys they own through an unprivileged-check
// free (local+internal), cache-less interface while a control goroutine registers and
// cancels the hooks. The oracle compares the recorded calls and the results of the
// operations with what the hooks' queries, declared phases and behaviours prescribe.

var errHookVeto = errors.New("c14 hook veto")

type vetoErr struct{ hook int }

func (e *vetoErr) Error() string { return fmt.Sprintf("c14 hook %d veto", e.hook) }
func (e *vetoErr) Unwrap() error { return errHookVeto }

type hookCall struct {
	Seq    uint64 `json:"seq"`
	Hook   int    `json:"hook"`
	Phase  string `json:"phase"`
	Key    string `json:"key"`
	Token  string `json:"token,omitempty"`
	Worker int    `json:"worker"`
	N      int    `json:"n"`
	Veto   bool   `json:"veto,omitempty"`
	Repl   string `json:"repl,omitempty"`
}

type hookRun struct {
	spec HookSpec
	q    *query.Query
	reg  *database.RegisteredHook
	hr   *hrun

	RegCall, RegRet         uint64
	CancelCall, CancelRet   uint64
	Cancel2Call, Cancel2Ret uint64
	RegErr, CancelErr       string
	CancelPanic             string

	park atomic.Pointer[hookPark]
}

// hookPark makes a harness hook block inside its callback: the operation that called
// it is then in the middle of its hook chain (a yield point made of the callback).
type hookPark struct {
	phase   string
	once    sync.Once
	reached chan struct{}
	resume  chan struct{}
}

func (h *hookRun) maybePark(phase string) {
	if pk := h.park.Load(); pk != nil && pk.phase == phase {
		hit := false
		pk.once.Do(func() { hit = true; close(pk.reached) })
		if hit {
			<-pk.resume
		}
	}
}

type rawSnap struct {
	Exists bool   `json:"exists"`
	Token  string `json:"token,omitempty"`
	Secret bool   `json:"secret,omitempty"`
	Crown  bool   `json:"crown,omitempty"`
	Note   string `json:"note,omitempty"`
	// the whole metadata of the stored record
	Created  int64  `json:"created,omitempty"`
	Modified int64  `json:"modified,omitempty"`
	Expires  int64  `json:"expires,omitempty"`
	Deleted  int64  `json:"deleted,omitempty"`
	Err      string `json:"err,omitempty"`
}

type hopRec struct {
	W       int     `json:"w"`
	Idx     int     `json:"i"`
	Kind    string  `json:"k"`
	Key     string  `json:"key"`
	N       int     `json:"n"`
	Call    uint64  `json:"call"`
	Ret     uint64  `json:"ret"`
	Err     string  `json:"err,omitempty"`
	VetoBy  int     `json:"veto_by"`
	OK      bool    `json:"ok"`
	Panic   string  `json:"panic,omitempty"`
	Score   int     `json:"score"`
	Tag     string  `json:"tag,omitempty"`
	Token   string  `json:"token,omitempty"` // put: token of the record handed to Put
	Loaded  bool    `json:"in_storage"`      // model: a record for the key was in storage when the op began
	Deleted bool    `json:"shadow_deleted"`  // model: that record is shadow-deleted
	Got     string  `json:"got_token,omitempty"`
	Before  rawSnap `json:"raw_before"`
	After   rawSnap `json:"raw_after"`
}

type hkeyState struct {
	exists, deleted bool
	score           int
	tag             string
}

type hworker struct {
	spec *WriterSpec
	// mod is the interface the load-modify-put operations go through; it carries the
	// worker's AlwaysMake*/AlwaysSet*Expiry options. Get and Put use the plain one, so
	// the options' side effects are news to a stored record.
	mod   *database.Interface
	keys  map[string]*hkeyState
	ops   []*hopRec
	count int
}

type hrun struct {
	w       *world
	sc      *Scenario
	iface   *database.Interface
	hooks   []*hookRun
	workers []*hworker
	mu      sync.Mutex
	calls   []hookCall
	repls   map[string]record.Record // replacement token -> object
	gate    *gate
	inconcl []string
	// template HP
	parkRounds, cancelWhileParked int
	// template HC
	chainSubs []*subRun
	chainOps  []*chainOp
	// opMu keeps the raw snapshots (storage queries) apart from the operations of the
	// other workers: hashmap's query executor takes storage lock -> record lock while
	// InsertValue/MakeSecret/... take record lock -> storage lock, and the two can
	// deadlock (a backend matter outside C14; see the report). Operations share the
	// lock, a snapshot takes it exclusively.
	opMu sync.RWMutex
}

func parseKeyWN(dbKey string) (w, n int) {
	i := strings.LastIndex(dbKey, "k")
	if i < 0 {
		return -1, -1
	}
	if _, err := fmt.Sscanf(dbKey[i:], "k%d-%d", &w, &n); err != nil {
		return -1, -1
	}
	return w, n
}

func (h *hookRun) vetoes(phase string, n int) bool {
	return h.spec.VetoPhase == phase && h.spec.VetoMod > 0 && n%h.spec.VetoMod == h.spec.VetoRem
}

func (h *hookRun) replaces(phase string, n int) bool {
	return h.spec.ReplPhase == phase && h.spec.ReplMod > 0 && n%h.spec.ReplMod == h.spec.ReplRem
}

func (h *hookRun) rec(c hookCall) {
	h.hr.mu.Lock()
	c.Seq = tick()
	h.hr.calls = append(h.hr.calls, c)
	h.hr.mu.Unlock()
}

// database.Hook implementation -----------------------------------------------------

func (h *hookRun) UsesPreGet() bool  { return h.spec.PreGet }
func (h *hookRun) UsesPostGet() bool { return h.spec.PostGet }
func (h *hookRun) UsesPrePut() bool  { return h.spec.PrePut }

func (h *hookRun) PreGet(dbKey string) error {
	w, n := parseKeyWN(dbKey)
	c := hookCall{Hook: h.spec.ID, Phase: "preget", Key: dbKey, Worker: w, N: n}
	if h.vetoes("preget", n) {
		c.Veto = true
		h.rec(c)
		return &vetoErr{h.spec.ID}
	}
	h.rec(c)
	h.maybePark("preget")
	return nil
}

func (h *hookRun) onRecord(phase string, r record.Record) (record.Record, error) {
	key, token, _, score, tag := ident(r)
	w, n := parseKeyWN(key)
	c := hookCall{Hook: h.spec.ID, Phase: phase, Key: key, Token: token, Worker: w, N: n}
	if h.vetoes(phase, n) {
		c.Veto = true
		h.rec(c)
		return nil, &vetoErr{h.spec.ID}
	}
	// the record is locked by the database system (or, for Delete, only used by the
	// calling goroutine), so its meta may be read here
	if h.replaces(phase, n) && r.Meta() != nil && (!r.Meta().IsDeleted() || (phase == "postget" && h.spec.ReplFreshMeta)) {
		if h.spec.ReplSetTag != "" {
			tag = h.spec.ReplSetTag
		}
		nr := newRec(r.DatabaseName(), key, fmt.Sprintf("R%d.%s", h.spec.ID, token), score+h.spec.ReplAddScore, tag)
		if h.spec.ReplFreshMeta {
			nr.UpdateMeta()
		} else {
			nr.SetMeta(r.Meta().Duplicate())
		}
		if h.spec.ReplSecret {
			nr.Meta().MakeSecret()
		}
		c.Repl = nr.Token
		h.hr.mu.Lock()
		h.hr.repls[nr.Token] = nr
		h.hr.mu.Unlock()
		h.rec(c)
		return nr, nil
	}
	h.rec(c)
	h.maybePark(phase)
	return r, nil
}

func (h *hookRun) PostGet(r record.Record) (record.Record, error) { return h.onRecord("postget", r) }
func (h *hookRun) PrePut(r record.Record) (record.Record, error)  { return h.onRecord("preput", r) }

// -----------------------------------------------------------------------------------

func (h *hookRun) register() {
	h.RegCall = tick()
	err, pnc, _ := guarded(func() error {
		var e error
		h.reg, e = database.RegisterHook(h.q, h.obj())
		return e
	})
	h.RegRet = tick()
	h.RegErr = errString(err) + pnc
}

// obj is the Hook value this registration hands to RegisterHook: normally the entry
// itself, with SameObjAs the object of another entry (one hook object registered
// under several queries). Calls are recorded under the object's id.
func (h *hookRun) obj() *hookRun {
	if k := h.spec.SameObjAs; k > 0 && k-1 < len(h.hr.hooks) {
		return h.hr.hooks[k-1]
	}
	return h
}

func (h *hookRun) cancel() {
	h.CancelCall = tick()
	err, pnc, _ := guarded(h.reg.Cancel)
	h.CancelRet = tick()
	h.CancelErr, h.CancelPanic = errString(err), pnc
}

func (h *hookRun) cancelAgain() {
	h.Cancel2Call = tick()
	_, pnc, _ := guarded(h.reg.Cancel)
	h.Cancel2Ret = tick()
	if pnc != "" {
		h.CancelPanic = pnc
	}
}

func (hr *hrun) waitProgress(n int) { hr.gate.wait(n) }

// raw reads the stored record of one key without passing any hook (Query goes to the
// storage directly).
func (s *rawSnap) fill(r record.Record) {
	s.Note = noteOf(r)
	_, s.Token, _, _, _ = ident(r)
	if m := r.Meta(); m != nil {
		s.Secret, s.Crown = !m.CheckPermission(true, false), !m.CheckPermission(false, true)
		s.Created, s.Modified, s.Expires, s.Deleted = m.Created, m.Modified, m.Expires, m.Deleted
	}
}

func (hr *hrun) raw(key string) rawSnap {
	hr.opMu.Lock()
	defer hr.opMu.Unlock()
	if hr.w.prov != nil {
		// injected runtime database: the harness owns the provider's map
		hr.w.prov.mu.Lock()
		r := hr.w.prov.m[key]
		hr.w.prov.mu.Unlock()
		var s rawSnap
		if r != nil {
			s.fill(r)
			s.Exists = r.Meta().CheckValidity()
		}
		return s
	}
	it, err := hr.iface.Query(query.New(hr.w.db + ":" + key))
	if err != nil {
		return rawSnap{Err: errString(err)}
	}
	var s rawSnap
	for r := range it.Next {
		k, tok, _, _, _ := ident(r)
		if k == key {
			// the key belongs to the calling worker and no operation on it is in
			// progress: meta and Note may be read
			_ = tok
			s.fill(r)
			s.Exists = true
		}
	}
	if e := it.Err(); e != nil {
		s.Err = errString(e)
	}
	return s
}

func (wk *hworker) do(hr *hrun, op *OpSpec) {
	key := keyOf(wk.spec.ID, op)
	full := hr.w.db + ":" + key
	rec := &hopRec{W: wk.spec.ID, Idx: len(wk.ops), Kind: op.Kind, Key: key, N: op.N, VetoBy: -1}
	wk.ops = append(wk.ops, rec)
	st := wk.keys[key]
	if st != nil {
		rec.Loaded, rec.Deleted, rec.Score, rec.Tag = st.exists, st.deleted, st.score, st.tag
	}
	var fn func() error
	after := func() {}
	switch op.Kind {
	case "get":
		fn = func() error {
			r, err := hr.iface.Get(full)
			if err == nil {
				_, rec.Got, _, _, _ = ident(r)
			}
			return err
		}
	case "put", "putexp":
		wk.count++
		nr := newRec(hr.w.db, key, fmt.Sprintf("w%d-%d", wk.spec.ID, wk.count), op.Score, op.Tag)
		rec.Score, rec.Tag, rec.Token = op.Score, op.Tag, nr.Token
		expired := op.Kind == "putexp"
		if expired {
			// stored, but with an absolute expiry that has long passed: still loaded by
			// a Get (and shown to the PostGet hooks) before the validity check
			nr.UpdateMeta()
			nr.Meta().SetAbsoluteExpiry(time.Now().Unix() - 100000)
		}
		fn = func() error { return hr.iface.Put(nr) }
		after = func() { wk.keys[key] = &hkeyState{exists: true, deleted: expired, score: op.Score, tag: op.Tag} }
	case "secret":
		fn = func() error { return wk.mod.MakeSecret(full) }
	case "crown":
		fn = func() error { return wk.mod.MakeCrownJewel(full) }
	case "expiry":
		exp := time.Now().Unix() + 1000000
		fn = func() error { return wk.mod.SetAbsoluteExpiry(full, exp) }
	case "relexpiry":
		fn = func() error { return wk.mod.SetRelativateExpiry(full, 1000000) }
	case "insert":
		note := fmt.Sprintf("n%d", rec.Idx)
		fn = func() error { return wk.mod.InsertValue(full, "Note", note) }
	case "del":
		fn = func() error { return wk.mod.Delete(full) }
		after = func() {
			if st == nil {
				return
			}
			if hr.sc.Shadow {
				st.deleted = true
			} else {
				st.exists = false
			}
		}
	default:
		panic("unknown hook-class op " + op.Kind)
	}
	if op.Kind != "get" {
		rec.Before = hr.raw(key)
	}
	hr.opMu.RLock()
	rec.Call = tick()
	err, pnc, _ := guarded(fn)
	rec.Ret = tick()
	hr.opMu.RUnlock()
	if op.Kind != "get" {
		rec.After = hr.raw(key)
	}
	rec.Err, rec.Panic = errString(err), pnc
	rec.OK = err == nil && pnc == ""
	var ve *vetoErr
	if errors.As(err, &ve) {
		rec.VetoBy = ve.hook
	}
	if rec.OK {
		after()
	}
	hr.gate.add()
}

func runHooks(w *world, sc *Scenario) *hrun {
	hr := &hrun{w: w, sc: sc, gate: newGate(), repls: map[string]record.Record{},
		iface: database.NewInterface(&database.Options{Local: true, Internal: true})}
	installHooks(w)
	for i := range sc.Hooks {
		hs := sc.Hooks[i]
		h := &hookRun{spec: hs, hr: hr}
		if hs.ShareWith >= 0 && hs.ShareWith < i {
			h.q = hr.hooks[hs.ShareWith].q
		} else {
			h.q = buildQuery(w.db, hs.Prefix, hs.Cond)
		}
		hr.hooks = append(hr.hooks, h)
	}
	for i := range sc.Writers {
		ms := sc.Writers[i].Iface
		ms.Local, ms.Internal, ms.Cache = true, true, 0
		hr.workers = append(hr.workers, &hworker{spec: &sc.Writers[i], mod: ms.open(), keys: map[string]*hkeyState{}})
	}
	// hooks with RegAt == 0 are registered, in order, before the first operation
	for _, h := range hr.hooks {
		if h.spec.RegAt == 0 {
			h.register()
		}
	}
	if sc.Plan != nil && sc.Plan.Template == "HP" {
		hr.runPark()
		return hr
	}
	if sc.Plan != nil && sc.Plan.Template == "HC" {
		hr.runChain()
		return hr
	}
	var cwg, wwg sync.WaitGroup
	for _, h := range hr.hooks {
		h := h
		cwg.Add(1)
		go func() {
			defer cwg.Done()
			if h.spec.RegAt != 0 {
				hr.waitProgress(h.spec.RegAt)
				h.register()
			}
			if h.reg != nil && h.spec.CancelAt >= 0 {
				hr.waitProgress(h.spec.CancelAt)
				h.cancel()
				if h.spec.DoubleCancel {
					h.cancelAgain()
				}
			}
		}()
	}
	for _, wk := range hr.workers {
		wk := wk
		wwg.Add(1)
		go func() {
			defer wwg.Done()
			for i := range wk.spec.Ops {
				wk.do(hr, &wk.spec.Ops[i])
			}
		}()
	}
	wwg.Wait()
	hr.gate.finish()
	cwg.Wait()
	// epilogue: cancel what is to be cancelled at the end, then one more round of
	// operations on every key: a cancelled hook must not see any of them
	for _, h := range hr.hooks {
		if h.reg != nil && h.CancelCall == 0 && h.spec.CancelAt != -2 {
			h.cancel()
			if h.spec.DoubleCancel {
				h.cancelAgain()
			}
		}
	}
	for _, wk := range hr.workers {
		seen := map[string]bool{}
		n := len(wk.spec.Ops)
		for i := 0; i < n; i++ {
			op := wk.spec.Ops[i]
			k := keyOf(wk.spec.ID, &op)
			if seen[k] {
				continue
			}
			seen[k] = true
			g := OpSpec{Kind: "get", Dir: op.Dir, N: op.N}
			wk.do(hr, &g)
			p := OpSpec{Kind: "put", Dir: op.Dir, N: op.N, Score: op.Score, Tag: op.Tag}
			wk.do(hr, &p)
		}
	}
	// leave no hook behind (other scenarios use other databases, but keep it tidy)
	for _, h := range hr.hooks {
		if h.reg != nil && h.CancelCall == 0 {
			h.cancel()
		}
	}
	return hr
}

// -----------------------------------------------------------------------------------
// oracle

func (h *hookRun) shareClass() string {
	for _, o := range h.hr.hooks {
		if o != h && o.q == h.q {
			return "shared-query"
		}
	}
	return "own-query"
}

var phaseRank = map[string]int{"preget": 0, "postget": 1, "preput": 2}

func (hr *hrun) witness(extra map[string]any) map[string]any {
	var hs []map[string]any
	for _, h := range hr.hooks {
		hs = append(hs, map[string]any{"id": h.spec.ID, "query": h.q.Print(), "share_class": h.shareClass(), "register_call": h.RegCall, "register_ret": h.RegRet,
			"cancel_call": h.CancelCall, "cancel_ret": h.CancelRet, "cancel2_call": h.Cancel2Call, "cancel2_ret": h.Cancel2Ret, "cancel_panic": h.CancelPanic})
	}
	d := map[string]any{"scenario": hr.sc, "db": hr.w.db, "hooks": hs}
	for k, v := range extra {
		d[k] = v
	}
	return d
}

func (hr *hrun) judge(b *vlib.Batch) {
	sc := hr.sc
	if sc.Plan != nil && sc.Plan.Template == "HC" {
		hr.judgeChain(b)
		return
	}
	for _, m := range hr.inconcl {
		b.Inconclusive("scenario %d (hooks): %s", sc.ID, m)
	}
	for _, h := range hr.hooks {
		share := h.shareClass()
		if h.RegErr != "" {
			b.Violation("C14:hook-register-failed:"+share, "RegisterHook with a valid query failed: "+h.RegErr, hr.witness(nil))
		}
		if h.CancelPanic != "" {
			b.Violation("C14:panic:"+panicClass(h.CancelPanic)+":hook-cancel:"+share, "RegisteredHook.Cancel panicked: "+h.CancelPanic, hr.witness(nil))
		}
		if h.CancelErr != "" {
			b.Violation("C14:hook-cancel-error:"+share, "RegisteredHook.Cancel returned an error: "+h.CancelErr, hr.witness(nil))
		}
		if h.reg != nil {
			b.Count("hooks_registered", 1)
			b.Seen("hook_phases", fmt.Sprintf("preget=%v,postget=%v,preput=%v", h.spec.PreGet, h.spec.PostGet, h.spec.PrePut))
		}
		if h.CancelCall != 0 {
			b.Count("hook_cancels", 1)
		}
	}
	// calls per worker, in sequence order
	callsOf := map[int][]hookCall{}
	for _, c := range hr.calls {
		callsOf[c.Worker] = append(callsOf[c.Worker], c)
	}
	b.Count("hook_calls", int64(len(hr.calls)))
	hookByID := map[int]*hookRun{}
	for _, h := range hr.hooks {
		hookByID[h.spec.ID] = h
	}
	type hp struct {
		hook  int
		phase string
	}
	for _, wk := range hr.workers {
		cs := callsOf[wk.spec.ID]
		ci := 0
		for _, op := range wk.ops {
			b.Count("hookop_"+op.Kind, 1)
			if op.Panic != "" {
				b.Violation("C14:panic:"+panicClass(op.Panic)+":hook-"+op.Kind, "operation panicked: "+op.Panic, hr.witness(map[string]any{"op": op}))
			}
			// calls made during this op
			var obs []hookCall
			for ci < len(cs) && cs[ci].Seq < op.Call {
				// a call outside any operation of its worker cannot happen (hooks are
				// called synchronously); the raw snapshots use Query, which runs no hooks
				b.Violation("C14:hook-unexpected-call:"+cs[ci].Phase+":outside-operation", "a hook was called although no get/put operation on that key was in progress",
					hr.witness(map[string]any{"call": cs[ci]}))
				ci++
			}
			for ci < len(cs) && cs[ci].Seq < op.Ret {
				obs = append(obs, cs[ci])
				ci++
			}
			// which (hook, phase) pairs apply to this op
			phases := []string{}
			switch op.Kind {
			case "get":
				phases = []string{"preget", "postget"}
			case "put", "putexp":
				phases = []string{"preput"}
			default: // load-modify-put: del secret crown expiry relexpiry insert
				phases = []string{"preget", "postget", "preput"}
			}
			mandatory := map[hp]bool{}
			allowed := map[hp]bool{}
			for _, h := range hr.hooks {
				if h.reg == nil {
					continue
				}
				active := h.RegRet < op.Call && (h.CancelCall == 0 || op.Ret < h.CancelCall)
				inactive := op.Ret < h.RegCall || (h.CancelRet != 0 && h.CancelPanic == "" && op.Call > h.CancelRet)
				if inactive {
					continue
				}
				for _, ph := range phases {
					applies := false
					optional := false
					switch ph {
					case "preget":
						applies = h.spec.PreGet && strings.HasPrefix(op.Key, h.spec.Prefix)
					case "postget":
						applies = h.spec.PostGet && op.Loaded && strings.HasPrefix(op.Key, h.spec.Prefix) && h.spec.Cond.eval(op.Score, op.Tag)
						// a shadow-deleted or expired record is still loaded and shown
						// to the PostGet hooks; the validity check comes after them
					case "preput":
						applies = h.spec.PrePut && strings.HasPrefix(op.Key, h.spec.Prefix) && h.spec.Cond.eval(op.Score, op.Tag)
						if op.Kind != "put" && op.Kind != "putexp" {
							applies = applies && op.Loaded && !op.Deleted
						}
					}
					if !applies {
						continue
					}
					allowed[hp{h.spec.ID, ph}] = true
					if active && !optional {
						mandatory[hp{h.spec.ID, ph}] = true
					}
				}
			}
			// how far did the operation get? a veto in phase P ends it there
			reached := 2
			var vetoCall *hookCall
			for i := range obs {
				if obs[i].Veto && obs[i].Hook == op.VetoBy {
					vetoCall = &obs[i]
					reached = phaseRank[obs[i].Phase]
				}
			}
			if !op.OK && op.VetoBy < 0 && op.Kind != "get" && op.Kind != "put" && op.Kind != "putexp" {
				reached = 1 // a load-modify-put that failed without veto did not come to the put part
			}
			seen := map[hp]int{}
			for _, c := range obs {
				h := hookByID[c.Hook]
				k := hp{c.Hook, c.Phase}
				seen[k]++
				share := "own-query"
				if h != nil {
					share = h.shareClass()
				}
				switch {
				case h == nil:
				case h.CancelRet != 0 && h.CancelPanic == "" && c.Seq > h.CancelRet:
					b.Violation("C14:hook-called-after-cancel:"+c.Phase+":"+share,
						fmt.Sprintf("hook %d was called (%s, seq %d) after its Cancel had returned (seq %d)", c.Hook, c.Phase, c.Seq, h.CancelRet),
						hr.witness(map[string]any{"call": c, "op": op}))
				case c.Seq < h.RegCall:
					b.Violation("C14:hook-called-before-register:"+c.Phase+":"+share, "hook was called before it was registered", hr.witness(map[string]any{"call": c, "op": op}))
				case !allowed[k]:
					reason := "record-mismatch"
					switch {
					case (c.Phase == "preget" && !h.spec.PreGet) || (c.Phase == "postget" && !h.spec.PostGet) || (c.Phase == "preput" && !h.spec.PrePut):
						reason = "undeclared-phase"
					case !strings.HasPrefix(c.Key, h.spec.Prefix):
						reason = "key-mismatch"
					case c.Phase == "postget" && !op.Loaded:
						reason = "no-record"
					case ((op.Kind == "put" || op.Kind == "putexp") && c.Phase != "preput") || (op.Kind == "get" && c.Phase == "preput"):
						reason = "wrong-operation"
					}
					b.Violation("C14:hook-unexpected-call:"+c.Phase+":"+reason+":"+share,
						fmt.Sprintf("hook %d was called in phase %s for %s of key %s, which its registration does not cover (%s)", c.Hook, c.Phase, op.Kind, op.Key, reason),
						hr.witness(map[string]any{"call": c, "op": op, "calls_during_op": obs}))
				case seen[k] > 1:
					b.Violation("C14:hook-duplicate-call:"+c.Phase+":"+share, "hook was called twice in one phase of one operation",
						hr.witness(map[string]any{"call": c, "op": op, "calls_during_op": obs}))
				default:
					b.Count("hook_calls_expected", 1)
				}
			}
			for k := range mandatory {
				rk := phaseRank[k.phase]
				must := rk < reached || (rk == reached && vetoCall == nil)
				if must && seen[k] == 0 {
					h := hookByID[k.hook]
					b.Violation("C14:hook-missed:"+k.phase+":"+h.shareClass(),
						fmt.Sprintf("hook %d is registered for phase %s and matches %s of key %s, but was not called", k.hook, k.phase, op.Kind, op.Key),
						hr.witness(map[string]any{"op": op, "calls_during_op": obs}))
				}
				if must {
					b.Count("hook_calls_mandatory", 1)
				}
			}
			// veto: the operation must return the hook's error and storage stays unchanged
			for _, c := range obs {
				if c.Veto && op.VetoBy < 0 {
					b.Violation("C14:hook-veto-ignored:"+c.Phase+":"+op.Kind,
						fmt.Sprintf("hook %d vetoed %s of key %s in phase %s, but the operation returned %q", c.Hook, op.Kind, op.Key, c.Phase, op.Err),
						hr.witness(map[string]any{"op": op, "calls_during_op": obs}))
				}
			}
			if op.VetoBy >= 0 {
				b.Count("vetoed_ops", 1)
				b.Seen("veto_phase_op", vetoPhase(vetoCall)+"/"+op.Kind)
				if vetoCall == nil {
					b.Violation("C14:hook-veto-unexplained:"+op.Kind, "the operation returned a hook's veto error but that hook recorded no vetoing call during it",
						hr.witness(map[string]any{"op": op, "calls_during_op": obs}))
				}
				if op.Kind != "get" && op.Before.Err == "" && op.After.Err == "" && op.Before != op.After {
					b.Violation("C14:hook-veto-storage-changed:"+op.Kind+":"+sc.Backend,
						fmt.Sprintf("%s of key %s was vetoed by hook %d but the stored record changed (%+v -> %+v)", op.Kind, op.Key, op.VetoBy, op.Before, op.After),
						hr.witness(map[string]any{"op": op, "calls_during_op": obs}))
				}
			}
			// replacement
			if op.OK {
				var repl []string
				var rphase string
				for _, c := range obs {
					if c.Repl != "" && ((op.Kind == "get" && c.Phase == "postget") || (op.Kind == "put" && c.Phase == "preput")) {
						repl = append(repl, c.Repl)
						rphase = c.Phase
					}
				}
				if len(repl) > 0 {
					b.Count("replacements_"+rphase, 1)
					got := op.Got
					if op.Kind == "put" {
						got = op.After.Token
					}
					ok := false
					for _, t := range repl {
						if t == got {
							ok = true
						}
					}
					if !ok && !(op.Kind == "put" && op.After.Err != "") {
						b.Violation("C14:hook-replacement-ignored:"+rphase,
							fmt.Sprintf("a %s hook replaced the record of key %s (replacement token(s) %v) but the operation used record %q", rphase, op.Key, repl, got),
							hr.witness(map[string]any{"op": op, "calls_during_op": obs}))
					}
				}
			}
		}
		for ; ci < len(cs); ci++ {
			b.Violation("C14:hook-unexpected-call:"+cs[ci].Phase+":outside-operation", "a hook was called although no get/put operation on that key was in progress",
				hr.witness(map[string]any{"call": cs[ci]}))
		}
	}
	for _, c := range hr.calls {
		if c.Worker < 0 || c.Worker >= 0 && findWorker(hr, c.Worker) == nil {
			b.Violation("C14:hook-unexpected-call:"+c.Phase+":foreign-key", "a hook was called for a key no worker operates on", hr.witness(map[string]any{"call": c}))
		}
	}
}

func noteOf(r record.Record) string {
	switch v := r.(type) {
	case *Rec:
		return v.Note
	case *record.Wrapper:
		var t struct{ Note string }
		if len(v.Data) > 0 {
			_ = dsd.LoadAsFormat(v.Data, v.Format, &t)
		}
		return t.Note
	}
	return ""
}

func vetoPhase(c *hookCall) string {
	if c == nil {
		return "?"
	}
	return c.Phase
}

func findWorker(hr *hrun, id int) *hworker {
	for _, w := range hr.workers {
		if w.spec.ID == id {
			return w
		}
	}
	return nil
}

func (hr *hrun) structSig() string {
	var sb strings.Builder
	fmt.Fprintf(&sb, "hooks/%s/%v/w%d", hr.sc.Backend, hr.sc.Shadow, len(hr.workers))
	for _, h := range hr.hooks {
		s := h.spec
		fmt.Fprintf(&sb, "|%s;%s;%v%v%v;%s%d;%s%d;%d;%d;%d", s.Prefix, s.Cond.String(), s.PreGet, s.PostGet, s.PrePut, s.VetoPhase, s.VetoMod, s.ReplPhase, s.ReplMod,
			s.ShareWith, sign(s.RegAt), sign(s.CancelAt))
	}
	return sb.String()
}

// runPark executes the hooks template HP: while an operation is parked inside the
// callback of Hooks[0] (first in the chain), another hook is cancelled. The hook
// chains run under the controller's hooksLock, so on a correct tree the Cancel only
// completes after the operation; the parked callback therefore resumes when the
// Cancel has returned *or* after a short pause (an amplifier, not a verdict). What is
// judged is the usual: no call of a hook after its Cancel returned, no duplicate or
// missing calls.
func (hr *hrun) runPark() {
	wk := hr.workers[0]
	for i := range wk.spec.Ops {
		wk.do(hr, &wk.spec.Ops[i])
	}
	parker := hr.hooks[0]
	for _, rd := range hr.sc.Plan.HPRounds {
		target := hr.hooks[rd.Target]
		if target.reg == nil || target.CancelCall != 0 {
			continue
		}
		pk := &hookPark{phase: rd.Phase, reached: make(chan struct{}), resume: make(chan struct{})}
		parker.park.Store(pk)
		op := OpSpec{Kind: "get", Dir: "a/", N: rd.N}
		if rd.Phase == "preput" {
			op = OpSpec{Kind: "put", Dir: "a/", N: rd.N, Score: 50, Tag: "red"}
		}
		done := make(chan struct{})
		go func() { defer close(done); wk.do(hr, &op) }()
		reached := false
		select {
		case <-pk.reached:
			reached = true
		case <-done:
		case <-time.After(watchdog):
			hr.inconcl = append(hr.inconcl, "hook park was not reached")
		}
		if reached {
			cdone := make(chan struct{})
			go func() { defer close(cdone); target.cancel() }()
			select {
			case <-cdone:
				hr.cancelWhileParked++
			case <-time.After(2 * time.Millisecond):
			}
			close(pk.resume)
			<-done
			<-cdone
			hr.parkRounds++
		} else {
			close(pk.resume)
			<-done
		}
		parker.park.Store(nil)
		g := OpSpec{Kind: "get", Dir: "a/", N: rd.N}
		wk.do(hr, &g)
		p := OpSpec{Kind: "put", Dir: "a/", N: rd.N, Score: 51, Tag: "blue"}
		wk.do(hr, &p)
	}
	hr.gate.finish()
	for _, h := range hr.hooks {
		if h.reg != nil && h.CancelCall == 0 {
			h.cancel()
		}
	}
}
