package main

import (
	"runtime"
	"sync"
	"sync/atomic"
	"time"

	"verifharness/internal/vlib"
)

// Class "burst": many subscriptions on one database; in every round several
// goroutines Subscribe at the same instant, a writer writes, several goroutines
// Cancel *different* subscriptions at the same instant, the writer writes again.
// The cancellers are parked at db.sub.cancel (the yield point in front of Cancel's
// locking) and released together; the subscribers meet at the same barrier right
// before Interface.Subscribe. Writes never overlap a burst, so every delivery is
// either mandatory or forbidden; the usual subscription oracles decide (missing
// deliveries to still-active subscriptions, feed closed after Cancel returned,
// nothing delivered after Cancel, no panic in Cancel or in a write).

// BurstSpec is the script of a burst scenario. Subscription ids index Scenario.Subs;
// the writes are taken in order from Writers[0].Ops.
type BurstSpec struct {
	Initial []int        `json:"initial"` // subscribed one after the other before round 0
	Rounds  []BurstRound `json:"rounds"`
}

// BurstRound is one round.
type BurstRound struct {
	Subscribe []int `json:"subscribe,omitempty"` // concurrently
	Writes1   int   `json:"writes1"`
	Cancel    []int `json:"cancel,omitempty"` // concurrently
	Writes2   int   `json:"writes2"`
}

// barrier lets k goroutines leave at (as nearly as possible) the same instant: they
// announce themselves, block until the director has seen all of them, and then
// spin until every one of them is running again.
type barrier struct {
	k       int32
	arrived atomic.Int32
	all     chan struct{}
	release chan struct{}
	ready   atomic.Int32
}

func newBarrier(k int) *barrier {
	return &barrier{k: int32(k), all: make(chan struct{}), release: make(chan struct{})}
}

func (b *barrier) at() {
	if b.arrived.Add(1) == b.k {
		close(b.all)
	}
	<-b.release
	b.ready.Add(1)
	for i := 0; b.ready.Load() < b.k && i < 20000000; i++ {
		if i&1023 == 1023 {
			runtime.Gosched()
		}
	}
}

// burstPoint is the db.sub.cancel handler of this class.
type burstPoint struct{ cur atomic.Pointer[barrier] }

func (bp *burstPoint) at(point, subject string) {
	if b := bp.cur.Load(); b != nil {
		b.at()
	}
}

func runBurst(w *world, sc *Scenario) *run {
	r := newRun(w, sc)
	w.burst = &burstPoint{}
	installHooks(w)
	w0 := r.writers[0]
	next := 0
	writes := func(n int) {
		for i := 0; i < n && next < len(w0.spec.Ops); i++ {
			w0.do(r, &w0.spec.Ops[next])
			next++
		}
	}
	together := func(ids []int, viaHook bool, fn func(s *subRun)) bool {
		if len(ids) == 0 {
			return true
		}
		b := newBarrier(len(ids))
		if viaHook {
			w.burst.cur.Store(b)
		}
		var wg sync.WaitGroup
		for _, id := range ids {
			s := r.subs[id]
			wg.Add(1)
			go func() {
				defer wg.Done()
				if !viaHook {
					b.at()
				}
				fn(s)
			}()
		}
		ok := true
		select {
		case <-b.all:
		case <-time.After(watchdog):
			ok = false
			r.inconclusive("burst: not every goroutine reached the barrier")
		}
		close(b.release)
		wg.Wait()
		w.burst.cur.Store(nil)
		return ok
	}
	for _, id := range sc.Burst.Initial {
		if s := r.subs[id]; s.subscribe(r) {
			s.startReader()
		}
	}
	for _, rd := range sc.Burst.Rounds {
		if !together(rd.Subscribe, false, func(s *subRun) { s.subscribe(r) }) {
			break
		}
		for _, id := range rd.Subscribe {
			if r.subs[id].sub != nil {
				r.subs[id].startReader()
			}
		}
		writes(rd.Writes1)
		var live []int
		for _, id := range rd.Cancel {
			if r.subs[id].sub != nil {
				live = append(live, id)
			}
		}
		if !together(live, true, func(s *subRun) { s.cancel() }) {
			break
		}
		writes(rd.Writes2)
	}
	r.gate.finish()
	r.finishSubs()
	return r
}

func genBurst(rng *vlib.Rand, id int) Scenario {
	sc := Scenario{ID: id, Class: "burst", Delay: Delay{Mode: "barrier"}}
	switch x := rng.Intn(100); {
	case x < 60:
		sc.Backend, sc.Shadow = "hashmap", rng.Bool()
	case x < 85:
		sc.Backend = "injmap"
	default:
		sc.Backend, sc.Shadow = "bbolt", rng.Bool()
	}
	bs := &BurstSpec{}
	nsub := 0
	newSub := func() int {
		ss := SubSpec{ID: nsub, Prefix: vlib.Pick(rng, "", "a/", "a/", "a/b/"), Local: true, Internal: true, ShareWith: -1, CancelAt: vlib.Pick(rng, -1, -2)}
		if rng.Chance(15, 100) {
			ss.Cond = genCond(rng, 1)
		}
		if rng.Chance(15, 100) {
			ss.Local, ss.Internal = rng.Bool(), rng.Bool()
		}
		sc.Subs = append(sc.Subs, ss)
		nsub++
		return ss.ID
	}
	var active []int
	for i, n := 0, rng.Range(3, 10); i < n; i++ {
		s := newSub()
		bs.Initial = append(bs.Initial, s)
		active = append(active, s)
	}
	nwrites := 0
	rounds := rng.Range(5, 9)
	for rd := 0; rd < rounds; rd++ {
		var br BurstRound
		if rng.Chance(75, 100) {
			for i, n := 0, rng.Range(2, 8); i < n; i++ {
				s := newSub()
				br.Subscribe = append(br.Subscribe, s)
				active = append(active, s)
			}
		}
		br.Writes1 = rng.Range(1, 3)
		if len(active) >= 2 {
			k := rng.Range(2, 8)
			if k > len(active) {
				k = len(active)
			}
			// different subscriptions, drawn from the whole list (low positions shift
			// the positions of everything behind them)
			pick := append([]int(nil), active...)
			vlib.Shuffle(rng, pick)
			br.Cancel = pick[:k]
			keep := active[:0]
			for _, a := range active {
				gone := false
				for _, c := range br.Cancel {
					if a == c {
						gone = true
					}
				}
				if !gone {
					keep = append(keep, a)
				}
			}
			active = keep
		}
		br.Writes2 = rng.Range(1, 3)
		nwrites += br.Writes1 + br.Writes2
		bs.Rounds = append(bs.Rounds, br)
	}
	sc.Burst = bs
	w0 := WriterSpec{ID: 0, Iface: allPriv()}
	for i := 0; i < nwrites; i++ {
		kind := "put"
		if sc.Backend == "injmap" && rng.Chance(30, 100) {
			kind = "push"
		}
		w0.Ops = append(w0.Ops, OpSpec{Kind: kind, Dir: vlib.Pick(rng, "a/", "a/b/", "a/", "c/"), N: rng.Intn(4), Score: genScore(rng), Tag: vlib.Pick(rng, tags...)})
	}
	sc.Writers = []WriterSpec{w0}
	return sc
}

// genFirstUse: class "firstuse" - the very first uses of a freshly registered
// database are 3-8 barrier-released concurrent Subscribe calls (nothing has started
// the database before); then writes, concurrent cancels and more writes as in the
// burst class. Every subscription whose Subscribe returned must receive.
func genFirstUse(rng *vlib.Rand, id int) Scenario {
	sc := genBurst(rng, id)
	sc.Class = "firstuse"
	sc.Backend, sc.Shadow = "hashmap", rng.Bool()
	for i := range sc.Writers[0].Ops {
		sc.Writers[0].Ops[i].Kind = "put"
	}
	bs := sc.Burst
	// the initial subscriptions join the first concurrent round
	first := &bs.Rounds[0]
	first.Subscribe = append(append([]int(nil), bs.Initial...), first.Subscribe...)
	if len(first.Subscribe) > 8 {
		// keep the rest for a later, ordinary round
		rest := first.Subscribe[8:]
		first.Subscribe = first.Subscribe[:8]
		bs.Rounds[1].Subscribe = append(rest, bs.Rounds[1].Subscribe...)
	}
	bs.Initial = nil
	return sc
}
