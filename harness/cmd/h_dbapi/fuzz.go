package main

// fuzz.go — malformed and mutated messages, one at a time: every message is classified
// by the harness' own reading of the protocol syntax and must get the replies its
// class is entitled to; the process must survive every one of them.

import (
	"encoding/hex"
	"fmt"
	"time"

	"verifharness/internal/vlib"
)

type fuzzRun struct {
	e *env
	c *client
}

func (f *fuzzRun) viol(fd finding, fm fuzzMsg) {
	fd.Detail["class"] = "fuzz"
	fd.Detail["fuzz_class"] = fm.Class
	fd.Detail["fuzz_tag"] = fm.Tag
	fd.Detail["batch"] = f.e.spec
	fd.Detail["replay_msgs"] = []string{hex.EncodeToString(trunc(fm.Msg, 1<<16))}
	// the signature names the oracle and the operation, never the bytes
	f.e.b.Violation(fd.Sig, fd.What, fd.Detail)
}

func trunc(b []byte, n int) []byte {
	if len(b) > n {
		return b[:n]
	}
	return b
}

// one sends a single message and decides it. Returns false if the batch must stop.
func (f *fuzzRun) one(fm fuzzMsg) bool {
	e, c := f.e, f.c
	e.b.Eval(1)
	e.b.Count("fuzz_"+fm.Class, 1)
	e.b.Seen("fuzz_tags", fm.Tag)
	stalled := func(what string, op *opRec) bool {
		verdict, detail := e.stall(what)
		switch verdict {
		case "idle", "idle-late":
			return false
		case "wedged":
			detail["op"] = opDetail(op, nil)
			f.viol(finding{Sig: "C13:wedged", What: "handler goroutines are blocked for good after this message (identical lock-wait stacks in two dumps 3 s apart)", Detail: detail}, fm)
		default:
			e.b.Inconclusive("fuzz batch %d: watchdog expired waiting for %s (message class %s)", e.spec.Batch, what, fm.Tag)
		}
		e.aborted = true
		return true
	}
	idle := func(op *opRec) (int, bool) {
		p, ok := e.waitIdle()
		if !ok && stalled("handlers to finish", op) {
			return p, false
		}
		return p, true
	}
	var op *opRec
	switch fm.Class {
	case "malformed", "unknowncmd":
		op = c.malformed(fm.Msg, fm.First, fm.Tag)
		op.Kind = fm.Class
		c.waitCondShort(func() bool { return len(op.Replies) >= 1 })
		if _, ok := idle(op); !ok {
			return false
		}
		c.malformedDone()
	case "cancel":
		op = c.open(fm.First, "cancel-only", fm.Tag, "")
		c.mu.Lock()
		op.Cancels++
		op.CancelAt = append(op.CancelAt, 0)
		op.Msgs = append(op.Msgs, fm.Msg)
		c.mu.Unlock()
		c.send(fm.Msg, fm.Tag)
		if _, ok := idle(op); !ok {
			return false
		}
	case "sub", "qsub":
		before, ok := idle(nil)
		if !ok {
			return false
		}
		op = c.requestRaw(fm.First, fm.Class, fm.Msg, fm.Tag, "")
		after, ok := idle(op)
		if !ok {
			return false
		}
		if after == before+1 {
			op.Established = true
			e.b.Count("subs_established", 1)
			c.cancel(op, "cancel/sub")
			if _, ok := idle(op); !ok {
				return false
			}
		} else if c.nReplies(op) == 0 && f.stillSilent(op) {
			var gtxt []string
			for _, g := range portbaseGoroutines(dumpGoroutines()) {
				gtxt = append(gtxt, clip(g.Text, 1200))
			}
			f.viol(finding{Sig: "C13:missing-reply:" + fm.Class, What: fm.Class + " request was neither established nor answered",
				Detail: opDetail(op, map[string]any{"parked_before": before, "parked_after": after, "portbase_goroutines_now": gtxt})}, fm)
		}
	default: // get query create update insert delete
		op = c.requestRaw(fm.First, fm.Class, fm.Msg, fm.Tag, "")
		c.waitCondShort(func() bool { return terminalCount(op) >= 1 })
		if _, ok := idle(op); !ok {
			return false
		}
	}
	for _, r := range c.snapshot(op) {
		e.b.Count("reply_"+r.Type, 1)
		if r.Type == "error" {
			e.b.Seen("refusal_texts", normErr(r.msgText()))
		}
	}
	e.b.Distinct([]byte(fm.Tag), []byte(fm.Class), []byte(lastTypeOf(c.snapshot(op))), []byte(fmt.Sprint(len(fm.Msg)/64)))
	for _, fd := range c.retire(op, true) {
		f.viol(fd, fm)
	}
	c.mu.Lock()
	orph := c.orphans
	c.orphans = nil
	c.mu.Unlock()
	for _, r := range orph {
		f.viol(finding{Sig: "C13:foreign-opid", What: fmt.Sprintf("reply carries an operation ID the message did not: %q", clip(string(r.Raw), 200)),
			Detail: map[string]any{"reply": clip(string(r.Raw), 600), "message": clip(string(fm.Msg), 600)}}, fm)
	}
	e.jwrite("Q", c.no, nil, "")
	return true
}

// stillSilent confirms "no reply and nothing running" with later observations.
func (f *fuzzRun) stillSilent(op *opRec) bool {
	for i := 0; i < 3; i++ {
		time.Sleep(time.Duration(5*(i+1)) * time.Millisecond)
		if _, ok := f.e.waitIdle(); !ok {
			return false
		}
		if f.c.nReplies(op) != 0 {
			f.e.b.Count("late_visible_replies", 1)
			return false
		}
	}
	return true
}

func lastTypeOf(rs []*reply) string {
	if len(rs) == 0 {
		return "none"
	}
	return rs[len(rs)-1].Type
}

func runFuzz(e *env, r *vlib.Rand, n int, avoid map[string]bool) {
	c := newClient(e, 0)
	f := &fuzzRun{e: e, c: c}
	for i := 0; i < n && !e.aborted; i++ {
		fm := e.genFuzz(r, i)
		if avoid["fuzzclass/"+fm.Class] {
			e.b.Count("steps_avoided", 1)
			continue
		}
		if !f.one(fm) {
			break
		}
		if i < 3 {
			e.b.Sample(map[string]any{"kind": "fuzz", "class": fm.Class, "tag": fm.Tag, "message": clip(string(fm.Msg), 160)})
		}
	}
	c.stop()
	c.mu.Lock()
	e.b.Count("replies_total", int64(c.nAll))
	c.closed = true
	c.mu.Unlock()
}
