package main

// world.go — the database world of one child process: one database per storage
// backend on a scratch directory, seeded through a privileged interface with records
// of every data format (the API under test only ever sees them from outside).

import (
	"fmt"
	"path/filepath"
	"sync"

	"github.com/safing/portbase/database"
	"github.com/safing/portbase/database/record"
	"github.com/safing/portbase/database/storage"
	_ "github.com/safing/portbase/database/storage/badger"
	_ "github.com/safing/portbase/database/storage/bbolt"
	_ "github.com/safing/portbase/database/storage/fstree"
	_ "github.com/safing/portbase/database/storage/hashmap"
	_ "github.com/safing/portbase/database/storage/sinkhole"
	"github.com/safing/portbase/formats/dsd"

	"verifharness/internal/vlib"
)

// dbInfo describes one registered database.
type dbInfo struct {
	Name     string
	Backend  string
	Shadow   bool
	Writable bool // a put through the API can succeed
	Readable bool // a record that was put can be read back
	Queries  bool // Query is implemented
}

// structRec is a non-wrapped record as portbase modules keep them in a hashmap
// storage (handled by the struct accessor, marshalled with dsd.Dump(JSON)).
type structRec struct {
	record.Base
	sync.Mutex

	Name   string
	Score  int
	Ratio  float64
	Flag   bool
	Small  uint8
	Tags   []string
	Labels map[string]string
	Inner  struct{ X int }
	Ptr    *int
	hidden int //nolint:unused
}

type seedRec struct {
	Key    string
	Class  string // json, cbor, msgpack, yaml, raw, gencode, struct, secret, crown, expired, json-array, json-scalar, json-garbage, json-empty
	Format uint8
}

type world struct {
	dir   string
	dbs   []dbInfo
	byDB  map[string]*dbInfo
	priv  *database.Interface
	seeds map[string][]seedRec // per db
}

func (w *world) db(name string) *dbInfo { return w.byDB[name] }

// seedDoc is the document family every seeded and generated JSON record comes from:
// typed fields so that generated where-clauses have something to bite on.
func seedDoc(i int) map[string]any {
	return map[string]any{
		"n":    i,
		"f":    float64(i) + 0.5,
		"s":    fmt.Sprintf("seed-%03d", i),
		"b":    i%2 == 0,
		"tags": []string{"a", fmt.Sprintf("t%d", i%3)},
		"sub":  map[string]any{"x": i * 2, "y": "deep"},
	}
}

func mustDump(v any, format uint8) []byte {
	b, err := dsd.Dump(v, format)
	if err != nil {
		panic(fmt.Sprintf("harness: dsd.Dump(%d): %v", format, err))
	}
	return b[1:] // the wrapper keeps the format separately
}

// newWorld initialises the database system on dir and registers and seeds the
// databases. useBadger: badger is expensive to open; only a share of the batches has it.
func newWorld(dir string, useBadger bool) (*world, error) {
	if err := database.InitializeWithPath(filepath.Join(dir, "dbroot")); err != nil {
		return nil, err
	}
	w := &world{dir: dir, byDB: map[string]*dbInfo{}, seeds: map[string][]seedRec{}}
	w.priv = database.NewInterface(&database.Options{Local: true, Internal: true})
	cands := []dbInfo{
		{Name: "hmap", Backend: "hashmap", Writable: true, Readable: true, Queries: true},
		{Name: "hmsd", Backend: "hashmap", Shadow: true, Writable: true, Readable: true, Queries: true},
		{Name: "bolt", Backend: "bbolt", Writable: true, Readable: true, Queries: true},
		{Name: "bosd", Backend: "bbolt", Shadow: true, Writable: true, Readable: true, Queries: true},
		{Name: "fstr", Backend: "fstree", Writable: true, Readable: true, Queries: true},
		{Name: "sink", Backend: "sinkhole", Writable: true, Readable: false, Queries: false},
		{Name: "injr", Backend: database.StorageTypeInjected},
	}
	if useBadger {
		cands = append(cands, dbInfo{Name: "badg", Backend: "badger", Writable: true, Readable: true, Queries: true})
	}
	for i := range cands {
		d := cands[i]
		if _, err := database.Register(&database.Database{Name: d.Name, Description: "verif " + d.Backend,
			StorageType: d.Backend, ShadowDelete: d.Shadow}); err != nil {
			return nil, fmt.Errorf("register %s: %w", d.Name, err)
		}
		if d.Backend == database.StorageTypeInjected {
			if _, err := database.InjectDatabase(d.Name, &storage.InjectBase{}); err != nil {
				return nil, fmt.Errorf("inject %s: %w", d.Name, err)
			}
		}
		w.dbs = append(w.dbs, d)
		w.byDB[d.Name] = &w.dbs[len(w.dbs)-1]
	}
	for i := range w.dbs {
		if err := w.seed(&w.dbs[i]); err != nil {
			return nil, err
		}
	}
	return w, nil
}

func (w *world) putWrapper(key string, format uint8, data []byte, mod func(m *record.Meta)) error {
	r, err := record.NewWrapper(key, nil, format, data)
	if err != nil {
		return err
	}
	if mod != nil {
		r.CreateMeta()
		mod(r.Meta())
	}
	return w.priv.Put(r)
}

func (w *world) seed(d *dbInfo) error {
	if !d.Writable || !d.Readable {
		return nil
	}
	add := func(key, class string, format uint8, err error) error {
		if err != nil {
			return fmt.Errorf("seed %s: %w", key, err)
		}
		w.seeds[d.Name] = append(w.seeds[d.Name], seedRec{Key: key, Class: class, Format: format})
		return nil
	}
	p := d.Name + ":"
	// JSON documents under two prefixes
	for i := 0; i < 8; i++ {
		k := fmt.Sprintf("%sseed/j/%02d", p, i)
		if err := add(k, "json", dsd.JSON, w.putWrapper(k, dsd.JSON, mustDump(seedDoc(i), dsd.JSON), nil)); err != nil {
			return err
		}
	}
	// the other serialisation formats, real encodings of the same documents
	for i, f := range []struct {
		class  string
		format uint8
	}{{"cbor", dsd.CBOR}, {"msgpack", dsd.MsgPack}, {"yaml", dsd.YAML}} {
		k := fmt.Sprintf("%sseed/x/%s", p, f.class)
		if err := add(k, f.class, f.format, w.putWrapper(k, f.format, mustDump(seedDoc(20+i), f.format), nil)); err != nil {
			return err
		}
	}
	k := p + "seed/x/raw"
	if err := add(k, "raw", dsd.RAW, w.putWrapper(k, dsd.RAW, []byte("raw \x00\x01 bytes | with separator"), nil)); err != nil {
		return err
	}
	k = p + "seed/x/gencode"
	gm := &record.Meta{Created: 5, Modified: 6}
	gb, err := gm.GenCodeMarshal(nil)
	if err != nil {
		return err
	}
	if err := add(k, "gencode", dsd.GenCode, w.putWrapper(k, dsd.GenCode, gb, nil)); err != nil {
		return err
	}
	// JSON-tagged records whose data is not a JSON object
	for _, o := range []struct{ name, class, data string }{
		{"array", "json-array", `[1,2,{"a":3}]`}, {"scalar", "json-scalar", `42`},
		{"garbage", "json-garbage", "{\"a\": tru \x00\xff"}, {"empty", "json-empty", ""},
		{"string", "json-scalar", `"just a string"`},
	} {
		k := p + "seed/o/" + o.name
		if err := add(k, o.class, dsd.JSON, w.putWrapper(k, dsd.JSON, []byte(o.data), nil)); err != nil {
			return err
		}
	}
	// records the unprivileged API interface must not see
	k = p + "seed/p/secret"
	if err := add(k, "secret", dsd.JSON, w.putWrapper(k, dsd.JSON, mustDump(seedDoc(30), dsd.JSON), func(m *record.Meta) { m.MakeSecret() })); err != nil {
		return err
	}
	k = p + "seed/p/crown"
	if err := add(k, "crown", dsd.JSON, w.putWrapper(k, dsd.JSON, mustDump(seedDoc(31), dsd.JSON), func(m *record.Meta) { m.MakeCrownJewel() })); err != nil {
		return err
	}
	k = p + "seed/p/expired"
	if err := add(k, "expired", dsd.JSON, w.putWrapper(k, dsd.JSON, mustDump(seedDoc(32), dsd.JSON), func(m *record.Meta) { m.SetAbsoluteExpiry(1000) })); err != nil {
		return err
	}
	// struct records (hashmap keeps the object itself)
	if d.Backend == "hashmap" {
		for i := 0; i < 3; i++ {
			k := fmt.Sprintf("%sseed/s/%02d", p, i)
			s := &structRec{Name: fmt.Sprintf("struct-%d", i), Score: 100 + i, Ratio: 0.25 * float64(i), Flag: i == 1, Small: uint8(i),
				Tags: []string{"x", "y"}, Labels: map[string]string{"k": "v"}}
			s.SetKey(k)
			if err := add(k, "struct", dsd.JSON, w.priv.Put(s)); err != nil {
				return err
			}
		}
	}
	return nil
}

// pickDB returns a database by predicate.
func (w *world) pickDB(r *vlib.Rand, pred func(d *dbInfo) bool) *dbInfo {
	var c []*dbInfo
	for i := range w.dbs {
		if pred == nil || pred(&w.dbs[i]) {
			c = append(c, &w.dbs[i])
		}
	}
	if len(c) == 0 {
		return nil
	}
	return c[r.Intn(len(c))]
}
