package main

// client.go — one API connection as the harness sees it: the message journal, the
// recording send function handed to api.CreateDatabaseAPI, per-operation-ID bookkeeping
// and the waiting primitives (condition on replies; "idle" = no handler goroutine of
// the API is running any more, observed through the runtime's goroutine dump).

import (
	"bytes"
	"encoding/hex"
	"fmt"
	"os"
	"regexp"
	"runtime"
	"sort"
	"strings"
	"sync"
	"sync/atomic"
	"time"

	"github.com/safing/portbase/api"

	"verifharness/internal/vlib"
)

// env is the per-child environment shared by all connections of the batch.
type env struct {
	spec    batchSpec
	dir     string
	b       *vlib.Batch
	w       *world
	journal *os.File
	jmu     sync.Mutex
	clock   atomic.Uint64
	model   map[string]*modelRec
	keyCtr  int
	opCtr   int
	clients []*client
	aborted bool   // a stall was observed: the process may be wedged, stop the batch
	stallAt string // description of the stall
	waitLim time.Duration
	// earlyLim: after this long the structural stall analysis runs once; only a
	// structural verdict (wedged) ends the wait early, otherwise waiting continues
	earlyLim     time.Duration
	cachedStall  string
	cachedDetail map[string]any
	// handleStuck: a call of Handle did not return and was found structurally blocked;
	// nothing more can be sent on that connection, every wait fails at once
	handleStuck bool
}

func (e *env) tick() uint64 { return e.clock.Add(1) }

// jwrite appends one line to the journal with a single write call, so that the line
// is in the file before the next instruction runs (a dead child names its input).
func (e *env) jwrite(kind string, apiNo int, payload []byte, tag string) {
	if e.journal == nil {
		return
	}
	const lim = 6000
	var sb strings.Builder
	sb.WriteString(kind)
	sb.WriteByte(' ')
	fmt.Fprintf(&sb, "%d %d ", apiNo, len(payload))
	if len(payload) > lim {
		sb.WriteString(hex.EncodeToString(payload[:lim]))
		sb.WriteString("+")
	} else {
		sb.WriteString(hex.EncodeToString(payload))
	}
	if tag != "" {
		sb.WriteByte(' ')
		sb.WriteString(tag)
	}
	sb.WriteByte('\n')
	e.jmu.Lock()
	_, _ = e.journal.WriteString(sb.String())
	e.jmu.Unlock()
}

// reply is one message the API passed to the send function.
type reply struct {
	Seq   uint64
	Raw   []byte
	OpID  string
	Type  string
	Rest  []byte // everything after the second separator
	HasR  bool
	OpIdx int // index into client.ops (-1: not attributable)
	// Kept is the very slice the API handed to the send function (not copied), as a
	// connection that queues replies for a writer goroutine keeps it. Raw is the copy
	// taken at receipt. They must stay equal for as long as the reply is queued.
	Kept []byte
}

// late returns the reply as a client behind a queueing connection gets it: parsed from
// the kept slice at the time of asking (identical to r unless the memory was changed).
func (r *reply) late() *reply {
	if r.Kept == nil || bytes.Equal(r.Kept, r.Raw) {
		return r
	}
	cp := make([]byte, len(r.Kept))
	copy(cp, r.Kept)
	n := parseReply(cp)
	n.Seq, n.OpIdx, n.Kept = r.Seq, r.OpIdx, r.Kept
	return &n
}

func (r *reply) String() string {
	s := string(r.Raw)
	if len(s) > 300 {
		s = s[:300] + fmt.Sprintf("...(%d bytes)", len(r.Raw))
	}
	return s
}

// msgText returns the message part of an error/warning reply.
func (r *reply) msgText() string { return string(r.Rest) }

func parseReply(raw []byte) reply {
	r := reply{Raw: raw, OpIdx: -1}
	parts := bytes.SplitN(raw, []byte("|"), 3)
	r.OpID = string(parts[0])
	if len(parts) > 1 {
		r.Type = string(parts[1])
	}
	if len(parts) > 2 {
		r.Rest = parts[2]
		r.HasR = true
	}
	return r
}

// opRec is one operation ID epoch: the request(s) sent under the ID and the replies.
type opRec struct {
	ID      string
	Kind    string // get query sub qsub create update insert delete unknowncmd malformed cancel-only
	Tag     string
	Msgs    [][]byte
	Reqs    int  // requests under this ID in this epoch (>1: duplicate IDs in flight)
	Relaxed bool // duplicates of differing kinds: only the weak checks apply
	Cancels int
	// CancelAt[i] = number of replies of this op that had arrived when cancel i was sent
	CancelAt []int
	Replies  []*reply
	Backend  string
	// subscription bookkeeping
	Established bool
	Final       bool
	idx         int
	// first observed change of a reply after it had been handed to the send function
	bufMod *bufModWitness
	reqBuf []byte // the buffer Handle got (len = message, spare capacity behind it)
}

type bufModWitness struct {
	Index    int    `json:"reply_index"`
	AtSend   string `json:"reply_as_handed_to_send_function"`
	Later    string `json:"same_slice_later"`
	Observed string `json:"observed_when"`
}

const reqSpare = 192
const canary = 0xA5

// checkKept compares the kept slices of the op's last replies with their copies
// (caller holds c.mu).
func (op *opRec) checkKept(when string, lastN int) {
	if op.bufMod != nil {
		return
	}
	from := 0
	if lastN > 0 && len(op.Replies) > lastN {
		from = len(op.Replies) - lastN
	}
	for i := from; i < len(op.Replies); i++ {
		r := op.Replies[i]
		if r.Kept != nil && !bytes.Equal(r.Kept, r.Raw) {
			op.bufMod = &bufModWitness{Index: i, AtSend: clip(string(r.Raw), 300), Later: clip(string(r.Kept), 300), Observed: when}
			return
		}
	}
}

type client struct {
	no  int
	e   *env
	api api.DatabaseAPI

	mu      sync.Mutex
	notify  chan struct{}
	nAll    int
	orphans []*reply
	ops     []*opRec
	cur     map[string]int // op ID -> index of the current epoch
	malCur  int            // index of the malformed-message op awaiting its reply (-1: none)
	closed  bool
	late    []*reply
	yield   func()
	gate    *sendGate
	in      chan []byte   // messages for the connection's reader goroutine
	ack     chan struct{} // Handle returned
}

// reader is the connection's reader loop: like the websocket handler it calls Handle
// for one message after the other. Handle runs on this goroutine, not on the harness'
// main goroutine, so that a Handle that does not return is an observation (decided by
// stall analysis) instead of a hung harness.
func (c *client) reader() {
	for msg := range c.in {
		c.api.Handle(msg)
		c.ack <- struct{}{}
	}
}

// stop ends the reader loop.
func (c *client) stop() {
	if c.in != nil && !c.e.handleStuck {
		close(c.in)
	}
}

// sendGate makes the send function block on the first "ok" reply of one operation
// (a slow client in the middle of a query's result stream) until it is released.
type sendGate struct {
	id      string
	types   []string // reply types that close the gate (default: ok)
	hit     bool     // under client.mu: the first such reply was recorded and the sender is held
	release chan struct{}
}

func (g *sendGate) wants(t string) bool {
	for _, x := range g.types {
		if x == t {
			return true
		}
	}
	return false
}

// armGate installs a gate for the operation ID; the returned function opens it
// (idempotent) and must always be called.
func (c *client) armGate(id string, types ...string) (g *sendGate, open func()) {
	if len(types) == 0 {
		types = []string{"ok"}
	}
	g = &sendGate{id: id, types: types, release: make(chan struct{})}
	c.mu.Lock()
	c.gate = g
	c.mu.Unlock()
	var once sync.Once
	return g, func() {
		once.Do(func() {
			c.mu.Lock()
			if c.gate == g {
				c.gate = nil
			}
			c.mu.Unlock()
			close(g.release)
		})
	}
}

func newClient(e *env, no int) *client {
	c := &client{no: no, e: e, cur: map[string]int{}, notify: make(chan struct{}), malCur: -1, in: make(chan []byte), ack: make(chan struct{}, 1)}
	c.api = api.CreateDatabaseAPI(c.onSend)
	go c.reader()
	e.clients = append(e.clients, c)
	return c
}

// onSend is the send function given to the API (callee side of the boundary).
func (c *client) onSend(data []byte) {
	cp := make([]byte, len(data))
	copy(cp, data)
	r := parseReply(cp)
	r.Kept = data
	r.Seq = c.e.tick()
	c.e.jwrite("R", c.no, cp, "")
	c.mu.Lock()
	if c.closed {
		c.late = append(c.late, &r)
	}
	if idx, ok := c.cur[r.OpID]; ok {
		r.OpIdx = idx
		// replies of this operation that are still "queued" must not have changed
		c.ops[idx].checkKept("when the next reply of the operation was sent", 24)
		c.ops[idx].Replies = append(c.ops[idx].Replies, &r)
	} else if r.OpID == "" && c.malCur >= 0 {
		// error reply of a malformed message: the API does not echo an ID
		r.OpIdx = c.malCur
		c.ops[c.malCur].Replies = append(c.ops[c.malCur].Replies, &r)
	}
	c.nAll++
	if r.OpIdx < 0 && len(c.orphans) < 50 {
		c.orphans = append(c.orphans, &r)
	}
	var hold *sendGate
	if g := c.gate; g != nil && !g.hit && r.OpID == g.id && g.wants(r.Type) {
		g.hit = true
		hold = g
	}
	close(c.notify)
	c.notify = make(chan struct{})
	y := c.yield
	c.mu.Unlock()
	if hold != nil {
		// the reply is recorded; the API's goroutine now waits like one that
		// writes to a slow connection
		<-hold.release
	}
	if y != nil {
		y()
	}
}

// open starts a new epoch for an operation ID (or joins the running one: duplicate).
func (c *client) open(id, kind, tag, backend string) *opRec {
	c.mu.Lock()
	defer c.mu.Unlock()
	if idx, ok := c.cur[id]; ok && !c.ops[idx].Final {
		op := c.ops[idx]
		op.Reqs++
		if op.Kind != kind || kind == "sub" || kind == "qsub" {
			op.Relaxed = true
		}
		return op
	}
	op := &opRec{ID: id, Kind: kind, Tag: tag, Reqs: 1, Backend: backend, idx: len(c.ops)}
	c.ops = append(c.ops, op)
	c.cur[id] = op.idx
	return op
}

// retire decides a finished operation now (the connection is idle) and frees its ID.
func (c *client) retire(op *opRec, quiescent bool) []finding {
	c.mu.Lock()
	if op.Final {
		c.mu.Unlock()
		return nil
	}
	// ownership of reply memory: every reply as it is now (late parse), plus the
	// monitor's own finding
	op.checkKept("when the operation was decided", 0)
	for i, r := range op.Replies {
		op.Replies[i] = r.late()
	}
	if op.reqBuf != nil {
		for _, b := range op.reqBuf[len(op.reqBuf):cap(op.reqBuf)] {
			if b != canary {
				c.e.b.Count("request_spare_capacity_written", 1)
				break
			}
		}
	}
	fs := checkOp(op, quiescent)
	if op.bufMod != nil {
		fs = append(fs, finding{Sig: "C13:reply-buffer-modified-after-send:" + op.Kind,
			What:   fmt.Sprintf("a reply changed after it had been handed to the send function (a connection that queues replies would deliver %q instead of %q)", clip(op.bufMod.Later, 120), clip(op.bufMod.AtSend, 120)),
			Detail: opDetail(op, map[string]any{"modified_reply": op.bufMod})})
	}
	if quiescent && hasMissing(fs) {
		// "something never arrived" rests on one observation of idleness: confirm it
		// with further, later observations before it becomes a verdict (a reply that
		// does arrive in between simply takes part in the check)
		for i := 0; i < 3 && hasMissing(fs); i++ {
			n := len(op.Replies)
			c.mu.Unlock()
			time.Sleep(time.Duration(5*(i+1)) * time.Millisecond)
			_, idle := c.e.waitIdle()
			c.mu.Lock()
			if !idle {
				quiescent = false
			}
			if len(op.Replies) != n {
				c.e.b.Count("late_visible_replies", 1)
				i = -1 // start over: observe again after the new reply
			}
			fs = checkOp(op, quiescent)
		}
	}
	defer c.mu.Unlock()
	op.Final = true
	if i, ok := c.cur[op.ID]; ok && i == op.idx {
		delete(c.cur, op.ID)
	}
	if len(fs) == 0 {
		op.Replies, op.Msgs, op.reqBuf = nil, nil, nil
	}
	return fs
}

func hasMissing(fs []finding) bool {
	for _, f := range fs {
		if strings.Contains(f.Sig, ":missing-") {
			return true
		}
	}
	return false
}

// send journals the message and hands it to the API (client side of the boundary).
func (c *client) send(msg []byte, tag string) {
	if c.e.handleStuck {
		return
	}
	c.e.jwrite("S", c.no, msg, tag)
	c.e.tick()
	c.in <- c.reqBuffer(msg)
	// wait until Handle returned (as before, the message is "sent" when send returns)
	start := time.Now()
	checked := false
	for {
		select {
		case <-c.ack:
			return
		case <-time.After(250 * time.Millisecond):
		}
		if c.e.early(start, &checked) {
			c.e.handleStuck = true // structurally blocked: the verdict is cached for stall()
			return
		}
		if time.Since(start) > c.e.waitLim {
			c.e.handleStuck = true // undecided: stall() analyses again (inconclusive if busy)
			return
		}
	}
}

// reqBuffer copies the message into a buffer with spare capacity behind it, as a
// connection reader's buffer has (filled with a canary). The buffer is never reused:
// the API keeps references into the message for as long as the operation lives (the
// operation ID for every later reply, a payload as the data of the stored record).
func (c *client) reqBuffer(msg []byte) []byte {
	buf := make([]byte, len(msg)+reqSpare)
	copy(buf, msg)
	for i := len(msg); i < len(buf); i++ {
		buf[i] = canary
	}
	buf = buf[:len(msg)]
	c.mu.Lock()
	if len(c.ops) > 0 {
		// witness/diagnostic only: remember the buffer with the newest operation
		c.ops[len(c.ops)-1].reqBuf = buf
	}
	c.mu.Unlock()
	return buf
}

// request opens the op and sends "<id>|<cmd>|<args>".
func (c *client) request(id, cmd, args, tag, backend string) *opRec {
	op := c.open(id, cmd, tag, backend)
	msg := []byte(id + "|" + cmd + "|" + args)
	op.Msgs = append(op.Msgs, msg)
	c.send(msg, tag)
	return op
}

func (c *client) requestRaw(id, kind string, msg []byte, tag, backend string) *opRec {
	op := c.open(id, kind, tag, backend)
	op.Msgs = append(op.Msgs, msg)
	c.send(msg, tag)
	return op
}

// malformed sends a message the protocol cannot parse; its error reply may carry the
// first field or an empty operation ID.
func (c *client) malformed(msg []byte, firstField string, tag string) *opRec {
	c.mu.Lock()
	op := &opRec{ID: firstField, Kind: "malformed", Tag: tag, Reqs: 1, idx: len(c.ops)}
	op.Msgs = append(op.Msgs, msg)
	c.ops = append(c.ops, op)
	idx := op.idx
	if i, busy := c.cur[firstField]; !busy || c.ops[i].Final {
		c.cur[firstField] = idx
	}
	c.malCur = idx
	c.mu.Unlock()
	c.send(msg, tag)
	return op
}

// malformedDone ends the window in which an empty operation ID is attributed to the
// malformed message (malformed messages are always sent one at a time).
func (c *client) malformedDone() {
	c.mu.Lock()
	c.malCur = -1
	c.mu.Unlock()
}

func (c *client) cancel(op *opRec, tag string) {
	c.mu.Lock()
	op.Cancels++
	op.CancelAt = append(op.CancelAt, len(op.Replies))
	c.mu.Unlock()
	c.send([]byte(op.ID+"|cancel"), tag)
}

// nReplies returns the current number of replies of op.
func (c *client) nReplies(op *opRec) int {
	c.mu.Lock()
	defer c.mu.Unlock()
	return len(op.Replies)
}

func (c *client) snapshot(op *opRec) []*reply {
	c.mu.Lock()
	defer c.mu.Unlock()
	out := make([]*reply, len(op.Replies))
	for i, r := range op.Replies {
		out[i] = r.late()
	}
	return out
}

// waitCond waits until cond (evaluated under the client lock) holds. The limit is a
// watchdog only: its expiry never decides anything by itself (see stall()).
func (c *client) waitCond(cond func() bool) bool {
	if c.e.handleStuck {
		return false
	}
	start := time.Now()
	deadline := start.Add(c.e.waitLim)
	checked := false
	poll := 20 * time.Millisecond
	for {
		c.mu.Lock()
		ok := cond()
		ch := c.notify
		c.mu.Unlock()
		if ok {
			return true
		}
		if c.e.early(start, &checked) {
			return false
		}
		rem := time.Until(deadline)
		if rem <= 0 {
			return false
		}
		if rem > poll {
			rem = poll
		}
		select {
		case <-ch:
			continue
		case <-time.After(rem):
		}
		// nothing arrived for a while: if nothing works on behalf of the API any
		// more, nothing will ever arrive (the condition is re-checked first: a
		// handler's last act is its reply)
		if _, act := handlerState(dumpGoroutines()); len(act) == 0 {
			c.mu.Lock()
			ok := cond()
			c.mu.Unlock()
			if ok {
				return true
			}
			c.e.cachedStall, c.e.cachedDetail = "idle", map[string]any{}
			return false
		}
		if poll < 500*time.Millisecond {
			poll *= 2
		}
	}
}

// early runs the structural analysis once when a wait has lasted earlyLim. It reports
// true only if the process is structurally wedged (then waiting longer is pointless).
func (e *env) early(start time.Time, checked *bool) bool {
	if *checked || time.Since(start) < e.earlyLim {
		return false
	}
	*checked = true
	v, d := e.analyse()
	if v == "wedged" {
		e.cachedStall, e.cachedDetail = v, d
		return true
	}
	return false
}

// waitCondShort is a fast path before polling for idleness; its expiry means nothing.
func (c *client) waitCondShort(cond func() bool) {
	deadline := time.Now().Add(time.Second)
	for {
		c.mu.Lock()
		ok := cond()
		ch := c.notify
		c.mu.Unlock()
		if ok || time.Now().After(deadline) {
			return
		}
		select {
		case <-ch:
		case <-time.After(time.Until(deadline)):
		}
	}
}

// terminalCount counts the replies that end a request of the op's kind. Errors that
// answer a cancel message ("could not find subscription") are not terminals.
func terminalCount(op *opRec) int {
	n := 0
	for _, r := range op.Replies {
		switch op.Kind {
		case "get":
			if r.Type == "ok" || r.Type == "error" {
				n++
			}
		case "create", "update", "insert", "delete":
			if r.Type == "success" || r.Type == "error" {
				n++
			}
		case "query", "sub", "qsub":
			if r.Type == "done" || (r.Type == "error" && !(op.Cancels > 0 && isCancelErr(r.msgText()))) {
				n++
			}
		default:
			if r.Type == "error" {
				n++
			}
		}
	}
	return n
}

func isCancelErr(msg string) bool {
	return msg == "could not find subscription" || strings.HasPrefix(msg, "failed to cancel subscription")
}

// waitTerminal waits for as many terminal replies as requests were sent under the ID.
func (c *client) waitTerminal(op *opRec) bool {
	return c.waitCond(func() bool { return terminalCount(op) >= op.Reqs })
}

// ---------------------------------------------------------------------------------
// goroutine introspection

type gor struct {
	ID      string
	State   string
	Frames  []string // function names, innermost first
	Created string   // "created by" line
	Text    string
}

var gorHead = regexp.MustCompile(`^goroutine (\d+) \[([^\]]*)\]:`)

func dumpGoroutines() []gor {
	buf := make([]byte, 1<<18)
	for {
		n := runtime.Stack(buf, true)
		if n < len(buf) {
			buf = buf[:n]
			break
		}
		buf = make([]byte, 2*len(buf))
	}
	var out []gor
	for _, blk := range strings.Split(string(buf), "\n\n") {
		lines := strings.Split(blk, "\n")
		if len(lines) == 0 {
			continue
		}
		m := gorHead.FindStringSubmatch(lines[0])
		if m == nil {
			continue
		}
		g := gor{ID: m[1], State: m[2], Text: blk}
		for _, ln := range lines[1:] {
			if strings.HasPrefix(ln, "created by ") {
				// kept apart: it identifies whose goroutine this is even when the
				// runtime cannot print its stack ("stack unavailable")
				g.Created = strings.TrimPrefix(ln, "created by ")
				continue
			}
			if ln == "" || ln[0] == '\t' {
				continue
			}
			fn := ln
			if i := strings.LastIndex(fn, "("); i > 0 {
				fn = fn[:i]
			}
			g.Frames = append(g.Frames, fn)
		}
		out = append(out, g)
	}
	return out
}

const apiRecv = "portbase/api.(*DatabaseAPI)."

// handlerState classifies the goroutines that work on behalf of the API connection:
// parked = waiting in processSub's select for the next notification (an established
// subscription); active = any other goroutine inside a DatabaseAPI method, a storage
// query executor feeding one, or a privileged writer of the harness inside portbase.
func handlerState(gs []gor) (parked int, active []gor) {
	for _, g := range gs {
		rel := false
		first := ""
		for _, f := range append([]string{g.Created}, g.Frames...) {
			if strings.Contains(f, apiRecv) || strings.Contains(f, ".queryExecutor") || strings.Contains(f, "database/storage/") && strings.Contains(f, ").Query") ||
				strings.Contains(f, "main.(*seq).stepConcurrent.func") || strings.Contains(f, "main.(*seq).stepGated.func") || strings.Contains(f, "main.(*seq).stepSlowClient.func") || strings.Contains(f, "main.(*seq).stepInList.func") ||
				f == g.Created && (strings.Contains(f, "main.(*seq).stepConcurrent") || strings.Contains(f, "main.(*seq).stepGated") || strings.Contains(f, "main.(*seq).stepSlowClient") || strings.Contains(f, "main.(*seq).stepInList")) {
				rel = true
			}
			if first == "" && f != "" && f != g.Created && !strings.HasPrefix(f, "runtime.") {
				first = f
			}
		}
		if !rel {
			continue
		}
		if strings.HasPrefix(g.State, "select") && strings.Contains(first, apiRecv+"processSub") {
			parked++
			continue
		}
		active = append(active, g)
	}
	return
}

// waitIdle polls until no goroutine works on behalf of the API any more. It returns
// the number of parked subscription loops. ok=false: the watchdog expired (see stall()).
func (e *env) waitIdle() (parked int, ok bool) {
	if e.handleStuck {
		return 0, false
	}
	start := time.Now()
	deadline := start.Add(e.waitLim)
	checked := false
	sleep := 50 * time.Microsecond
	for {
		p, act := handlerState(dumpGoroutines())
		if len(act) == 0 {
			return p, true
		}
		if time.Now().After(deadline) || e.early(start, &checked) {
			return p, false
		}
		time.Sleep(sleep)
		if sleep < 5*time.Millisecond {
			sleep *= 2
		}
	}
}

var blockedState = regexp.MustCompile(`^(select|chan receive|chan send|sync\.Mutex\.Lock|sync\.RWMutex\.R?Lock|semacquire|sync\.Cond\.Wait|sync\.WaitGroup\.Wait)`)
var lockState = regexp.MustCompile(`^(sync\.Mutex\.Lock|sync\.RWMutex\.R?Lock)`)

// portbaseGoroutines returns every goroutine with a portbase frame except parked
// subscription loops, keyed by goroutine ID.
func portbaseGoroutines(gs []gor) map[string]gor {
	m := map[string]gor{}
	for _, g := range gs {
		pb := false
		first := ""
		for _, f := range append([]string{g.Created}, g.Frames...) {
			if strings.Contains(f, "safing/portbase/") {
				pb = true
			}
			if first == "" && f != "" && f != g.Created && !strings.HasPrefix(f, "runtime.") {
				first = f
			}
		}
		if !pb || (strings.HasPrefix(g.State, "select") && strings.Contains(first, apiRecv+"processSub")) {
			continue
		}
		m[g.ID] = g
	}
	return m
}

// stall is called when a watchdog expired. It decides structurally what happened:
//   - nothing works on behalf of the API any more: whatever was awaited can never
//     arrive ("idle"), the automaton reports what is missing;
//   - three goroutine dumps taken 3 s apart show the very same set of goroutines inside
//     portbase, every one of them blocked (none running or runnable) with an identical
//     stack, and at least one of them waiting for a mutex: nobody is left who could
//     release it - the process is wedged;
//   - anything else: inconclusive (slow machine).
func (e *env) stall(what string) (verdict string, detail map[string]any) {
	if e.cachedStall != "" {
		verdict, detail = e.cachedStall, e.cachedDetail
		e.cachedStall, e.cachedDetail = "", nil
	} else {
		verdict, detail = e.analyse()
	}
	detail["awaited"] = what
	return verdict, detail
}

func (e *env) analyse() (verdict string, detail map[string]any) {
	what := ""
	g1 := dumpGoroutines()
	if _, a := handlerState(g1); len(a) == 0 {
		return "idle", map[string]any{"awaited": what}
	}
	dumps := [][]gor{g1}
	for i := 0; i < 2; i++ {
		time.Sleep(3 * time.Second)
		g := dumpGoroutines()
		if _, a := handlerState(g); len(a) == 0 {
			return "idle-late", map[string]any{"awaited": what}
		}
		dumps = append(dumps, g)
	}
	base := portbaseGoroutines(dumps[0])
	same, allBlocked, locks := true, true, 0
	for _, d := range dumps[1:] {
		m := portbaseGoroutines(d)
		if len(m) != len(base) {
			same = false
		}
		for id, g := range m {
			b, ok := base[id]
			if !ok || strings.Join(b.Frames, "<") != strings.Join(g.Frames, "<") {
				same = false
			}
		}
	}
	pkgs := map[string]bool{}
	chanSites := map[string]bool{}
	var chanTexts []string
	shown := map[string]bool{}
	var texts, notBlocked []string
	last := portbaseGoroutines(dumps[2])
	ids := sortedKeys(last)
	// goroutines inside a storage backend first (they hold or want the storage lock:
	// the cycle runs through them), exclusive waits before read-lock waits, which are
	// usually victims queued behind a waiting writer
	rank := func(g gor) int {
		r := 4
		if strings.Contains(strings.Join(g.Frames, " "), "database/storage/") {
			r = 0
		}
		switch {
		case strings.HasPrefix(g.State, "sync.Mutex.Lock"):
		case strings.HasPrefix(g.State, "sync.RWMutex.Lock"):
			r++
		default:
			r += 2
		}
		return r
	}
	sort.SliceStable(ids, func(i, j int) bool { return rank(last[ids[i]]) < rank(last[ids[j]]) })

	for _, id := range ids {
		g := last[id]
		st := g.State
		if i := strings.Index(st, ","); i > 0 {
			st = st[:i]
		}
		if !blockedState.MatchString(st) {
			allBlocked = false
			notBlocked = append(notBlocked, st+" "+strings.Join(g.Frames[:min(3, len(g.Frames))], "<"))
		}
		if strings.HasPrefix(st, "chan send") {
			for _, f := range g.Frames {
				if i := strings.Index(f, "safing/portbase/"); i >= 0 {
					chanSites[f[i+len("safing/portbase/"):]] = true
					break
				}
			}
			fs := strings.Join(g.Frames, "<")
			if !shown[fs] && len(chanTexts) < 3 {
				shown[fs] = true
				chanTexts = append(chanTexts, clip(g.Text, 1800))
			}
		}
		if lockState.MatchString(st) {
			locks++
			for _, f := range g.Frames {
				if i := strings.Index(f, "safing/portbase/"); i >= 0 {
					pk := f[i+len("safing/portbase/"):]
					if j := strings.Index(pk, "."); j > 0 {
						pk = pk[:j]
					}
					if strings.HasPrefix(pk, "database/storage/") {
						pkgs[pk] = true
					}
				}
			}
			fs := strings.Join(g.Frames, "<")
			if !shown[fs] && len(texts) < 12 {
				shown[fs] = true
				t := g.Text
				if len(t) > 1500 {
					t = t[:1500]
				}
				texts = append(texts, t)
			}
		}
	}
	var where []string
	for p := range pkgs {
		where = append(where, p)
	}
	sort.Strings(where)
	detail = map[string]any{"awaited": what, "lock_waiting_goroutines": locks, "packages": where, "goroutines": append(chanTexts, texts...),
		"same_stacks": same, "not_blocked": notBlocked, "blocked_on_channel_send_in": sortedKeys(chanSites)}
	if same && allBlocked && locks > 0 {
		return "wedged", detail
	}
	// Handle itself does not return: the connection's reader is blocked inside
	// DatabaseAPI.Handle with the same stack in all dumps while nothing else works on
	// behalf of the connection (every other goroutine of the API is a subscription
	// loop waiting for its feed). Only the client could change that - with a message,
	// which has to go through Handle.
	if same && allBlocked {
		_, act := handlerState(dumps[2])
		var site, text string
		onlyReaders := len(act) > 0
		for _, g := range act {
			fs := strings.Join(g.Frames, " ")
			if !strings.Contains(fs, "main.(*client).reader") || !strings.Contains(fs, apiRecv+"Handle") {
				onlyReaders = false
				break
			}
			for _, f := range g.Frames {
				if i := strings.Index(f, "safing/portbase/"); i >= 0 {
					site = f[i+len("safing/portbase/"):]
					break
				}
			}
			text = clip(g.Text, 2500)
		}
		if onlyReaders && site != "" {
			detail["handle_blocked_in"] = site
			detail["goroutines"] = []string{text}
			p, _ := handlerState(dumps[2])
			detail["parked_subscription_loops"] = p
			return "wedged", detail
		}
	}
	return "busy", detail
}

func min(a, b int) int {
	if a < b {
		return a
	}
	return b
}
