package main

// client.go — one API connection as the harness sees it: the message journal, the
// recording send function handed to api.CreateDatabaseAPI, per-operation-ID bookkeeping
// and the waiting primitives (condition on replies; "idle" = no handler goroutine of
// the API is running any more, observed through the runtime's goroutine dump).

import (
	"bytes"
	"encoding/hex"
	"fmt"
	"os"
	"regexp"
	"runtime"
	"strings"
	"sync"
	"sync/atomic"
	"time"

	"github.com/safing/portbase/api"

	"verifharness/internal/vlib"
)

// env is the per-child environment shared by all connections of the batch.
type env struct {
	spec    batchSpec
	dir     string
	b       *vlib.Batch
	w       *world
	journal *os.File
	jmu     sync.Mutex
	clock   atomic.Uint64
	model   map[string]*modelRec
	keyCtr  int
	opCtr   int
	clients []*client
	aborted bool   // a stall was observed: the process may be wedged, stop the batch
	stallAt string // description of the stall
	waitLim time.Duration
}

func (e *env) tick() uint64 { return e.clock.Add(1) }

// jwrite appends one line to the journal with a single write call, so that the line
// is in the file before the next instruction runs (a dead child names its input).
func (e *env) jwrite(kind string, apiNo int, payload []byte, tag string) {
	if e.journal == nil {
		return
	}
	const lim = 6000
	var sb strings.Builder
	sb.WriteString(kind)
	sb.WriteByte(' ')
	fmt.Fprintf(&sb, "%d %d ", apiNo, len(payload))
	if len(payload) > lim {
		sb.WriteString(hex.EncodeToString(payload[:lim]))
		sb.WriteString("+")
	} else {
		sb.WriteString(hex.EncodeToString(payload))
	}
	if tag != "" {
		sb.WriteByte(' ')
		sb.WriteString(tag)
	}
	sb.WriteByte('\n')
	e.jmu.Lock()
	_, _ = e.journal.WriteString(sb.String())
	e.jmu.Unlock()
}

// reply is one message the API passed to the send function.
type reply struct {
	Seq   uint64
	Raw   []byte
	OpID  string
	Type  string
	Rest  []byte // everything after the second separator
	HasR  bool
	OpIdx int // index into client.ops (-1: not attributable)
}

func (r *reply) String() string {
	s := string(r.Raw)
	if len(s) > 300 {
		s = s[:300] + fmt.Sprintf("...(%d bytes)", len(r.Raw))
	}
	return s
}

// msgText returns the message part of an error/warning reply.
func (r *reply) msgText() string { return string(r.Rest) }

func parseReply(raw []byte) reply {
	r := reply{Raw: raw, OpIdx: -1}
	parts := bytes.SplitN(raw, []byte("|"), 3)
	r.OpID = string(parts[0])
	if len(parts) > 1 {
		r.Type = string(parts[1])
	}
	if len(parts) > 2 {
		r.Rest = parts[2]
		r.HasR = true
	}
	return r
}

// opRec is one operation ID epoch: the request(s) sent under the ID and the replies.
type opRec struct {
	ID      string
	Kind    string // get query sub qsub create update insert delete unknowncmd malformed cancel-only
	Tag     string
	Msgs    [][]byte
	Reqs    int  // requests under this ID in this epoch (>1: duplicate IDs in flight)
	Relaxed bool // duplicates of differing kinds: only the weak checks apply
	Cancels int
	// CancelAt[i] = number of replies of this op that had arrived when cancel i was sent
	CancelAt []int
	Replies  []*reply
	Backend  string
	// subscription bookkeeping
	Established bool
	Final       bool
	idx         int
}

type client struct {
	no  int
	e   *env
	api api.DatabaseAPI

	mu      sync.Mutex
	notify  chan struct{}
	nAll    int
	orphans []*reply
	ops     []*opRec
	cur     map[string]int // op ID -> index of the current epoch
	malCur  int            // index of the malformed-message op awaiting its reply (-1: none)
	closed  bool
	late    []*reply
	yield   func()
}

func newClient(e *env, no int) *client {
	c := &client{no: no, e: e, cur: map[string]int{}, notify: make(chan struct{}), malCur: -1}
	c.api = api.CreateDatabaseAPI(c.onSend)
	e.clients = append(e.clients, c)
	return c
}

// onSend is the send function given to the API (callee side of the boundary).
func (c *client) onSend(data []byte) {
	cp := make([]byte, len(data))
	copy(cp, data)
	r := parseReply(cp)
	r.Seq = c.e.tick()
	c.e.jwrite("R", c.no, cp, "")
	c.mu.Lock()
	if c.closed {
		c.late = append(c.late, &r)
	}
	if idx, ok := c.cur[r.OpID]; ok {
		r.OpIdx = idx
		c.ops[idx].Replies = append(c.ops[idx].Replies, &r)
	} else if r.OpID == "" && c.malCur >= 0 {
		// error reply of a malformed message: the API does not echo an ID
		r.OpIdx = c.malCur
		c.ops[c.malCur].Replies = append(c.ops[c.malCur].Replies, &r)
	}
	c.nAll++
	if r.OpIdx < 0 && len(c.orphans) < 50 {
		c.orphans = append(c.orphans, &r)
	}
	close(c.notify)
	c.notify = make(chan struct{})
	y := c.yield
	c.mu.Unlock()
	if y != nil {
		y()
	}
}

// open starts a new epoch for an operation ID (or joins the running one: duplicate).
func (c *client) open(id, kind, tag, backend string) *opRec {
	c.mu.Lock()
	defer c.mu.Unlock()
	if idx, ok := c.cur[id]; ok && !c.ops[idx].Final {
		op := c.ops[idx]
		op.Reqs++
		if op.Kind != kind || kind == "sub" || kind == "qsub" {
			op.Relaxed = true
		}
		return op
	}
	op := &opRec{ID: id, Kind: kind, Tag: tag, Reqs: 1, Backend: backend, idx: len(c.ops)}
	c.ops = append(c.ops, op)
	c.cur[id] = op.idx
	return op
}

// retire decides a finished operation now (the connection is idle) and frees its ID.
func (c *client) retire(op *opRec, quiescent bool) []finding {
	c.mu.Lock()
	defer c.mu.Unlock()
	if op.Final {
		return nil
	}
	fs := checkOp(op, quiescent)
	op.Final = true
	if i, ok := c.cur[op.ID]; ok && i == op.idx {
		delete(c.cur, op.ID)
	}
	if len(fs) == 0 {
		op.Replies, op.Msgs = nil, nil
	}
	return fs
}

// send journals the message and hands it to the API (client side of the boundary).
func (c *client) send(msg []byte, tag string) {
	c.e.jwrite("S", c.no, msg, tag)
	c.e.tick()
	c.api.Handle(msg)
}

// request opens the op and sends "<id>|<cmd>|<args>".
func (c *client) request(id, cmd, args, tag, backend string) *opRec {
	op := c.open(id, cmd, tag, backend)
	msg := []byte(id + "|" + cmd + "|" + args)
	op.Msgs = append(op.Msgs, msg)
	c.send(msg, tag)
	return op
}

func (c *client) requestRaw(id, kind string, msg []byte, tag, backend string) *opRec {
	op := c.open(id, kind, tag, backend)
	op.Msgs = append(op.Msgs, msg)
	c.send(msg, tag)
	return op
}

// malformed sends a message the protocol cannot parse; its error reply may carry the
// first field or an empty operation ID.
func (c *client) malformed(msg []byte, firstField string, tag string) *opRec {
	c.mu.Lock()
	op := &opRec{ID: firstField, Kind: "malformed", Tag: tag, Reqs: 1, idx: len(c.ops)}
	op.Msgs = append(op.Msgs, msg)
	c.ops = append(c.ops, op)
	idx := op.idx
	if i, busy := c.cur[firstField]; !busy || c.ops[i].Final {
		c.cur[firstField] = idx
	}
	c.malCur = idx
	c.mu.Unlock()
	c.send(msg, tag)
	return op
}

// malformedDone ends the window in which an empty operation ID is attributed to the
// malformed message (malformed messages are always sent one at a time).
func (c *client) malformedDone() {
	c.mu.Lock()
	c.malCur = -1
	c.mu.Unlock()
}

func (c *client) cancel(op *opRec, tag string) {
	c.mu.Lock()
	op.Cancels++
	op.CancelAt = append(op.CancelAt, len(op.Replies))
	c.mu.Unlock()
	c.send([]byte(op.ID+"|cancel"), tag)
}

// nReplies returns the current number of replies of op.
func (c *client) nReplies(op *opRec) int {
	c.mu.Lock()
	defer c.mu.Unlock()
	return len(op.Replies)
}

func (c *client) snapshot(op *opRec) []*reply {
	c.mu.Lock()
	defer c.mu.Unlock()
	out := make([]*reply, len(op.Replies))
	copy(out, op.Replies)
	return out
}

// waitCond waits until cond (evaluated under the client lock) holds. The limit is a
// watchdog only: its expiry never decides anything by itself (see stall()).
func (c *client) waitCond(cond func() bool) bool {
	deadline := time.Now().Add(c.e.waitLim)
	for {
		c.mu.Lock()
		ok := cond()
		ch := c.notify
		c.mu.Unlock()
		if ok {
			return true
		}
		rem := time.Until(deadline)
		if rem <= 0 {
			return false
		}
		select {
		case <-ch:
		case <-time.After(rem):
		}
	}
}

// waitCondShort is a fast path before polling for idleness; its expiry means nothing.
func (c *client) waitCondShort(cond func() bool) {
	deadline := time.Now().Add(time.Second)
	for {
		c.mu.Lock()
		ok := cond()
		ch := c.notify
		c.mu.Unlock()
		if ok || time.Now().After(deadline) {
			return
		}
		select {
		case <-ch:
		case <-time.After(time.Until(deadline)):
		}
	}
}

// terminalCount counts the replies that end a request of the op's kind. Errors that
// answer a cancel message ("could not find subscription") are not terminals.
func terminalCount(op *opRec) int {
	n := 0
	for _, r := range op.Replies {
		switch op.Kind {
		case "get":
			if r.Type == "ok" || r.Type == "error" {
				n++
			}
		case "create", "update", "insert", "delete":
			if r.Type == "success" || r.Type == "error" {
				n++
			}
		case "query", "sub", "qsub":
			if r.Type == "done" || (r.Type == "error" && !(op.Cancels > 0 && isCancelErr(r.msgText()))) {
				n++
			}
		default:
			if r.Type == "error" {
				n++
			}
		}
	}
	return n
}

func isCancelErr(msg string) bool {
	return msg == "could not find subscription" || strings.HasPrefix(msg, "failed to cancel subscription")
}

// waitTerminal waits for as many terminal replies as requests were sent under the ID.
func (c *client) waitTerminal(op *opRec) bool {
	return c.waitCond(func() bool { return terminalCount(op) >= op.Reqs })
}

// ---------------------------------------------------------------------------------
// goroutine introspection

type gor struct {
	ID     string
	State  string
	Frames []string // function names, innermost first
	Text   string
}

var gorHead = regexp.MustCompile(`^goroutine (\d+) \[([^\]]*)\]:`)

func dumpGoroutines() []gor {
	buf := make([]byte, 1<<18)
	for {
		n := runtime.Stack(buf, true)
		if n < len(buf) {
			buf = buf[:n]
			break
		}
		buf = make([]byte, 2*len(buf))
	}
	var out []gor
	for _, blk := range strings.Split(string(buf), "\n\n") {
		lines := strings.Split(blk, "\n")
		if len(lines) == 0 {
			continue
		}
		m := gorHead.FindStringSubmatch(lines[0])
		if m == nil {
			continue
		}
		g := gor{ID: m[1], State: m[2], Text: blk}
		for _, ln := range lines[1:] {
			if ln == "" || ln[0] == '\t' || strings.HasPrefix(ln, "created by ") {
				continue
			}
			fn := ln
			if i := strings.LastIndex(fn, "("); i > 0 {
				fn = fn[:i]
			}
			g.Frames = append(g.Frames, fn)
		}
		out = append(out, g)
	}
	return out
}

const apiRecv = "portbase/api.(*DatabaseAPI)."

// handlerState classifies the goroutines of the API handlers: parked = waiting in
// processSub's select for the next notification (an established subscription);
// active = any other goroutine inside a DatabaseAPI method.
func handlerState(gs []gor) (parked int, active []gor) {
	for _, g := range gs {
		inAPI := false
		first := ""
		for _, f := range g.Frames {
			if strings.Contains(f, apiRecv) {
				inAPI = true
			}
			if first == "" && !strings.HasPrefix(f, "runtime.") {
				first = f
			}
		}
		if !inAPI {
			continue
		}
		if strings.HasPrefix(g.State, "select") && strings.Contains(first, apiRecv+"processSub") {
			parked++
			continue
		}
		active = append(active, g)
	}
	return
}

// waitIdle polls until no API handler goroutine is active. It returns the number of
// parked subscription loops. ok=false: the watchdog expired (see stall()).
func (e *env) waitIdle() (parked int, ok bool) {
	deadline := time.Now().Add(e.waitLim)
	sleep := 50 * time.Microsecond
	for {
		p, act := handlerState(dumpGoroutines())
		if len(act) == 0 {
			return p, true
		}
		if time.Now().After(deadline) {
			return p, false
		}
		time.Sleep(sleep)
		if sleep < 5*time.Millisecond {
			sleep *= 2
		}
	}
}

var lockWait = regexp.MustCompile(`sync\.\(\*(RW)?Mutex\)\.(R)?Lock|sync\.runtime_Semacquire`)

// stall is called when a watchdog expired. It decides structurally what happened:
//   - no handler goroutine is left: whatever was awaited can never arrive ("idle");
//   - handler goroutines exist and two dumps taken apart show the very same goroutines
//     blocked in lock acquisitions with identical stacks: the process is wedged;
//   - anything else: inconclusive (slow machine).
func (e *env) stall(what string) (verdict string, detail map[string]any) {
	g1 := dumpGoroutines()
	_, a1 := handlerState(g1)
	if len(a1) == 0 {
		return "idle", map[string]any{"awaited": what}
	}
	time.Sleep(3 * time.Second)
	g2 := dumpGoroutines()
	_, a2 := handlerState(g2)
	if len(a2) == 0 {
		return "idle-late", map[string]any{"awaited": what}
	}
	sig := func(gs []gor) map[string]string {
		m := map[string]string{}
		for _, g := range gs {
			m[g.ID] = strings.Join(g.Frames, "<")
		}
		return m
	}
	s1, s2 := sig(a1), sig(a2)
	same := len(s1) == len(s2)
	allLock := true
	var blockedAt []string
	for id, fr := range s2 {
		if s1[id] != fr {
			same = false
		}
	}
	for _, g := range a2 {
		if len(g.Frames) == 0 || !lockWait.MatchString(strings.Join(g.Frames[:min(4, len(g.Frames))], " ")) {
			allLock = false
		}
		for _, f := range g.Frames {
			if strings.Contains(f, "safing/portbase") {
				blockedAt = append(blockedAt, strings.TrimPrefix(f, "github.com/safing/portbase/"))
				break
			}
		}
	}
	var texts []string
	for _, g := range g2 {
		if strings.Contains(g.Text, "safing/portbase") {
			t := g.Text
			if len(t) > 1800 {
				t = t[:1800]
			}
			texts = append(texts, t)
		}
		if len(texts) >= 12 {
			break
		}
	}
	detail = map[string]any{"awaited": what, "blocked_in": blockedAt, "goroutines": texts}
	if same && allLock {
		return "wedged", detail
	}
	return "busy", detail
}

func min(a, b int) int {
	if a < b {
		return a
	}
	return b
}
