package main

// oracle.go — the reply-grammar automaton per operation ID and the content
// comparison (record written through the API == record read back, apart from _meta).

import (
	"bytes"
	"encoding/json"
	"fmt"
	"math/big"
	"reflect"
	"sort"
	"strings"
)

var knownTypes = map[string]bool{"ok": true, "error": true, "done": true, "success": true,
	"upd": true, "new": true, "del": true, "warning": true}

type finding struct {
	Sig    string
	What   string
	Detail map[string]any
}

func opDetail(op *opRec, extra map[string]any) map[string]any {
	d := map[string]any{"op_id": op.ID, "kind": op.Kind, "tag": op.Tag, "requests": op.Reqs, "cancels": op.Cancels,
		"cancel_sent_after_n_replies": op.CancelAt, "backend": op.Backend}
	var ms []string
	for _, m := range op.Msgs {
		ms = append(ms, clip(string(m), 600))
	}
	d["messages"] = ms
	var rs []string
	for i, r := range op.Replies {
		if i >= 40 {
			rs = append(rs, fmt.Sprintf("... %d more", len(op.Replies)-i))
			break
		}
		rs = append(rs, clip(string(r.Raw), 300))
	}
	d["replies"] = rs
	for k, v := range extra {
		d[k] = v
	}
	return d
}

func clip(s string, n int) string {
	if len(s) > n {
		return s[:n] + fmt.Sprintf("…(%d bytes)", len(s))
	}
	return s
}

// checkOp runs the automaton of the op's kind over its replies. quiescent: no handler
// goroutine of this connection can produce further replies for it (all requests
// terminated / the connection is idle), so "exactly one" can be demanded.
func checkOp(op *opRec, quiescent bool) []finding {
	var out []finding
	bad := func(kind, what string, extra map[string]any) {
		out = append(out, finding{Sig: "C13:" + kind + ":" + op.Kind, What: what, Detail: opDetail(op, extra)})
	}
	// shape of every reply
	for _, r := range op.Replies {
		if !knownTypes[r.Type] {
			bad("unknown-reply-type", fmt.Sprintf("reply with a message type the protocol does not know: %q", clip(string(r.Raw), 120)), nil)
			return out
		}
		switch r.Type {
		case "ok", "upd", "new":
			if !r.HasR || !bytes.Contains(r.Rest, []byte("|")) {
				bad("reply-shape", fmt.Sprintf("%s reply without key and data: %q", r.Type, clip(string(r.Raw), 120)), nil)
				return out
			}
		case "del":
			if !r.HasR || len(r.Rest) == 0 {
				bad("reply-shape", "del reply without key", nil)
				return out
			}
		}
	}
	n := func(types ...string) int {
		c := 0
		for _, r := range op.Replies {
			for _, t := range types {
				if r.Type == t {
					c++
				}
			}
		}
		return c
	}
	allowed := func(types ...string) bool {
		for _, r := range op.Replies {
			ok := false
			for _, t := range types {
				if r.Type == t {
					ok = true
				}
			}
			if !ok {
				bad("wrong-reply-type", fmt.Sprintf("%s request answered with a %q message", op.Kind, r.Type), nil)
				return false
			}
		}
		return true
	}

	if op.Relaxed {
		// duplicate IDs of mixed kinds in flight: the statement only lets us demand that
		// nothing foreign shows up (types are known, checked above).
		return out
	}

	switch op.Kind {
	case "get":
		if !allowed("ok", "error") {
			return out
		}
		if len(op.Replies) > op.Reqs {
			bad("extra-reply", fmt.Sprintf("get answered %d times for %d request(s)", len(op.Replies), op.Reqs), nil)
		} else if quiescent && len(op.Replies) < op.Reqs {
			bad("missing-reply", fmt.Sprintf("get answered %d times for %d request(s) and no handler is running any more", len(op.Replies), op.Reqs), nil)
		}
	case "create", "update", "insert", "delete":
		if !allowed("success", "error") {
			return out
		}
		if len(op.Replies) > op.Reqs {
			bad("extra-reply", fmt.Sprintf("%s answered %d times for %d request(s)", op.Kind, len(op.Replies), op.Reqs), nil)
		} else if quiescent && len(op.Replies) < op.Reqs {
			bad("missing-reply", fmt.Sprintf("%s answered %d times for %d request(s) and no handler is running any more", op.Kind, len(op.Replies), op.Reqs), nil)
		}
	case "malformed", "unknowncmd":
		if !allowed("error") {
			return out
		}
		if len(op.Replies) > op.Reqs {
			bad("extra-reply", fmt.Sprintf("malformed message answered %d times", len(op.Replies)), nil)
		} else if quiescent && len(op.Replies) < op.Reqs {
			bad("missing-reply", "malformed message got no error reply", nil)
		}
	case "cancel-only":
		// a cancel for an ID nothing runs under: the statement prescribes nothing; the
		// code answers with one error. More than one reply per cancel is foreign.
		if !allowed("error") {
			return out
		}
		if len(op.Replies) > op.Cancels {
			bad("extra-reply", fmt.Sprintf("%d cancel(s) answered with %d replies", op.Cancels, len(op.Replies)), nil)
		}
	case "query":
		if op.Reqs > 1 {
			// duplicate query IDs: each request ends with exactly one done|error
			if !allowed("ok", "warning", "done", "error") {
				return out
			}
			if op.Cancels == 0 {
				if t := n("done", "error"); t > op.Reqs {
					bad("extra-terminal", fmt.Sprintf("%d queries under one ID ended %d times", op.Reqs, t), nil)
				} else if quiescent && t < op.Reqs {
					bad("missing-terminal", fmt.Sprintf("%d queries under one ID ended %d times and no handler is running", op.Reqs, t), nil)
				}
			}
			return out
		}
		out = append(out, checkStream(op, quiescent, false)...)
	case "sub":
		out = append(out, checkStream(op, quiescent, true)...)
	case "qsub":
		out = append(out, checkStream(op, quiescent, true)...)
	}
	return out
}

// checkStream is the automaton for query / sub / qsub with a single request under the ID.
//
//	query:  (ok|warning)* (done|error)                      nothing afterwards
//	sub:    error  |  (upd|new|del|warning)* [after an accepted cancel: done]
//	qsub:   (ok|warning)* ( error | done (upd|new|del|warning)* [after cancel: done] )
//
// Every cancel message may be answered by at most one error of its own
// ("could not find subscription" / "failed to cancel subscription"), anywhere.
func checkStream(op *opRec, quiescent bool, hasSub bool) []finding {
	var out []finding
	bad := func(kind, what string, extra map[string]any) {
		out = append(out, finding{Sig: "C13:" + kind + ":" + op.Kind, What: what, Detail: opDetail(op, extra)})
	}
	const (
		stQuery = iota // query phase
		stSub          // subscription phase
		stEnd          // terminated
	)
	st := stQuery
	if op.Kind == "sub" {
		st = stSub
	}
	cancelErrs := 0
	subSeen := 0
	for i, r := range op.Replies {
		// errors that answer a cancel message
		if r.Type == "error" && isCancelErr(r.msgText()) {
			sent := 0
			for _, at := range op.CancelAt {
				if at <= i {
					sent++
				}
			}
			cancelErrs++
			if cancelErrs > sent {
				bad("unsolicited-cancel-error", fmt.Sprintf("reply %d is a cancel error but only %d cancel(s) had been sent", i, sent), nil)
				return out
			}
			continue
		}
		switch st {
		case stQuery:
			switch r.Type {
			case "ok", "warning":
			case "done":
				if op.Kind == "qsub" {
					st = stSub
				} else {
					st = stEnd
				}
			case "error":
				st = stEnd
			default:
				bad("wrong-reply-type", fmt.Sprintf("%q message in the query phase of a %s", r.Type, op.Kind), map[string]any{"reply_index": i})
				return out
			}
		case stSub:
			switch r.Type {
			case "upd", "new", "del", "warning":
				subSeen++
			case "done":
				// the feed ends only when the subscription was cancelled
				sent := 0
				for _, at := range op.CancelAt {
					if at <= i {
						sent++
					}
				}
				if sent == 0 {
					bad("done-without-cancel", "subscription ended with done although no cancel had been sent", map[string]any{"reply_index": i})
					return out
				}
				st = stEnd
			case "error":
				if op.Kind == "sub" && subSeen == 0 && i == cancelErrs {
					st = stEnd // refused subscription (bad query, unknown database)
				} else {
					bad("error-in-subscription", fmt.Sprintf("error message %q inside a running subscription", clip(r.msgText(), 100)), map[string]any{"reply_index": i})
					return out
				}
			default:
				bad("wrong-reply-type", fmt.Sprintf("%q message in the subscription phase of a %s", r.Type, op.Kind), map[string]any{"reply_index": i})
				return out
			}
		case stEnd:
			bad("reply-after-terminal", fmt.Sprintf("%q message after the operation had ended", r.Type), map[string]any{"reply_index": i})
			return out
		}
	}
	if !quiescent {
		return out
	}
	switch {
	case op.Kind == "query" && st != stEnd && op.Cancels == 0:
		bad("missing-terminal", "query got neither done nor error and no handler is running any more", nil)
	case op.Kind == "qsub" && st == stQuery && op.Cancels == 0:
		bad("missing-terminal", "qsub query phase got neither done nor error and no handler is running any more", nil)
	case hasSub && st == stSub && op.Established && op.Cancels > 0 && cancelErrs == 0:
		// a cancel was sent to an established subscription and was not refused
		bad("missing-done", "subscription was cancelled (cancel not refused) but no done arrived and no handler is running any more", nil)
	}
	return out
}

// ---------------------------------------------------------------------------------
// content

// splitKeyData splits the "<key>|<data>" part of an ok/upd/new reply. Keys may contain
// the separator; the data part is the DSD form "J{...}", so the split point is the
// first separator that is followed by a valid JSON document. wantKey, when known,
// takes precedence.
func splitKeyData(rest []byte, wantKey string) (key string, data []byte, ok bool) {
	if wantKey != "" && bytes.HasPrefix(rest, []byte(wantKey+"|")) {
		return wantKey, rest[len(wantKey)+1:], true
	}
	for i := 0; i < len(rest); i++ {
		if rest[i] == '|' && i+1 < len(rest) && rest[i+1] == 'J' && json.Valid(rest[i+2:]) {
			return string(rest[:i]), rest[i+1:], true
		}
	}
	if i := bytes.IndexByte(rest, '|'); i >= 0 {
		return string(rest[:i]), rest[i+1:], true
	}
	return "", nil, false
}

// decodeDoc parses a JSON document keeping number literals.
func decodeDoc(b []byte) (any, error) {
	dec := json.NewDecoder(bytes.NewReader(b))
	dec.UseNumber()
	var v any
	if err := dec.Decode(&v); err != nil {
		return nil, err
	}
	if dec.More() {
		return nil, fmt.Errorf("trailing data")
	}
	return v, nil
}

func jsonEqual(a, b any) bool {
	switch x := a.(type) {
	case map[string]any:
		y, ok := b.(map[string]any)
		if !ok || len(x) != len(y) {
			return false
		}
		for k, v := range x {
			w, ok := y[k]
			if !ok || !jsonEqual(v, w) {
				return false
			}
		}
		return true
	case []any:
		y, ok := b.([]any)
		if !ok || len(x) != len(y) {
			return false
		}
		for i := range x {
			if !jsonEqual(x[i], y[i]) {
				return false
			}
		}
		return true
	case json.Number:
		y, ok := b.(json.Number)
		if !ok {
			return false
		}
		if x == y {
			return true
		}
		ra, ok1 := new(big.Rat).SetString(string(x))
		rb, ok2 := new(big.Rat).SetString(string(y))
		return ok1 && ok2 && ra.Cmp(rb) == 0
	default:
		return reflect.DeepEqual(a, b)
	}
}

// stripMeta returns the document without its top-level _meta member and the member.
func stripMeta(doc any) (any, any, bool) {
	m, ok := doc.(map[string]any)
	if !ok {
		return doc, nil, false
	}
	out := make(map[string]any, len(m))
	var meta any
	has := false
	for k, v := range m {
		if k == "_meta" {
			meta, has = v, true
			continue
		}
		out[k] = v
	}
	return out, meta, has
}

// compareRecord checks the data of an ok/upd/new reply against the document the model
// holds for the key. Returns "" if equal, else an explanation.
func compareRecord(data []byte, want any) string { return compareRecordKey(data, want, "") }

// compareRecordKey additionally checks the metadata section against the model: the
// record is reported under its own key and a record that is handed out is not deleted.
func compareRecordKey(data []byte, want any, key string) string {
	if len(data) == 0 || data[0] != 'J' {
		return fmt.Sprintf("data does not start with the JSON format identifier: %q", clip(string(data), 80))
	}
	got, err := decodeDoc(data[1:])
	if err != nil {
		return fmt.Sprintf("data is not a JSON document: %v: %q", err, clip(string(data), 200))
	}
	gs, meta, has := stripMeta(got)
	if !has {
		return "record came back without the _meta section"
	}
	mm, ok := meta.(map[string]any)
	if !ok {
		return fmt.Sprintf("_meta section is not an object: %v", meta)
	}
	if key != "" {
		if k, ok := mm["Key"].(string); !ok || k != key {
			return fmt.Sprintf("_meta.Key is %q, the record's key is %q", fmt.Sprint(mm["Key"]), key)
		}
		if dl, ok := mm["Deleted"].(json.Number); ok && dl != "0" {
			return fmt.Sprintf("_meta.Deleted is %s for a record that was not deleted (key %q)", dl, key)
		}
	}
	ws, _, _ := stripMeta(want)
	if !jsonEqual(gs, ws) {
		gb, _ := json.Marshal(gs)
		wb, _ := json.Marshal(ws)
		return fmt.Sprintf("content differs: written %s, read back %s", clip(string(wb), 400), clip(string(gb), 400))
	}
	return ""
}

// normErr turns an error text into a class (for coverage: which refusals were seen).
func normErr(msg string) string {
	msg = strings.ToValidUTF8(msg, "?")
	if i := strings.IndexAny(msg, ":\"("); i > 0 {
		msg = msg[:i]
	}
	if len(msg) > 40 {
		msg = msg[:40]
	}
	return strings.TrimSpace(msg)
}

func sortedKeys[M ~map[string]V, V any](m M) []string {
	ks := make([]string, 0, len(m))
	for k := range m {
		ks = append(ks, k)
	}
	sort.Strings(ks)
	return ks
}
