package main

// scenario.go — protocol-aware request sequences against one API connection, decided
// by the reply automaton (oracle.go), the content model and the subscription model.

import (
	"encoding/json"
	"fmt"
	"sort"
	"strings"
	"sync"
	"time"

	"github.com/safing/portbase/database/record"
	"github.com/safing/portbase/formats/dsd"

	"verifharness/internal/vlib"
)

// modelRec is what the harness knows about a key it wrote through the API.
type modelRec struct {
	Key    string
	DB     string
	Exists bool
	Known  bool // content is known (last full write succeeded, no partial insert since)
	Doc    any
}

// subRec is an established subscription with the notifications it is entitled to.
type subRec struct {
	op     *opRec
	q      *queryGen
	expect []expNote // in order, sequential phases only
	base   int       // number of replies of the op when the subscription phase began
}

type expNote struct {
	Key string
	Del bool
	Doc any // nil: content not checked
}

type seq struct {
	e      *env
	c      *client
	r      *vlib.Rand
	no     int
	subs   []*subRec
	shape  []string
	failed bool
	avoid  map[string]bool
	// stepTag is the class of the step being executed (what a wedge is attributed to)
	stepTag string
}

func (s *seq) viol(f finding) {
	f.Detail["sequence"] = s.no
	f.Detail["batch"] = s.e.spec
	f.Detail["class"] = "scenario"
	s.e.b.Violation(f.Sig, f.What, f.Detail)
	s.failed = true
}

// allowed implements the avoid list (classes of steps that killed an earlier run of
// this batch are left out so that the rest of the batch can still be explored).
func (s *seq) allowed(tag string) bool {
	if s.avoid[tag] {
		s.e.b.Count("steps_avoided", 1)
		return false
	}
	s.stepTag = tag
	return true
}

// settle waits for the terminal replies of op and decides a watchdog expiry structurally.
func (s *seq) settle(op *opRec) bool {
	if s.c.waitTerminal(op) {
		return true
	}
	return s.onStall(fmt.Sprintf("terminal reply of %s %q", op.Kind, clip(op.ID, 40)), op)
}

// idle waits until no handler goroutine is active.
func (s *seq) idle() bool {
	if _, ok := s.e.waitIdle(); ok {
		return true
	}
	return s.onStall("handlers to finish", nil)
}

// onStall: see env.stall. Returns true if execution may continue (the awaited thing
// can never arrive but the process is idle: the automaton will report what is missing).
func (s *seq) onStall(what string, op *opRec) bool {
	verdict, detail := s.e.stall(what)
	switch verdict {
	case "idle", "idle-late":
		return true
	case "wedged":
		site := "api"
		if h, ok := detail["handle_blocked_in"].(string); ok && h != "" {
			site = "handle-blocked:" + h
		} else if b, ok := detail["packages"].([]string); ok && len(b) > 0 {
			site = strings.Join(b, "+")
		} else if b, ok := detail["blocked_on_channel_send_in"].([]string); ok && len(b) > 0 {
			// no storage lock involved: name the portbase function that waits on a
			// channel with locks held
			site = strings.Join(b[:min(2, len(b))], "+")
		}
		s.e.b.Extra["avoid_after_wedge"] = s.stepTag
		if op != nil {
			detail["op"] = opDetail(op, nil)
		}
		detail["journal_tail"] = s.e.journalTail(30)
		msg := "the goroutines handling API requests are blocked for good: every goroutine inside portbase is blocked with an identical stack in three dumps 3 s apart and some wait for a mutex (awaited: " + what + ")"
		if h, ok := detail["handle_blocked_in"].(string); ok && h != "" {
			msg = fmt.Sprintf("DatabaseAPI.Handle does not return: the connection's reader is blocked in %s with an identical stack in three dumps 3 s apart while nothing else works on behalf of the connection (%v subscription loops wait for their feeds); no further message, not even a cancel, can be handled", h, detail["parked_subscription_loops"])
		}
		s.viol(finding{Sig: "C13:wedged:" + site, What: msg, Detail: detail})
	default:
		s.e.b.Inconclusive("sequence %d of batch %d: watchdog (%s) expired waiting for %s while handlers were still running (same stacks: %v, lock waits: %v, not blocked: %v)", s.no, s.e.spec.Batch, s.e.waitLim, what, detail["same_stacks"], detail["lock_waiting_goroutines"], detail["not_blocked"])
	}
	s.e.aborted = true
	s.e.stallAt = what
	return false
}

func (s *seq) note(k string) {
	s.shape = append(s.shape, k)
	s.e.b.Count("req_"+strings.SplitN(k, "/", 2)[0], 1)
}

func (s *seq) lastType(op *opRec) string {
	rs := s.c.snapshot(op)
	if len(rs) == 0 {
		return "none"
	}
	return rs[len(rs)-1].Type
}

func (s *seq) recordOutcome(op *opRec) {
	for _, r := range s.c.snapshot(op) {
		s.e.b.Count("reply_"+r.Type, 1)
		if r.Type == "error" || r.Type == "warning" {
			s.e.b.Seen("refusal_texts", normErr(r.msgText()))
		}
	}
	s.shape = append(s.shape, op.Kind+">"+s.lastType(op))
}

// ---------------------------------------------------------------------------------
// steps

func (s *seq) writableDB() *dbInfo {
	return s.e.w.pickDB(s.r, func(d *dbInfo) bool { return d.Writable && d.Readable })
}

// stepPut: create or update with a JSON object payload, then read it back.
func (s *seq) stepPut() {
	d := s.writableDB()
	create := s.r.Bool()
	var key string
	existing := s.existingKeys(d.Name)
	if len(existing) > 0 && s.r.Chance(1, 2) {
		key = existing[s.r.Intn(len(existing))]
	} else {
		key = s.e.newKey(s.r, d.Name)
	}
	s.put(d, key, create, true)
}

func (s *seq) existingKeys(db string) []string {
	var ks []string
	for k, m := range s.e.model {
		if m.DB == db && m.Exists {
			ks = append(ks, k)
		}
	}
	sort.Strings(ks)
	return ks
}

func (s *seq) put(d *dbInfo, key string, create, readBack bool) bool {
	cmd := "update"
	if create {
		cmd = "create"
	}
	raw, doc := genDoc(s.r, s.r.Intn(12))
	s.note(cmd + "/" + d.Backend)
	op := s.c.request(s.e.newOpID(s.r), cmd, key+"|J"+string(raw), cmd+"/json-object", d.Backend)
	if !s.settle(op) {
		return false
	}
	s.recordOutcome(op)
	ok := s.lastType(op) == "success"
	m := s.e.model[key]
	if m == nil {
		m = &modelRec{Key: key, DB: d.Name}
		s.e.model[key] = m
	}
	if ok {
		m.Exists, m.Known, m.Doc = true, true, doc
		s.expectNote(d.Name, key, doc, false)
	} else {
		s.e.b.Seen("put_refused", d.Backend+":"+normErr(lastMsg(s.c.snapshot(op))))
	}
	if ok && readBack {
		s.get(d, key, "get/after-write")
	}
	return ok
}

func lastMsg(rs []*reply) string {
	if len(rs) == 0 {
		return ""
	}
	return rs[len(rs)-1].msgText()
}

// get reads a key and, if the model knows its content, compares.
func (s *seq) get(d *dbInfo, key, tag string) {
	s.note("get/" + d.Backend)
	op := s.c.request(s.e.newOpID(s.r), "get", key, tag, d.Backend)
	if !s.settle(op) {
		return
	}
	s.recordOutcome(op)
	rs := s.c.snapshot(op)
	if len(rs) != 1 {
		return // the automaton reports it
	}
	m := s.e.model[key]
	if m == nil || !m.Known {
		return
	}
	r := rs[0]
	dbName, dbKey := record.ParseKey(key)
	canon := dbName + ":" + dbKey
	switch {
	case r.Type == "error" && m.Exists:
		s.viol(finding{Sig: "C13:roundtrip:lost:" + d.Backend, What: "a record whose create/update was answered with success cannot be read back: " + clip(r.msgText(), 120),
			Detail: opDetail(op, map[string]any{"key": key})})
	case r.Type == "ok" && !m.Exists:
		s.viol(finding{Sig: "C13:roundtrip:undeleted:" + d.Backend, What: "a record whose delete was answered with success is still returned by get",
			Detail: opDetail(op, map[string]any{"key": key})})
	case r.Type == "ok":
		k, data, ok := splitKeyData(r.Rest, canon)
		if !ok || k != canon {
			s.viol(finding{Sig: "C13:roundtrip:wrong-key:get", What: fmt.Sprintf("get %q answered with key %q", canon, k), Detail: opDetail(op, nil)})
			return
		}
		s.e.b.Count("roundtrip_checks", 1)
		if diff := compareRecordKey(data, m.Doc, canon); diff != "" {
			wb, _ := json.Marshal(m.Doc)
			s.viol(finding{Sig: "C13:roundtrip:content-changed:get", What: "record written through the API reads back changed: " + diff,
				Detail: opDetail(op, map[string]any{"key": key, "written": clip(string(wb), 2000), "read": clip(string(data), 2000)})})
		}
	}
}

// stepGet: reads of seeded records of every format, missing keys, foreign databases.
func (s *seq) stepGet() {
	d := s.e.w.pickDB(s.r, nil)
	var key, tag string
	seeds := s.e.w.seeds[d.Name]
	switch {
	case len(seeds) > 0 && s.r.Chance(3, 5):
		sd := seeds[s.r.Intn(len(seeds))]
		key, tag = sd.Key, "get/seed-"+sd.Class
	case s.r.Chance(1, 2):
		key, tag = d.Name+":does/not/exist", "get/missing"
	default:
		key = vlib.Pick(s.r, "nodb:x", "", ":", d.Name, d.Name+":", "x", "hmap:seed/j/01|tail")
		tag = "get/odd-key"
	}
	if !s.allowed(tag) {
		return
	}
	s.note("get/" + d.Backend)
	op := s.c.request(s.e.newOpID(s.r), "get", key, tag, d.Backend)
	if !s.settle(op) {
		return
	}
	s.recordOutcome(op)
	s.e.b.Seen("get_outcomes", tag+"="+s.lastType(op))
	if rs := s.c.snapshot(op); len(rs) == 1 && rs[0].Type == "ok" {
		dbName, dbKey := record.ParseKey(key)
		canon := dbName + ":" + dbKey
		if !strings.HasPrefix(string(rs[0].Rest), canon+"|") {
			s.viol(finding{Sig: "C13:roundtrip:wrong-key:get", What: fmt.Sprintf("get %q answered with another key: %q", canon, clip(string(rs[0].Rest), 100)), Detail: opDetail(op, nil)})
		}
	}
}

// stepPutOther: create/update with payloads that are not JSON objects.
func (s *seq) stepPutOther() {
	d := s.e.w.pickDB(s.r, nil)
	key := s.e.newKey(s.r, d.Name)
	cmd := vlib.Pick(s.r, "create", "update")
	doc := seedDoc(s.r.Intn(50))
	var payload []byte
	var tag string
	switch s.r.Intn(12) {
	case 0:
		payload, tag = append([]byte{dsd.CBOR}, mustDump(doc, dsd.CBOR)...), "cbor"
	case 1:
		payload, tag = append([]byte{dsd.MsgPack}, mustDump(doc, dsd.MsgPack)...), "msgpack"
	case 2:
		payload, tag = append([]byte{dsd.YAML}, mustDump(doc, dsd.YAML)...), "yaml"
	case 3:
		payload, tag = append([]byte{dsd.RAW}, s.r.Bytes(s.r.Range(1, 64))...), "raw"
	case 4:
		payload, tag = append([]byte{dsd.GenCode}, s.r.Bytes(s.r.Range(1, 64))...), "gencode"
	case 5:
		payload, tag = append([]byte{byte(vlib.Pick(s.r, 0, 2, 'X', 'Z', 'L', 0x80, 0xff))}, s.r.Bytes(s.r.Range(1, 32))...), "unknown-format"
	case 6:
		payload, tag = []byte("J[1,2,3]"), "json-array"
	case 7:
		payload, tag = []byte("J"+vlib.Pick(s.r, "5", "\"str\"", "null", "true")), "json-scalar"
	case 8:
		payload, tag = []byte("J"+vlib.Pick(s.r, "{\"a\":", "{{", "\x00\x01\x02", "{\"a\":1}}", "nope", "{\"a\":1}{\"b\":2}")), "json-garbage"
	case 9:
		payload, tag = []byte(vlib.Pick(s.r, "", "J", "{")), "too-short"
	case 10:
		payload, tag = mustFull(doc), "json-from-dsd"
	default:
		payload, tag = []byte("{\"no\":\"format byte\"}"), "no-format-byte"
	}
	tag = cmd + "/" + tag
	if !s.allowed(tag) {
		return
	}
	s.note(cmd + "/" + d.Backend)
	op := s.c.request(s.e.newOpID(s.r), cmd, key+"|"+string(payload), tag, d.Backend)
	if !s.settle(op) {
		return
	}
	s.recordOutcome(op)
	okPut := s.lastType(op) == "success"
	s.e.b.Seen("put_other_outcomes", tag+"@"+d.Backend+"="+s.lastType(op))
	if okPut {
		// whatever was stored must at least be retrievable without harm: read it,
		// query over it and insert into it
		if s.allowed("get/after-" + tag) {
			s.note("get/" + d.Backend)
			g := s.c.request(s.e.newOpID(s.r), "get", key, "get/after-"+tag, d.Backend)
			if !s.settle(g) {
				return
			}
			s.recordOutcome(g)
			s.e.b.Seen("get_outcomes", "after-"+tag+"="+s.lastType(g))
		}
		itag := "insert/nonjson-target"
		if strings.Contains(tag, "/json-") && !strings.HasSuffix(tag, "json-from-dsd") {
			itag = "insert/odd-json-target"
		} else if strings.HasSuffix(tag, "json-from-dsd") {
			itag = "insert/json-object"
		}
		if s.r.Chance(1, 2) && s.allowed(itag) {
			s.e.jwrite("Q", s.c.no, nil, "")
			s.note("insert/" + d.Backend)
			i := s.c.request(s.e.newOpID(s.r), "insert", key+"|{\"added\":1}", itag, d.Backend)
			if !s.settle(i) {
				return
			}
			s.recordOutcome(i)
			s.e.b.Seen("insert_outcomes", itag+"<"+tag+"@"+d.Backend+"="+s.lastType(i))
		}
	}
}

func mustFull(v any) []byte {
	b, err := dsd.Dump(v, dsd.JSON)
	if err != nil {
		panic(err)
	}
	return b
}

// stepInsert: insert into API-written JSON records (modelled) and into seeded records
// of every format.
func (s *seq) stepInsert() {
	d := s.writableDB()
	existing := s.existingKeys(d.Name)
	if len(existing) > 0 && s.r.Chance(1, 2) {
		key := existing[s.r.Intn(len(existing))]
		m := s.e.model[key]
		field := vlib.Pick(s.r, "ins1", "ins2", "n", "s", "brandnew")
		var val any
		switch s.r.Intn(4) {
		case 0:
			val = s.r.Intn(1000)
		case 1:
			val = fmt.Sprintf("v%d", s.r.Intn(1000))
		case 2:
			val = s.r.Bool()
		default:
			val = 1.5
		}
		if _, isFloat := val.(float64); isFloat && field == "n" {
			// the integer operators of the query language read a fractional number
			// truncated; the reference evaluator only models whole numbers in n
			val = 7
		}
		body, _ := json.Marshal(map[string]any{field: val})
		tag := "insert/json-object"
		if !s.allowed(tag) {
			return
		}
		s.note("insert/" + d.Backend)
		op := s.c.request(s.e.newOpID(s.r), "insert", key+"|"+string(body), tag, d.Backend)
		if !s.settle(op) {
			return
		}
		s.recordOutcome(op)
		if s.lastType(op) == "success" {
			if m.Known {
				if dm, ok := m.Doc.(map[string]any); ok {
					nd := map[string]any{}
					for k, v := range dm {
						nd[k] = v
					}
					vv, _ := decodeDoc(mustJSON(val))
					nd[field] = vv
					m.Doc = nd
				}
			}
			s.expectNote(d.Name, key, m.Doc, false)
			s.get(d, key, "get/after-insert")
		} else {
			// single-member bodies: a refused insert changed nothing
			s.e.b.Seen("insert_refused", normErr(lastMsg(s.c.snapshot(op))))
			s.get(d, key, "get/after-refused-insert")
		}
		return
	}
	if s.r.Chance(1, 3) {
		d = s.e.w.db(vlib.Pick(s.r, "hmap", "hmsd"))
	}
	seeds := s.e.w.seeds[d.Name]
	if len(seeds) == 0 {
		return
	}
	sd := seeds[s.r.Intn(len(seeds))]
	if d.Backend == "hashmap" && s.r.Chance(1, 2) {
		for _, x := range seeds {
			if x.Class == "struct" && s.r.Chance(1, 2) {
				sd = x
			}
		}
	}
	body := vlib.Pick(s.r, "{\"a\":1}", "{\"n\":5,\"zz\":\"x\"}", "{\"Name\":\"changed\"}", "{\"Score\":7}", "{\"Tags\":[\"q\"]}", "{\"Labels\":{\"a\":\"b\"}}",
		"{\"Inner\":{\"X\":1}}", "{\"Ptr\":null}", "{\"Small\":300}", "{\"Ratio\":2}", "{\"Flag\":\"no\"}", "[1,2]", "5", "", "{}", "J{\"a\":1}", "{\"sub.x\":9}", "{\"a\":{\"deep\":[1,{\"b\":2}]}}")
	tag := "insert/nonjson-target"
	switch sd.Class {
	case "struct":
		tag = "insert/struct"
	case "json", "secret", "crown", "expired":
		tag = "insert/seed-" + sd.Class
	case "json-array", "json-scalar", "json-garbage":
		tag = "insert/odd-json-target"
	}
	if !s.allowed(tag) {
		return
	}
	s.note("insert/" + d.Backend)
	op := s.c.request(s.e.newOpID(s.r), "insert", sd.Key+"|"+body, tag, d.Backend)
	if !s.settle(op) {
		return
	}
	s.recordOutcome(op)
	s.e.b.Seen("insert_outcomes", tag+"/"+sd.Class+":"+fieldOf(body)+"="+s.lastType(op))
	// seeded records may be changed by this: subscriptions of this sequence that
	// select them would be notified; the modelled subscriptions use other prefixes.
}

func fieldOf(body string) string {
	if i := strings.Index(body, "\""); i >= 0 {
		if j := strings.Index(body[i+1:], "\""); j >= 0 {
			return body[i+1 : i+1+j]
		}
	}
	return "none"
}

func mustJSON(v any) []byte {
	b, err := json.Marshal(v)
	if err != nil {
		panic(err)
	}
	return b
}

func (s *seq) stepDelete() {
	d := s.writableDB()
	existing := s.existingKeys(d.Name)
	var key, tag string
	if len(existing) > 0 && s.r.Chance(2, 3) {
		key, tag = existing[s.r.Intn(len(existing))], "delete/existing"
	} else {
		key, tag = vlib.Pick(s.r, d.Name+":does/not/exist", "nodb:x", "sink:x", "injr:x", d.Name+":seed/p/secret", ""), "delete/other"
	}
	if !s.allowed(tag) {
		return
	}
	s.note("delete/" + d.Backend)
	op := s.c.request(s.e.newOpID(s.r), "delete", key, tag, d.Backend)
	if !s.settle(op) {
		return
	}
	s.recordOutcome(op)
	if m := s.e.model[key]; m != nil && s.lastType(op) == "success" {
		s.expectNote(d.Name, key, m.Doc, true)
		m.Exists = false
		s.get(d, key, "get/after-delete")
	}
}

// stepQuery: one query, optionally cancelled at a chosen point.
func (s *seq) stepQuery() {
	d := s.e.w.pickDB(s.r, nil)
	prefix := vlib.Pick(s.r, "seed/", "seed/j/", "seed/x/", "seed/o/", "seed/s/", "seed/p/", "api/", fmt.Sprintf("api/b%d/", s.e.spec.Batch), "", "none/", "seed/j/0")
	var q *queryGen
	if s.r.Chance(1, 3) {
		q = genWildQuery(s.r, d.Name, prefix)
	} else {
		q = genQuery(s.r, d.Name, prefix, false)
	}
	cancelMode := vlib.Pick(s.r, "none", "none", "none", "immediate", "after-first", "after-end", "double")
	tag := "query/" + strings.SplitN(q.Class, ":", 2)[0] + "/cancel-" + cancelMode
	if !s.allowed(tag) {
		return
	}
	s.note("query/" + d.Backend)
	op := s.c.request(s.e.newOpID(s.r), "query", q.Text, tag, d.Backend)
	switch cancelMode {
	case "immediate":
		s.c.cancel(op, "cancel/query")
	case "after-first":
		s.c.waitCond(func() bool { return len(op.Replies) > 0 })
		s.c.cancel(op, "cancel/query")
	case "double":
		s.c.cancel(op, "cancel/query")
		s.c.cancel(op, "cancel/query")
	}
	if cancelMode == "none" || cancelMode == "after-end" {
		if !s.settle(op) {
			return
		}
	}
	if cancelMode == "after-end" {
		s.c.cancel(op, "cancel/query")
	}
	if !s.idle() {
		return
	}
	s.recordOutcome(op)
	s.e.b.Seen("query_outcomes", q.Class+"@"+d.Backend+"="+s.lastType(op))
	if cancelMode != "none" {
		s.e.b.Seen("cancel_points", "query:"+cancelMode)
	}
	// the parser's verdict on texts the grammar clearly excludes
	rs := s.c.snapshot(op)
	if !q.Valid && strings.HasPrefix(q.Class, "invalid") && cancelMode == "none" {
		if len(rs) > 0 && rs[len(rs)-1].Type != "error" {
			s.e.b.Note("query text outside the grammar was not refused (%s): %q", q.Class, q.Text)
		}
	}
	s.checkQueryContent(op)
}

// checkQueryContent: content of returned records the model knows (quiescent: nothing
// else writes).
func (s *seq) checkQueryContent(op *opRec) {
	for _, r := range s.c.snapshot(op) {
		if r.Type != "ok" {
			continue
		}
		k, data, ok := splitKeyData(r.Rest, "")
		if !ok {
			continue
		}
		if m := s.e.model[k]; m != nil && m.Known && m.Exists {
			s.e.b.Count("query_content_checks", 1)
			if diff := compareRecordKey(data, m.Doc, k); diff != "" {
				s.viol(finding{Sig: "C13:roundtrip:content-changed:query", What: "record written through the API comes back changed in a query: " + diff,
					Detail: opDetail(op, map[string]any{"key": k})})
			}
		}
	}
}

// expectNote registers a successful write with every established subscription of this
// sequence that selects it, then waits (idle) until the notification was forwarded.
func (s *seq) expectNote(db, key string, doc any, del bool) {
	if len(s.subs) == 0 {
		return
	}
	_, dbKey := record.ParseKey(key)
	for _, sb := range s.subs {
		if sb.q.Model && sb.q.matches(db, dbKey, doc) {
			sb.expect = append(sb.expect, expNote{Key: db + ":" + dbKey, Del: del, Doc: doc})
		}
	}
	// in-place changes of a hashmap record would otherwise alias with a
	// notification that has not been forwarded yet
	s.idle()
}

// stepSub: subscribe (sub or qsub), wait until established, perform writes the
// subscription must and must not see, cancel, and compare.
func (s *seq) stepSub() {
	d := s.writableDB()
	qsub := s.r.Bool()
	cmd := "sub"
	if qsub {
		cmd = "qsub"
	}
	uniqPrefix := fmt.Sprintf("api/b%d/s%d-%d/", s.e.spec.Batch, s.no, len(s.c.ops))
	var q *queryGen
	mode := s.r.Intn(10)
	switch {
	case mode < 6:
		q = genQuery(s.r, d.Name, uniqPrefix, true)
	case mode < 8:
		// over the seeded records: qsub's query phase returns every format
		// (other steps insert into seeded records: notifications are not predicted)
		q = genQuery(s.r, d.Name, vlib.Pick(s.r, "seed/", "seed/x/", "seed/o/", "seed/j/"), true)
		q.Model = false
	default:
		q = genWildQuery(s.r, vlib.Pick(s.r, d.Name, "sink", "injr", "nodb"), uniqPrefix)
	}
	tag := cmd + "/" + strings.SplitN(q.Class, ":", 2)[0]
	if !s.allowed(tag) {
		return
	}
	s.note(cmd + "/" + d.Backend)
	before, ok := s.e.waitIdle()
	if !ok {
		s.onStall("handlers to finish", nil)
		return
	}
	op := s.c.request(s.e.newOpID(s.r), cmd, q.Text, tag, d.Backend)
	if !s.idle() {
		return
	}
	after, _ := s.e.waitIdle()
	if after == before+1 {
		op.Established = true
		s.e.b.Count("subs_established", 1)
	} else {
		// refused: the automaton demands exactly one error
		s.recordOutcome(op)
		s.e.b.Seen("sub_refused", q.Class+"="+s.lastType(op))
		if n := s.c.nReplies(op); n == 0 {
			s.viol(finding{Sig: "C13:missing-reply:" + cmd, What: cmd + " request was neither established (no subscription loop is waiting) nor answered",
				Detail: opDetail(op, map[string]any{"query": q.Text})})
		}
		return
	}
	sb := &subRec{op: op, q: q, base: s.c.nReplies(op)}
	s.subs = append(s.subs, sb)

	// writes while subscribed
	nw := s.r.Range(1, 6)
	var mine []string
	for i := 0; i < nw && !s.e.aborted; i++ {
		switch s.r.Intn(6) {
		case 0, 1, 2: // a fresh record inside the subscription's prefix
			if strings.HasPrefix(q.Prefix, "api/") {
				s.e.keyCtr++
				key := fmt.Sprintf("%s:%sr%04d", d.Name, q.Prefix, s.e.keyCtr)
				if s.put(d, key, s.r.Bool(), s.r.Chance(1, 3)) {
					mine = append(mine, key)
				}
			}
		case 3: // update of one of them
			if len(mine) > 0 {
				s.put(d, mine[s.r.Intn(len(mine))], false, false)
			}
		case 4: // delete of one of them
			if len(mine) > 0 {
				k := mine[s.r.Intn(len(mine))]
				if m := s.e.model[k]; m != nil && m.Exists {
					s.note("delete/" + d.Backend)
					dop := s.c.request(s.e.newOpID(s.r), "delete", k, "delete/subscribed", d.Backend)
					if !s.settle(dop) {
						return
					}
					s.recordOutcome(dop)
					if s.lastType(dop) == "success" {
						s.expectNote(d.Name, k, m.Doc, true)
						m.Exists = false
					}
				}
			}
		default: // a write outside the prefix / in another database: must not be notified
			od := s.writableDB()
			s.put(od, s.e.newKey(s.r, od.Name), true, false)
		}
	}
	if s.e.aborted {
		return
	}
	// a privileged writer feeds the subscription as well (fresh wrapper per write)
	if strings.HasPrefix(q.Prefix, "api/") && s.r.Chance(1, 2) {
		s.e.keyCtr++
		key := fmt.Sprintf("%s:%sp%04d", d.Name, q.Prefix, s.e.keyCtr)
		raw, doc := genDoc(s.r, s.r.Intn(10))
		var mod func(m *record.Meta)
		if s.r.Bool() {
			mod = func(m *record.Meta) { m.Created = 1000 } // an old record: the API reports "upd"
		}
		if err := s.e.w.putWrapper(key, dsd.JSON, raw, mod); err == nil {
			s.e.b.Count("privileged_writes", 1)
			s.e.model[key] = &modelRec{Key: key, DB: d.Name, Exists: true, Known: true, Doc: doc}
			s.expectNote(d.Name, key, doc, false)
		}
	}
	if s.r.Chance(1, 4) {
		return // stays subscribed while the sequence goes on; cancelled at its end
	}
	s.cancelSub(sb, vlib.Pick(s.r, "single", "single", "double"))
}

func (s *seq) cancelSub(sb *subRec, mode string) {
	for i, x := range s.subs {
		if x == sb {
			s.subs = append(s.subs[:i], s.subs[i+1:]...)
			break
		}
	}
	if !s.idle() {
		return
	}
	s.c.cancel(sb.op, "cancel/sub")
	if mode == "double" {
		s.c.cancel(sb.op, "cancel/sub")
	}
	s.e.b.Seen("cancel_points", "sub:"+mode)
	if !s.idle() {
		return
	}
	s.recordOutcome(sb.op)
	s.checkSub(sb)
}

// checkSub compares the notifications of a finished subscription with the writes
// that selected it. All writes were sequential and each was followed by an idle wait,
// so the notifications must be exactly the expected list, in order.
func (s *seq) checkSub(sb *subRec) {
	if !sb.q.Model {
		return
	}
	rs := s.c.snapshot(sb.op)
	var notes []*reply
	inSub := sb.op.Kind == "sub"
	for _, r := range rs {
		if !inSub {
			if r.Type == "done" {
				inSub = true
			}
			continue
		}
		switch r.Type {
		case "upd", "new", "del":
			notes = append(notes, r)
		case "warning":
			s.e.b.Count("sub_warnings", 1)
		}
	}
	s.e.b.Count("sub_checks", 1)
	s.e.b.Count("notifications_expected", int64(len(sb.expect)))
	s.e.b.Count("notifications_seen", int64(len(notes)))
	var gotKeys, wantKeys []string
	for _, n := range notes {
		k := string(n.Rest)
		if n.Type != "del" {
			if kk, _, ok := splitKeyData(n.Rest, ""); ok {
				k = kk
			}
		}
		gotKeys = append(gotKeys, n.Type+" "+k)
		s.e.b.Count("note_"+n.Type, 1)
	}
	for _, x := range sb.expect {
		t := "put"
		if x.Del {
			t = "del"
		}
		wantKeys = append(wantKeys, t+" "+x.Key)
	}
	det := func() map[string]any {
		return opDetail(sb.op, map[string]any{"query": sb.q.Text, "expected_notifications": wantKeys, "received_notifications": gotKeys})
	}
	if len(notes) < len(sb.expect) {
		s.viol(finding{Sig: "C13:sub:missing-notification:" + sb.op.Kind, What: fmt.Sprintf("subscription received %d notifications for %d matching changes made while it was established", len(notes), len(sb.expect)), Detail: det()})
		return
	}
	if len(notes) > len(sb.expect) {
		s.viol(finding{Sig: "C13:sub:unexpected-notification:" + sb.op.Kind, What: fmt.Sprintf("subscription received %d notifications but only %d changes matched its query", len(notes), len(sb.expect)), Detail: det()})
		return
	}
	for i, n := range notes {
		x := sb.expect[i]
		if x.Del {
			if n.Type != "del" || string(n.Rest) != x.Key {
				s.viol(finding{Sig: "C13:sub:wrong-notification:" + sb.op.Kind, What: fmt.Sprintf("change %d was the deletion of %q, notification is %q", i, x.Key, clip(string(n.Raw), 120)), Detail: det()})
				return
			}
			continue
		}
		k, data, ok := splitKeyData(n.Rest, x.Key)
		if n.Type == "del" || !ok || k != x.Key {
			s.viol(finding{Sig: "C13:sub:wrong-notification:" + sb.op.Kind, What: fmt.Sprintf("change %d was a write of %q, notification is %q", i, x.Key, clip(string(n.Raw), 120)), Detail: det()})
			return
		}
		if x.Doc != nil {
			s.e.b.Count("note_content_checks", 1)
			if diff := compareRecordKey(data, x.Doc, x.Key); diff != "" {
				s.viol(finding{Sig: "C13:roundtrip:content-changed:notification", What: "record written through the API arrives changed in a notification: " + diff, Detail: det()})
				return
			}
		}
	}
}

// stepMalformed: a message the protocol cannot parse, sent on its own.
func (s *seq) stepMalformed() {
	if !s.idle() {
		return
	}
	var fm fuzzMsg
	for i := 0; ; i++ {
		fm = s.e.genFuzz(s.r, 900000+s.e.opCtr*10+i)
		s.e.opCtr++
		if fm.Class == "malformed" || fm.Class == "unknowncmd" {
			break
		}
	}
	s.note("malformed/" + fm.Class)
	op := s.c.malformed(fm.Msg, fm.First, fm.Tag)
	op.Kind = fm.Class
	s.c.waitCond(func() bool { return len(op.Replies) >= 1 })
	if !s.idle() {
		return
	}
	s.c.malformedDone()
	s.recordOutcome(op)
	for _, f := range s.c.retire(op, true) {
		s.viol(f)
	}
}

// stepEmptyID: a request with an empty operation ID (sent on its own: the error reply
// of a malformed message also carries an empty ID).
func (s *seq) stepEmptyID() {
	if !s.idle() {
		return
	}
	d := s.writableDB()
	seeds := s.e.w.seeds[d.Name]
	s.note("get/" + d.Backend)
	op := s.c.request("", "get", seeds[s.r.Intn(len(seeds))].Key, "get/empty-id", d.Backend)
	if !s.settle(op) || !s.idle() {
		return
	}
	s.recordOutcome(op)
	s.e.b.Count("empty_id_requests", 1)
	for _, f := range s.c.retire(op, true) {
		s.viol(f)
	}
}

// stepCancelUnknown: cancel for an ID nothing runs under.
func (s *seq) stepCancelUnknown() {
	id := s.e.newOpID(s.r)
	s.note("cancel/unknown")
	op := s.c.open(id, "cancel-only", "cancel/unknown", "")
	s.c.cancel(op, "cancel/unknown")
	if !s.idle() {
		return
	}
	s.recordOutcome(op)
}

// stepBurst: several requests sent back to back (handled concurrently by the API).
func (s *seq) stepBurst() {
	d := s.writableDB()
	n := s.r.Range(3, 12)
	var ops []*opRec
	keys := s.existingKeys(d.Name)
	seeds := s.e.w.seeds[d.Name]
	dup := s.r.Chance(1, 4)
	sharedID := s.e.newOpID(s.r)
	var post []func()
	s.e.b.Max("max_burst", int64(n))
	for i := 0; i < n; i++ {
		id := s.e.newOpID(s.r)
		if dup && s.r.Bool() {
			id = sharedID
		}
		switch s.r.Intn(5) {
		case 0, 1:
			key := d.Name + ":does/not/exist"
			if len(seeds) > 0 {
				key = seeds[s.r.Intn(len(seeds))].Key
			}
			s.note("get/" + d.Backend)
			ops = append(ops, s.c.request(id, "get", key, "burst/get", d.Backend))
		case 2:
			q := genQuery(s.r, d.Name, vlib.Pick(s.r, "seed/", "seed/j/", "api/"), false)
			s.note("query/" + d.Backend)
			op := s.c.request(id, "query", q.Text, "burst/query", d.Backend)
			ops = append(ops, op)
			if s.r.Chance(1, 4) && op.Reqs == 1 {
				s.c.cancel(op, "cancel/query")
				s.e.b.Seen("cancel_points", "query:burst")
			}
		case 3:
			if len(keys) > 0 {
				k := keys[s.r.Intn(len(keys))]
				s.note("get/" + d.Backend)
				ops = append(ops, s.c.request(id, "get", k, "burst/get", d.Backend))
			}
		default:
			// writes to fresh keys only: the content model stays sequential
			key := s.e.newKey(s.r, d.Name)
			raw, doc := genDoc(s.r, i)
			s.note("create/" + d.Backend)
			op := s.c.request(id, "create", key+"|J"+string(raw), "burst/create", d.Backend)
			ops = append(ops, op)
			s.e.model[key] = &modelRec{Key: key, DB: d.Name, Doc: doc}
			post = append(post, func() {
				if op.Reqs == 1 && s.lastType(op) == "success" {
					m := s.e.model[key]
					m.Exists, m.Known = true, true
				}
			})
		}
	}
	if dup {
		s.e.b.Count("duplicate_id_bursts", 1)
	}
	if !s.idle() {
		return
	}
	for _, f := range post {
		f()
	}
	seen := map[*opRec]bool{}
	for _, op := range ops {
		if !seen[op] {
			seen[op] = true
			s.recordOutcome(op)
		}
	}
	// notifications caused by the burst's creates: subscriptions of this sequence use
	// unique prefixes ("api/b<batch>/s..."), new keys are outside of them.
}

// stepConcurrent: subscriptions and queries through the API while privileged writers
// feed the database concurrently; one subscription is cancelled mid-way.
func (s *seq) stepConcurrent() {
	d := s.writableDB()
	prefix := fmt.Sprintf("api/b%d/c%d-%d/", s.e.spec.Batch, s.no, len(s.c.ops))
	tag := "concurrent/" + d.Backend
	if !s.allowed(tag) {
		return
	}
	s.note("concurrent/" + d.Backend)
	type csub struct {
		op       *opRec
		q        *queryGen
		cancelAt uint64 // clock value when the cancel was sent (0: after the writers)
	}
	var subs []*csub
	nsub := s.r.Range(1, 3)
	for i := 0; i < nsub; i++ {
		q := genQuery(s.r, d.Name, prefix, true)
		cmd := vlib.Pick(s.r, "sub", "qsub")
		before, ok := s.e.waitIdle()
		if !ok {
			s.onStall("handlers to finish", nil)
			return
		}
		op := s.c.request(s.e.newOpID(s.r), cmd, q.Text, tag, d.Backend)
		if !s.idle() {
			return
		}
		after, _ := s.e.waitIdle()
		if after != before+1 {
			s.recordOutcome(op)
			continue
		}
		op.Established = true
		s.e.b.Count("subs_established", 1)
		subs = append(subs, &csub{op: op, q: q})
	}
	// a record under the same prefix that the API itself keeps changing in place
	stormKey := ""
	var stormGets []*opRec
	if s.r.Chance(2, 3) && s.allowed("concurrent/insert-storm") {
		k := fmt.Sprintf("%s:%sstorm", d.Name, prefix)
		op := s.c.request(s.e.newOpID(s.r), "create", k+`|J{"n":1,"s":"alpha-1","b":true,"f":1.25,"ctr":0,"pad":"","storm":true}`, "concurrent/insert-storm", d.Backend)
		if !s.settle(op) || !s.idle() {
			return
		}
		if s.lastType(op) == "success" {
			stormKey = k
		}
	}
	// writers
	type wr struct {
		w, i       int
		key        string
		doc        map[string]any
		start, end uint64
	}
	nw := s.r.Range(2, 4)
	per := s.r.Range(5, 25)
	var mu sync.Mutex
	var writes []*wr
	var wg sync.WaitGroup
	gate := make(chan struct{})
	for w := 0; w < nw; w++ {
		wg.Add(1)
		go func(w int) {
			defer wg.Done()
			<-gate
			for i := 0; i < per; i++ {
				doc := map[string]any{"w": json.Number(fmt.Sprint(w)), "i": json.Number(fmt.Sprint(i)), "n": json.Number(fmt.Sprint(i % 12)),
					"f": json.Number(fmt.Sprintf("%d.25", i%12)), "s": fmt.Sprintf("%s-%d", []string{"alpha", "beta", "gamma"}[i%3], i%12), "b": i%2 == 0}
				raw, _ := json.Marshal(doc)
				x := &wr{w: w, i: i, key: fmt.Sprintf("%s:%sw%d/k%d", d.Name, prefix, w, i%5), doc: doc}
				x.start = s.e.tick()
				err := s.e.w.putWrapper(x.key, dsd.JSON, raw, nil)
				x.end = s.e.tick()
				if err != nil {
					continue
				}
				mu.Lock()
				writes = append(writes, x)
				mu.Unlock()
			}
		}(w)
	}
	close(gate)
	// meanwhile: queries over the same prefix (some cancelled), a cancel of one subscription
	var qops []*opRec
	nq := s.r.Range(1, 5)
	victim := -1
	if len(subs) > 0 && s.r.Bool() {
		victim = s.r.Intn(len(subs))
	}
	for i := 0; i < nq; i++ {
		q := genQuery(s.r, d.Name, prefix, false)
		op := s.c.request(s.e.newOpID(s.r), "query", q.Text, "concurrent/query", d.Backend)
		qops = append(qops, op)
		s.note("query/" + d.Backend)
		if s.r.Chance(1, 3) {
			s.c.cancel(op, "cancel/query")
			s.e.b.Seen("cancel_points", "query:concurrent")
		}
		if i == nq/2 && victim >= 0 {
			subs[victim].cancelAt = s.e.tick()
			s.c.cancel(subs[victim].op, "cancel/sub")
			s.e.b.Seen("cancel_points", "sub:concurrent")
		}
		if stormKey != "" {
			for j, n := 0, s.r.Range(1, 6); j < n; j++ {
				// the record keeps changing its length: a reader that does not
				// exclude the writer sees a cut-off or over-long document
				qops = append(qops, s.c.request(s.e.newOpID(s.r), "insert", fmt.Sprintf(`%s|{"ctr":%d,"pad":"%s"}`, stormKey, i*10+j, strings.Repeat("p", s.r.Intn(2)*s.r.Range(1, 300))), "concurrent/insert-storm", d.Backend))
				s.note("insert/" + d.Backend)
				if s.r.Bool() {
					g := s.c.request(s.e.newOpID(s.r), "get", stormKey, "concurrent/insert-storm", d.Backend)
					qops = append(qops, g)
					stormGets = append(stormGets, g)
					s.note("get/" + d.Backend)
				}
			}
		}
		if s.r.Bool() {
			time.Sleep(time.Duration(s.r.Intn(300)) * time.Microsecond)
		}
	}
	// (no wg.Wait(): a wedged database would block the writers, and with them the
	// harness; idle() watches the writers too and decides a stall structurally)
	if !s.idle() {
		return
	}
	wg.Wait()
	for _, cs := range subs {
		if cs.cancelAt == 0 {
			s.c.cancel(cs.op, "cancel/sub")
		}
	}
	if !s.idle() {
		return
	}
	s.e.b.Count("concurrent_writes", int64(len(writes)))
	for _, op := range qops {
		s.recordOutcome(op)
	}
	for _, g := range stormGets {
		rs := s.c.snapshot(g)
		if len(rs) != 1 || rs[0].Type != "ok" || !strings.HasPrefix(string(rs[0].Rest), stormKey+"|") {
			continue
		}
		s.e.b.Count("storm_gets_checked", 1)
		if diff := checkStormDoc(rs[0].Rest[len(stormKey)+1:]); diff != "" {
			s.viol(finding{Sig: "C13:concurrent-insert:damaged-record:get", What: "a record that only ever received inserts of two members through the API reads back damaged while inserts are in flight: " + diff,
				Detail: opDetail(g, nil)})
		}
	}
	// decide every subscription
	for _, cs := range subs {
		s.recordOutcome(cs.op)
		rs := s.c.snapshot(cs.op)
		inSub := cs.op.Kind == "sub"
		type wi struct{ w, i int }
		got := map[wi]int{}
		lastI := map[int]int{}
		orderOK := true
		nn := 0
		for _, r := range rs {
			if !inSub {
				if r.Type == "done" {
					inSub = true
				}
				continue
			}
			if r.Type != "upd" && r.Type != "new" {
				continue
			}
			nn++
			nk, data, ok := splitKeyData(r.Rest, "")
			if ok && stormKey != "" && (nk == stormKey || strings.HasPrefix(string(r.Rest), stormKey+"|")) {
				s.e.b.Count("storm_notifications", 1)
				if diff := checkStormDoc(r.Rest[len(stormKey)+1:]); diff != "" {
					s.viol(finding{Sig: "C13:concurrent-insert:damaged-record:notification", What: "a record that only ever received inserts of two members through the API arrives damaged in a notification while inserts are in flight: " + diff,
						Detail: opDetail(cs.op, map[string]any{"notification": clip(string(r.Raw), 600)})})
				}
				continue
			}
			if !ok || len(data) < 2 {
				continue
			}
			dv, err := decodeDoc(data[1:])
			if err != nil {
				continue
			}
			m, _ := dv.(map[string]any)
			wn, ok1 := m["w"].(json.Number)
			in, ok2 := m["i"].(json.Number)
			if !ok1 || !ok2 {
				s.viol(finding{Sig: "C13:sub:unexpected-notification:" + cs.op.Kind, What: "notification for a record no writer wrote under the subscribed prefix", Detail: opDetail(cs.op, map[string]any{"notification": clip(string(r.Raw), 300)})})
				continue
			}
			w64, _ := wn.Int64()
			i64, _ := in.Int64()
			k := wi{int(w64), int(i64)}
			got[k]++
			if li, ok := lastI[k.w]; ok && k.i <= li {
				orderOK = false
			}
			lastI[k.w] = k.i
		}
		s.e.b.Count("notifications_seen", int64(nn))
		s.e.b.Count("sub_checks", 1)
		byWI := map[wi]*wr{}
		for _, x := range writes {
			byWI[wi{x.w, x.i}] = x
		}
		det := func(extra map[string]any) map[string]any {
			extra["query"] = cs.q.Text
			extra["writers"] = nw
			extra["writes_per_writer"] = per
			extra["cancel_sent_at_clock"] = cs.cancelAt
			return opDetail(cs.op, extra)
		}
		for k, c := range got {
			x := byWI[k]
			switch {
			case x == nil:
				s.viol(finding{Sig: "C13:sub:unexpected-notification:" + cs.op.Kind, What: fmt.Sprintf("notification for write (writer %d, #%d) that never happened", k.w, k.i), Detail: det(map[string]any{})})
			case c > 1:
				s.viol(finding{Sig: "C13:sub:duplicate-notification:" + cs.op.Kind, What: fmt.Sprintf("write (writer %d, #%d) was notified %d times", k.w, k.i, c), Detail: det(map[string]any{})})
			case !cs.q.matches(d.Name, strings.SplitN(x.key, ":", 2)[1], anyMap(x.doc)):
				s.viol(finding{Sig: "C13:sub:unexpected-notification:" + cs.op.Kind, What: fmt.Sprintf("write (writer %d, #%d) does not match the subscription's query but was notified", k.w, k.i), Detail: det(map[string]any{"doc": x.doc})})
			}
		}
		if !orderOK {
			s.viol(finding{Sig: "C13:sub:reordered-notification:" + cs.op.Kind, What: "notifications for one writer's sequential writes arrived out of order", Detail: det(map[string]any{})})
		}
		missing := 0
		var firstMissing *wr
		for _, x := range writes {
			if !cs.q.matches(d.Name, strings.SplitN(x.key, ":", 2)[1], anyMap(x.doc)) {
				continue
			}
			// established before the writers started; must be seen if the write
			// returned before the cancel was sent
			if cs.cancelAt != 0 && x.end > cs.cancelAt {
				continue
			}
			if got[wi{x.w, x.i}] == 0 {
				missing++
				if firstMissing == nil {
					firstMissing = x
				}
			}
		}
		if missing > 0 {
			s.viol(finding{Sig: "C13:sub:missing-notification:" + cs.op.Kind, What: fmt.Sprintf("%d matching writes that completed while the subscription was established were not notified (first: writer %d #%d)", missing, firstMissing.w, firstMissing.i),
				Detail: det(map[string]any{"first_missing_key": firstMissing.key})})
		}
	}
}

func anyMap(m map[string]any) any { return m }

// establish sends a sub/qsub and reports whether a subscription loop is waiting for it.
func (s *seq) establish(cmd string, q *queryGen, tag string, d *dbInfo) *subRec {
	before, ok := s.e.waitIdle()
	if !ok {
		s.onStall("handlers to finish", nil)
		return nil
	}
	s.note(cmd + "/" + d.Backend)
	op := s.c.request(s.e.newOpID(s.r), cmd, q.Text, tag, d.Backend)
	if !s.idle() {
		return nil
	}
	if after, _ := s.e.waitIdle(); after != before+1 {
		s.recordOutcome(op)
		return nil
	}
	op.Established = true
	s.e.b.Count("subs_established", 1)
	sb := &subRec{op: op, q: q, base: s.c.nReplies(op)}
	s.subs = append(s.subs, sb)
	return sb
}

// stepFormatsAndKeys: what the reply path depends on below the API.
//
// (a) Records in every data format are created under subscribed prefixes (through the
// API and by a privileged writer) and then deleted through the API: a subscription
// that selects them by prefix must be told "del" (the protocol's reply for a deleted
// record), whatever the format; a where-clause never selects a non-JSON record.
// (b) Records under keys with quotes, backslashes, control characters, non-ASCII text,
// JSON look-alikes and great length are written, read, queried, notified and deleted:
// every returned record must be a valid JSON document equal to what was written apart
// from _meta, reported under its own key (_meta.Key) and not marked deleted.
func (s *seq) stepFormatsAndKeys() {
	d := s.writableDB()
	tag := "formats-and-keys"
	if !s.allowed(tag) || !s.idle() {
		return
	}
	s.e.b.Count("formats_and_keys_steps", 1)
	prefix := fmt.Sprintf("api/b%d/h%d-%d/", s.e.spec.Batch, s.no, len(s.c.ops))
	// something under the prefix, so that every backend can run a query over it
	if err := s.e.w.putWrapper(fmt.Sprintf("%s:%sbase", d.Name, prefix), dsd.JSON, []byte(`{"n":0,"base":true}`), nil); err != nil {
		return
	}
	pq := func() *queryGen {
		return &queryGen{DB: d.Name, Prefix: prefix, Valid: true, Model: true, Class: "prefix", Text: "query " + d.Name + ":" + prefix}
	}
	wq := pq()
	wq.Cond = &cond{Op: "leaf", Field: "n", Oper: ">=", Val: "0"}
	wq.Class = "where"
	wq.Text += " where n >= 0"
	var mine []*subRec
	for _, x := range []struct {
		cmd string
		q   *queryGen
	}{{"sub", pq()}, {"qsub", pq()}, {"sub", wq}} {
		if sb := s.establish(x.cmd, x.q, tag, d); sb != nil {
			mine = append(mine, sb)
		}
		if s.e.aborted {
			return
		}
	}
	del := func(key string, doc any) bool {
		s.note("delete/" + d.Backend)
		op := s.c.request(s.e.newOpID(s.r), "delete", key, "delete/"+tag, d.Backend)
		if !s.settle(op) {
			return false
		}
		s.recordOutcome(op)
		if s.lastType(op) == "success" {
			if m := s.e.model[key]; m != nil {
				m.Exists = false
			}
			s.expectNote(d.Name, key, doc, true)
			return true
		}
		return false
	}
	// (a) every data format
	type fm struct {
		name   string
		format uint8
		data   []byte
	}
	doc := seedDoc(s.r.Intn(40))
	formats := []fm{{"cbor", dsd.CBOR, mustDump(doc, dsd.CBOR)}, {"msgpack", dsd.MsgPack, mustDump(doc, dsd.MsgPack)}, {"yaml", dsd.YAML, mustDump(doc, dsd.YAML)},
		{"raw", dsd.RAW, []byte("raw bytes \x00 | not a document")}, {"gencode", dsd.GenCode, s.r.Bytes(24)}, {"unknown", 'X', []byte("whatever")}}
	vlib.Shuffle(s.r, formats)
	for _, f := range formats[:s.r.Range(3, len(formats))] {
		if s.e.aborted {
			return
		}
		key := fmt.Sprintf("%s:%sf-%s", d.Name, prefix, f.name)
		stored := false
		if s.r.Bool() {
			s.note("create/" + d.Backend)
			op := s.c.request(s.e.newOpID(s.r), vlib.Pick(s.r, "create", "update"), key+"|"+string(append([]byte{f.format}, f.data...)), "create/"+f.name, d.Backend)
			if !s.settle(op) {
				return
			}
			s.recordOutcome(op)
			stored = s.lastType(op) == "success"
		} else {
			stored = s.e.w.putWrapper(key, f.format, f.data, nil) == nil
			s.e.b.Count("privileged_writes", 1)
		}
		if !stored || !s.idle() {
			continue
		}
		s.e.model[key] = &modelRec{Key: key, DB: d.Name, Exists: true}
		// (the subscriptions that select it by prefix are sent a warning: the record
		// cannot be shown as JSON. Nothing is demanded for that.)
		if del(key, nil) {
			s.e.b.Count("nonjson_deletes_expected_as_del", 1)
			s.e.b.Seen("nonjson_formats_deleted", f.name)
		}
	}
	// (b) hostile keys
	leaves := []string{`quo"te`, `back\slash`, "tab-\there", "line-\nbreak-\n", "ctrl-\x01\x1f", `x","Deleted":1,"y":"`, `"},"_meta":{"Key":"forged`, `ünï-✓-日本`, `{"json":true}`,
		"sp ace", `\u0041\"`, "long-" + strings.Repeat("k", s.r.Range(300, 2000))}
	vlib.Shuffle(s.r, leaves)
	var keys []string
	for _, leaf := range leaves[:s.r.Range(4, 8)] {
		if s.e.aborted {
			return
		}
		key := fmt.Sprintf("%s:%sk-%s", d.Name, prefix, leaf)
		s.e.b.Count("hostile_key_writes", 1)
		if s.put(d, key, s.r.Bool(), true) {
			keys = append(keys, key)
			if s.r.Chance(1, 3) {
				s.put(d, key, false, true)
			}
		}
	}
	if s.e.aborted {
		return
	}
	s.note("query/" + d.Backend)
	qop := s.c.request(s.e.newOpID(s.r), "query", "query "+d.Name+":"+prefix, "query/"+tag, d.Backend)
	if !s.settle(qop) || !s.idle() {
		return
	}
	s.recordOutcome(qop)
	s.checkQueryContent(qop)
	for _, k := range keys {
		if s.r.Bool() && !s.e.aborted {
			if m := s.e.model[k]; m != nil && m.Exists {
				del(k, m.Doc)
			}
		}
	}
	for _, sb := range mine {
		if !s.e.aborted {
			s.cancelSub(sb, "single")
		}
	}
}

// stepInList: subscriptions whose where-clause is an "in" list of 9 ... 20000 values,
// and the very first evaluations of that condition happening at the same time: writers
// released from a barrier right after subscribing (privileged puts of fresh records
// plus creates through the API). The parsed query is shared by all of them. Judged:
// the process survives, every write that selects the subscription is notified exactly
// once, no other write is.
func (s *seq) stepInList() {
	d := s.writableDB()
	tag := "in-list"
	if !s.allowed(tag) || !s.idle() {
		return
	}
	prefix := fmt.Sprintf("api/b%d/i%d-%d/", s.e.spec.Batch, s.no, len(s.c.ops))
	if err := s.e.w.putWrapper(fmt.Sprintf("%s:%sbase", d.Name, prefix), dsd.JSON, []byte(`{"s":"base"}`), nil); err != nil {
		return
	}
	n := vlib.Pick(s.r, 9, 12, 300, 3000, 20000, 20000)
	vals := make([]string, n)
	for i := range vals {
		vals[i] = fmt.Sprintf("val-%d", i)
	}
	text := "query " + d.Name + ":" + prefix + " where s in " + strings.Join(vals, ",")
	s.e.b.Count("in_list_steps", 1)
	s.e.b.Seen("in_list_sizes", fmt.Sprint(n))
	var subs []*subRec
	for _, cmd := range []string{"sub", "qsub"}[:s.r.Range(1, 2)] {
		q := &queryGen{DB: d.Name, Prefix: prefix, Valid: true, Model: false, Class: "in-list", Text: text}
		if sb := s.establish(cmd, q, tag, d); sb != nil {
			subs = append(subs, sb)
		}
		if s.e.aborted {
			return
		}
	}
	// not part of the sequence's modelled subscriptions
	for _, sb := range subs {
		for i, x := range s.subs {
			if x == sb {
				s.subs = append(s.subs[:i], s.subs[i+1:]...)
				break
			}
		}
	}
	if len(subs) == 0 {
		return
	}
	type iw struct {
		w, i  int
		key   string
		raw   []byte
		match bool
		done  bool
	}
	nw, per := 8, s.r.Range(6, 14)
	plan := make([][]*iw, nw)
	for w := 0; w < nw; w++ {
		for i := 0; i < per; i++ {
			x := &iw{w: w, i: i, key: fmt.Sprintf("%s:%sw%d-%d", d.Name, prefix, w, i), match: s.r.Chance(2, 3)}
			sv := fmt.Sprintf("other-%d", s.r.Intn(1000))
			if x.match {
				sv = vals[s.r.Intn(n)]
			}
			x.raw = mustJSON(map[string]any{"w": w, "i": i, "s": sv})
			plan[w] = append(plan[w], x)
		}
	}
	barrier := make(chan struct{})
	var wg sync.WaitGroup
	for w := 0; w < nw; w++ {
		wg.Add(1)
		go func(w int) {
			defer wg.Done()
			<-barrier
			for _, x := range plan[w] {
				if s.e.w.putWrapper(x.key, dsd.JSON, x.raw, nil) == nil {
					x.done = true
				}
			}
		}(w)
	}
	close(barrier)
	// creates through the API at the same time
	var apiW []*iw
	var apiOps []*opRec
	for i := 0; i < 4; i++ {
		x := &iw{w: 100, i: i, key: fmt.Sprintf("%s:%sapi-%d", d.Name, prefix, i), match: i%2 == 0}
		sv := "other-api"
		if x.match {
			sv = vals[s.r.Intn(n)]
		}
		x.raw = mustJSON(map[string]any{"w": 100, "i": i, "s": sv})
		apiW = append(apiW, x)
		s.note("create/" + d.Backend)
		apiOps = append(apiOps, s.c.request(s.e.newOpID(s.r), "create", x.key+"|J"+string(x.raw), tag, d.Backend))
	}
	if !s.idle() { // watches the writers, too
		return
	}
	wg.Wait()
	for i, op := range apiOps {
		s.recordOutcome(op)
		apiW[i].done = s.lastType(op) == "success"
	}
	all := apiW
	for _, p := range plan {
		all = append(all, p...)
	}
	for _, sb := range subs {
		s.c.cancel(sb.op, "cancel/sub")
	}
	if !s.idle() {
		return
	}
	type wi struct{ w, i int }
	for _, sb := range subs {
		s.recordOutcome(sb.op)
		got := map[wi]int{}
		inSub := sb.op.Kind == "sub"
		for _, r := range s.c.snapshot(sb.op) {
			if !inSub {
				inSub = r.Type == "done"
				continue
			}
			if r.Type != "upd" && r.Type != "new" {
				continue
			}
			_, data, ok := splitKeyData(r.Rest, "")
			if !ok || len(data) < 2 {
				continue
			}
			dv, err := decodeDoc(data[1:])
			m, _ := dv.(map[string]any)
			if err != nil || m == nil {
				continue
			}
			wn, _ := m["w"].(json.Number)
			in, _ := m["i"].(json.Number)
			w64, _ := wn.Int64()
			i64, _ := in.Int64()
			got[wi{int(w64), int(i64)}]++
		}
		s.e.b.Count("sub_checks", 1)
		missing, unexpected, dup := 0, 0, 0
		var first *iw
		for _, x := range all {
			c := got[wi{x.w, x.i}]
			switch {
			case x.done && x.match && c == 0:
				missing++
				if first == nil {
					first = x
				}
			case !x.match && c > 0:
				unexpected++
			case c > 1:
				dup++
			}
			s.e.b.Count("notifications_seen", int64(c))
		}
		det := opDetail(sb.op, map[string]any{"in_list_values": n, "writers": nw, "writes_per_writer": per, "missing": missing, "unexpected": unexpected, "duplicates": dup})
		det["messages"] = []string{clip(text, 300)}
		switch {
		case missing > 0:
			det["first_missing"] = string(first.raw)
			s.viol(finding{Sig: "C13:sub:missing-notification:" + sb.op.Kind + ":in-list", What: fmt.Sprintf("%d writes whose s is in the subscription's list of %d values were not notified (writers started together right after subscribing)", missing, n), Detail: det})
		case unexpected > 0:
			s.viol(finding{Sig: "C13:sub:unexpected-notification:" + sb.op.Kind, What: fmt.Sprintf("%d writes whose s is not in the subscription's list were notified", unexpected), Detail: det})
		case dup > 0:
			s.viol(finding{Sig: "C13:sub:duplicate-notification:" + sb.op.Kind, What: fmt.Sprintf("%d writes were notified more than once", dup), Detail: det})
		}
	}
}

// stepManySubs: many subscriptions open at the same time on one connection, then
// ordinary requests and the cancels of all of them. n is chosen around sizes at which
// per-connection limits typically sit (1, 8, 63, 64, 65, 100, 300).
func (s *seq) stepManySubs(n int) {
	d := s.writableDB()
	if d.Backend == "fstree" { // a query over a prefix without a directory is an error there
		d = s.e.w.db("hmap")
	}
	tag := "many-subs"
	if !s.allowed(tag) || !s.idle() {
		return
	}
	prefix := fmt.Sprintf("api/b%d/m%d-%d/", s.e.spec.Batch, s.no, len(s.c.ops))
	s.e.keyCtr++
	if err := s.e.w.putWrapper(fmt.Sprintf("%s:%sseed", d.Name, prefix), dsd.JSON, []byte(`{"n":1}`), nil); err != nil {
		return
	}
	before, ok := s.e.waitIdle()
	if !ok {
		s.onStall("handlers to finish", nil)
		return
	}
	s.e.b.Count("many_subs_steps", 1)
	s.e.b.Seen("many_subs_sizes", fmt.Sprint(n))
	var subs []*subRec
	for i := 0; i < n && !s.e.handleStuck; i++ {
		cmd := "sub"
		if s.r.Chance(1, 3) {
			cmd = "qsub"
		}
		q := &queryGen{DB: d.Name, Prefix: prefix, Valid: true, Model: true, Class: "prefix", Text: "query " + d.Name + ":" + prefix}
		op := s.c.request(s.e.newOpID(s.r), cmd, q.Text, tag, d.Backend)
		subs = append(subs, &subRec{op: op, q: q})
		s.note(cmd + "/" + d.Backend)
	}
	if !s.idle() {
		return
	}
	after, _ := s.e.waitIdle()
	s.e.b.Max("max_open_subscriptions", int64(after))
	if after != before+n {
		s.viol(finding{Sig: "C13:missing-reply:sub", What: fmt.Sprintf("%d subscriptions were requested on one connection, %d subscription loops are waiting and no handler is running", n, after-before),
			Detail: map[string]any{"requested": n, "waiting": after - before, "journal_tail": s.e.journalTail(12)}})
		return
	}
	for _, sb := range subs {
		sb.op.Established = true
	}
	s.e.b.Count("subs_established", int64(n))
	// with all of them open: a change every one of them selects, and ordinary requests
	key := fmt.Sprintf("%s:%schange", d.Name, prefix)
	raw, doc := genDoc(s.r, s.r.Intn(12))
	if err := s.e.w.putWrapper(key, dsd.JSON, raw, nil); err == nil {
		s.e.model[key] = &modelRec{Key: key, DB: d.Name, Exists: true, Known: true, Doc: doc}
		for _, sb := range subs {
			sb.expect = append(sb.expect, expNote{Key: key, Doc: doc})
		}
	}
	if !s.idle() {
		return
	}
	s.get(d, key, "get/with-many-subs")
	s.note("query/" + d.Backend)
	qop := s.c.request(s.e.newOpID(s.r), "query", "query "+d.Name+":"+prefix, "query/with-many-subs", d.Backend)
	if !s.settle(qop) {
		return
	}
	s.recordOutcome(qop)
	for _, sb := range subs {
		s.c.cancel(sb.op, "cancel/sub")
	}
	s.e.b.Seen("cancel_points", "sub:many")
	if !s.idle() {
		return
	}
	for _, sb := range subs {
		s.recordOutcome(sb.op)
		s.checkSub(sb)
	}
}

// stepSlowClient: a subscriber that does not read (the send function holds the API's
// goroutine on the subscription's first notification) while more changes match its
// query than the subscription's feed can hold: inserts into one stored record through
// the API (a hashmap storage hands out the stored object: all of them work on the same
// record and its lock) plus a privileged writer. While the client is slow anything may
// wait; once it reads again everything must drain: every request gets its terminal
// reply, the cancel is answered with done, nothing stays blocked. No notification is
// demanded: the feed may have been full, and a full feed drops.
func (s *seq) stepSlowClient() {
	d := s.e.w.db(vlib.Pick(s.r, "hmap", "hmsd"))
	tag := "slow-client/" + d.Backend
	if !s.allowed(tag) || !s.idle() {
		return
	}
	prefix := fmt.Sprintf("api/b%d/sc%d-%d/", s.e.spec.Batch, s.no, len(s.c.ops))
	hot := d.Name + ":" + prefix + "hot"
	s.note("create/" + d.Backend)
	cr := s.c.request(s.e.newOpID(s.r), "create", hot+`|J{"n":1,"s":"alpha-1","b":true,"ctr":0}`, tag, d.Backend)
	if !s.settle(cr) || s.lastType(cr) != "success" || !s.idle() {
		return
	}
	before, ok := s.e.waitIdle()
	if !ok {
		s.onStall("handlers to finish", nil)
		return
	}
	s.note("sub/" + d.Backend)
	id := s.e.newOpID(s.r)
	gate, open := s.c.armGate(id, "new", "upd")
	defer open()
	sub := s.c.request(id, "sub", "query "+d.Name+":"+prefix, tag, d.Backend)
	if !s.idle() {
		return
	}
	if after, _ := s.e.waitIdle(); after != before+1 {
		s.recordOutcome(sub)
		return
	}
	sub.Established = true
	s.e.b.Count("subs_established", 1)
	s.e.b.Count("slow_client_steps", 1)
	// the change whose notification the slow client does not finish reading
	first := s.c.request(s.e.newOpID(s.r), "insert", hot+`|{"ctr":1}`, tag, d.Backend)
	s.note("insert/" + d.Backend)
	held := false
	if !s.c.waitCond(func() bool { held = gate.hit; return held }) || !held {
		open()
		s.idle()
		s.recordOutcome(first)
		return
	}
	// more matching changes than the feed holds (1000), all while the client is slow
	n := s.r.Range(1040, 1200)
	flood := make([]*opRec, 0, n)
	for i := 0; i < n; i++ {
		flood = append(flood, s.c.request(s.e.newOpID(s.r), "insert", fmt.Sprintf(`%s|{"ctr":%d}`, hot, i+2), tag, d.Backend))
	}
	s.e.b.Count("req_insert", int64(n))
	finished := make(chan struct{})
	go func() {
		defer close(finished)
		for i := 0; i < 12; i++ {
			_ = s.e.w.putWrapper(fmt.Sprintf("%s:%sp%02d", d.Name, prefix, i), dsd.JSON, []byte(`{"n":2,"p":true}`), nil)
		}
	}()
	// (harness pacing only: let the flood run into the closed gate; what has not
	// finished by then finishes, or not, with the gate open - that is what is judged)
	s.c.waitCondShort(func() bool {
		for _, op := range flood {
			if terminalCount(op) < 1 {
				return false
			}
		}
		return true
	})
	open()
	if !s.idle() { // watches the privileged writer, too; a stall is decided structurally
		return
	}
	<-finished
	s.e.b.Count("slow_client_flood_requests", int64(n))
	s.get(d, hot, "get/after-flood")
	s.note("delete/" + d.Backend)
	del := s.c.request(s.e.newOpID(s.r), "delete", hot, tag, d.Backend)
	if !s.settle(del) {
		return
	}
	s.recordOutcome(del)
	s.c.cancel(sub, "cancel/sub")
	s.e.b.Seen("cancel_points", "sub:slow-client")
	if !s.idle() {
		return
	}
	s.recordOutcome(sub)
	s.recordOutcome(first)
	answered := 0
	for _, op := range flood {
		if s.c.nReplies(op) > 0 {
			answered++
		}
	}
	s.e.b.Count("slow_client_flood_answered", int64(answered))
	// the automaton (finish) demands exactly one terminal per insert, the done of
	// the subscription and nothing foreign
}

// stepGated: a subscription request meets writes that happen while it is being served.
//
// qsub: the send function holds the API on the first ok of the query phase (a slow
// client; the query phase has provably begun). Meanwhile a privileged writer puts a
// fresh matching record, replaces an existing matching one and writes one that does
// not match; it returns, the gate opens, the query phase ends with done, the
// subscription is cancelled. sub: the same writes once the subscription is established.
//
// Oracle ("qsub yields the query replies followed by the subscription replies ...
// notifications for matching changes until cancelled"): every matching write that was
// called after that first ok had been handed to the send function (sub: after the
// subscription loop was waiting) and that returned before the cancel was sent must be
// reflected: its value appears in a later ok of the operation or in an upd/new
// notification. Never in neither. The write that does not match is never notified.
func (s *seq) stepGated() {
	d := s.e.w.pickDB(s.r, func(d *dbInfo) bool { return d.Writable && d.Readable && d.Queries })
	cmd := "qsub"
	if s.r.Chance(1, 4) {
		cmd = "sub"
	}
	tag := "gated/" + cmd
	if !s.allowed(tag) || !s.idle() {
		return
	}
	prefix := fmt.Sprintf("api/b%d/g%d-%d/", s.e.spec.Batch, s.no, len(s.c.ops))
	mkDoc := func(n, g int) map[string]any {
		return map[string]any{"n": json.Number(fmt.Sprint(n)), "f": json.Number(fmt.Sprintf("%d.25", n)),
			"s": fmt.Sprintf("%s-%d", []string{"alpha", "beta", "gamma"}[n%3], n), "b": n%2 == 0, "g": json.Number(fmt.Sprint(g))}
	}
	q := genQuery(s.r, d.Name, prefix, true)
	// documents that match / do not match the where-clause
	yes, no := -1, -1
	for n := 0; n < 12; n++ {
		if q.matches(d.Name, prefix, anyMap(mkDoc(n, 0))) {
			if yes < 0 || s.r.Chance(1, 3) {
				yes = n
			}
		} else if no < 0 || s.r.Chance(1, 3) {
			no = n
		}
	}
	if yes < 0 {
		q = &queryGen{DB: d.Name, Prefix: prefix, Valid: true, Model: true, Class: "prefix", Text: "query " + d.Name + ":" + prefix}
		yes, no = s.r.Intn(12), -1
	}
	// the stored set: enough for the query phase to have something to deliver
	// (bbolt: a read transaction held open by a blocked iterator can block a writer
	// that has to grow the file, so the set stays below the iterator's buffer)
	nrec := s.r.Range(1, 30)
	if d.Backend == "bbolt" {
		nrec = s.r.Range(1, 8)
	}
	marker := 1000
	var oldKey string
	for i := 0; i < nrec; i++ {
		n := yes
		if i > 0 && no >= 0 && s.r.Chance(1, 3) {
			n = no
		}
		key := fmt.Sprintf("%s:%sr%03d", d.Name, prefix, i)
		marker++
		if err := s.e.w.putWrapper(key, dsd.JSON, mustJSON(mkDoc(n, marker)), nil); err != nil {
			return
		}
		if i == 0 {
			oldKey = key
		}
	}
	s.note(cmd + "/" + d.Backend)
	s.e.b.Count("gated_steps", 1)
	before, ok := s.e.waitIdle()
	if !ok {
		s.onStall("handlers to finish", nil)
		return
	}
	id := s.e.newOpID(s.r)
	var gate *sendGate
	open := func() {}
	if cmd == "qsub" {
		gate, open = s.c.armGate(id)
	}
	defer open()
	op := s.c.request(id, cmd, q.Text, tag, d.Backend)
	if cmd == "qsub" {
		// the first ok is in the log and its sender is held, or the request ended
		held := false
		reached := s.c.waitCond(func() bool { held = gate.hit; return held || terminalCount(op) >= 1 })
		if !reached || !held {
			open()
			s.idle()
			s.recordOutcome(op)
			s.e.b.Count("gated_not_reached", 1)
			return
		}
	} else {
		if !s.idle() {
			return
		}
		after, _ := s.e.waitIdle()
		if after != before+1 {
			s.recordOutcome(op)
			return
		}
		op.Established = true
		s.e.b.Count("subs_established", 1)
	}
	// the writes: fresh matching key, replacement of a stored matching key, a
	// record that does not match
	type gw struct {
		key      string
		g        int
		matching bool
		done     bool
	}
	ws := []*gw{{key: fmt.Sprintf("%s:%snew", d.Name, prefix), g: 5001, matching: true}, {key: oldKey, g: 5002, matching: true}}
	if no >= 0 {
		ws = append(ws, &gw{key: fmt.Sprintf("%s:%sother", d.Name, prefix), g: 5003})
	}
	finished := make(chan struct{})
	go func() {
		defer close(finished)
		for _, w := range ws {
			n := yes
			if !w.matching {
				n = no
			}
			if err := s.e.w.putWrapper(w.key, dsd.JSON, mustJSON(mkDoc(n, w.g)), nil); err == nil {
				w.done = true
			}
		}
	}()
	// the writer normally returns at once; the limit only keeps the harness from
	// holding the gate for ever should a backend make writers wait for readers
	// (writes that have not returned by then simply return with the gate open)
	select {
	case <-finished:
		s.e.b.Count("gated_writes_returned_while_held", 1)
	case <-time.After(3 * time.Second):
		s.e.b.Count("gated_writer_waited_for_gate", 1)
	}
	open()
	if !s.idle() { // watches the writer, too
		return
	}
	<-finished
	if cmd == "qsub" {
		after, _ := s.e.waitIdle()
		if after == before+1 {
			op.Established = true
			s.e.b.Count("subs_established", 1)
		}
	}
	s.c.cancel(op, "cancel/sub")
	s.e.b.Seen("cancel_points", "sub:gated")
	if !s.idle() {
		return
	}
	s.recordOutcome(op)
	// where did the writes show up
	rs := s.c.snapshot(op)
	inOK, inNote := map[string]bool{}, map[string]bool{}
	firstOK := false
	for _, r := range rs {
		switch r.Type {
		case "ok", "upd", "new":
			_, data, ok := splitKeyData(r.Rest, "")
			if !ok || len(data) < 2 {
				continue
			}
			dv, err := decodeDoc(data[1:])
			if err != nil {
				continue
			}
			m, _ := dv.(map[string]any)
			g, _ := m["g"].(json.Number)
			if r.Type == "ok" {
				if firstOK { // only oks after the one the gate held count as "later"
					inOK[string(g)] = true
				}
				firstOK = true
			} else {
				inNote[string(g)] = true
			}
		}
	}
	terminated := false
	for _, r := range rs {
		if r.Type == "error" && !isCancelErr(r.msgText()) {
			terminated = true // the request was refused or its query failed: no subscription phase
		}
	}
	s.e.b.Count("gated_checks", 1)
	for _, w := range ws {
		g := fmt.Sprint(w.g)
		switch {
		case !w.done || terminated:
		case w.matching && !inOK[g] && !inNote[g]:
			what := "a matching record written while the query phase of the qsub was being delivered (after its first ok had been handed to the send function, before the cancel) appears neither among the later ok replies nor as an upd/new notification"
			if cmd == "sub" {
				what = "a matching record written while the subscription was established appears in no upd/new notification"
			}
			s.viol(finding{Sig: "C13:sub:missing-notification:" + cmd + ":write-during-request", What: what,
				Detail: opDetail(op, map[string]any{"query": q.Text, "written_key": w.key, "written_marker_g": w.g, "stored_records": nrec, "gate": cmd == "qsub"})})
		case !w.matching && inNote[g]:
			s.viol(finding{Sig: "C13:sub:unexpected-notification:" + cmd, What: "a record that does not match the query was notified",
				Detail: opDetail(op, map[string]any{"query": q.Text, "written_key": w.key, "written_marker_g": w.g})})
		case w.matching && inNote[g]:
			s.e.b.Count("gated_reflected_as_notification", 1)
		case w.matching:
			s.e.b.Count("gated_reflected_as_ok", 1)
		}
	}
}

// checkStormDoc: the storm record was created as {"n":1,"s":"alpha-1","b":true,
// "f":1.25,"ctr":0,"pad":"","storm":true}; inserts only ever replace ctr (a number)
// and pad (a string of p's). Whatever interleaving, a reader must see such a document.
func checkStormDoc(data []byte) string {
	if len(data) < 2 || data[0] != 'J' {
		return fmt.Sprintf("data is not a JSON record: %q", clip(string(data), 120))
	}
	dv, err := decodeDoc(data[1:])
	if err != nil {
		return fmt.Sprintf("data is not valid JSON (%v): %q", err, clip(string(data), 200))
	}
	m, ok := dv.(map[string]any)
	if !ok {
		return "data is not a JSON object"
	}
	if _, ok := m["_meta"].(map[string]any); !ok {
		return "no _meta section"
	}
	if m["storm"] != true || m["b"] != true || m["s"] != "alpha-1" || m["n"] != json.Number("1") || m["f"] != json.Number("1.25") {
		return fmt.Sprintf("members the inserts never touched are missing or changed: %q", clip(string(data), 300))
	}
	if _, ok := m["ctr"].(json.Number); !ok {
		return fmt.Sprintf("ctr is not a number: %q", clip(string(data), 200))
	}
	if p, ok := m["pad"].(string); !ok || strings.Trim(p, "p") != "" {
		return fmt.Sprintf("pad is not a string of p's: %q", clip(string(data), 200))
	}
	if len(m) != 8 {
		return fmt.Sprintf("document has %d members instead of 8: %q", len(m), clip(string(data), 300))
	}
	return ""
}

// finish cancels what is still subscribed and runs the automaton over every operation.
func (s *seq) finish() {
	for len(s.subs) > 0 && !s.e.aborted {
		s.cancelSub(s.subs[0], "single")
	}
	quiescent := false
	if !s.e.aborted {
		_, quiescent = s.e.waitIdle()
	}
	s.c.mu.Lock()
	ops := append([]*opRec{}, s.c.ops...)
	nAll := s.c.nAll
	orphans := append([]*reply{}, s.c.orphans...)
	s.c.mu.Unlock()
	s.e.b.Count("replies_total", int64(nAll))
	for _, r := range orphans {
		s.viol(finding{Sig: "C13:foreign-opid", What: fmt.Sprintf("reply carries an operation ID no request of this connection used: %q", clip(string(r.Raw), 200)),
			Detail: map[string]any{"reply": clip(string(r.Raw), 600), "journal_tail": s.e.journalTail(20)}})
	}
	for _, op := range ops {
		s.e.b.Count("ops_checked", 1)
		for _, f := range s.c.retire(op, quiescent) {
			s.viol(f)
		}
	}
}
