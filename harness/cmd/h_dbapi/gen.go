package main

// gen.go — generators: operation IDs, keys, JSON payloads, query texts of the documented
// grammar (database/query/README.md) with a reference evaluator for the modelled
// subset, and malformed messages.

import (
	"encoding/json"
	"fmt"
	"regexp"
	"strconv"
	"strings"

	"verifharness/internal/vlib"
)

// ---------------------------------------------------------------------------------
// operation IDs and keys

func (e *env) newOpID(r *vlib.Rand) string {
	e.opCtr++
	n := e.opCtr
	switch r.Intn(12) {
	case 0:
		return fmt.Sprintf("%d", 100000+n) // what the real client sends
	case 1:
		return fmt.Sprintf("op %d with spaces", n)
	case 2:
		return fmt.Sprintf("öp-%d-ü✓", n)
	case 3:
		return fmt.Sprintf("%d:%s", n, strings.Repeat("x", r.Range(50, 400)))
	case 4:
		return fmt.Sprintf("\x00\xff\x80bin%d", n)
	case 5:
		return fmt.Sprintf("get%d", n) // looks like a command
	case 6:
		return fmt.Sprintf("cancel%d", n)
	case 7:
		return fmt.Sprintf("%d\n\r\t", n)
	default:
		return fmt.Sprintf("%d", n)
	}
}

// newKey makes a fresh key in the API-written namespace of a database. Keys never
// collide with each other as file and directory (fstree) and never leave the
// database directory.
func (e *env) newKey(r *vlib.Rand, db string) string {
	e.keyCtr++
	n := e.keyCtr
	var leaf string
	switch r.Intn(9) {
	case 0:
		leaf = fmt.Sprintf("k%04d with space", n)
	case 1:
		leaf = fmt.Sprintf("k%04d-ünï-✓", n)
	case 2:
		leaf = fmt.Sprintf("k%04d.dots.and:colons", n)
	case 3:
		leaf = fmt.Sprintf("k%04d-%s", n, strings.Repeat("L", r.Range(60, 180)))
	case 4:
		leaf = fmt.Sprintf("K%04d_UPPER-lower", n)
	default:
		leaf = fmt.Sprintf("k%04d", n)
	}
	return fmt.Sprintf("%s:api/b%d/%s", db, e.spec.Batch, leaf)
}

// ---------------------------------------------------------------------------------
// JSON payloads

var wordPool = []string{"alpha", "beta", "gamma", "King Arthur", "x|y", "quo\"te", "back\\slash", "ünï✓", "", "  pad  ",
	"line\nbreak", "<tag>&amp;", "null", "true", "123"}

func genValue(r *vlib.Rand, depth int) any {
	k := r.Intn(10)
	if depth <= 0 && k >= 7 {
		k = r.Intn(7)
	}
	switch k {
	case 0:
		return nil
	case 1:
		return r.Bool()
	case 2:
		return json.Number(strconv.FormatInt(r.Int64Boundary(), 10))
	case 3:
		return json.Number(vlib.Pick(r, "0.5", "-0.0", "1e10", "1E-7", "3.141592653589793238462643383279", "123456789012345678901234567890",
			"-1.5e300", "0", "2.50", "1.0"))
	case 4, 5:
		return vlib.Pick(r, wordPool...)
	case 6:
		return strings.Repeat(vlib.Pick(r, "ab", "é", "|", "\\", "\""), r.Range(0, 40))
	case 7, 8:
		m := map[string]any{}
		for i, n := 0, r.Range(0, 4); i < n; i++ {
			m[genFieldName(r)] = genValue(r, depth-1)
		}
		return m
	default:
		var a []any
		for i, n := 0, r.Range(0, 4); i < n; i++ {
			a = append(a, genValue(r, depth-1))
		}
		if a == nil {
			a = []any{}
		}
		return a
	}
}

func genFieldName(r *vlib.Rand) string {
	return vlib.Pick(r, "a", "b", "c", "name", "Name", "with space", "with.dot", "ünï", "", "#", "*", "a|b", "0", "_meta2", "x\"y", "very_long_"+strings.Repeat("k", 40))
}

// genDoc makes a record payload: the typed base fields (so where-clauses have
// something to test) plus random members. It returns the raw JSON text and the decoded
// reference document.
func genDoc(r *vlib.Rand, n int) (raw []byte, doc any) {
	m := map[string]any{
		"n":    json.Number(strconv.Itoa(n)),
		"f":    json.Number(strconv.FormatFloat(float64(n)+0.25, 'f', -1, 64)),
		"s":    fmt.Sprintf("%s-%d", vlib.Pick(r, "alpha", "beta", "gamma", "King"), n),
		"b":    n%2 == 0,
		"tags": []any{"a", fmt.Sprintf("t%d", n%3)},
	}
	for i, k := 0, r.Intn(5); i < k; i++ {
		m[genFieldName(r)] = genValue(r, 3)
	}
	if r.Chance(1, 8) {
		// a client that reads a record and writes it back sends the old _meta along
		m["_meta"] = map[string]any{"Created": json.Number("1"), "Modified": json.Number("2"), "Key": "stale"}
	}
	var err error
	switch r.Intn(4) {
	case 0:
		raw, err = json.MarshalIndent(m, "", "  ")
	case 1:
		raw, err = json.MarshalIndent(m, " ", "\t")
	default:
		raw, err = json.Marshal(m)
	}
	if err != nil {
		panic(err)
	}
	if r.Chance(1, 6) {
		raw = append([]byte(vlib.Pick(r, " ", "\n", "\t ")), raw...)
	}
	if r.Chance(1, 6) {
		raw = append(raw, []byte(vlib.Pick(r, " ", "\n", "\r\n"))...)
	}
	d, err := decodeDoc(raw)
	if err != nil {
		panic(fmt.Sprintf("harness: generated payload does not parse: %v: %s", err, raw))
	}
	return raw, d
}

// ---------------------------------------------------------------------------------
// conditions (modelled subset) and the reference evaluator

type cond struct {
	Op    string // and or not leaf
	Kids  []*cond
	Field string
	Oper  string
	Val   string
}

var (
	intOps   = []string{"==", ">", ">=", "<", "<="}
	floatOps = []string{"f==", "f>", "f>=", "f<", "f<="}
	strOps   = []string{"sameas", "s==", "contains", "co", "startswith", "sw", "endswith", "ew"}
)

func genCond(r *vlib.Rand, depth int) *cond {
	if depth > 0 && r.Chance(2, 5) {
		switch r.Intn(3) {
		case 0:
			return &cond{Op: "not", Kids: []*cond{genCond(r, depth-1)}}
		case 1:
			c := &cond{Op: "and"}
			for i, n := 0, r.Range(2, 3); i < n; i++ {
				c.Kids = append(c.Kids, genCond(r, depth-1))
			}
			return c
		default:
			c := &cond{Op: "or"}
			for i, n := 0, r.Range(2, 3); i < n; i++ {
				c.Kids = append(c.Kids, genCond(r, depth-1))
			}
			return c
		}
	}
	switch r.Intn(7) {
	case 0, 1:
		return &cond{Op: "leaf", Field: "n", Oper: vlib.Pick(r, intOps...), Val: strconv.Itoa(r.Range(-1, 12))}
	case 2:
		return &cond{Op: "leaf", Field: "f", Oper: vlib.Pick(r, floatOps...), Val: vlib.Pick(r, "0.25", "3.25", "5", "7.75", "-1", "1e1")}
	case 3:
		return &cond{Op: "leaf", Field: "s", Oper: vlib.Pick(r, strOps...), Val: vlib.Pick(r, "alpha", "beta", "King", "a", "-1", "-", "alpha-3", "zzz")}
	case 4:
		return &cond{Op: "leaf", Field: "b", Oper: "is", Val: vlib.Pick(r, "true", "false", "1", "0", "t", "F", "TRUE", "False")}
	case 5:
		return &cond{Op: "leaf", Field: vlib.Pick(r, "n", "s", "missing", "tags", "b"), Oper: vlib.Pick(r, "exists", "ex")}
	default:
		if r.Bool() {
			return &cond{Op: "leaf", Field: "s", Oper: "in", Val: vlib.Pick(r, "alpha-1,beta-2,gamma-3", "alpha-0,alpha-2,alpha-4,beta-1", "x,y")}
		}
		return &cond{Op: "leaf", Field: "s", Oper: vlib.Pick(r, "matches", "re"), Val: vlib.Pick(r, "^alpha", "-[0-4]$", "^(beta|gamma)-", "a.*-\\d+$", "^King")}
	}
}

func quoteTok(r *vlib.Rand, s string) string {
	needs := strings.ContainsAny(s, "()\"\\\t\r\n ") || s == ""
	if needs || r.Chance(1, 4) {
		s = strings.ReplaceAll(s, `\`, `\\`)
		s = strings.ReplaceAll(s, `"`, `\"`)
		return `"` + s + `"`
	}
	return s
}

func (c *cond) text(r *vlib.Rand, top bool) string {
	switch c.Op {
	case "not":
		k := c.Kids[0]
		if k.Op == "leaf" && k.Oper != "" && r.Bool() {
			// clause-level negation: field not op value
			return fmt.Sprintf("%s not %s", k.Field, k.opVal(r))
		}
		return "not (" + k.text(r, false) + ")"
	case "and", "or":
		var ps []string
		for _, k := range c.Kids {
			t := k.text(r, false)
			if k.Op == "and" || k.Op == "or" {
				t = "(" + t + ")"
			}
			ps = append(ps, t)
		}
		s := strings.Join(ps, " "+c.Op+" ")
		if !top && r.Chance(1, 3) {
			s = "(" + s + ")"
		}
		return s
	default:
		return c.Field + " " + c.opVal(r)
	}
}

func (c *cond) opVal(r *vlib.Rand) string {
	if c.Oper == "exists" || c.Oper == "ex" {
		return c.Oper
	}
	return c.Oper + " " + quoteTok(r, c.Val)
}

// eval is the reference semantics of the modelled subset over a decoded document
// (see database/query/README.md): a clause on a missing field or on a field of
// another type is false.
func (c *cond) eval(doc map[string]any) bool {
	switch c.Op {
	case "not":
		return !c.Kids[0].eval(doc)
	case "and":
		for _, k := range c.Kids {
			if !k.eval(doc) {
				return false
			}
		}
		return true
	case "or":
		for _, k := range c.Kids {
			if k.eval(doc) {
				return true
			}
		}
		return false
	}
	v, present := doc[c.Field]
	switch c.Oper {
	case "exists", "ex":
		return present
	case "==", ">", ">=", "<", "<=":
		num, ok := v.(json.Number)
		if !ok {
			return false
		}
		a, err := num.Int64()
		if err != nil {
			return false
		}
		b, _ := strconv.ParseInt(c.Val, 10, 64)
		switch c.Oper {
		case "==":
			return a == b
		case ">":
			return a > b
		case ">=":
			return a >= b
		case "<":
			return a < b
		default:
			return a <= b
		}
	case "f==", "f>", "f>=", "f<", "f<=":
		num, ok := v.(json.Number)
		if !ok {
			return false
		}
		a, err := num.Float64()
		if err != nil {
			return false
		}
		b, _ := strconv.ParseFloat(c.Val, 64)
		switch c.Oper {
		case "f==":
			return a == b
		case "f>":
			return a > b
		case "f>=":
			return a >= b
		case "f<":
			return a < b
		default:
			return a <= b
		}
	case "is":
		bv, ok := v.(bool)
		if !ok {
			return false
		}
		want, _ := strconv.ParseBool(c.Val)
		return bv == want
	}
	s, ok := v.(string)
	if !ok {
		return false
	}
	switch c.Oper {
	case "sameas", "s==":
		return s == c.Val
	case "contains", "co":
		return strings.Contains(s, c.Val)
	case "startswith", "sw":
		return strings.HasPrefix(s, c.Val)
	case "endswith", "ew":
		return strings.HasSuffix(s, c.Val)
	case "in":
		for _, x := range strings.Split(c.Val, ",") {
			if x == s {
				return true
			}
		}
		return false
	case "matches", "re":
		re, err := regexp.Compile(c.Val)
		return err == nil && re.MatchString(s)
	}
	return false
}

// ---------------------------------------------------------------------------------
// query texts

type queryGen struct {
	Text   string
	DB     string
	Prefix string // key prefix inside the database
	Cond   *cond  // nil: no where clause (or not modelled)
	Model  bool   // Cond/prefix semantics are modelled: notifications can be predicted
	Valid  bool   // expected to be accepted by the parser
	Class  string
}

// matches reports whether a record with this key and document is selected.
func (q *queryGen) matches(db, dbKey string, doc any) bool {
	if db != q.DB || !strings.HasPrefix(dbKey, q.Prefix) {
		return false
	}
	if q.Cond == nil {
		return true
	}
	m, ok := doc.(map[string]any)
	if !ok {
		return false
	}
	return q.Cond.eval(m)
}

func sep(r *vlib.Rand) string { return vlib.Pick(r, " ", " ", " ", "  ", "\t", " \n ") }

// genQuery builds "query <db>:<prefix> [where ...] [orderby ..] [limit n] [offset n]".
// modelOnly: only constructs whose meaning the reference evaluator knows, and no
// limit/offset/orderby (they change which records are selected).
func genQuery(r *vlib.Rand, db, prefix string, modelOnly bool) *queryGen {
	q := &queryGen{DB: db, Prefix: prefix, Valid: true, Model: true, Class: "prefix"}
	var sb strings.Builder
	sb.WriteString("query" + sep(r))
	pk := db + ":" + prefix
	if strings.ContainsAny(pk, " \t()\"\\") {
		sb.WriteString(quoteTok(r, pk))
	} else {
		sb.WriteString(pk)
	}
	if r.Chance(3, 5) {
		q.Cond = genCond(r, r.Range(0, 3))
		q.Class = "where"
		sb.WriteString(sep(r) + "where" + sep(r) + q.Cond.text(r, true))
	}
	if !modelOnly {
		if r.Chance(1, 4) {
			sb.WriteString(sep(r) + "orderby" + sep(r) + vlib.Pick(r, "n", "s", "sub.x", "missing"))
			q.Class += "+orderby"
		}
		if r.Chance(1, 3) {
			sb.WriteString(sep(r) + "limit" + sep(r) + strconv.Itoa(r.Range(1, 5)))
			q.Model = false
			q.Class += "+limit"
		}
		if r.Chance(1, 5) {
			sb.WriteString(sep(r) + "offset" + sep(r) + strconv.Itoa(r.Range(1, 3)))
			q.Model = false
			q.Class += "+offset"
		}
	}
	q.Text = sb.String()
	return q
}

// genWildQuery: texts outside the modelled subset — cross-typed clauses, sub-level and
// array selectors, every operator, plus texts the parser must refuse.
func genWildQuery(r *vlib.Rand, db, prefix string) *queryGen {
	q := &queryGen{DB: db, Prefix: prefix, Class: "wild"}
	pk := db + ":" + prefix
	switch r.Intn(14) {
	case 0:
		q.Text = "query " + pk + " where sub.x > 3 and tags.# == 2"
		q.Valid = true
	case 1:
		q.Text = "query " + pk + " where n sameas 3 or s > 5"
		// "s > 5": 5 parses as int, applied to a string field: valid, never true
		q.Valid = true
	case 2:
		q.Text = "query " + pk + " where tags.0 sameas a and (b is true or not (f f< 2.5))"
		q.Valid = true
	case 3:
		q.Text = "query " + pk + " where n > notanumber"
		q.Class = "invalid:int-value"
	case 4:
		q.Text = "query " + pk + " where s matches \"([\""
		q.Class = "invalid:regex"
	case 5:
		q.Text = "query " + pk + " where n > 1 and s co a or b is true"
		q.Class = "invalid:mixed-and-or"
	case 6:
		q.Text = "query " + pk + " where"
		q.Class = "invalid:empty-where"
	case 7:
		q.Text = "query " + pk + " limit -1"
		q.Class = "invalid:limit"
	case 8:
		q.Text = "select " + pk
		q.Class = "invalid:no-query-word"
	case 9:
		q.Text = "query " + pk + " where (n > 1"
		q.Class = "invalid:unbalanced"
	case 10:
		q.Text = "query " + pk + " where n frobnicates 1"
		q.Class = "invalid:operator"
	case 11:
		q.Text = ""
		q.Class = "invalid:empty"
	case 12:
		q.Text = "query " + pk + " where s in onlyone"
		q.Class = "invalid:in-list"
	default:
		q.Text = "query " + pk + " where b is maybe limit 3 limit 4 frob"
		q.Class = "invalid:bool"
	}
	return q
}

// ---------------------------------------------------------------------------------
// malformed messages

type fuzzMsg struct {
	Msg   []byte
	Class string // malformed | unknowncmd | get | query | sub | qsub | create | update | insert | delete | cancel
	First string // first field (operation ID as the API will see it)
	Tag   string
}

// classify is the harness' own reading of the message syntax "<id>|<cmd>|<args>":
// it decides which reply grammar the message is entitled to. (It restates the protocol
// description at the top of DatabaseAPI.Handle, not its code.)
func classify(msg []byte) (class, first string) {
	s := string(msg)
	i := strings.IndexByte(s, '|')
	if i < 0 {
		return "malformed", s
	}
	first = s[:i]
	rest := s[i+1:]
	j := strings.IndexByte(rest, '|')
	if j < 0 {
		if rest == "cancel" {
			return "cancel", first
		}
		return "malformed", first
	}
	cmd, args := rest[:j], rest[j+1:]
	switch cmd {
	case "get", "query", "sub", "qsub", "delete":
		return cmd, first
	case "create", "update", "insert":
		if !strings.Contains(args, "|") {
			return "malformed", first
		}
		return cmd, first
	}
	return "unknowncmd", first
}

func (e *env) genFuzz(r *vlib.Rand, uniq int) fuzzMsg {
	id := fmt.Sprintf("f%d", uniq)
	dbs := []string{"hmap", "bolt", "fstr", "sink", "injr", "hmsd", "bosd", "nodb", "", "x"}
	db := vlib.Pick(r, dbs...)
	key := db + ":" + vlib.Pick(r, "seed/j/01", "seed/x/cbor", "seed/x/raw", "seed/o/garbage", "seed/s/00", "seed/p/secret", "fz/k", "", "a|b", "seed/")
	wellFormed := func() []byte {
		switch r.Intn(9) {
		case 0, 1:
			return []byte(id + "|get|" + key)
		case 2:
			return []byte(id + "|query|query " + key)
		case 3:
			return []byte(id + "|create|" + db + ":fz/k" + strconv.Itoa(r.Intn(4)) + "|J{\"a\":1}")
		case 4:
			return []byte(id + "|update|" + db + ":fz/k" + strconv.Itoa(r.Intn(4)) + "|J{\"a\":2,\"z\":[1,2]}")
		case 5:
			return []byte(id + "|insert|" + key + "|{\"a\":3}")
		case 6:
			return []byte(id + "|delete|" + db + ":fz/k" + strconv.Itoa(r.Intn(4)))
		case 7:
			return []byte(id + "|sub|query " + key)
		default:
			return []byte(id + "|qsub|query " + key)
		}
	}
	var msg []byte
	tag := ""
	switch r.Intn(16) {
	case 0: // pure binary junk
		msg = r.Bytes(r.Range(0, 64))
		tag = "junk"
	case 1: // junk with separators sprinkled in
		msg = r.Bytes(r.Range(1, 48))
		for i, n := 0, r.Range(1, 4); i < n; i++ {
			msg[r.Intn(len(msg))] = '|'
		}
		tag = "junk-sep"
	case 2: // truncation of a well-formed message
		m := wellFormed()
		msg = m[:r.Intn(len(m)+1)]
		tag = "truncated"
	case 3: // separator removed
		m := wellFormed()
		var idx []int
		for i, c := range m {
			if c == '|' {
				idx = append(idx, i)
			}
		}
		k := idx[r.Intn(len(idx))]
		msg = append(append([]byte{}, m[:k]...), m[k+1:]...)
		tag = "missing-sep"
	case 4: // command mangled
		m := string(wellFormed())
		parts := strings.SplitN(m, "|", 3)
		parts[1] = vlib.Pick(r, "GET", "get ", " get", "", "ge", "gett", "put", "cancel", "\x00", "query\x00", "sub|", "qsub|qsub")
		msg = []byte(strings.Join(parts, "|"))
		tag = "bad-cmd"
	case 5: // payload too short / format byte only
		msg = []byte(id + "|" + vlib.Pick(r, "create", "update") + "|" + db + ":fz/short|" + vlib.Pick(r, "", "J", "\x00", "{"))
		tag = "short-payload"
	case 6: // byte flips inside a well-formed message
		msg = wellFormed()
		for i, n := 0, r.Range(1, 3); i < n && len(msg) > 0; i++ {
			msg[r.Intn(len(msg))] = byte(r.Intn(256))
		}
		tag = "bitflip"
	case 7: // unknown payload formats and non-JSON bodies
		f := vlib.Pick(r, "C", "M", "Y", "G", "\x01", "\x00", "X", "\xff", "\x80", "Z", "L")
		msg = append([]byte(id+"|"+vlib.Pick(r, "create", "update")+"|"+db+":fz/fmt|"+f), r.Bytes(r.Range(1, 40))...)
		tag = "format-byte"
	case 8: // JSON-tagged payload that is not a JSON object
		msg = []byte(id + "|" + vlib.Pick(r, "create", "update") + "|" + db + ":fz/nonobj|J" + vlib.Pick(r, "[1,2]", "5", "\"s\"", "nul", "{\"a\":", "{{{{", "\x00\x01", "{\"a\":1}}", strings.Repeat("[", 300)))
		tag = "json-nonobject"
	case 9: // insert bodies
		msg = []byte(id + "|insert|" + key + "|" + vlib.Pick(r, "5", "[1,2]", "{\"a\":{\"b\":1}}", "{\"a.b.c\":1}", "{\"\":1}", "{\"Name\":5}", "{\"Tags\":[1]}", "{\"Tags\":[\"q\"]}",
			"{\"Labels\":{\"a\":1}}", "{\"Inner\":{\"X\":1}}", "{\"Ptr\":null}", "{\"Score\":1e99}", "{\"Small\":-1}", "{\"Base\":{}}", "{\"Mutex\":{}}", "{\"hidden\":1}", "J{\"a\":1}", "{\"_meta\":{\"Deleted\":1}}", "{\"n\":\"str\"}", "{\"#\":1}", "{\"*\":1}", "{\"a\\\\.b\":1}", "{\"-1\":1}", "nul", "{", ""))
		tag = "insert-body"
	case 10: // get with odd keys
		msg = []byte(id + "|get|" + vlib.Pick(r, "", ":", "nodb", "hmap", "hmap:", ":key", "hmap:seed/j/01|extra", "fstr:seed/j", "fstr:", "fstr:seed/j/01/below", "bolt:\x00", strings.Repeat("k", 5000), "hmap:"+strings.Repeat("/", 300)))
		tag = "odd-key"
	case 11: // odd query texts
		msg = []byte(id + "|" + vlib.Pick(r, "query", "sub", "qsub") + "|" + vlib.Pick(r, "", "query", "query ", "query \"", "query hmap:seed/ where", "query hmap:seed/ where (((((",
			"query hmap:seed/ where n > 99999999999999999999", "query hmap:seed/ where s re \"(\"", "query hmap:seed/ where a\\", "query nodb:", "query :", "query sink:", "query injr:", "query hmap:seed/ limit 99999999999",
			"query hmap:seed/ where n > 1 and", "query hmap:seed/ where not", "query hmap:seed/ where not not not n > 1", "query hmap:seed/ orderby", "query hmap:seed/ where \"n\" \">\" \"1\"", "QUERY hmap:", "query\x00hmap:"))
		tag = "odd-query"
	case 12: // cancel of nothing / cancel look-alikes
		msg = []byte(vlib.Pick(r, id+"|cancel", "|cancel", id+"|cancel|", id+"|cancel|x", id+"|CANCEL", "cancel", "||cancel"))
		tag = "cancel"
	case 13: // a huge field
		big := strings.Repeat(vlib.Pick(r, "A", "|", "{", "\""), r.Range(1000, e.hugeLen()))
		switch r.Intn(4) {
		case 0:
			msg = []byte(big + "|get|" + key)
		case 1:
			msg = []byte(id + "|get|hmap:" + big)
		case 2:
			msg = []byte(id + "|create|hmap:fz/big|J{\"a\":\"" + strings.ReplaceAll(strings.ReplaceAll(big, "\"", "x"), "|", "y") + "\"}")
		default:
			msg = []byte(id + "|" + big + "|x")
		}
		tag = "huge"
	default:
		msg = wellFormed()
		tag = "wellformed"
	}
	cl, first := classify(msg)
	return fuzzMsg{Msg: msg, Class: cl, First: first, Tag: "fuzz/" + tag}
}

func (e *env) hugeLen() int {
	if e.spec.Tier == "thorough" {
		return 1 << 20
	}
	return 1 << 17
}
