// h_dbapi — engine for C13: every database-API message gets the replies its protocol
// prescribes; no message crashes or wedges the process; API-written records read back
// unchanged.
//
// Orchestrator: derives the batch list from VERIF_SEED, runs every batch in a child
// process (plain and -race builds), merges what the children decided, turns dead
// children into witnesses (journal + panic stack) and re-runs a batch without the step
// class that killed it, so that one crash does not hide the rest of the batch.
// Child: builds a database world (one database per backend, seeded with records of
// every format), drives api.CreateDatabaseAPI with generated sequences or with
// malformed messages, journals every message before Handle, and decides the replies.
package main

import (
	"bufio"
	"encoding/hex"
	"encoding/json"
	"fmt"
	"os"
	"path/filepath"
	"regexp"
	"runtime"
	"sort"
	"strings"
	"sync"
	"time"

	"github.com/safing/portbase/utils/vhook"

	"verifharness/internal/vlib"
)

type batchSpec struct {
	Prop   string   `json:"prop"`
	Tier   string   `json:"tier"`
	Seed   uint64   `json:"seed"`
	Batch  int      `json:"batch"`
	Mode   string   `json:"mode"` // scenario | fuzz | replay-msgs
	Build  string   `json:"build"`
	Seqs   int      `json:"seqs,omitempty"`
	FuzzN  int      `json:"fuzz_n,omitempty"`
	Badger bool     `json:"badger,omitempty"`
	Hooks  bool     `json:"hooks,omitempty"`
	Avoid  []string `json:"avoid,omitempty"`
	Only   int      `json:"only_seq"` // -1: all sequences
	Msgs   []string `json:"msgs,omitempty"`
}

const rule = "cases = request sequences (5-60 requests: get/query/sub/qsub/create/update/insert/delete/cancel/malformed, serial, in bursts " +
	"and against concurrent privileged writers) per API connection on databases of every backend seeded with records of every format, plus single " +
	"malformed/mutated messages; a case is non-trivial if it received at least one reply; distinct = different (request kind, backend, reply type) shape"

func main() {
	if dir, ok := vlib.IsChild(); ok {
		childMain(dir)
		return
	}
	cfg := vlib.Load()
	rep := vlib.NewReport(cfg)
	rep.Rule(rule)
	rep.Assume("the goroutine dump of the Go runtime tells truthfully which goroutines are inside api.(*DatabaseAPI) methods (used to decide that no further reply can arrive)")
	rep.Assume("the websocket framing (gorilla) and the authentication wrapper in front of DatabaseAPI.Handle are not part of the runs")

	var specs []batchSpec
	if cfg.Replay != "" {
		specs = replaySpecs(cfg)
	} else {
		nScen := cfg.N(64, 160)
		seqs := cfg.N(12, 24)
		for i := 0; i < nScen; i++ {
			specs = append(specs, batchSpec{Prop: cfg.Prop, Tier: cfg.Tier, Seed: cfg.Seed, Batch: i, Mode: "scenario", Build: "plain",
				Seqs: seqs, Badger: i%4 == 0, Hooks: i%3 == 1, Only: -1})
		}
		if cfg.BinRace != "" {
			nRace := cfg.N(16, 48)
			for i := 0; i < nRace; i++ {
				specs = append(specs, batchSpec{Prop: cfg.Prop, Tier: cfg.Tier, Seed: cfg.Seed, Batch: 1000 + i, Mode: "scenario", Build: "race",
					Seqs: cfg.N(6, 12), Badger: i%5 == 0, Hooks: i%2 == 1, Only: -1})
			}
		}
		nFuzz := cfg.N(8, 32)
		per := cfg.N(10000, 1000000) / nFuzz
		for i := 0; i < nFuzz; i++ {
			specs = append(specs, batchSpec{Prop: cfg.Prop, Tier: cfg.Tier, Seed: cfg.Seed, Batch: 2000 + i, Mode: "fuzz", Build: "plain", FuzzN: per, Only: -1})
		}
		if cfg.BinRace != "" {
			for i := 0; i < cfg.N(2, 4); i++ {
				specs = append(specs, batchSpec{Prop: cfg.Prop, Tier: cfg.Tier, Seed: cfg.Seed, Batch: 3000 + i, Mode: "fuzz", Build: "race", FuzzN: cfg.N(600, 20000), Only: -1})
			}
		}
	}
	planned := 0
	for _, s := range specs {
		if s.Mode == "fuzz" {
			planned += s.FuzzN
		}
	}

	completed := 0
	for round := 0; len(specs) > 0 && round < 7; round++ {
		var retry []batchSpec
		var cs []vlib.ChildSpec
		for _, s := range specs {
			bin := cfg.BinPlain
			if s.Build == "race" {
				bin = cfg.BinRace
			}
			name := fmt.Sprintf("%s-%s-%04d-r%d", s.Mode, s.Build, s.Batch, round)
			cs = append(cs, vlib.ChildSpec{Name: name, Bin: bin, Spec: s, Timeout: time.Duration(cfg.N(8, 25)) * time.Minute, Race: s.Build == "race"})
		}
		cur := specs
		vlib.RunChildren(cfg, cs, func(i int, c *vlib.ChildResult) {
			s := cur[i]
			rep.Seen("builds_run", s.Build)
			rep.Count("children_run", 1)
			var merged *vlib.Batch
			if s.Build == "race" {
				merged = rep.MergeChildNoDistinct(c)
			} else {
				merged = rep.MergeChild(c)
			}
			if merged != nil {
				if t, _ := merged.Extra["avoid_after_wedge"].(string); t != "" && len(s.Avoid) < 12 && cfg.Replay == "" {
					n := s
					n.Avoid = append(append([]string{}, s.Avoid...), t)
					retry = append(retry, n)
				}
			}
			for _, rr := range c.Races {
				switch {
				case rr.HarnessOnly():
					rep.Inconclusive("race report with harness-only frames (the monitor itself races): %s", firstLines(rr.Text, 12))
				case rr.InScope("DatabaseAPI).processQuery", "DatabaseAPI).processSub", "DatabaseAPI).cancelQuery", "DatabaseAPI).cancelSub",
					"DatabaseAPI).handleCancel", "DatabaseAPI).registerSub", "DatabaseAPI).handleQsub", "DatabaseAPI).handleSub", "DatabaseAPI).handleQuery"):
					rep.Violation("C13:race:"+rr.Signature(), "data race on the API's per-connection state (queries/subs) reported by the race detector",
						map[string]any{"report": rr.Text, "batch": s})
				case rr.InScope("database/query."):
					// the parsed query of a subscription is shared by every writer that
					// notifies it and by the query executor: it must be safe to evaluate
					// concurrently
					rep.Violation("C13:race:query:"+rr.Signature(), "data race inside the query a subscription/query of the API is evaluated with (shared by concurrent writers)",
						map[string]any{"report": rr.Text, "batch": s})
				case raceInHandler(rr, "DatabaseAPI).handleInsert", "DatabaseAPI).handlePut", "DatabaseAPI).handleDelete", "DatabaseAPI).handleGet", "api.MarshalRecord"):
					// a handler of the API touches a record while another handler
					// changes it: observed to damage replies (a reader gets a cut-off
					// document and the API sends the record without its content)
					rep.Violation("C13:race:record:"+rr.Signature(), "data race between API request handlers on a database record (a request changes the record while another one reads or changes it)",
						map[string]any{"report": rr.Text, "batch": s})
				default:
					rep.Seen("race_diagnostics", rr.Signature())
				}
			}
			if c.TimedOut {
				rep.Inconclusive("batch %s: child watchdog fired; stderr tail: %s", c.Name, c.StderrTail(1200))
				return
			}
			if c.Done {
				completed++
				return
			}
			// the process died: the exit status is an observation of the property
			w := analyseDeath(c)
			if w.site == "" && c.Signal == "killed" {
				rep.Inconclusive("batch %s: child was killed (out of memory?)", c.Name)
				return
			}
			rep.Count("children_died", 1)
			det := map[string]any{"batch": s, "exit": c.Exit, "signal": c.Signal, "panic": w.headline, "stack": w.stack,
				"in_flight_messages": w.inflightText, "replay_msgs": w.inflightHex, "suspect_step_classes": w.tags, "journal_tail": w.journalTail}
			rep.Violation("C13:fatal:"+w.site, fmt.Sprintf("the process died while handling API messages: %s (in-flight step class: %s)", w.headline, strings.Join(w.tags, ",")), det)
			if s.Mode != "replay-msgs" && len(w.tags) > 0 && len(s.Avoid) < 12 && cfg.Replay == "" {
				n := s
				n.Avoid = append(append([]string{}, s.Avoid...), w.tags...)
				retry = append(retry, n)
			}
		})
		specs = retry
	}

	rep.Set("fuzz_messages_planned", planned)
	if cfg.Replay == "" {
		rep.Floor(completed > 0, "no batch ran to completion")
		for _, k := range []string{"req_get", "req_query", "req_sub", "req_qsub", "req_create", "req_update", "req_insert", "req_delete", "req_malformed", "req_concurrent"} {
			rep.Floor(rep.Counter(k) > 0, "no %s request was ever sent", k)
		}
		rep.Floor(rep.Counter("subs_established") >= 5, "only %d subscriptions were established", rep.Counter("subs_established"))
		rep.Floor(rep.Counter("notifications_seen") >= 10, "only %d notifications were observed", rep.Counter("notifications_seen"))
		rep.Floor(rep.Counter("roundtrip_checks") >= 20, "only %d write/read-back comparisons were made", rep.Counter("roundtrip_checks"))
		fz := rep.Counter("fuzz_malformed") + rep.Counter("fuzz_unknowncmd") + rep.Counter("fuzz_get") + rep.Counter("fuzz_query") + rep.Counter("fuzz_sub") + rep.Counter("fuzz_qsub") +
			rep.Counter("fuzz_create") + rep.Counter("fuzz_update") + rep.Counter("fuzz_insert") + rep.Counter("fuzz_delete") + rep.Counter("fuzz_cancel")
		rep.Set("fuzz_messages_sent", fz)
		rep.Floor(rep.NViolations() > 0 || fz >= int64(planned/2), "only %d of %d planned malformed/mutated messages were sent", fz, planned)
		for _, t := range []string{"ok", "error", "done", "success"} {
			rep.Floor(rep.Counter("reply_"+t) > 0, "no %q reply was ever received", t)
		}
	}
	if n := rep.SeenCount("race_diagnostics"); n > 0 {
		rep.Note("%d distinct race reports outside the property's scope (DatabaseAPI.queries/subs) were recorded as diagnostics (coverage.race_diagnostics)", n)
	}
	if err := rep.Finish(); err != nil {
		fmt.Println("h_dbapi: cannot write result:", err)
		os.Exit(2)
	}
}

var funcN = regexp.MustCompile(`(\.func\d+)+(\.\d+)*$`)

func stripFuncN(fn string) string { return funcN.ReplaceAllString(fn, "") }

// raceInHandler reports whether both access stacks of a race report run through the
// database API (one of the given handler functions each).
func raceInHandler(rr vlib.RaceReport, fns ...string) bool {
	if len(rr.Stacks) < 2 {
		return false
	}
	in := func(st []string) bool {
		for _, f := range st {
			for _, fn := range fns {
				if strings.Contains(f, fn) {
					return true
				}
			}
		}
		return false
	}
	return in(rr.Stacks[0]) && in(rr.Stacks[1])
}

func firstLines(s string, n int) string {
	ls := strings.Split(s, "\n")
	if len(ls) > n {
		ls = ls[:n]
	}
	return strings.Join(ls, "\n")
}

// ---------------------------------------------------------------------------------
// dead children

type death struct {
	headline     string
	site         string
	handler      string
	stack        string
	tags         []string
	inflightText []string
	inflightHex  []string
	journalTail  []string
}

type jline struct {
	kind string
	api  int
	n    int
	data []byte
	cut  bool
	tag  string
}

func readJournal(path string) []jline {
	f, err := os.Open(path)
	if err != nil {
		return nil
	}
	defer f.Close()
	var out []jline
	sc := bufio.NewScanner(f)
	sc.Buffer(make([]byte, 1<<20), 1<<26)
	for sc.Scan() {
		p := strings.SplitN(sc.Text(), " ", 5)
		if len(p) < 4 {
			continue
		}
		var l jline
		l.kind = p[0]
		fmt.Sscan(p[1], &l.api)
		fmt.Sscan(p[2], &l.n)
		h := p[3]
		if strings.HasSuffix(h, "+") {
			l.cut = true
			h = h[:len(h)-1]
		}
		l.data, _ = hex.DecodeString(h)
		if len(p) > 4 {
			l.tag = p[4]
		}
		out = append(out, l)
	}
	return out
}

func (e *env) journalTail(n int) []string {
	return journalTailOf(filepath.Join(e.dir, "journal"), n)
}

func journalTailOf(path string, n int) []string {
	ls := readJournal(path)
	if len(ls) > n {
		ls = ls[len(ls)-n:]
	}
	var out []string
	for _, l := range ls {
		out = append(out, fmt.Sprintf("%s api%d [%s] %s", l.kind, l.api, l.tag, clip(strings.ToValidUTF8(string(l.data), "?"), 200)))
	}
	return out
}

var handlerCmd = map[string][]string{
	"handleGet": {"get"}, "handleQuery": {"query"}, "processQuery": {"query", "qsub"}, "handleSub": {"sub"}, "processSub": {"sub", "qsub"},
	"handleQsub": {"qsub"}, "registerSub": {"sub", "qsub"}, "handlePut": {"create", "update"}, "handleInsert": {"insert"}, "handleDelete": {"delete"},
	"handleCancel": {"cancel"}, "cancelSub": {"cancel"}, "cancelQuery": {"cancel"}, "Handle": nil, "send": nil,
}

func analyseDeath(c *vlib.ChildResult) death {
	var d death
	b, _ := os.ReadFile(filepath.Join(c.Dir, "stderr"))
	txt := string(b)
	// headline and the stack of the goroutine that died
	idx := -1
	for _, mark := range []string{"\npanic: ", "\nfatal error: ", "panic: ", "fatal error: "} {
		if i := strings.Index(txt, mark); i >= 0 {
			idx = i + strings.Index(mark, strings.TrimLeft(mark, "\n"))
			break
		}
	}
	if idx >= 0 {
		rest := txt[idx:]
		ls := strings.Split(rest, "\n")
		d.headline = clip(ls[0], 200)
		// first goroutine block after the headline
		gi := strings.Index(rest, "\ngoroutine ")
		if gi >= 0 {
			blk := rest[gi+1:]
			if e := strings.Index(blk, "\n\n"); e > 0 {
				blk = blk[:e]
			}
			d.stack = clip(blk, 3500)
			inner := ""
			for _, ln := range strings.Split(blk, "\n") {
				if ln == "" || ln[0] == '\t' || strings.HasPrefix(ln, "goroutine ") || strings.HasPrefix(ln, "created by") {
					continue
				}
				fn := ln
				if i := strings.LastIndex(fn, "("); i > 0 {
					fn = fn[:i]
				}
				if strings.HasPrefix(fn, "runtime.") || strings.HasPrefix(fn, "panic") || strings.Contains(fn, "verifharness") {
					continue
				}
				fn = stripFuncN(fn)
				if inner == "" {
					inner = fn
				}
				if d.site == "" && strings.Contains(fn, "safing/portbase") {
					d.site = strings.TrimPrefix(fn, "github.com/safing/portbase/")
					if inner != fn {
						d.site = inner + "<" + d.site
					}
				}
				if d.handler == "" && strings.Contains(fn, apiRecv) {
					d.handler = fn[strings.Index(fn, apiRecv)+len(apiRecv):]
				}
			}
		}
	}
	if d.site == "" && idx >= 0 {
		d.site = "unknown"
	}
	if d.headline == "" {
		d.headline = fmt.Sprintf("exit=%d signal=%q, stderr tail: %s", c.Exit, c.Signal, clip(c.StderrTail(600), 600))
	}
	// in-flight messages: sent after the last quiescence marker
	js := readJournal(filepath.Join(c.Dir, "journal"))
	last := -1
	for i, l := range js {
		if l.kind == "Q" {
			last = i
		}
	}
	want := handlerCmd[d.handler]
	tagset := map[string]bool{}
	var all []jline
	for _, l := range js[last+1:] {
		if l.kind == "S" {
			all = append(all, l)
		}
	}
	pick := func(filter bool) {
		for _, l := range all {
			cl, _ := classify(l.data)
			if filter && len(want) > 0 {
				ok := false
				for _, w := range want {
					if cl == w {
						ok = true
					}
				}
				if !ok {
					continue
				}
			}
			if strings.HasPrefix(l.tag, "fuzz/") {
				tagset["fuzzclass/"+cl] = true
			} else if l.tag != "" {
				tagset[l.tag] = true
			}
			if len(d.inflightText) < 8 {
				d.inflightText = append(d.inflightText, clip(strings.ToValidUTF8(string(l.data), "?"), 400))
				if !l.cut {
					d.inflightHex = append(d.inflightHex, hex.EncodeToString(l.data))
				}
			}
		}
	}
	pick(true)
	if len(tagset) == 0 {
		pick(false)
	}
	for t := range tagset {
		if !strings.HasPrefix(t, "cancel/") {
			d.tags = append(d.tags, t)
		}
	}
	sort.Strings(d.tags)
	tail := js
	if len(tail) > 12 {
		tail = tail[len(tail)-12:]
	}
	for _, l := range tail {
		d.journalTail = append(d.journalTail, fmt.Sprintf("%s api%d [%s] %s", l.kind, l.api, l.tag, clip(strings.ToValidUTF8(string(l.data), "?"), 160)))
	}
	return d
}

// ---------------------------------------------------------------------------------
// replay

func replaySpecs(cfg vlib.Cfg) []batchSpec {
	var doc struct {
		Detail struct {
			Batch      *batchSpec `json:"batch"`
			Sequence   *int       `json:"sequence"`
			ReplayMsgs []string   `json:"replay_msgs"`
		} `json:"detail"`
	}
	b, err := os.ReadFile(cfg.Replay)
	if err == nil {
		err = json.Unmarshal(b, &doc)
	}
	if err != nil {
		fmt.Println("h_dbapi: unreadable replay file:", err)
		os.Exit(2)
	}
	if len(doc.Detail.ReplayMsgs) > 0 {
		return []batchSpec{{Prop: cfg.Prop, Tier: cfg.Tier, Seed: cfg.Seed, Batch: 9000, Mode: "replay-msgs", Build: "plain", Msgs: doc.Detail.ReplayMsgs, Only: -1}}
	}
	if doc.Detail.Batch != nil {
		s := *doc.Detail.Batch
		s.Build = "plain"
		if doc.Detail.Sequence != nil {
			s.Only = *doc.Detail.Sequence
		}
		return []batchSpec{s}
	}
	fmt.Println("h_dbapi: replay file names neither messages nor a batch")
	os.Exit(2)
	return nil
}

// ---------------------------------------------------------------------------------
// child

func childMain(dir string) {
	var sp batchSpec
	if err := vlib.ChildSpecInto(dir, &sp); err != nil {
		fmt.Println("bad spec:", err)
		os.Exit(3)
	}
	e := &env{spec: sp, dir: dir, b: vlib.NewBatch(), model: map[string]*modelRec{}, waitLim: 60 * time.Second, earlyLim: 3 * time.Second}
	if sp.Build == "race" {
		e.waitLim, e.earlyLim = 150*time.Second, 12*time.Second
	}
	var err error
	e.journal, err = os.OpenFile(filepath.Join(dir, "journal"), os.O_CREATE|os.O_WRONLY|os.O_APPEND, 0o644)
	if err != nil {
		fmt.Println("journal:", err)
		os.Exit(3)
	}
	e.w, err = newWorld(dir, sp.Badger)
	if err != nil {
		fmt.Println("world:", err)
		os.Exit(3)
	}
	if sp.Hooks {
		installHooks(vlib.NewRand(sp.Seed, "C13/hooks", uint64(sp.Batch)))
	}
	avoid := map[string]bool{}
	for _, a := range sp.Avoid {
		avoid[a] = true
	}
	switch sp.Mode {
	case "fuzz":
		runFuzz(e, vlib.NewRand(sp.Seed, "C13/fuzz", uint64(sp.Batch)), sp.FuzzN, avoid)
	case "replay-msgs":
		c := newClient(e, 0)
		f := &fuzzRun{e: e, c: c}
		for i, h := range sp.Msgs {
			m, _ := hex.DecodeString(h)
			cl, first := classify(m)
			f.one(fuzzMsg{Msg: m, Class: cl, First: first, Tag: "fuzz/replay"})
			e.b.DistinctS(fmt.Sprint("replay", i))
		}
		e.b.DistinctS("replay-a")
		e.b.DistinctS("replay-b")
	default:
		for i := 0; i < sp.Seqs && !e.aborted; i++ {
			if sp.Only >= 0 && i != sp.Only {
				continue
			}
			runSequence(e, i, avoid)
		}
	}
	// replies that arrived after their connection had been decided and closed
	if !e.aborted {
		e.waitIdle()
	}
	for _, c := range e.clients {
		c.mu.Lock()
		late := c.late
		c.mu.Unlock()
		for _, r := range late {
			e.b.Violation("C13:late-reply", fmt.Sprintf("a reply arrived after every operation of its connection had ended: %q", clip(string(r.Raw), 200)),
				map[string]any{"reply": clip(string(r.Raw), 600), "batch": sp, "connection": c.no})
		}
	}
	e.b.Extra["aborted"] = e.aborted
	e.b.Finish(dir)
}

var hookMu sync.Mutex

func installHooks(r *vlib.Rand) {
	h := func(point, subject string) {
		hookMu.Lock()
		k := r.Intn(10)
		d := r.Intn(400)
		hookMu.Unlock()
		switch {
		case k < 4:
		case k < 7:
			runtime.Gosched()
		default:
			time.Sleep(time.Duration(d) * time.Microsecond)
		}
	}
	for _, p := range []string{"db.put.prenotify", "db.sub.cancel", "db.iter.finish"} {
		vhook.Set(p, h)
	}
}

// runSequence drives one API connection through a generated sequence of steps.
func runSequence(e *env, no int, avoid map[string]bool) {
	r := vlib.NewRand(e.spec.Seed, fmt.Sprintf("C13/seq/%d", e.spec.Batch), uint64(no))
	c := newClient(e, no)
	if e.spec.Hooks {
		yr := vlib.NewRand(e.spec.Seed, fmt.Sprintf("C13/yield/%d", e.spec.Batch), uint64(no))
		var ymu sync.Mutex
		c.yield = func() {
			ymu.Lock()
			k := yr.Intn(8)
			ymu.Unlock()
			if k == 0 {
				time.Sleep(50 * time.Microsecond)
			} else if k < 4 {
				runtime.Gosched()
			}
		}
	}
	s := &seq{e: e, c: c, r: r, no: no, avoid: avoid}
	e.b.Eval(1)
	if no%2 == 0 {
		// deterministic placement, own PRNG stream: the generated sequences stay
		// what they were before this step existed
		saved := s.r
		s.r = vlib.NewRand(e.spec.Seed, fmt.Sprintf("C13/gated/%d", e.spec.Batch), uint64(no))
		s.stepGated()
		s.r = saved
		e.jwrite("Q", c.no, nil, "")
	}
	if no%4 == 1 && e.spec.Batch%4 == 0 && !e.aborted {
		saved := s.r
		s.r = vlib.NewRand(e.spec.Seed, fmt.Sprintf("C13/slow/%d", e.spec.Batch), uint64(no))
		s.stepSlowClient()
		s.r = saved
		e.jwrite("Q", c.no, nil, "")
	}
	if no%4 == 3 && e.spec.Batch%2 == 1 && !e.aborted {
		saved := s.r
		s.r = vlib.NewRand(e.spec.Seed, fmt.Sprintf("C13/manysubs/%d", e.spec.Batch), uint64(no))
		sizes := []int{1, 8, 63, 64, 65, 100, 300}
		s.stepManySubs(sizes[(e.spec.Batch/2+no/4)%len(sizes)])
		s.r = saved
		e.jwrite("Q", c.no, nil, "")
	}
	if no%4 == 2 && e.spec.Batch%2 == 0 && !e.aborted {
		saved := s.r
		s.r = vlib.NewRand(e.spec.Seed, fmt.Sprintf("C13/formatskeys/%d", e.spec.Batch), uint64(no))
		s.stepFormatsAndKeys()
		s.r = saved
		e.jwrite("Q", c.no, nil, "")
	}
	if no%4 == 1 && e.spec.Batch%4 == 2 && !e.aborted {
		saved := s.r
		s.r = vlib.NewRand(e.spec.Seed, fmt.Sprintf("C13/inlist/%d", e.spec.Batch), uint64(no))
		s.stepInList()
		s.r = saved
		e.jwrite("Q", c.no, nil, "")
	}
	steps := r.Range(5, 24)
	for i := 0; i < steps && !e.aborted; i++ {
		switch k := r.Intn(100); {
		case k < 14:
			s.stepPut()
		case k < 26:
			s.stepGet()
		case k < 36:
			s.stepPutOther()
		case k < 48:
			s.stepInsert()
		case k < 55:
			s.stepDelete()
		case k < 67:
			s.stepQuery()
		case k < 79:
			s.stepSub()
		case k < 84:
			s.stepMalformed()
		case k < 87:
			s.stepCancelUnknown()
		case k < 89:
			s.stepEmptyID()
		case k < 95:
			s.stepBurst()
		default:
			s.stepConcurrent()
		}
		e.jwrite("Q", c.no, nil, "")
	}
	s.finish()
	c.stop()
	c.mu.Lock()
	c.closed = true
	nrep := c.nAll
	c.mu.Unlock()
	if nrep > 0 {
		e.b.DistinctS(strings.Join(s.shape, ","))
	}
	if no < 2 && e.spec.Batch < 2 {
		sh := s.shape
		if len(sh) > 60 {
			sh = sh[:60]
		}
		e.b.Sample(map[string]any{"kind": "sequence", "batch": e.spec.Batch, "sequence": no, "build": e.spec.Build, "steps_and_outcomes": sh, "replies": nrep, "violations": s.failed})
	}
}
